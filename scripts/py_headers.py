#!/usr/bin/env python3
"""Static reader (python ast — the file is parsed, never imported or run) of
lib/python/frugal/util/headers.py: extracts the layout constants of the
Python header codec as JSON for fv's C04.S5 rule."""
import ast, json, sys
src = open(sys.argv[1]).read()
tree = ast.parse(src)
out = {"consts": {}, "writer": {}, "reader": {}}
for n in tree.body:
    if isinstance(n, ast.Assign) and len(n.targets) == 1 and isinstance(n.targets[0], ast.Name) and isinstance(n.value, ast.Constant):
        out["consts"][n.targets[0].id] = n.value.value
def consts_in(fn):
    return [x.value for x in ast.walk(fn) if isinstance(x, ast.Constant) and isinstance(x.value, int) and not isinstance(x.value, bool)]
def names_in(fn):
    return [x.id for x in ast.walk(fn) if isinstance(x, ast.Name)]
for cls in [n for n in tree.body if isinstance(n, ast.ClassDef)]:
    for fn in [n for n in cls.body if isinstance(n, ast.FunctionDef)]:
        info = {"int_consts": sorted(set(consts_in(fn))), "names": sorted(set(names_in(fn)))}
        # pack_into / unpack_from calls: (format name or literal, offset expr)
        calls = []
        for c in ast.walk(fn):
            if isinstance(c, ast.Call) and isinstance(c.func, ast.Name) and c.func.id in ("pack_into", "unpack_from"):
                fmt = c.args[0]
                calls.append({"fn": c.func.id, "fmt": fmt.id if isinstance(fmt, ast.Name) else (fmt.value if isinstance(fmt, ast.Constant) else ast.dump(fmt)[:60])})
        info["codec_calls"] = calls
        # augmented assignments offset += k
        info["advances"] = [a.value.value for a in ast.walk(fn) if isinstance(a, ast.AugAssign) and isinstance(a.op, ast.Add) and isinstance(a.value, ast.Constant)]
        out[fn.name] = info
print(json.dumps(out))

#!/usr/bin/env python3
"""refactor_table.py <refactor_fv log> : markdown summary of a replay of the refactor corpus."""
import re, sys, collections
log = open(sys.argv[1]).read().splitlines()
res = collections.OrderedDict(); cur = None
for l in log:
    m = re.match(r'/verif/refactors/(\w+): (.*); alarms=(\d+)', l)
    if m: cur = m.group(1); res[cur] = [m.group(2), int(m.group(3)), []]
    elif cur and l.startswith('    '):
        r = re.search(r'rule=(\S+)', l)
        if r: res[cur][2].append(r.group(1))
rounds = {'a': 'round a (local edits)', 'e': 'round b (structural)', 'i': 'repaired round-4 seeds'}
def grp(k):
    c = k[3]
    return 'a' if c in 'abcd' else ('e' if c in 'efgh' else 'i')
tot = collections.Counter(); sil = collections.Counter()
for k, (st, n, rules) in res.items():
    tot[grp(k)] += 1
    if n == 0 and st == 'ok': sil[grp(k)] += 1
print('| corpus | patches | silent on all 20 checks |'); print('|---|---|---|')
for g in 'aei': print(f'| {rounds[g]} | {tot[g]} | {sil[g]} |')
print(f'| **total** | **{sum(tot.values())}** | **{sum(sil.values())}** |'); print()
bad = [(k, v) for k, v in res.items() if v[1] or v[0] != 'ok']
if bad:
    print('Not silent:'); print()
    for k, (st, n, rules) in bad: print(f'* `{k}`: {st}; {", ".join(sorted(set(rules)))}')

#!/usr/bin/env python3
"""repair.py <seed-id> <new-refactor-id> <file> <old> <new> [<file> <old> <new> ...] : apply the seed's patch in a scratch worktree,
apply the textual repair(s), build both modules, and store the result as a behaviour-preserving refactoring."""
import os, subprocess, sys, shutil
seed, rid = sys.argv[1], sys.argv[2]
edits = sys.argv[3:]
env = dict(os.environ, GOFLAGS='-mod=mod', GOPROXY='off', GOSUMDB='off', GOTOOLCHAIN='local'); env.pop('GOWORK', None)
wt = f'/tmp/rp/{rid}'
subprocess.run(f'git -C /repo worktree remove --force {wt}', shell=True, capture_output=True); shutil.rmtree(wt, ignore_errors=True)
subprocess.check_call(f'git -C /repo worktree add -q --detach {wt} HEAD', shell=True)
try:
    subprocess.check_call(f'git apply /verif/seeded/{seed}/patch.diff', shell=True, cwd=wt)
    for i in range(0, len(edits), 3):
        f, old, new = edits[i:i+3]
        p = os.path.join(wt, f); s = open(p).read()
        if s.count(old) != 1: raise SystemExit(f'{f}: old text occurs {s.count(old)} times')
        open(p, 'w').write(s.replace(old, new))
    for m in ['.', 'lib/go']:
        subprocess.check_call('go build ./... && gofmt -l . | grep -v testdata | head -3', shell=True, cwd=os.path.join(wt, m), env=env)
    d = f'/verif/refactors/{rid}'; os.makedirs(d, exist_ok=True)
    diff = subprocess.run('git diff', shell=True, cwd=wt, capture_output=True, text=True).stdout
    open(d + '/patch.diff', 'w').write(diff)
    open(d + '/README.md', 'w').write(f"Repaired variant of seed {seed} (round 4): the same restructuring with the slip the seeding agent introduced corrected by hand\n"
        f"(see /verif/seeded/{seed}/AGENT_README.md for the restructuring and the slip). Behaviour-preserving with respect to the pinned tree by construction;\n"
        "kept to check that the rules which flag the seed are silent on the correct version of the same refactoring.\n\nRepair:\n" +
        ''.join(f"- {edits[i]}: `{edits[i+1].strip()[:80]}` -> `{edits[i+2].strip()[:80]}`\n" for i in range(0, len(edits), 3)))
    print(rid, 'ok', len(diff.splitlines()), 'diff lines')
finally:
    subprocess.run(f'git -C /repo worktree remove --force {wt}', shell=True, capture_output=True); shutil.rmtree(wt, ignore_errors=True)

#!/usr/bin/env python3
"""seeds_fv.py [seed-id ...] : for every stored seed under /verif/seeded (or the
given ones) apply its patch to /repo, run the fv checks of its property (and
any in meta['also']), revert, and record the verdict in meta.json['fv'].
Prints a one-line summary per seed: CAUGHT / MISSED."""
import json, os, subprocess, sys, shutil, glob
env = dict(os.environ, GOFLAGS='-mod=mod', GOPROXY='off', GOSUMDB='off', GOTOOLCHAIN='local'); env.pop('GOWORK', None)
ids = sys.argv[1:] or sorted(os.path.basename(d) for d in glob.glob('/verif/seeded/*') if os.path.isdir(d))
have = set(subprocess.run(['/verif/bin/fv', 'list'], capture_output=True, text=True).stdout.split())
def sh(c): return subprocess.run(c, shell=True, capture_output=True, text=True, env=env)
import fcntl
_lock = open('/tmp/seeds_fv.lock', 'w'); fcntl.flock(_lock, fcntl.LOCK_EX)  # replays patch /repo in place: one at a time
assert sh('git -C /repo status --porcelain').stdout.strip() == '', '/repo not clean'
for sid in ids:
    d = f'/verif/seeded/{sid}'
    meta = json.load(open(f'{d}/meta.json'))
    props = [meta['property']] + meta.get('also', [])
    sv = f'/tmp/cs/{sid}.verif'; shutil.rmtree(sv, ignore_errors=True); os.makedirs(sv); shutil.copy('/verif/known_findings.json', sv)
    r = sh(f'git -C /repo apply {d}/patch.diff')
    if r.returncode != 0:
        print(f'{sid}: PATCH DOES NOT APPLY: {r.stderr.strip()[:200]}'); continue
    try:
        det = {}
        for pr in props:
            if pr not in have:
                det[pr] = {'exit': None, 'note': 'no check built'}; continue
            r = subprocess.run(['/verif/bin/fv', 'check', '-prop', pr, '-tier', 'quick'], env=dict(env, FV_VERIF=sv), capture_output=True, text=True)
            viol = [l.strip()[:300] for l in r.stdout.splitlines() if l.startswith('  rule=')]
            det[pr] = {'exit': r.returncode, 'violations': viol[:6]}
    finally:
        sh('git -C /repo checkout -- .'); shutil.rmtree(sv, ignore_errors=True)
    meta['fv'] = det
    json.dump(meta, open(f'{d}/meta.json', 'w'), indent=1)
    caught = [p for p in det if det[p]['exit'] == 1]
    rules = sorted({v.split(' ')[0] for p in caught for v in det[p]['violations']})
    print(f"{sid}: {'CAUGHT by ' + ','.join(rules) if caught else 'MISSED'}   {[ (p, det[p]['exit']) for p in det]}")

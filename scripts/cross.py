#!/usr/bin/env python3
"""cross.py seed... : apply each stored seed to /repo, run ALL 20 quick checks,
revert; prints which properties' checks report it (to find rules another
property already owns)."""
import sys, subprocess, os, fcntl, json
from concurrent.futures import ThreadPoolExecutor
env = dict(os.environ, GOFLAGS='-mod=mod', GOPROXY='off', GOSUMDB='off', GOTOOLCHAIN='local'); env.pop('GOWORK', None)
lock = open('/tmp/seeds_fv.lock', 'w')
props = subprocess.run(['/verif/bin/fv', 'list'], capture_output=True, text=True).stdout.split()
for sid in sys.argv[1:]:
    fcntl.flock(lock, fcntl.LOCK_EX)
    try:
        r = subprocess.run(f'git -C /repo apply /verif/seeded/{sid}/patch.diff', shell=True, capture_output=True, text=True)
        if r.returncode: print(sid, 'PATCH FAILS'); continue
        def run(p):
            sv = f'/tmp/cs/{sid}.{p}.x'; os.makedirs(sv, exist_ok=True)
            subprocess.run(f'cp /verif/known_findings.json {sv}/', shell=True)
            r = subprocess.run(['/verif/bin/fv', 'check', '-prop', p], env=dict(env, FV_VERIF=sv), capture_output=True, text=True)
            rules = sorted({l.split()[0].replace('rule=', '') for l in r.stdout.splitlines() if l.startswith('  rule=')})
            subprocess.run(f'rm -rf {sv}', shell=True)
            return p, r.returncode, rules
        with ThreadPoolExecutor(8) as ex:
            res = list(ex.map(run, props))
        print(sid, {p: rules for p, rc, rules in res if rc == 1}, flush=True)
    finally:
        subprocess.run('git -C /repo checkout -- .', shell=True)
        fcntl.flock(lock, fcntl.LOCK_UN)

#!/usr/bin/env python3
"""refactor_fv.py <dir-with-patch.diff> [...] : for every given directory apply
patch.diff to a scratch copy of /repo (outside /repo and /verif), make sure it
builds, run ALL quick checks against the copy and report every alarm. A
behaviour-preserving refactoring must leave every check silent; an alarm is a
false alarm to be investigated. Scratch copies are removed."""
import os, shutil, subprocess, sys, tempfile, json
from concurrent.futures import ThreadPoolExecutor
env = dict(os.environ, GOFLAGS='-mod=mod', GOPROXY='off', GOSUMDB='off', GOTOOLCHAIN='local'); env.pop('GOWORK', None)
FV = os.environ.get('FV_BIN', '/verif/bin/fv')
props = subprocess.run([FV, 'list'], capture_output=True, text=True).stdout.split()
def one(d):
    tmp = tempfile.mkdtemp(prefix='fvref.')
    try:
        repo = os.path.join(tmp, 'repo'); verif = os.path.join(tmp, 'verif'); os.makedirs(verif)
        # committed HEAD, not the working tree: seeds_fv.py may have a patch applied to /repo
        os.makedirs(repo)
        subprocess.check_call('git -C /repo archive HEAD | tar -x -C ' + repo, shell=True)
        shutil.copy('/verif/known_findings.json', verif)
        r = subprocess.run(['git', 'apply', os.path.join(d, 'patch.diff')], cwd=repo, capture_output=True, text=True)
        if r.returncode != 0:
            return d, 'PATCH DOES NOT APPLY: ' + r.stderr.strip()[:200], []
        for m in ['.', 'lib/go']:
            b = subprocess.run(['go', 'build', './...'], cwd=os.path.join(repo, m), env=env, capture_output=True, text=True)
            if b.returncode != 0:
                return d, 'DOES NOT BUILD: ' + b.stderr.strip()[-300:], []
        alarms = []
        def runp(p):
            return p, subprocess.run([FV, 'check', '-prop', p], env=dict(env, FV_REPO=repo, FV_VERIF=verif), capture_output=True, text=True)
        with ThreadPoolExecutor(max_workers=4) as px:
            results = list(px.map(runp, props))
        for p, c in results:
            if c.returncode != 0:
                for l in c.stdout.splitlines():
                    if l.startswith('  rule='):
                        alarms.append(p + ' ' + l.strip()[:260])
                if not alarms or c.returncode not in (0, 1):
                    alarms.append(f'{p} exit={c.returncode} ' + (c.stderr.strip()[-200:] or c.stdout.strip()[-200:]))
        return d, 'ok', alarms
    finally:
        shutil.rmtree(tmp, ignore_errors=True)
dirs = [d for d in (sys.argv[1:] or sorted(__import__("glob").glob("/verif/refactors/*"))) if os.path.exists(os.path.join(d, 'patch.diff'))]
with ThreadPoolExecutor(max_workers=4) as ex:
    for d, status, alarms in ex.map(one, dirs):
        print(f'{d}: {status}; alarms={len(alarms)}')
        for a in alarms:
            print('    ' + a)

#!/bin/bash
# rf1.sh <refactor-or-seed dir> <binary> <prop>... : apply patch.diff to a scratch copy of /repo HEAD
# and run the given checks with the given fv binary; prints the alarm lines. Scratch removed.
d=$1; bin=$2; shift 2
export GOFLAGS=-mod=mod GOPROXY=off GOSUMDB=off GOTOOLCHAIN=local; unset GOWORK
t=$(mktemp -d /tmp/rf1.XXXX); mkdir -p $t/repo $t/verif
git -C /repo archive HEAD | tar -x -C $t/repo
cp /verif/known_findings.json $t/verif/; cp -r /verif/reference $t/verif/
([ -s $d/patch.diff ] || exit 0; cd $t/repo && git apply $d/patch.diff) || { echo "PATCH DOES NOT APPLY"; rm -rf $t; exit 2; }
for p in "$@"; do
  out=$(FV_REPO=$t/repo FV_VERIF=$t/verif $bin check -prop $p 2>&1); code=$?
  echo "== $p exit=$code"; echo "$out" | grep -E '^  rule=|VIOLATION|panic|load error' | cut -c1-420 | head -30
done
rm -rf $t

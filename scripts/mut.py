#!/usr/bin/env python3
"""Checker self-test helper (development tool, not a registered check).

  mut.py PROP[,PROP..] FILE OLD NEW [FILE OLD NEW ...]

Copies /repo (without .git) to a scratch dir, replaces the unique occurrence of
OLD by NEW in FILE (relative to the repo root), makes sure the edited module
still builds, runs `fv check` for the properties against the scratch tree with
a scratch evidence dir, prints the verdict lines and removes everything.
"""
import os, shutil, subprocess, sys, tempfile
args = sys.argv[1:]
props = args[0].split(',')
edits = args[1:]
tmp = tempfile.mkdtemp(prefix='fvmut.')
repo = os.path.join(tmp, 'repo'); verif = os.path.join(tmp, 'verif')
env = dict(os.environ, GOFLAGS='-mod=mod', GOPROXY='off', GOSUMDB='off', GOTOOLCHAIN='local', FV_REPO=repo, FV_VERIF=verif)
env.pop('GOWORK', None)
rc = 0
try:
    subprocess.check_call(['rsync', '-a', '--exclude', '.git', '/repo/', repo + '/'])
    os.makedirs(verif)
    if os.path.exists('/verif/known_findings.json'):
        shutil.copy('/verif/known_findings.json', verif)
    mods = set()
    for i in range(0, len(edits), 3):
        f, old, new = edits[i:i+3]
        p = os.path.join(repo, f)
        s = open(p).read()
        n = s.count(old)
        if n != 1:
            print(f'mut.py: {f}: OLD occurs {n} times (need exactly 1)'); sys.exit(3)
        open(p, 'w').write(s.replace(old, new))
        mods.add('lib/go' if f.startswith('lib/go/') else '.')
    for m in mods:
        r = subprocess.run(['go', 'build', './...'], cwd=os.path.join(repo, m), env=env, capture_output=True, text=True)
        if r.returncode != 0:
            print('mut.py: variant does not build:\n' + r.stderr[-2000:]); sys.exit(4)
        r = subprocess.run(['go', 'vet', './...'], cwd=os.path.join(repo, m), env=env, capture_output=True, text=True) if os.environ.get('MUT_VET') else None
    for p in props:
        r = subprocess.run(['/verif/bin/fv', 'check', '-prop', p, '-tier', os.environ.get('MUT_TIER', 'quick')], env=env, capture_output=True, text=True)
        out = [l for l in r.stdout.splitlines() if not l.startswith('KNOWN-FINDING')]
        print(f'--- {p}: exit {r.returncode}')
        print('\n'.join(out[-12:]))
        if r.stderr.strip(): print(r.stderr[-1500:])
        rc = max(rc, r.returncode)
finally:
    shutil.rmtree(tmp, ignore_errors=True)
sys.exit(rc)

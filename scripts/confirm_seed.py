#!/usr/bin/env python3
"""confirm_seed.py <seedout-dir> <seed-id> <property> : independently confirms a
seeded change in a scratch worktree (suite still green with the change; demo
fails with it and passes without), then runs the fv checks for the property
against /repo with the patch applied (and reverts), and stores everything
under /verif/seeded/<seed-id>/ with meta.json."""
import json, os, re, shutil, subprocess, sys, glob
src, sid, prop = sys.argv[1], sys.argv[2], sys.argv[3]
extra_props = sys.argv[4:]  # further properties whose checks are also run
env = dict(os.environ, GOFLAGS='-mod=mod', GOPROXY='off', GOSUMDB='off', GOTOOLCHAIN='local'); env.pop('GOWORK', None)
wt = f'/tmp/cs/{sid}'
def sh(cmd, cwd=None, check=False):
    if cmd.startswith('go test'):
        # own network namespace: the suite's NATS tests bind a fixed port, so
        # confirmations running side by side would disturb each other
        cmd = "unshare -n bash -c " + __import__('shlex').quote("ip link set lo up; " + cmd)
    r = subprocess.run(cmd, shell=True, cwd=cwd, env=env, capture_output=True, text=True)
    if check and r.returncode != 0: raise SystemExit(f'FAILED: {cmd}\n{r.stdout[-2000:]}{r.stderr[-2000:]}')
    return r
pkgdir = {'frugal': 'lib/go', 'compiler': 'compiler', 'parser': 'compiler/parser', 'golang': 'compiler/generator/golang', 'generator': 'compiler/generator',
          'java': 'compiler/generator/java', 'dartlang': 'compiler/generator/dartlang', 'python': 'compiler/generator/python', 'main': '.', 'html': 'compiler/generator/html', 'json': 'compiler/generator/json', 'globals': 'compiler/globals'}
def suite(root):
    tot_p = tot_f = 0
    for m in ['.', 'lib/go']:
        r = sh('go test -json -vet=off -count=1 -timeout 25m ./...', cwd=os.path.join(root, m))
        tot_p += len(re.findall(r'"Action":"pass","Package":"[^"]*","Test":"[^"/]*"', r.stdout))
        tot_f += len(re.findall(r'"Action":"fail","Package":"[^"]*","Test":"[^"/]*"', r.stdout))
        if '"Action":"fail"' in r.stdout and '"Test"' not in r.stdout: tot_f += 1
    return tot_p, tot_f
os.makedirs('/tmp/cs', exist_ok=True)
sh(f'git -C /repo worktree remove --force {wt}'); shutil.rmtree(wt, ignore_errors=True)
sh(f'git -C /repo worktree add -q --detach {wt} HEAD', check=True)
meta = {'seed': sid, 'property': prop, 'repo_head': sh('git -C /repo rev-parse HEAD').stdout.strip()}
try:
    patch = os.path.join(src, 'patch.diff')
    sh(f'git apply {patch}', cwd=wt, check=True)
    b = sh('go build ./... && go vet ./... >/dev/null 2>&1; true', cwd=wt); b2 = sh('go build ./...', cwd=wt + '/lib/go', check=True)
    p, f = suite(wt)
    meta['suite_with_change'] = {'pass': p, 'fail': f}
    # place demo files
    demos = []
    for d in glob.glob(os.path.join(src, 'demo', '**', '*'), recursive=True):
        if os.path.isdir(d): continue
        rel = os.path.relpath(d, os.path.join(src, 'demo'))
        if d.endswith('.go'):
            pk = re.search(r'^package (\w+)', open(d).read(), re.M).group(1).replace('_test', '')
            dest_dir = os.path.dirname(rel) if os.path.dirname(rel) and os.path.isdir(os.path.join(wt, os.path.dirname(rel))) else pkgdir.get(pk, 'lib/go')
        else:
            dest_dir = os.path.dirname(rel) or '.'
        os.makedirs(os.path.join(wt, dest_dir), exist_ok=True)
        shutil.copy(d, os.path.join(wt, dest_dir, os.path.basename(d)))
        demos.append(os.path.join(dest_dir, os.path.basename(d)))
    meta['demo_files'] = demos
    def rundemo():
        res = {}
        for d in sorted(set(os.path.dirname(x) for x in demos if x.endswith('_test.go'))):
            names = []
            for x in demos:
                if os.path.dirname(x) == d and x.endswith('_test.go'):
                    names += re.findall(r'^func (Test\w+)\(', open(os.path.join(wt, x)).read(), re.M)
            mod = 'lib/go' if d.startswith('lib/go') else '.'
            pkg = './' + os.path.relpath(d, mod) if d != mod else '.'
            r = sh(f"go test -vet=off -count=1 -timeout 120s -run '^({'|'.join(names)})$' {pkg}", cwd=os.path.join(wt, mod))
            res[d] = {'exit': r.returncode, 'tail': (r.stdout + r.stderr)[-600:]}
        return res
    with_change = rundemo()
    sh(f'git apply -R {patch}', cwd=wt, check=True)
    without = rundemo()
    meta['demo_with_change'] = {k: v['exit'] for k, v in with_change.items()}
    meta['demo_without_change'] = {k: v['exit'] for k, v in without.items()}
    meta['demo_with_change_tail'] = {k: v['tail'] for k, v in with_change.items()}
    ok = p == 181 and f == 0 and with_change and all(v['exit'] != 0 for v in with_change.values()) and all(v['exit'] == 0 for v in without.values())
    meta['confirmed'] = bool(ok)
    if not ok:
        meta['without_tail'] = {k: v['tail'] for k, v in without.items()}
finally:
    sh(f'git -C /repo worktree remove --force {wt}'); shutil.rmtree(wt, ignore_errors=True)
# (fv verdicts are recorded separately by seeds_fv.py)
if meta.get('confirmed'):
    dst = f'/verif/seeded/{sid}'
    shutil.rmtree(dst, ignore_errors=True); os.makedirs(dst)
    shutil.copy(patch, dst); shutil.copytree(os.path.join(src, 'demo'), os.path.join(dst, 'demo'))
    if os.path.exists(os.path.join(src, 'README.md')): shutil.copy(os.path.join(src, 'README.md'), os.path.join(dst, 'AGENT_README.md'))
    json.dump(meta, open(os.path.join(dst, 'meta.json'), 'w'), indent=1)
print(json.dumps({k: meta[k] for k in meta if k not in ('demo_with_change_tail',)}, indent=1))

#!/usr/bin/env python3
"""seeds_par.py [seed-id ...] : like seeds_fv.py but on scratch copies of the
committed /repo tree (FV_REPO), several seeds at a time; /repo itself is not
touched. Records the verdicts in each seed's meta.json and prints CAUGHT/MISSED."""
import json, os, subprocess, sys, shutil, glob, tempfile
from concurrent.futures import ThreadPoolExecutor
env = dict(os.environ, GOFLAGS='-mod=mod', GOPROXY='off', GOSUMDB='off', GOTOOLCHAIN='local'); env.pop('GOWORK', None)
FV = os.environ.get('FV_BIN', '/verif/bin/fv')
ids = sys.argv[1:] or sorted(os.path.basename(d) for d in glob.glob('/verif/seeded/*') if os.path.isdir(d))
have = set(subprocess.run([FV, 'list'], capture_output=True, text=True).stdout.split())
def one(sid):
    d = f'/verif/seeded/{sid}'
    meta = json.load(open(f'{d}/meta.json'))
    props = [meta['property']] + meta.get('also', [])
    tmp = tempfile.mkdtemp(prefix='fvseedp.')
    try:
        repo = os.path.join(tmp, 'repo'); verif = os.path.join(tmp, 'verif'); os.makedirs(repo); os.makedirs(verif)
        subprocess.check_call('git -C /repo archive HEAD | tar -x -C ' + repo, shell=True)
        shutil.copy('/verif/known_findings.json', verif)
        r = subprocess.run(['git', 'apply', f'{d}/patch.diff'], cwd=repo, capture_output=True, text=True)
        if r.returncode != 0:
            return sid, None, 'PATCH DOES NOT APPLY: ' + r.stderr.strip()[:150]
        det = {}
        for pr in props:
            if pr not in have: continue
            c = subprocess.run([FV, 'check', '-prop', pr, '-tier', 'quick'], env=dict(env, FV_REPO=repo, FV_VERIF=verif), capture_output=True, text=True)
            viol = [l.strip()[:300] for l in c.stdout.splitlines() if l.startswith('  rule=')]
            det[pr] = {'exit': c.returncode, 'violations': viol[:6]}
        meta['fv'] = det
        json.dump(meta, open(f'{d}/meta.json', 'w'), indent=1)
        own = det.get(meta['property'], {}).get('exit') == 1
        caught = [p for p in det if det[p]['exit'] == 1]
        rules = sorted({v.split(' ')[0] for p in caught for v in det[p]['violations']})
        return sid, own, ('CAUGHT by ' + ','.join(rules) if caught else 'MISSED') + ('' if own or not caught else '  (not by its own property)')
    finally:
        shutil.rmtree(tmp, ignore_errors=True)
n = own = anyc = 0
with ThreadPoolExecutor(max_workers=int(os.environ.get('PAR', '10'))) as ex:
    for sid, o, msg in ex.map(one, ids):
        print(f'{sid}: {msg}', flush=True)
        n += 1; own += bool(o); anyc += msg.startswith('CAUGHT')
print(f'TOTAL {n} seeds: {own} reported by the check of their own property, {anyc} by some listed check')

#!/bin/bash
# round.sh <prop> <round> <id-a> <id-b> : confirm the two seeds an agent left in
# /tmp/seedout/<prop><round>/{a,b} (scratch worktree, private network namespace)
# and replay the confirmed ones against /repo (serialised by a lock: the replay
# applies the patch to /repo and reverts it).
p=$1; r=$2; a=$3; b=$4
cd /verif
for x in "a $a" "b $b"; do set -- $x
  python3 scripts/confirm_seed.py /tmp/seedout/$p$r/$1 $p$2 $p > /tmp/cs_$p$2.log 2>&1
  if [ -f seeded/$p$2/meta.json ]; then
    python3 scripts/seeds_fv.py $p$2
  else
    echo "$p$2: NOT CONFIRMED ($(grep -o '"suite_with_change": {[^}]*}' /tmp/cs_$p$2.log | tr -d '\n ') $(grep -o 'FAILED.*' /tmp/cs_$p$2.log | head -1))"
  fi
done

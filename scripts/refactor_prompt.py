#!/usr/bin/env python3
"""Prints the prompt for a *refactoring* sub-agent: behaviour-preserving edits
around the mechanisms a property depends on (used to hunt false alarms of the
checks). Only the property text and the scratch worktree are given."""
import json, sys
pid = sys.argv[1]
rnd = sys.argv[2] if len(sys.argv) > 2 else ''
for l in open('/verif/properties.jsonl'):
    p = json.loads(l)
    if p['id'] == pid: break
wt = f'/tmp/wt/{pid}rf{rnd}'
out = f'/tmp/refout/{pid}{rnd}'
extra = ''
if rnd:
    extra = ' In this round prefer STRUCTURAL clean-ups that touch two or more functions: extract a helper out of a loop body or out of an error path; merge two tiny helpers into their caller; turn a closure into a method (or a method value); introduce a small named type with a method; rename unexported functions, methods, struct fields and types; replace a range loop by an index loop (same order) or the reverse; replace a chain of if/return by a switch; move a guard into the callee (keeping it on every path); pass a value instead of re-reading a field when the field cannot change in between; replace a boolean flag by an early return.'
print(f"""You are helping to evaluate a static-analysis tool for the open-source project Workiva/frugal (a Thrift-superset IDL compiler written in Go with Go/Java/Dart/Python generators, plus a Go runtime library under lib/go). The tool checks that the source code keeps a stated semantic property. We want to know whether the tool raises FALSE ALARMS on harmless code changes. Your job: produce BEHAVIOUR-PRESERVING refactorings of the code that implements the property — the kind of clean-up a maintainer might commit — which do NOT change what the program does.

You have your own scratch git worktree of the repository at: {wt}
Work ONLY inside {wt} and write your results to {out}/ . Never touch or read /repo or /verif.

THE PROPERTY (id {pid}): {p['title']}
Statement: {p['statement']}
Relevant files: {', '.join(p['anchors']['files'])}
Mechanisms the property rests on: {'; '.join(m['name'] + ' (' + m['where'] + ')' for m in p['anchors']['mechanism'])}

WHAT TO PRODUCE: FOUR different, independent refactorings (call them a, b, c, d) of the NON-test Go source in the files/mechanisms above. Each must:
  1. leave the observable behaviour exactly the same for every input, schedule and history (the property above must still hold, and nothing else may change either) — be careful and conservative: if in doubt whether an edit can change behaviour, do not make it;
  2. compile, and the existing test suite, unedited, must still pass (all 181 tests);
  3. be a REALISTIC clean-up touching the code the property depends on, of a different kind each time. Ideas: extract a helper function / inline a helper; rename local variables, fields or unexported functions; invert a condition and swap the branches; turn an if/else-if chain into a switch (or back); replace `defer x.Unlock()` by explicit unlocks on every path (or the reverse) keeping the same lock scope; hoist a constant expression into a named constant; replace a struct literal by a small unexported constructor; split a long function into two; reorder independent statements; replace `for i := 0; i < n; i++` by `for i := range` (same order); introduce an early return instead of nesting; use a named result or remove one; replace a closure by a method value with the same behaviour; move code between files of the same package.
  {extra}
  Each refactoring should change roughly 5-40 lines and must touch at least one of the mechanisms listed above (not unrelated code).

ENVIRONMENT: no network. Every shell command needs:  export GOFLAGS=-mod=mod GOPROXY=off GOSUMDB=off GOTOOLCHAIN=local; unset GOWORK
Run the existing suite with:
  (cd {wt} && go build ./... && go test -vet=off -count=1 ./...) ; (cd {wt}/lib/go && go build ./... && go test -vet=off -count=1 ./...)
(the third module test/integration cannot be built offline - ignore it). Golden files live in {wt}/compiler/testdata/expected; a compiler refactoring must not change any generated output. If the lib/go suite fails with "Unable to start NATS Server" or another port clash, other people are running the same suite at the same moment: wait a few seconds and re-run. NEVER use `git stash` (it is shared by all worktrees of the repository).

PROCEDURE for each refactoring x in (a, b, c, d):
  - make the edit; confirm build + full existing tests pass (both modules); re-read your diff and convince yourself it cannot change behaviour;
  - write {out}/x/patch.diff (output of `git diff`, appliable with `git apply` at the repository root) and {out}/x/README.md (what kind of refactoring, which functions, and the argument why behaviour is unchanged);
  - then `git checkout -- . && git clean -fdq` before the next one.

When finished, leave the worktree clean and reply with one short paragraph per refactoring. Do not commit anything.""")

#!/bin/bash
# all20.sh [binary] : run the 20 quick checks against /repo in parallel, print one summary line per property
bin=${1:-/verif/bin/fv}
export GOFLAGS=-mod=mod GOPROXY=off GOSUMDB=off GOTOOLCHAIN=local; unset GOWORK
t=$(mktemp -d /tmp/all20.XXXX)
for p in $($bin list); do ( $bin check -prop $p > $t/$p.out 2>&1; echo "$p exit=$? $(tail -1 $t/$p.out | cut -c1-150)" ) & done | sort
wait
grep -h -E '^  rule=|VIOLATION' $t/*.out | cut -c1-300 | head -40
rm -rf $t

#!/bin/bash
# Runs the repository's pinned test suite (BASELINE.json cmd shape) on a tree
# (default /repo) and prints pass/fail counts. Development helper.
R=${1:-/repo}
export GOFLAGS=-mod=mod GOPROXY=off GOSUMDB=off GOTOOLCHAIN=local; unset GOWORK
tot_pass=0; tot_fail=0
for m in . ./lib/go ./test/integration; do
  out=$(cd $R/$m && go test -json -vet=off -count=1 -timeout 25m ./... 2>&1)
  p=$(echo "$out" | grep -c '"Action":"pass","Package":"[^"]*","Test":"[^"/]*"')
  f=$(echo "$out" | grep -c '"Action":"fail","Package":"[^"]*","Test":"[^"/]*"')
  echo "$m: pass=$p fail=$f"
  echo "$out" | grep '"Action":"fail"' | grep '"Test"' | head -20
  echo "$out" | grep -v '^{' | head -20
  tot_pass=$((tot_pass+p)); tot_fail=$((tot_fail+f))
done
echo "TOTAL pass=$tot_pass fail=$tot_fail"

#!/usr/bin/env python3
"""Regenerates /verif/MANIFEST.json from the claim table below (development
helper; the manifest itself is the committed artefact)."""
import json, os
ENV = "GOFLAGS=-mod=mod GOPROXY=off GOSUMDB=off GOTOOLCHAIN=local GOWORK=off"
BASE = open('/root/.vp/BASELINE.json').read()
baseline_cmd = json.loads(BASE)['cmd']
claims = json.load(open(os.path.join(os.path.dirname(__file__), 'claims.json')))
checks, na = [], []
for pid in sorted(claims):
    c = claims[pid]
    if not c.get('claimed'):
        na.append({"property_id": pid, "reason": c['reason']})
        continue
    checks.append({
        "property_id": pid,
        "quick_cmd": f"bin/fv check -prop {pid} -tier quick",
        "thorough_cmd": f"bin/fv check -prop {pid} -tier thorough",
        "evidence_file": f"/verif/evidence/{pid}.json",
        "replay_cmd_template": "bin/fv explain {path}",
        "engine": "fv",
        "level_claimed": {"category": "other", "text": c['text'], "design_ref": f"DESIGN.md §3 {pid}"},
        "level_note": c['note'],
        "technique": c['technique'],
    })
m = {
    "version": 1,
    "setup_cmd": f"cd /verif/fv && env {ENV} go build -o /verif/bin/fv ./cmd/fv",
    "hooks": {"guard": "verif", "enable": "none needed: the checks read source only (static analysis); no hook code exists in /repo",
              "baseline_off_cmd": baseline_cmd, "source_commits": [], "add_only": True},
    "engines": [{"name": "fv", "path": "/verif/fv", "serves_properties": [c['property_id'] for c in checks],
                 "kind_free_text": "repository-specific static analyser in Go (go/packages + go/types + go/ssa, x/tools v0.29.0): lockset, CFG path rules, linear-inequality bounds prover, symbolic template evaluation, PEG IR; reads /repo's working tree on every run, executes nothing from it"}],
    "checks": checks,
    "not_applicable": na,
    "notes": "All claims are level 'other': structural necessary conditions of the property decided for all executions from the code shape; the behaviour itself is not claimed. known_findings.json lists genuine defects recorded rather than repaired.",
}
json.dump(m, open('/verif/MANIFEST.json', 'w'), indent=1)
print(len(checks), 'claimed', len(na), 'not applicable')

#!/usr/bin/env python3
"""Prints the prompt given to a seeding sub-agent for one property (only the
property text and its scratch worktree — nothing from /verif)."""
import json, sys
pid = sys.argv[1]
rnd = sys.argv[2] if len(sys.argv) > 2 else ''
AVOID = {
 'C01': ['result channels taken from a sync.Pool', 'read loop reusing the frame buffer', 'generic Clone giving the new op id to the original', 'dispatch returning an error for a duplicate response (adapter read loop closes)'],
 'C02': ['a typedef-resolution cache keyed by unqualified name', 'WriteBinaryWithContext skipping empty values', 'dropping i8 from a list of scalar type names', 'tracking required fields only for plain structs (not exceptions)'],
 'C03': ['client generator returning early for void methods before the exception checks', 'framed transport subtracting bytes requested instead of bytes read', 'unknown-method branch not skipping the arguments', 'sharing the results slice of the reflection invocation handler'],
 'C04': ['off-by-one (>=) in the readPairs length guards', 'a scratch buffer shared through the marshaler singleton', 'addHeadersToFrame sizing the frame from the added headers only', 'ReadRequestHeader building its context with NewFContext'],
 'C05': ['int32 overflow in the readPairs guards (i+size > end)', 'write mutex leaked on error returns of the unknown-method reply', 'size guard against len(frame) instead of len(frame[4:])', 'NATS subscriber worker returning on a short message'],
 'C06': ['dispatch turned back into a blocking send', 'read lock released only on one arm of the select in dispatch', 'dispatch returning an error on the drop branch', 'Unregister returning early with the registry lock held'],
 'C07': ['subscriber factory sharing its channels between transports', 'STOMP loop returning on an empty body', 'non-blocking enqueue with drop in the NATS subscriber', 'a reused publish buffer in the scope client'],
 'C08': ['Go subscriber using snakeToCamel for the scope name', 'Java DELIMITER computed in a package-level variable', 'Java prefix helper re-joining the prefix with the delimiter', 'Dart forwarded argument list built by prepending'],
 'C09': ['readPairs rejecting an empty last header value', 'Clone renumbering the original context instead of the clone', 'marshalHeaders returning a sync.Pool buffer', "Call resetting the response headers of the caller's context"],
 'C10': ['enum numbering using > instead of >=', 'anchoring the prefix-variable identifier regexp', 'typedef cycle search without removing the element from the path set', 'single-quoted literals not unquoted'],
 'C11': ['skipping the typedef cycle search for container typedefs', 'testing the New/Args/Result suffix rule on the raw IDL spelling', 'addInclude visiting the value type only when there is no key type', 't.ValueType instead of underlyingType.ValueType in generateConstantValue'],
 'C12': ['WriteByte with its own off-by-one limit check', 'trapError calling the locking SendError', 'dropping the error of Flush in prepareMessage', 'defer Unregister moved below the size check'],
 'C13': ['an IsOpen() guard (lifecycle lock) at the top of Request/Oneway', 'Oneway calling send inline instead of in a goroutine', 'Register moved after PublishRequest', 'flattening the body-read error with %v'],
 'C14': ['trapError calling the locking SendError', 'hoisting the frame-size buffer out of the HTTP handler closure', "Process returning the processor function's TException", 'unknown-method reply without the write mutex'],
 'C15': ['building the frame decoder once in the constructor', 'keeping the reopen attempt counter in the monitor runner', 'readLoop re-reading f.closeSignal instead of its parameter', 'back-off ceiling tested on the previous wait'],
 'C16': ['allocating the Results slice once per method', 'SetError ignoring nil', "GetMiddleware returning the provider's slice", 'AddMiddleware de-duplicating by function pointer'],
 'C17': ['load/check/store instead of atomic.AddUint64', 'Clone sharing the ephemeral-properties map', 'Clone copying the struct (and mutex) by value', 'generic Clone copying _opid over the fresh id'],
 'C18': ['resolving the new type through the old program in checkType', 'folding the added-required-field error into an else-if', 'return-type comparison guarded by oldMethod.ReturnType != nil', 'warn flag lost in the recursion of checkType'],
 'C19': ['ReferencedIncludes returning in map order', 'relative paths plus sorting the HTML index by file path', 'Dart pubspec dependencies visited in map order', 'globals.Reset only on the success path of Compile'],
 'C20': ['removing conn.Flush between Drain and Barrier', 'returning before wg.Wait when the queue is empty', 'answering Stop only after wg.Wait', 'Unsubscribe instead of Drain for idle subscriptions'],
}
for l in open('/verif/properties.jsonl'):
    p = json.loads(l)
    if p['id'] == pid: break
wt = f'/tmp/wt/{pid}{rnd}'
out = f'/tmp/seedout/{pid}{rnd}'
avoid = ""
if rnd == 'r4':
    avoid = ("  IN THIS ROUND the break must come out of a RESTRUCTURING, the way real regressions usually do: combine it with a plausible clean-up that touches two or more functions, "
             "and let the defect be a detail the clean-up got wrong. Examples of the shape (find your own): extract a helper out of a loop body or an error path and lose one exit / one argument / one unlock in the move; "
             "move a guard into the callee but leave one caller or one path unguarded; replace `defer mu.Unlock()` by explicit unlocks and miss an exit; turn an if/else-if chain into a switch and lose or reorder a case; "
             "turn a closure into a method (or back) so that it sees a stale or shared value; merge two helpers and apply one's step twice or not at all; hoist an allocation or a computation out of a loop/closure; "
             "rename a variable and reuse it so that the wrong one of two same-typed values is passed. The patch should read like a tidy refactoring commit in which the mistake is easy to overlook in review. "
             "Earlier rounds already covered the direct one-line variants of most mechanisms; a restructured variant of an old idea is fine as long as the break is real.")
elif rnd == 'r5':
    avoid = ("  IN THIS ROUND go where earlier rounds did not: they concentrated on the Go generator, the NATS/adapter transports and the best-known functions of each file. "
             "Prefer the less-travelled code the property also covers — the Java, Dart and Python generators (including asyncio/tornado), the html and json targets, option-dependent paths (-r/recursive generation, use_vendor, go:slim, go:async, package prefixes, "
             "topic delimiter and other generator options), the HTTP and STOMP transports, the simple server, the scope (pub/sub) client paths, error/exception paths rather than success paths, and interactions between two files or two functions that each look fine alone. "
             "A restructuring commit in which one detail went wrong (helper extracted, guard moved, loop rewritten, condition inverted, two helpers merged) is the preferred disguise, as in real regressions.")
elif rnd in ('r6', 'r7', 'r9', 'r10'):
    import os, re, glob
    ideas = []
    for d in sorted(glob.glob(f'/verif/seeded/{pid}*')):
        f = os.path.join(d, 'AGENT_README.md'); t = ''
        if os.path.exists(f):
            for l in open(f):
                if l.startswith('#'):
                    t = re.sub(r'^#+\s*', '', l.strip()); break
        t = re.sub(r'^(Seed(ed)?( change)?\s*)?C\d\d\w*\s*[/\-–—:]*\s*(change|seed)?\s*[ab]?\s*[\-–—:]*\s*', '', t, flags=re.I)
        files = sorted(set(os.path.basename(x) for x in re.findall(r'^\+\+\+ b/(\S+)', open(os.path.join(d, 'patch.diff')).read(), re.M)))
        if t: ideas.append(f"{t} [{', '.join(files)}]")
    avoid = ("  IN THIS ROUND work clause by clause. First split the property statement into its separate clauses (each 'and', each 'never', each quantifier is one), and for every clause list ALL the code sites that implement it "
             "(every transport, every generator language, every caller of a shared helper, both the success and the error path). Then pick clauses and sites that nobody has attacked yet. "
             f"{len(ideas)} changes already exist for this property; do NOT repeat them or close variants of them, and prefer a different clause or a different file altogether: " + "; ".join(ideas) + ". "
             "Good shapes for this round: a condition weakened for one case only (one transport, one type kind, one option value); the right step applied to the wrong one of two same-typed values; an invariant kept by two cooperating sites where only one is changed; "
             "a value computed once where it must be computed per item; an 'optimisation' or 'hardening' that looks like an improvement in review; a defect that only a second call / a re-open / a retry / a second file of the same run exposes.")
elif rnd == 'r8':
    avoid = ""   # unbiased round: the plain prompt, no list of ideas to avoid
elif rnd:
    avoid = "  Other people already produced the following ideas for this property - do NOT repeat them or close variants; find different mechanisms, functions or files: " + "; ".join(AVOID.get(pid, [])) + "."
print(f"""You are helping to evaluate a verification tool for the open-source project Workiva/frugal (a Thrift-superset IDL compiler written in Go with Go/Java/Dart/Python generators, plus a Go runtime library under lib/go). Your job is to act as a "bug seeder": produce realistic source changes that BREAK one stated semantic property of the code base while still compiling and still passing the project's existing test suite.

You have your own scratch git worktree of the repository at: {wt}
Work ONLY inside {wt} and write your results to {out}/ . Never touch /repo or /verif (do not read /verif either).

THE PROPERTY (id {pid}): {p['title']}
Statement: {p['statement']}
Quantified: {p['quantifier']['text']}
Why the existing tests cannot settle it: {p['why_tests_cant']}
Relevant files: {', '.join(p['anchors']['files'])}

WHAT TO PRODUCE: TWO different, independent changes (call them "a" and "b") to the Go source of Workiva/frugal (non-test files only), each of which:
  1. makes the property above false (a real behavioural break, not a cosmetic change),
  2. still compiles, and the existing test suite, unedited, still passes (all 181 tests),
  3. is REALISTIC - the kind of mistake or "simplification"/refactor a developer could plausibly commit (an off-by-one in a guard, a lock released too early or dropped, a cleanup moved after an early return, a wrong variable of the right type, a swapped argument, a missing case, a changed constant, a removed check, state shared that should be per-call ...), small (a few lines),
  4. needs something SPECIFIC to manifest: a particular interleaving, a crash/fault at a particular point, a multi-step sequence of operations, an unusual input, or two cooperating sites that each look fine alone. Do NOT produce changes that ordinary use would expose at once.
  The two changes should break the property in different ways / at different places.
{avoid}

For EACH change also write a demonstration: a Go test file (or small program) that FAILS with the change applied and PASSES on the unchanged tree. Put demonstration tests next to the code they test (e.g. lib/go/zz_seed_{pid.lower()}a_test.go, package frugal, or under compiler/ for compiler properties) - they may use internal identifiers. Keep them deterministic (use timeouts of <= 2s to detect hangs/deadlocks) and fast.

ENVIRONMENT: no network. Every shell command needs:  export GOFLAGS=-mod=mod GOPROXY=off GOSUMDB=off GOTOOLCHAIN=local; unset GOWORK
The repo has Go modules at {wt} (compiler, `go test ./...` there) and {wt}/lib/go (runtime, package frugal). Run the existing suite with:
  (cd {wt} && go build ./... && go test -vet=off -count=1 ./...) ; (cd {wt}/lib/go && go build ./... && go test -vet=off -count=1 ./...)
(the third module test/integration cannot be built offline - ignore it). Generated-code examples are in {wt}/examples and golden files in {wt}/compiler/testdata/expected; if a compiler change alters golden output the existing tests will fail, so such a change is not acceptable.

PROCEDURE for each change x in (a, b):
  - make the change in the worktree; confirm build + full existing tests pass (both modules);
  - add the demonstration test; confirm it FAILS with the change;
  - save the source change with `git diff -- <changed non-test files> > /tmp/<yours>.diff`, revert it with `git apply -R` (NEVER use `git stash`: the stash is shared by all worktrees of the repository and other people work in sibling worktrees), keep the demo and confirm the demo PASSES on the unchanged source; re-apply with `git apply`;
  - write {out}/x/patch.diff  (output of `git diff` for the NON-test source change only, relative to the worktree root, appliable with `git apply` at the repository root),
    {out}/x/demo/<the demonstration test file(s)> (with a note of where in the tree each belongs),
    {out}/x/README.md : what was changed, why it breaks the property, exactly what is needed for it to manifest (interleaving / input / sequence), the commands you ran and their results (suite passes with change; demo fails with change; demo passes without).
  - then `git checkout -- . && git clean -fdq` in the worktree before starting the next change.

When finished, leave the worktree clean and reply with a short summary (one paragraph per change: files touched, the trigger needed). Do not commit anything.""")

package frugal

// Demonstration for finding C07.R16 (unchanged tree, before the fix).
//
// Belongs in lib/go/ (package frugal).
//
// One STOMP subscriber transport is subscribed to topic "old" and then, while
// the handler of "old" is still busy with a message, unsubscribed and
// subscribed again to topic "new". The delivery goroutine of the first
// subscription re-reads m.sub on every trip of its loop: when its handler
// returns it selects between its (closed) stop channel and the message
// channel of the NEW subscription. Whenever a message of "new" is pending at
// that moment both cases are ready, the runtime picks one at random, and a
// message published on "new" is handed to the handler that subscribed to
// "old" (and that was unsubscribed). The test repeats the scenario; one theft
// fails it.

import (
	"fmt"
	"io"
	"net"
	"sync"
	"testing"
	"time"

	"github.com/apache/thrift/lib/go/thrift"
	"github.com/go-stomp/stomp"
	stompframe "github.com/go-stomp/stomp/frame"
)

// findC07r16Broker is a minimal in-process STOMP 1.2 broker with exact-match
// destinations. Unlike the go-stomp test server it answers the receipt that
// the go-stomp client attaches to UNSUBSCRIBE, so Unsubscribe returns on a
// healthy connection.
type findC07r16Broker struct {
	mu    sync.Mutex
	subs  []*findC07r16BrokerSub
	msgID int
}

type findC07r16BrokerSub struct {
	conn        *findC07r16BrokerConn
	id          string
	destination string
}

type findC07r16BrokerConn struct {
	mu sync.Mutex
	w  *stompframe.Writer
}

func (c *findC07r16BrokerConn) write(f *stompframe.Frame) {
	c.mu.Lock()
	defer c.mu.Unlock()
	c.w.Write(f)
}

func (b *findC07r16Broker) serve(l net.Listener) {
	for {
		nc, err := l.Accept()
		if err != nil {
			return
		}
		go b.handle(nc)
	}
}

func (b *findC07r16Broker) handle(nc net.Conn) {
	defer nc.Close()
	r := stompframe.NewReader(nc)
	c := &findC07r16BrokerConn{w: stompframe.NewWriter(nc)}
	for {
		f, err := r.Read()
		if err != nil {
			return
		}
		if f == nil {
			continue // heart-beat
		}
		switch f.Command {
		case stompframe.CONNECT, stompframe.STOMP:
			c.write(stompframe.New(stompframe.CONNECTED, stompframe.Version, "1.2"))
			continue
		case stompframe.SUBSCRIBE:
			b.mu.Lock()
			b.subs = append(b.subs, &findC07r16BrokerSub{conn: c, id: f.Header.Get(stompframe.Id), destination: f.Header.Get(stompframe.Destination)})
			b.mu.Unlock()
		case stompframe.UNSUBSCRIBE:
			b.mu.Lock()
			for i, s := range b.subs {
				if s.conn == c && s.id == f.Header.Get(stompframe.Id) {
					b.subs = append(b.subs[:i:i], b.subs[i+1:]...)
					break
				}
			}
			b.mu.Unlock()
		case stompframe.SEND:
			b.mu.Lock()
			for _, s := range b.subs {
				if s.destination != f.Header.Get(stompframe.Destination) {
					continue
				}
				b.msgID++
				id := fmt.Sprint(b.msgID)
				m := stompframe.New(stompframe.MESSAGE,
					stompframe.Destination, s.destination,
					stompframe.MessageId, id,
					stompframe.Subscription, s.id,
					stompframe.Ack, id,
					stompframe.ContentLength, fmt.Sprint(len(f.Body)))
				m.Body = f.Body
				s.conn.write(m)
			}
			b.mu.Unlock()
		}
		// ACK, NACK and everything else need no action here.
		if receipt, ok := f.Header.Contains(stompframe.Receipt); ok {
			c.write(stompframe.New(stompframe.RECEIPT, stompframe.ReceiptId, receipt))
		}
	}
}

type findC07r16Log struct {
	mu   sync.Mutex
	seen []string
}

func (r *findC07r16Log) add(s string) {
	r.mu.Lock()
	r.seen = append(r.seen, s)
	r.mu.Unlock()
}

func (r *findC07r16Log) snapshot() []string {
	r.mu.Lock()
	defer r.mu.Unlock()
	return append([]string(nil), r.seen...)
}

func findC07r16Dial(t *testing.T, addr string) *stomp.Conn {
	t.Helper()
	nc, err := net.Dial("tcp", addr)
	if err != nil {
		t.Fatal(err)
	}
	c, err := stomp.Connect(nc)
	if err != nil {
		t.Fatal(err)
	}
	return c
}


func findC07r16Round(t *testing.T, addr string, round int) (stolen []string) {
	subConn := findC07r16Dial(t, addr)
	pubConn := findC07r16Dial(t, addr)
	defer subConn.Disconnect()
	defer pubConn.Disconnect()

	pub := NewFStompPublisherTransportFactoryBuilder(pubConn).Build().GetTransport()
	if err := pub.Open(); err != nil {
		t.Fatal(err)
	}
	sub := NewFStompSubscriberTransportFactoryBuilder(subConn).Build().GetTransport()
	oldTopic, newTopic := fmt.Sprintf("old%d", round), fmt.Sprintf("new%d", round)

	oldLog := &findC07r16Log{}
	entered := make(chan struct{})
	release := make(chan struct{})
	var once sync.Once
	oldHandler := func(tr thrift.TTransport) error {
		body, _ := io.ReadAll(tr)
		oldLog.add(string(body))
		first := false
		once.Do(func() { first = true })
		if first {
			close(entered)
			<-release
		}
		return nil
	}
	if err := sub.Subscribe(oldTopic, oldHandler); err != nil {
		t.Fatal(err)
	}
	time.Sleep(30 * time.Millisecond)
	if err := pub.Publish(oldTopic, prependFrameSize([]byte("old-0"))); err != nil {
		t.Fatal(err)
	}
	select {
	case <-entered:
	case <-time.After(2 * time.Second):
		t.Fatal("first handler was never invoked")
	}
	if err := sub.Unsubscribe(); err != nil {
		t.Fatal(err)
	}

	// The second subscription: its handler is slow on the first message, so
	// the following ones wait in the subscription's channel.
	newLog := &findC07r16Log{}
	newEntered := make(chan struct{})
	newRelease := make(chan struct{})
	var newOnce sync.Once
	newHandler := func(tr thrift.TTransport) error {
		body, _ := io.ReadAll(tr)
		newLog.add(string(body))
		first := false
		newOnce.Do(func() { first = true })
		if first {
			close(newEntered)
			<-newRelease
		}
		return nil
	}
	if err := sub.Subscribe(newTopic, newHandler); err != nil {
		t.Fatal(err)
	}
	time.Sleep(30 * time.Millisecond)
	for i := 0; i < 3; i++ {
		if err := pub.Publish(newTopic, prependFrameSize([]byte(fmt.Sprintf("new-%d", i)))); err != nil {
			t.Fatal(err)
		}
	}
	select {
	case <-newEntered:
	case <-time.After(2 * time.Second):
		t.Fatal("second handler was never invoked")
	}
	time.Sleep(30 * time.Millisecond) // new-1, new-2 are pending now

	// The handler of the unsubscribed topic finishes its message.
	close(release)
	time.Sleep(50 * time.Millisecond)
	close(newRelease)
	time.Sleep(50 * time.Millisecond)
	sub.Unsubscribe()

	got := oldLog.snapshot()
	if len(got) > 1 {
		return got[1:]
	}
	return nil
}

func TestFindingC07R16OldSubscriptionStealsFromNew(t *testing.T) {
	l, err := net.Listen("tcp", "127.0.0.1:0")
	if err != nil {
		t.Fatal(err)
	}
	defer l.Close()
	go (&findC07r16Broker{}).serve(l)
	for round := 0; round < 24; round++ {
		if stolen := findC07r16Round(t, l.Addr().String(), round); len(stolen) > 0 {
			t.Fatalf("round %d: the handler of the unsubscribed topic was invoked after Unsubscribe returned, with messages of the new topic: %v", round, stolen)
		}
	}
}

package compiler_test

// Demonstration for finding C10.R20 (belongs in compiler/). Valid IDL whose
// constant values name enum values — of the same file (`Color.GREEN`) or of an
// include (`colors.Shade.LIGHT`) — was rejected by validateConstant ("Include
// Color not found" / "Invalid constant name") although every generator resolves
// these forms (ContextFromIdentifier). Fails before the fix, passes after.

import (
	"os"
	"path/filepath"
	"testing"

	"github.com/Workiva/frugal/compiler"
)

func TestFindingC10R20EnumValuedConstants(t *testing.T) {
	dir := t.TempDir()
	write := func(name, text string) {
		if err := os.WriteFile(filepath.Join(dir, name), []byte(text), 0644); err != nil {
			t.Fatal(err)
		}
	}
	write("colors.frugal", "enum Shade { DARK = 1, LIGHT = 2 }\nconst i32 N = 3\n")
	write("main.frugal", "include \"colors.frugal\"\nenum Color { RED = 1, GREEN = 2 }\nconst Color fav = Color.GREEN\nconst colors.Shade sh = colors.Shade.LIGHT\nconst i32 M = colors.N\nstruct S { 1: Color c = Color.RED, 2: colors.Shade s = colors.Shade.DARK }\n")
	for _, gen := range []string{"go", "java", "py", "dart", "json"} {
		err := compiler.Compile(compiler.Options{File: filepath.Join(dir, "main.frugal"), Gen: gen, Out: filepath.Join(dir, "out-"+gen), Delim: ".", Recurse: true})
		if err != nil {
			t.Errorf("%s: valid IDL rejected: %v", gen, err)
		}
	}
}

package frugal

import (
	"fmt"
	"testing"
	"time"

	"github.com/apache/thrift/lib/go/thrift"
	"github.com/nats-io/nats-server/v2/server"
	"github.com/nats-io/nats.go"
)

// A NATS subscriber transport that was unsubscribed and is subscribed again
// (Subscribe returns nil, IsSubscribed reports true) must deliver the messages
// of its new subscription — and only those — to the new callback.
func TestNatsSubscriberResubscribeDelivers(t *testing.T) {
	opts := server.Options{Host: "localhost", Port: 24233, NoLog: true, NoSigs: true}
	s := runServer(&opts)
	defer s.Shutdown()
	conn, err := nats.Connect(fmt.Sprintf("nats://localhost:%d", opts.Port))
	if err != nil {
		t.Fatal(err)
	}
	defer conn.Close()

	tr := NewNatsFSubscriberTransport(conn)
	first := make(chan []byte, 16)
	if err := tr.Subscribe("foo", func(tt thrift.TTransport) error {
		b := make([]byte, 1)
		tt.Read(b)
		first <- b
		return nil
	}); err != nil {
		t.Fatal(err)
	}
	conn.Publish("frugal.foo", []byte{0, 0, 0, 1, 'a'})
	conn.Flush()
	select {
	case <-first:
	case <-time.After(2 * time.Second):
		t.Fatal("first subscription: no delivery")
	}
	if err := tr.Unsubscribe(); err != nil {
		t.Fatal(err)
	}
	if tr.IsSubscribed() {
		t.Fatal("still subscribed after Unsubscribe")
	}

	second := make(chan []byte, 16)
	if err := tr.Subscribe("bar", func(tt thrift.TTransport) error {
		b := make([]byte, 1)
		tt.Read(b)
		second <- b
		return nil
	}); err != nil {
		t.Fatalf("re-subscribe refused: %v", err)
	}
	if !tr.IsSubscribed() {
		t.Fatal("not subscribed after the second Subscribe")
	}
	conn.Publish("frugal.bar", []byte{0, 0, 0, 1, 'b'})
	conn.Flush()
	select {
	case b := <-second:
		if b[0] != 'b' {
			t.Fatalf("second subscription got %q", b)
		}
	case <-time.After(2 * time.Second):
		t.Fatal("second subscription: Subscribe returned nil and IsSubscribed is true, but the handler is never invoked")
	}
	tr.Unsubscribe()
}

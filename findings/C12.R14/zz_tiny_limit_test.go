package frugal

import (
	"os"
	"os/exec"
	"strings"
	"testing"
)

// A size limit smaller than the 4-byte frame placeholder cannot hold any
// message: every write has to fail with REQUEST_TOO_LARGE. The stack overflow
// of the unfixed code cannot be recovered, so the probe runs in a child.
func TestBoundedBufferTinyLimit(t *testing.T) {
	if os.Getenv("TINY_LIMIT_CHILD") == "1" {
		for _, limit := range []uint{1, 2, 3} {
			b := NewTMemoryOutputBuffer(limit)
			if _, err := b.Write([]byte("x")); !IsErrTooLarge(err) {
				t.Fatalf("limit %d: Write returned %v, want REQUEST_TOO_LARGE", limit, err)
			}
			if _, err := b.Write([]byte("y")); !IsErrTooLarge(err) {
				t.Fatalf("limit %d: second Write returned %v, want REQUEST_TOO_LARGE", limit, err)
			}
		}
		return
	}
	cmd := exec.Command(os.Args[0], "-test.run", "^TestBoundedBufferTinyLimit$")
	cmd.Env = append(os.Environ(), "TINY_LIMIT_CHILD=1")
	out, err := cmd.CombinedOutput()
	if err != nil {
		s := string(out)
		if i := strings.Index(s, "goroutine "); i > 0 {
			s = s[:i]
		}
		if len(s) > 600 {
			s = s[:600]
		}
		t.Fatalf("child failed: %v\n%s", err, s)
	}
}

package frugal

// Demonstration for finding C07.R15 (STOMP Unsubscribe cannot be repeated after a failure).
//
// Property C05: no byte sequence a peer can deliver may crash a Frugal process;
// the subscriber path rejects what it cannot handle with an error.
//
// Here the peer is a STOMP broker. After a normal MESSAGE it terminates the
// subscription the way brokers do: with an ERROR frame, with a frame that is not
// STOMP at all, or by hanging up. The subscriber transport has to survive that,
// including the Unsubscribe call every application makes when it shuts its
// subscription down afterwards (an error from Unsubscribe is fine, a panic is
// not).

import (
	"net"
	"strconv"
	"testing"
	"time"

	"github.com/apache/thrift/lib/go/thrift"
	"github.com/go-stomp/stomp"
	stompframe "github.com/go-stomp/stomp/frame"
)

// resubFindingBroker speaks just enough STOMP to accept one client and one
// subscription. Once the client has subscribed it delivers one well-formed
// MESSAGE and then calls misbehave with the raw connection.
func resubFindingBroker(t *testing.T, l net.Listener, misbehave func(conn net.Conn, w *stompframe.Writer)) {
	conn, err := l.Accept()
	if err != nil {
		return
	}
	defer conn.Close()
	r := stompframe.NewReader(conn)
	w := stompframe.NewWriter(conn)
	for {
		f, err := r.Read()
		if err != nil {
			return
		}
		if f == nil {
			continue
		}
		switch f.Command {
		case stompframe.CONNECT, stompframe.STOMP:
			w.Write(stompframe.New(stompframe.CONNECTED, stompframe.Version, "1.2"))
		case stompframe.SUBSCRIBE:
			id := f.Header.Get(stompframe.Id)
			body := append(make([]byte, 4), []byte("payload")...)
			msg := stompframe.New(stompframe.MESSAGE,
				stompframe.Destination, f.Header.Get(stompframe.Destination),
				stompframe.MessageId, "m-1",
				stompframe.Subscription, id,
				stompframe.Ack, "a-1",
				stompframe.ContentLength, strconv.Itoa(len(body)))
			msg.Body = body
			w.Write(msg)
			go func() {
				// let the MESSAGE be consumed first
				time.Sleep(100 * time.Millisecond)
				misbehave(conn, w)
			}()
		case stompframe.UNSUBSCRIBE:
			if receipt, ok := f.Header.Contains(stompframe.Receipt); ok {
				w.Write(stompframe.New(stompframe.RECEIPT, stompframe.ReceiptId, receipt))
			}
		case stompframe.DISCONNECT:
			if receipt, ok := f.Header.Contains(stompframe.Receipt); ok {
				w.Write(stompframe.New(stompframe.RECEIPT, stompframe.ReceiptId, receipt))
			}
			return
		}
	}
}

func resubFindingRun(t *testing.T, misbehave func(conn net.Conn, w *stompframe.Writer)) {
	l, err := net.Listen("tcp", "127.0.0.1:0")
	if err != nil {
		t.Fatal(err)
	}
	defer l.Close()
	go resubFindingBroker(t, l, misbehave)

	conn, err := net.Dial("tcp", l.Addr().String())
	if err != nil {
		t.Fatal(err)
	}
	defer conn.Close()
	client, err := stomp.Connect(conn)
	if err != nil {
		t.Fatal(err)
	}

	delivered := make(chan struct{}, 4)
	tr := newStompFSubscriberTransport(client, "", false).(*fStompSubscriberTransport)
	if err := tr.Subscribe("finding", func(thrift.TTransport) error {
		delivered <- struct{}{}
		return nil
	}); err != nil {
		t.Fatal(err)
	}

	select {
	case <-delivered:
	case <-time.After(2 * time.Second):
		t.Fatal("the well-formed message was not delivered")
	}

	// Wait until the broker has ended the subscription and the transport's
	// receive goroutine had time to notice.
	deadline := time.Now().Add(2 * time.Second)
	for tr.sub.Active() && time.Now().Before(deadline) {
		time.Sleep(5 * time.Millisecond)
	}
	if tr.sub.Active() {
		t.Fatal("the broker did not terminate the subscription")
	}
	time.Sleep(200 * time.Millisecond)

	// The application now shuts its subscription down.
	func() {
		defer func() {
			if r := recover(); r != nil {
				t.Fatalf("Unsubscribe after the broker terminated the subscription panicked: %v", r)
			}
		}()
		err := tr.Unsubscribe()
		t.Logf("Unsubscribe returned: %v", err)
		// the first attempt failed (the broker ended the subscription): the
		// application, or a clean-up path, tries again
		err = tr.Unsubscribe()
		t.Logf("second Unsubscribe returned: %v", err)
	}()
}

// The broker sends an ERROR frame (e.g. "consumer was too slow").
func TestStompUnsubscribeTwiceAfterBrokerErrorFrame(t *testing.T) {
	resubFindingRun(t, func(conn net.Conn, w *stompframe.Writer) {
		f := stompframe.New(stompframe.ERROR, stompframe.Message, "subscription terminated by broker")
		f.Body = []byte("no")
		w.Write(f)
	})
}

// The broker sends bytes that are not a STOMP frame at all.
func TestStompUnsubscribeTwiceAfterBrokerGarbage(t *testing.T) {
	resubFindingRun(t, func(conn net.Conn, w *stompframe.Writer) {
		conn.Write([]byte("\x7f\x00\x01BOGUS\nnot:stomp\n\n\x00"))
	})
}

// The broker hangs up.
func TestStompUnsubscribeTwiceAfterBrokerHangsUp(t *testing.T) {
	resubFindingRun(t, func(conn net.Conn, w *stompframe.Writer) {
		conn.Close()
	})
}

package rx

import "testing"

func TestIncludes(t *testing.T) {
	cases := []struct {
		all  []string
		by   string
		ok   bool
	}{
		{[]string{`^\w+$`, "^[A-Za-z]+[A-Za-z0-9]"}, "^[A-Za-z]+[A-Za-z0-9]", true},
		{[]string{`^\w+$`, "^[A-Za-z]+[A-Za-z0-9]"}, "^[A-Za-z][A-Za-z0-9]*$", false},
		{[]string{`^\w+$`, "^[A-Za-z]+[A-Za-z0-9]"}, "^[A-Za-z][A-Za-z0-9_]*$", true},
		{[]string{`^\w+$`, "^[A-Za-z]+[A-Za-z0-9]"}, "^[a-z]", false},
		{[]string{`^\{\w+\}$`}, `^{\w*}$`, true},
		{[]string{`^\{\w+\}$`}, `^{[a-z]*}$`, false},
		{[]string{`ab`}, `b`, true},
		{[]string{`b`}, `ab`, false},
	}
	for _, c := range cases {
		ok, w, err := Includes(c.all, c.by)
		if err != nil || ok != c.ok {
			t.Errorf("%v ⊆ %s: got %v (witness %q, err %v), want %v", c.all, c.by, ok, w, err, c.ok)
		} else {
			t.Logf("%v ⊆ %s: %v %q", c.all, c.by, ok, w)
		}
	}
}

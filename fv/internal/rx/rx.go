// Package rx decides inclusion between the sets of strings accepted by Go
// regular expressions, statically: every pattern is compiled with
// regexp/syntax to its instruction program and the programs are explored
// together (subset construction over a finite partition of the rune space).
// Semantics are those of (*regexp.Regexp).MatchString — an unanchored search
// unless the pattern anchors itself. Word-boundary assertions and multi-line
// anchors are not modelled: a pattern that uses them is reported as
// undecidable by this package, never guessed.
package rx

import (
	"fmt"
	"regexp/syntax"
	"sort"
	"strings"
)

type prog struct {
	p *syntax.Prog
}

// Compile parses a pattern the way regexp.MustCompile does (Perl syntax).
func compile(pat string) (*prog, error) {
	re, err := syntax.Parse(pat, syntax.Perl)
	if err != nil {
		return nil, err
	}
	p, err := syntax.Compile(re.Simplify())
	if err != nil {
		return nil, err
	}
	for i := range p.Inst {
		in := &p.Inst[i]
		if in.Op == syntax.InstEmptyWidth {
			if syntax.EmptyOp(in.Arg)&^(syntax.EmptyBeginText|syntax.EmptyEndText) != 0 {
				return nil, fmt.Errorf("pattern %q uses an assertion this analysis does not model (line anchor or word boundary)", pat)
			}
		}
		if (in.Op == syntax.InstRune || in.Op == syntax.InstRune1) && syntax.Flags(in.Arg)&syntax.FoldCase != 0 {
			for _, r := range in.Rune {
				if r > 0x7f {
					return nil, fmt.Errorf("pattern %q folds case outside ASCII", pat)
				}
			}
		}
	}
	return &prog{p}, nil
}

// closure of a set of program counters under the empty moves that are
// enabled at a position (begin: no rune consumed yet; end: no rune follows).
func (g *prog) closure(pcs []int, begin, end bool) (set []int, match bool) {
	seen := map[int]bool{}
	var walk func(pc int)
	walk = func(pc int) {
		if seen[pc] {
			return
		}
		seen[pc] = true
		in := &g.p.Inst[pc]
		switch in.Op {
		case syntax.InstAlt, syntax.InstAltMatch:
			walk(int(in.Out))
			walk(int(in.Arg))
		case syntax.InstCapture, syntax.InstNop:
			walk(int(in.Out))
		case syntax.InstEmptyWidth:
			op := syntax.EmptyOp(in.Arg)
			if op&syntax.EmptyBeginText != 0 && !begin {
				return
			}
			if op&syntax.EmptyEndText != 0 && !end {
				return
			}
			walk(int(in.Out))
		case syntax.InstMatch:
			match = true
		}
	}
	for _, pc := range pcs {
		walk(pc)
	}
	for pc := range seen {
		switch g.p.Inst[pc].Op {
		case syntax.InstRune, syntax.InstRune1, syntax.InstRuneAny, syntax.InstRuneAnyNotNL:
			set = append(set, pc)
		}
	}
	sort.Ints(set)
	return
}

// state of one pattern while a string is being read
type st struct {
	pcs     []int // threads waiting to consume a rune (before closure)
	matched bool  // a match has been completed already (search semantics)
	begin   bool
}

func (g *prog) start() st { return st{pcs: []int{g.p.Start}, begin: true} }

// step consumes one rune.
func (g *prog) step(s st, r rune) st {
	if s.matched {
		return st{matched: true}
	}
	cl, m := g.closure(s.pcs, s.begin, false)
	if m {
		return st{matched: true}
	}
	next := map[int]bool{}
	for _, pc := range cl {
		in := &g.p.Inst[pc]
		if in.MatchRune(r) {
			next[int(in.Out)] = true
		}
	}
	// unanchored search: a match may also start at the next position
	next[g.p.Start] = true
	out := st{}
	for pc := range next {
		out.pcs = append(out.pcs, pc)
	}
	sort.Ints(out.pcs)
	return out
}

// accepts: would MatchString return true if the text ended here?
func (g *prog) accepts(s st) bool {
	if s.matched {
		return true
	}
	_, m := g.closure(s.pcs, s.begin, true)
	return m
}

func (s st) key() string {
	return fmt.Sprint(s.pcs, s.matched, s.begin)
}

// alphabet: one representative per class of runes no instruction of the
// programs tells apart (every boundary of every range, all of ASCII, and a few
// runes beyond it).
func alphabet(ps ...*prog) []rune {
	set := map[rune]bool{'\n': true, 0x80: true, 0xff: true, 0x100: true, 0x2028: true, 0xffff: true, 0x10000: true, 0x10ffff: true}
	for r := rune(0); r < 0x80; r++ {
		set[r] = true
	}
	for _, g := range ps {
		for i := range g.p.Inst {
			for _, r := range g.p.Inst[i].Rune {
				for _, x := range []rune{r - 1, r, r + 1} {
					if x >= 0 && x <= 0x10ffff {
						set[x] = true
					}
				}
			}
		}
	}
	var out []rune
	for r := range set {
		out = append(out, r)
	}
	sort.Slice(out, func(i, j int) bool { return out[i] < out[j] })
	return out
}

// Includes decides whether every string accepted by all of the patterns in
// `all` is accepted by `by` (MatchString semantics throughout). When it is
// not, a shortest witness string is returned.
func Includes(all []string, by string) (ok bool, witness string, err error) {
	var gs []*prog
	for _, p := range all {
		g, e := compile(p)
		if e != nil {
			return false, "", e
		}
		gs = append(gs, g)
	}
	gb, e := compile(by)
	if e != nil {
		return false, "", e
	}
	alpha := alphabet(append(append([]*prog{}, gs...), gb)...)
	type node struct {
		ss   []st
		b    st
		text string
	}
	key := func(n node) string {
		var sb strings.Builder
		for _, s := range n.ss {
			sb.WriteString(s.key())
			sb.WriteByte('|')
		}
		sb.WriteString(n.b.key())
		return sb.String()
	}
	n0 := node{b: gb.start()}
	for _, g := range gs {
		n0.ss = append(n0.ss, g.start())
	}
	seen := map[string]bool{key(n0): true}
	queue := []node{n0}
	for len(queue) > 0 {
		n := queue[0]
		queue = queue[1:]
		in := true
		for i, g := range gs {
			if !g.accepts(n.ss[i]) {
				in = false
				break
			}
		}
		if in && !gb.accepts(n.b) {
			return false, n.text, nil
		}
		if len(seen) > 200000 {
			return false, "", fmt.Errorf("state space too large")
		}
		for _, r := range alpha {
			m := node{b: gb.step(n.b, r), text: n.text + string(r)}
			for i, g := range gs {
				m.ss = append(m.ss, g.step(n.ss[i], r))
			}
			k := key(m)
			if !seen[k] {
				seen[k] = true
				queue = append(queue, m)
			}
		}
	}
	return true, "", nil
}

package peg

import (
	"sort"
	"strings"
	"unicode"
	"unicode/utf8"
)

// ---- interpreter ---------------------------------------------------------------
//
// Match runs the parsing expression grammar itself (ordered choice, greedy
// repetition, syntactic predicates) over an input: the grammar is data to the
// analysis, frugal's generated parser is not executed. Actions are ignored
// (they build the model; whether a text is *accepted* is decided by the
// expressions), except that a rule whose name ends in "Error" always fails —
// those rules exist to turn "anything else" into a parse error.

type matcher struct {
	g     *Grammar
	in    []rune
	memo  map[[2]int]int // (rule index, pos) → end (-1 = fail, -2 = in progress)
	index map[string]int
	class map[*Expr]func(rune) bool
}

func newMatcher(g *Grammar, input string) *matcher {
	m := &matcher{g: g, in: []rune(input), memo: map[[2]int]int{}, index: map[string]int{}, class: map[*Expr]func(rune) bool{}}
	for i, r := range g.Rules {
		m.index[r.Name] = i
	}
	return m
}

// Match: does rule `name` match a prefix of input starting at 0, and where
// does it end? full reports whether it consumed everything.
func Match(g *Grammar, name, input string) (end int, ok, full bool) {
	m := newMatcher(g, input)
	e := m.rule(name, 0)
	return e, e >= 0, e == len(m.in)
}

func (m *matcher) rule(name string, pos int) int {
	if strings.HasSuffix(name, "Error") {
		return -1
	}
	idx, ok := m.index[name]
	if !ok {
		return -1
	}
	k := [2]int{idx, pos}
	if v, ok := m.memo[k]; ok {
		if v == -2 {
			return -1 // left recursion: fail
		}
		return v
	}
	m.memo[k] = -2
	v := m.expr(m.g.Rules[idx].Expr, pos)
	m.memo[k] = v
	return v
}

func (m *matcher) expr(e *Expr, pos int) int {
	switch e.Kind {
	case Seq:
		for _, k := range e.Kids {
			pos = m.expr(k, pos)
			if pos < 0 {
				return -1
			}
		}
		return pos
	case Choice:
		for _, k := range e.Kids {
			if p := m.expr(k, pos); p >= 0 {
				return p
			}
		}
		return -1
	case Lit:
		lit := []rune(e.Val)
		if pos+len(lit) > len(m.in) {
			return -1
		}
		for i, r := range lit {
			c := m.in[pos+i]
			if c != r && !(e.IgnoreCase && unicode.ToLower(c) == unicode.ToLower(r)) {
				return -1
			}
		}
		return pos + len(lit)
	case Class:
		if pos >= len(m.in) {
			return -1
		}
		f := m.class[e]
		if f == nil {
			f = ClassSet(e.Val)
			m.class[e] = f
		}
		c := m.in[pos]
		if f(c) || (e.IgnoreCase && (f(unicode.ToLower(c)) || f(unicode.ToUpper(c)))) {
			return pos + 1
		}
		return -1
	case Any:
		if pos >= len(m.in) {
			return -1
		}
		return pos + 1
	case Ref:
		return m.rule(e.Val, pos)
	case Opt:
		if p := m.expr(e.Kids[0], pos); p >= 0 {
			return p
		}
		return pos
	case Star, Plus:
		n := 0
		for {
			p := m.expr(e.Kids[0], pos)
			if p < 0 || p == pos {
				break
			}
			pos = p
			n++
		}
		if e.Kind == Plus && n == 0 {
			// one zero-width success still counts for +
			if p := m.expr(e.Kids[0], pos); p >= 0 {
				return p
			}
			return -1
		}
		return pos
	case And:
		if len(e.Kids) == 0 {
			return pos
		}
		if m.expr(e.Kids[0], pos) >= 0 {
			return pos
		}
		return -1
	case Not:
		if len(e.Kids) == 0 {
			return pos
		}
		if m.expr(e.Kids[0], pos) >= 0 {
			return -1
		}
		return pos
	case Label, Action:
		if len(e.Kids) == 0 {
			return pos
		}
		return m.expr(e.Kids[0], pos)
	}
	return -1
}

// ---- bounded sentence generator ---------------------------------------------------

// Sentences derives a bounded set of texts from a rule of the grammar: the
// first alternative of every sub-expression gives a base line and every other
// alternative (of choices, optionals, repetitions, character classes,
// referenced rules) is tried one position at a time. Predicates are ignored
// while generating, so the set is filtered with Match before it is used.
type Generator struct {
	g       *Grammar
	memo    map[string][]string
	active  map[string]int
	PerRule int // cap on the number of texts kept per rule
}

func NewGenerator(g *Grammar) *Generator {
	return &Generator{g: g, memo: map[string][]string{}, active: map[string]int{}, PerRule: 160}
}

func dedup(xs []string, cap int) []string {
	seen := map[string]bool{}
	var out []string
	for _, x := range xs {
		if !seen[x] {
			seen[x] = true
			out = append(out, x)
			if cap > 0 && len(out) >= cap {
				break
			}
		}
	}
	return out
}

func (gen *Generator) Rule(name string) []string {
	if v, ok := gen.memo[name]; ok {
		return v
	}
	if strings.HasSuffix(name, "Error") {
		return nil
	}
	r := gen.g.ByName[name]
	if r == nil {
		return nil
	}
	if gen.active[name] >= 2 {
		return nil // recursion bound
	}
	gen.active[name]++
	out := dedup(gen.expr(r.Expr), gen.PerRule)
	gen.active[name]--
	if gen.active[name] == 0 {
		gen.memo[name] = out
	}
	return out
}

func classSamples(e *Expr) []string {
	f := ClassSet(e.Val)
	var out []string
	for _, c := range []rune{'a', 'Z', '1', '_', '.', '-', '+', 'e', 'E', ' ', '\t', '\n', ',', ';', '*', '"', '\'', '\\', 'x'} {
		if f(c) {
			out = append(out, string(c))
		}
	}
	if len(out) > 4 {
		out = out[:4]
	}
	return out
}

func (gen *Generator) expr(e *Expr) []string {
	switch e.Kind {
	case Lit:
		return []string{e.Val}
	case Class:
		return classSamples(e)
	case Any:
		return []string{"x"}
	case Ref:
		return gen.Rule(e.Val)
	case And, Not:
		return []string{""}
	case Label, Action:
		if len(e.Kids) == 0 {
			return []string{""}
		}
		return gen.expr(e.Kids[0])
	case Choice:
		var out []string
		for _, k := range e.Kids {
			out = append(out, gen.expr(k)...)
		}
		return dedup(out, 4*gen.PerRule)
	case Opt:
		return dedup(append(gen.expr(e.Kids[0]), ""), 4*gen.PerRule)
	case Star, Plus:
		one := gen.expr(e.Kids[0])
		var out []string
		out = append(out, one...)
		if e.Kind == Star {
			out = append(out, "")
		}
		if len(one) > 0 {
			out = append(out, one[0]+one[0])
			if len(one) > 1 {
				out = append(out, one[0]+one[1], one[1]+one[0])
			}
		}
		return dedup(out, 4*gen.PerRule)
	case Seq:
		kids := make([][]string, len(e.Kids))
		for i, k := range e.Kids {
			kids[i] = gen.expr(k)
			if len(kids[i]) == 0 {
				return nil
			}
		}
		base := make([]string, len(kids))
		for i := range kids {
			base[i] = kids[i][0]
		}
		out := []string{strings.Join(base, "")}
		// one position at a time; positions take turns so that a cap further up
		// does not cut the later positions off
		for j := 1; ; j++ {
			any := false
			for i := range kids {
				if j < len(kids[i]) {
					any = true
					v := append([]string{}, base...)
					v[i] = kids[i][j]
					out = append(out, strings.Join(v, ""))
				}
			}
			if !any {
				break
			}
		}
		return dedup(out, 8*gen.PerRule)
	}
	return nil
}

// RuleNames: rule names of the grammar, sorted.
func (g *Grammar) RuleNames() []string {
	var out []string
	for _, r := range g.Rules {
		out = append(out, r.Name)
	}
	sort.Strings(out)
	return out
}

var _ = utf8.RuneError

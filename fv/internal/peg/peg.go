// Package peg reads the frugal IDL grammar twice — from the pigeon source
// (grammar.peg) and from the compiled rule table in grammar.peg.go — into one
// expression IR, and derives the facts the C10 rules need.
package peg

import (
	"fmt"
	"go/ast"
	"go/parser"
	"go/token"
	"strconv"
	"strings"
	"unicode"
)

type Kind int

const (
	Seq Kind = iota
	Choice
	Lit
	Class
	Ref
	Opt
	Star
	Plus
	And
	Not
	Any
	Label
	Action
)

type Expr struct {
	Kind       Kind
	Kids       []*Expr
	Val        string // literal text, class text, rule name, label name
	Code       string // action code (source form only) / action func name (compiled)
	IgnoreCase bool
	Line       int
}

type Rule struct {
	Name string
	Expr *Expr
	Line int
}

type Grammar struct {
	Rules  []*Rule
	ByName map[string]*Rule
	Init   string
}

func (g *Grammar) index() {
	g.ByName = map[string]*Rule{}
	for _, r := range g.Rules {
		g.ByName[r.Name] = r
	}
}

// String renders an expression structurally (actions as {…}).
func (e *Expr) String() string {
	switch e.Kind {
	case Seq:
		var p []string
		for _, k := range e.Kids {
			p = append(p, k.String())
		}
		return "(" + strings.Join(p, " ") + ")"
	case Choice:
		var p []string
		for _, k := range e.Kids {
			p = append(p, k.String())
		}
		return "(" + strings.Join(p, " / ") + ")"
	case Lit:
		s := strconv.Quote(e.Val)
		if e.IgnoreCase {
			s += "i"
		}
		return s
	case Class:
		return e.Val
	case Ref:
		return e.Val
	case Opt:
		return e.Kids[0].String() + "?"
	case Star:
		return e.Kids[0].String() + "*"
	case Plus:
		return e.Kids[0].String() + "+"
	case And:
		return "&" + e.Kids[0].String()
	case Not:
		return "!" + e.Kids[0].String()
	case Any:
		return "."
	case Label:
		return e.Val + ":" + e.Kids[0].String()
	case Action:
		return e.Kids[0].String() + " {…}"
	}
	return "?"
}

// ---- source reader (pigeon syntax) ---------------------------------------------------

type srcParser struct {
	s    []rune
	pos  int
	line int
}

func (p *srcParser) eof() bool { return p.pos >= len(p.s) }
func (p *srcParser) peek() rune {
	if p.eof() {
		return 0
	}
	return p.s[p.pos]
}
func (p *srcParser) next() rune {
	r := p.s[p.pos]
	p.pos++
	if r == '\n' {
		p.line++
	}
	return r
}

func (p *srcParser) skipWS() {
	for !p.eof() {
		r := p.peek()
		if unicode.IsSpace(r) {
			p.next()
			continue
		}
		if r == '/' && p.pos+1 < len(p.s) && p.s[p.pos+1] == '/' {
			for !p.eof() && p.peek() != '\n' {
				p.next()
			}
			continue
		}
		if r == '/' && p.pos+1 < len(p.s) && p.s[p.pos+1] == '*' {
			p.next()
			p.next()
			for !p.eof() && !(p.peek() == '*' && p.pos+1 < len(p.s) && p.s[p.pos+1] == '/') {
				p.next()
			}
			p.next()
			p.next()
			continue
		}
		break
	}
}

func isIdentStart(r rune) bool { return unicode.IsLetter(r) || r == '_' }
func isIdentPart(r rune) bool  { return unicode.IsLetter(r) || unicode.IsDigit(r) || r == '_' }

func (p *srcParser) ident() string {
	start := p.pos
	for !p.eof() && isIdentPart(p.peek()) {
		p.next()
	}
	return string(p.s[start:p.pos])
}

// codeBlock reads a balanced {...} Go block (strings/chars/comments aware).
func (p *srcParser) codeBlock() (string, error) {
	if p.peek() != '{' {
		return "", fmt.Errorf("line %d: expected '{'", p.line)
	}
	depth := 0
	start := p.pos
	for !p.eof() {
		r := p.next()
		switch r {
		case '{':
			depth++
		case '}':
			depth--
			if depth == 0 {
				return string(p.s[start+1 : p.pos-1]), nil
			}
		case '"':
			for !p.eof() {
				c := p.next()
				if c == '\\' {
					p.next()
				} else if c == '"' {
					break
				}
			}
		case '`':
			for !p.eof() && p.next() != '`' {
			}
		case '\'':
			for !p.eof() {
				c := p.next()
				if c == '\\' {
					p.next()
				} else if c == '\'' {
					break
				}
			}
		case '/':
			if p.peek() == '/' {
				for !p.eof() && p.peek() != '\n' {
					p.next()
				}
			} else if p.peek() == '*' {
				p.next()
				for !p.eof() && !(p.peek() == '*' && p.pos+1 < len(p.s) && p.s[p.pos+1] == '/') {
					p.next()
				}
				p.next()
				p.next()
			}
		}
	}
	return "", fmt.Errorf("unterminated code block")
}

func ParseSource(src string) (*Grammar, error) {
	p := &srcParser{s: []rune(src), line: 1}
	g := &Grammar{}
	p.skipWS()
	if p.peek() == '{' {
		code, err := p.codeBlock()
		if err != nil {
			return nil, err
		}
		g.Init = code
	}
	for {
		p.skipWS()
		if p.eof() {
			break
		}
		line := p.line
		name := p.ident()
		if name == "" {
			return nil, fmt.Errorf("line %d: expected rule name", p.line)
		}
		p.skipWS()
		// optional display name string
		if p.peek() == '"' {
			p.stringLit('"')
			p.skipWS()
		}
		if !(p.peek() == '<' && p.pos+1 < len(p.s) && p.s[p.pos+1] == '-') && p.peek() != '=' && p.peek() != '←' {
			return nil, fmt.Errorf("line %d: expected <- after %s", p.line, name)
		}
		if p.peek() == '<' {
			p.next()
			p.next()
		} else {
			p.next()
		}
		e, err := p.choice()
		if err != nil {
			return nil, err
		}
		g.Rules = append(g.Rules, &Rule{Name: name, Expr: e, Line: line})
	}
	g.index()
	return g, nil
}

func (p *srcParser) stringLit(q rune) string {
	p.next()
	var b strings.Builder
	for !p.eof() {
		c := p.next()
		if c == '\\' {
			d := p.next()
			switch d {
			case 'n':
				b.WriteRune('\n')
			case 't':
				b.WriteRune('\t')
			case 'r':
				b.WriteRune('\r')
			case '\\', '"', '\'':
				b.WriteRune(d)
			default:
				b.WriteRune('\\')
				b.WriteRune(d)
			}
			continue
		}
		if c == q {
			break
		}
		b.WriteRune(c)
	}
	return b.String()
}

// atRuleStart: is the parser positioned at "Name <-" (start of the next rule)?
func (p *srcParser) atRuleStart() bool {
	save, sl := p.pos, p.line
	defer func() { p.pos, p.line = save, sl }()
	if !isIdentStart(p.peek()) {
		return false
	}
	p.ident()
	p.skipWS()
	if p.peek() == '"' {
		p.stringLit('"')
		p.skipWS()
	}
	return p.peek() == '<' && p.pos+1 < len(p.s) && p.s[p.pos+1] == '-'
}

func (p *srcParser) choice() (*Expr, error) {
	var alts []*Expr
	for {
		e, err := p.actionSeq()
		if err != nil {
			return nil, err
		}
		alts = append(alts, e)
		p.skipWS()
		if p.peek() == '/' {
			p.next()
			continue
		}
		break
	}
	if len(alts) == 1 {
		return alts[0], nil
	}
	return &Expr{Kind: Choice, Kids: alts, Line: alts[0].Line}, nil
}

func (p *srcParser) actionSeq() (*Expr, error) {
	line := p.line
	var items []*Expr
	for {
		p.skipWS()
		if p.eof() || p.peek() == '/' || p.peek() == ')' || p.peek() == '{' || p.atRuleStart() {
			break
		}
		e, err := p.labeled()
		if err != nil {
			return nil, err
		}
		items = append(items, e)
	}
	var e *Expr
	switch len(items) {
	case 0:
		return nil, fmt.Errorf("line %d: empty sequence", p.line)
	case 1:
		e = items[0]
	default:
		e = &Expr{Kind: Seq, Kids: items, Line: line}
	}
	p.skipWS()
	if p.peek() == '{' {
		code, err := p.codeBlock()
		if err != nil {
			return nil, err
		}
		e = &Expr{Kind: Action, Kids: []*Expr{e}, Code: code, Line: line}
	}
	return e, nil
}

func (p *srcParser) labeled() (*Expr, error) {
	p.skipWS()
	line := p.line
	if isIdentStart(p.peek()) {
		save, sl := p.pos, p.line
		id := p.ident()
		p.skipWS()
		if p.peek() == ':' {
			p.next()
			e, err := p.prefixed()
			if err != nil {
				return nil, err
			}
			return &Expr{Kind: Label, Val: id, Kids: []*Expr{e}, Line: line}, nil
		}
		p.pos, p.line = save, sl
	}
	return p.prefixed()
}

func (p *srcParser) prefixed() (*Expr, error) {
	p.skipWS()
	line := p.line
	switch p.peek() {
	case '&':
		p.next()
		e, err := p.suffixed()
		if err != nil {
			return nil, err
		}
		return &Expr{Kind: And, Kids: []*Expr{e}, Line: line}, nil
	case '!':
		p.next()
		e, err := p.suffixed()
		if err != nil {
			return nil, err
		}
		return &Expr{Kind: Not, Kids: []*Expr{e}, Line: line}, nil
	}
	return p.suffixed()
}

func (p *srcParser) suffixed() (*Expr, error) {
	e, err := p.primary()
	if err != nil {
		return nil, err
	}
	for {
		p.skipWS()
		switch p.peek() {
		case '?':
			p.next()
			e = &Expr{Kind: Opt, Kids: []*Expr{e}, Line: e.Line}
		case '*':
			p.next()
			e = &Expr{Kind: Star, Kids: []*Expr{e}, Line: e.Line}
		case '+':
			p.next()
			e = &Expr{Kind: Plus, Kids: []*Expr{e}, Line: e.Line}
		default:
			return e, nil
		}
	}
}

func (p *srcParser) primary() (*Expr, error) {
	p.skipWS()
	line := p.line
	r := p.peek()
	switch {
	case r == '(':
		p.next()
		e, err := p.choice()
		if err != nil {
			return nil, err
		}
		p.skipWS()
		if p.peek() != ')' {
			return nil, fmt.Errorf("line %d: expected ')'", p.line)
		}
		p.next()
		return e, nil
	case r == '`':
		p.next()
		start := p.pos
		for !p.eof() && p.peek() != '`' {
			p.next()
		}
		s := string(p.s[start:p.pos])
		p.next()
		e := &Expr{Kind: Lit, Val: s, Line: line}
		if p.peek() == 'i' {
			p.next()
			e.IgnoreCase = true
		}
		return e, nil
	case r == '"' || r == '\'':
		s := p.stringLit(r)
		e := &Expr{Kind: Lit, Val: s, Line: line}
		if p.peek() == 'i' {
			p.next()
			e.IgnoreCase = true
		}
		return e, nil
	case r == '[':
		start := p.pos
		p.next()
		for !p.eof() {
			c := p.next()
			if c == '\\' {
				p.next()
				continue
			}
			if c == ']' {
				break
			}
		}
		txt := string(p.s[start:p.pos])
		e := &Expr{Kind: Class, Val: txt, Line: line}
		if p.peek() == 'i' {
			p.next()
			e.IgnoreCase = true
		}
		return e, nil
	case r == '.':
		p.next()
		return &Expr{Kind: Any, Line: line}, nil
	case isIdentStart(r):
		return &Expr{Kind: Ref, Val: p.ident(), Line: line}, nil
	}
	return nil, fmt.Errorf("line %d: unexpected %q", p.line, string(r))
}

// ---- compiled reader (grammar.peg.go rule table) ------------------------------------------

// CompiledFset is the file set of the last ParseCompiled call (for printing its nodes).
var CompiledFset *token.FileSet

func ParseCompiled(filename string, src []byte) (*Grammar, map[string]*ast.FuncDecl, error) {
	fset := token.NewFileSet()
	CompiledFset = fset
	f, err := parser.ParseFile(fset, filename, src, 0)
	if err != nil {
		return nil, nil, err
	}
	funcs := map[string]*ast.FuncDecl{}
	var table *ast.CompositeLit
	for _, d := range f.Decls {
		switch x := d.(type) {
		case *ast.FuncDecl:
			funcs[x.Name.Name] = x
		case *ast.GenDecl:
			for _, s := range x.Specs {
				vs, ok := s.(*ast.ValueSpec)
				if !ok {
					continue
				}
				for i, n := range vs.Names {
					if n.Name == "g" && i < len(vs.Values) {
						if u, ok := vs.Values[i].(*ast.UnaryExpr); ok {
							if cl, ok := u.X.(*ast.CompositeLit); ok {
								table = cl
							}
						}
					}
				}
			}
		}
	}
	if table == nil {
		return nil, nil, fmt.Errorf("rule table `var g = &grammar{…}` not found")
	}
	g := &Grammar{}
	for _, el := range table.Elts {
		kv, ok := el.(*ast.KeyValueExpr)
		if !ok || keyName(kv) != "rules" {
			continue
		}
		rules, ok := kv.Value.(*ast.CompositeLit)
		if !ok {
			continue
		}
		for _, re := range rules.Elts {
			rl, ok := re.(*ast.CompositeLit)
			if !ok {
				continue
			}
			r := &Rule{Line: fset.Position(rl.Pos()).Line}
			for _, fe := range rl.Elts {
				fkv := fe.(*ast.KeyValueExpr)
				switch keyName(fkv) {
				case "name":
					r.Name = strLit(fkv.Value)
				case "expr":
					e, err := compiledExpr(fset, fkv.Value)
					if err != nil {
						return nil, nil, fmt.Errorf("rule %s: %v", r.Name, err)
					}
					r.Expr = e
				}
			}
			g.Rules = append(g.Rules, r)
		}
	}
	g.index()
	return g, funcs, nil
}

func keyName(kv *ast.KeyValueExpr) string {
	if id, ok := kv.Key.(*ast.Ident); ok {
		return id.Name
	}
	return ""
}

func strLit(e ast.Expr) string {
	if bl, ok := e.(*ast.BasicLit); ok && bl.Kind == token.STRING {
		s, _ := strconv.Unquote(bl.Value)
		return s
	}
	return ""
}

func compiledExpr(fset *token.FileSet, e ast.Expr) (*Expr, error) {
	u, ok := e.(*ast.UnaryExpr)
	if !ok {
		return nil, fmt.Errorf("unexpected expression node %T", e)
	}
	cl, ok := u.X.(*ast.CompositeLit)
	if !ok {
		return nil, fmt.Errorf("unexpected node")
	}
	tn := ""
	if id, ok := cl.Type.(*ast.Ident); ok {
		tn = id.Name
	}
	fields := map[string]ast.Expr{}
	for _, el := range cl.Elts {
		if kv, ok := el.(*ast.KeyValueExpr); ok {
			fields[keyName(kv)] = kv.Value
		}
	}
	line := fset.Position(cl.Pos()).Line
	kids := func(name string) ([]*Expr, error) {
		lst, ok := fields[name].(*ast.CompositeLit)
		if !ok {
			return nil, fmt.Errorf("%s: missing %s", tn, name)
		}
		var out []*Expr
		for _, k := range lst.Elts {
			ke, err := compiledExpr(fset, k)
			if err != nil {
				return nil, err
			}
			out = append(out, ke)
		}
		return out, nil
	}
	one := func() ([]*Expr, error) {
		k, err := compiledExpr(fset, fields["expr"])
		if err != nil {
			return nil, err
		}
		return []*Expr{k}, nil
	}
	switch tn {
	case "seqExpr":
		ks, err := kids("exprs")
		return &Expr{Kind: Seq, Kids: ks, Line: line}, err
	case "choiceExpr":
		ks, err := kids("alternatives")
		return &Expr{Kind: Choice, Kids: ks, Line: line}, err
	case "litMatcher":
		ic := false
		if id, ok := fields["ignoreCase"].(*ast.Ident); ok && id.Name == "true" {
			ic = true
		}
		return &Expr{Kind: Lit, Val: strLit(fields["val"]), IgnoreCase: ic, Line: line}, nil
	case "charClassMatcher":
		ic := false
		if id, ok := fields["ignoreCase"].(*ast.Ident); ok && id.Name == "true" {
			ic = true
		}
		return &Expr{Kind: Class, Val: strLit(fields["val"]), IgnoreCase: ic, Line: line, Code: classDetails(fields)}, nil
	case "ruleRefExpr":
		return &Expr{Kind: Ref, Val: strLit(fields["name"]), Line: line}, nil
	case "zeroOrOneExpr":
		ks, err := one()
		return &Expr{Kind: Opt, Kids: ks, Line: line}, err
	case "zeroOrMoreExpr":
		ks, err := one()
		return &Expr{Kind: Star, Kids: ks, Line: line}, err
	case "oneOrMoreExpr":
		ks, err := one()
		return &Expr{Kind: Plus, Kids: ks, Line: line}, err
	case "andExpr":
		ks, err := one()
		return &Expr{Kind: And, Kids: ks, Line: line}, err
	case "notExpr":
		ks, err := one()
		return &Expr{Kind: Not, Kids: ks, Line: line}, err
	case "anyMatcher":
		return &Expr{Kind: Any, Line: line}, nil
	case "labeledExpr":
		ks, err := one()
		return &Expr{Kind: Label, Val: strLit(fields["label"]), Kids: ks, Line: line}, err
	case "actionExpr":
		ks, err := one()
		run := ""
		if sel, ok := fields["run"].(*ast.SelectorExpr); ok {
			run = sel.Sel.Name
		}
		return &Expr{Kind: Action, Kids: ks, Code: run, Line: line}, err
	}
	return nil, fmt.Errorf("unknown expression type %s", tn)
}

// classDetails renders chars/ranges/inverted of a compiled char class for consistency checks.
func classDetails(fields map[string]ast.Expr) string {
	var parts []string
	for _, k := range []string{"chars", "ranges"} {
		if cl, ok := fields[k].(*ast.CompositeLit); ok {
			var rs []string
			for _, e := range cl.Elts {
				if bl, ok := e.(*ast.BasicLit); ok {
					rs = append(rs, bl.Value)
				}
			}
			parts = append(parts, k+"="+strings.Join(rs, ""))
		}
	}
	if id, ok := fields["inverted"].(*ast.Ident); ok {
		parts = append(parts, "inverted="+id.Name)
	}
	return strings.Join(parts, ";")
}

// ClassSet expands a char-class text like [A-Za-z0-9_.] to a predicate.
func ClassSet(text string) func(r rune) bool {
	body := []rune(strings.TrimSuffix(strings.TrimPrefix(text, "["), "]"))
	inv := false
	if len(body) > 0 && body[0] == '^' {
		inv = true
		body = body[1:]
	}
	type rg struct{ lo, hi rune }
	var rgs []rg
	for i := 0; i < len(body); i++ {
		c := body[i]
		if c == '\\' && i+1 < len(body) {
			i++
			switch body[i] {
			case 'n':
				c = '\n'
			case 't':
				c = '\t'
			case 'r':
				c = '\r'
			default:
				c = body[i]
			}
		}
		if i+2 < len(body) && body[i+1] == '-' {
			hi := body[i+2]
			rgs = append(rgs, rg{c, hi})
			i += 2
			continue
		}
		rgs = append(rgs, rg{c, c})
	}
	return func(r rune) bool {
		in := false
		for _, x := range rgs {
			if r >= x.lo && r <= x.hi {
				in = true
			}
		}
		return in != inv
	}
}

// Package core holds the obligation/evidence/report machinery shared by all
// rules. A rule instantiates obligations keyed by property/rule/construct
// (never by line); a check passes iff every obligation is discharged or is a
// listed known finding, every rule reached its confirmed minimum instance
// count and the loader saw what it was supposed to see.
package core

import (
	"encoding/json"
	"fmt"
	"os"
	"path/filepath"
	"regexp"
	"sort"
	"strconv"
	"strings"
	"time"
)

const (
	Discharged = "discharged"
	Violated   = "violated"
	Undecided  = "undecided"
)

type Obligation struct {
	Property  string   `json:"property"`
	Rule      string   `json:"rule"`
	Construct string   `json:"construct"`
	Status    string   `json:"status"`
	Pos       string   `json:"pos,omitempty"`
	How       string   `json:"how,omitempty"`    // how it was discharged
	Detail    string   `json:"detail,omitempty"` // why it is violated / undecided
	Path      []string `json:"path,omitempty"`
}

func (o *Obligation) Key() string { return o.Property + "/" + o.Rule + "/" + o.Construct }

type KnownFinding struct {
	Property  string `json:"property"`
	Rule      string `json:"rule"`
	Construct string `json:"construct"`
	WhatFails string `json:"what_fails"`
	Status    string `json:"status"` // "known" | "fixed"
	Commit    string `json:"commit,omitempty"`
}

type Ctx struct {
	Prop        string
	Tier        string
	Seed        int64
	VerifDir    string
	RepoDir     string
	Start       time.Time
	Obls        []*Obligation
	seen        map[string]*Obligation
	minInst     map[string]int
	ruleDoc     map[string]string
	Assumptions []string
	assumeSeen  map[string]bool
	Stats       map[string]int
	Notes       []string
	Configs     []string
	Explanation string
	Selftests   []map[string]interface{}
	loadErrs    []string
	// borrow: while a rule function of ANOTHER property runs on behalf of this
	// one, only the rules named here are kept, under the id they map to.
	borrow map[string]string
}

// Borrow runs f (the check function of another property) and keeps, of
// everything it reports, only the obligations of the rules listed in m, renamed
// to the mapped ids of this property. A necessary condition that two properties
// share (the header decoder accepting every well-formed block is part of the
// wire layout AND of context propagation) is then decided by the one
// implementation under both properties.
func (c *Ctx) Borrow(m map[string]string, doc map[string]string, min map[string]int, f func()) {
	if c.borrow != nil {
		return // no borrowing on behalf of a borrower
	}
	expl := c.Explanation
	c.borrow = m
	f()
	c.borrow = nil
	c.Explanation = expl
	for id, d := range doc {
		c.ruleDoc[id] = d
		c.minInst[id] = min[id]
	}
}

func NewCtx(prop, tier string) *Ctx {
	seed, _ := strconv.ParseInt(os.Getenv("VERIF_SEED"), 10, 64)
	verif := os.Getenv("FV_VERIF")
	if verif == "" {
		verif = "/verif"
	}
	repo := os.Getenv("FV_REPO")
	if repo == "" {
		repo = "/repo"
	}
	return &Ctx{Prop: prop, Tier: tier, Seed: seed, VerifDir: verif, RepoDir: repo,
		Start: time.Now(), seen: map[string]*Obligation{}, minInst: map[string]int{},
		ruleDoc: map[string]string{}, assumeSeen: map[string]bool{}, Stats: map[string]int{}}
}

// Rule declares a rule with its documentation and the minimum number of
// instances confirmed by hand on the pinned tree.
func (c *Ctx) Rule(rule, doc string, min int) {
	if c.borrow != nil {
		return
	}
	c.ruleDoc[rule] = doc
	c.minInst[rule] = min
}

func (c *Ctx) add(o *Obligation) *Obligation {
	if c.borrow != nil {
		to, ok := c.borrow[o.Rule]
		if !ok {
			return o
		}
		o.Construct = o.Rule + " " + o.Construct
		o.Rule = to
	}
	o.Property = c.Prop
	// the same construct may be visited under several build configurations:
	// keep the worst status.
	if p, ok := c.seen[o.Key()]; ok {
		if rank(o.Status) > rank(p.Status) {
			*p = *o
		}
		return p
	}
	c.seen[o.Key()] = o
	c.Obls = append(c.Obls, o)
	return o
}

func rank(s string) int {
	switch s {
	case Discharged:
		return 0
	case Undecided:
		return 1
	}
	return 2
}

func (c *Ctx) Discharge(rule, construct, pos, how string) {
	c.add(&Obligation{Rule: rule, Construct: construct, Status: Discharged, Pos: c.rel(pos), How: how})
}

func (c *Ctx) Violate(rule, construct, pos, detail string, path ...string) {
	c.add(&Obligation{Rule: rule, Construct: construct, Status: Violated, Pos: c.rel(pos), Detail: detail, Path: path})
}

func (c *Ctx) Undecided(rule, construct, pos, detail string) {
	c.add(&Obligation{Rule: rule, Construct: construct, Status: Undecided, Pos: c.rel(pos), Detail: detail})
}

// Check is shorthand: discharge when ok, violate otherwise.
func (c *Ctx) Check(ok bool, rule, construct, pos, how, detail string) bool {
	if ok {
		c.Discharge(rule, construct, pos, how)
	} else {
		c.Violate(rule, construct, pos, detail)
	}
	return ok
}

// Unresolved reports an anchor that could not be found: the role moved or
// disappeared. It fails the check (never a vacuous pass) but says so.
func (c *Ctx) Unresolved(rule, anchor, detail string) {
	c.add(&Obligation{Rule: rule, Construct: "anchor " + anchor, Status: Undecided,
		Detail: "unresolved anchor: " + detail})
}

func (c *Ctx) Assume(s string) {
	if !c.assumeSeen[s] {
		c.assumeSeen[s] = true
		c.Assumptions = append(c.Assumptions, s)
	}
}

func (c *Ctx) Stat(k string, n int) { c.Stats[k] += n }
func (c *Ctx) Note(format string, a ...interface{}) {
	c.Notes = append(c.Notes, fmt.Sprintf(format, a...))
}
func (c *Ctx) LoadError(s string) { c.loadErrs = append(c.loadErrs, s) }

func (c *Ctx) rel(pos string) string {
	return strings.TrimPrefix(pos, c.RepoDir+"/")
}

var unsafeKey = regexp.MustCompile(`[^A-Za-z0-9_.-]+`)

func (c *Ctx) loadKnown() ([]KnownFinding, error) {
	b, err := os.ReadFile(filepath.Join(c.VerifDir, "known_findings.json"))
	if err != nil {
		if os.IsNotExist(err) {
			return nil, nil
		}
		return nil, err
	}
	var k []KnownFinding
	if err := json.Unmarshal(b, &k); err != nil {
		return nil, err
	}
	return k, nil
}

// Finish prints the verdict lines, writes evidence and reports, and returns
// the process exit code.
func (c *Ctx) Finish() int {
	known, kerr := c.loadKnown()
	if kerr != nil {
		fmt.Printf("fv: cannot read known_findings.json: %v\n", kerr)
		return 2
	}
	knownSet := map[string]KnownFinding{}
	for _, k := range known {
		if k.Status == "known" && k.Property == c.Prop {
			knownSet[k.Property+"/"+k.Rule+"/"+k.Construct] = k
		}
	}
	for _, e := range c.loadErrs {
		c.add(&Obligation{Rule: "LOAD", Construct: e, Status: Undecided, Detail: "load failure: " + e})
	}
	// instance counts per rule
	counts := map[string]int{}
	for _, o := range c.Obls {
		counts[o.Rule]++
	}
	var rules []string
	for r := range c.minInst {
		rules = append(rules, r)
	}
	sort.Strings(rules)
	for _, r := range rules {
		// The count confirmed by hand guards against a rule that silently lost its subjects.
		// Clean-ups legitimately merge duplicated sites (three struct literals become one
		// constructor, five error returns become one), so the floor is half of the confirmed
		// count (at least one): a vacuous or largely blinded rule still fails.
		floor := (c.minInst[r] + 1) / 2
		if counts[r] < floor {
			c.add(&Obligation{Rule: r, Construct: "min_instances", Status: Undecided,
				Detail: fmt.Sprintf("rule matched %d instance(s); %d were confirmed by hand on the pinned tree (floor %d) — the rule lost its subjects (anchor moved?) and must not pass vacuously", counts[r], c.minInst[r], floor)})
			counts[r]++
		}
	}
	sort.SliceStable(c.Obls, func(i, j int) bool { return c.Obls[i].Key() < c.Obls[j].Key() })

	repDir := filepath.Join(c.VerifDir, "reports", c.Prop)
	os.RemoveAll(repDir)
	nviol, ndis, nknown := 0, 0, 0
	var lines []string
	for _, o := range c.Obls {
		switch o.Status {
		case Discharged:
			ndis++
			continue
		}
		if k, ok := knownSet[o.Key()]; ok {
			nknown++
			lines = append(lines, fmt.Sprintf("KNOWN-FINDING: property=%s rule=%s construct=%q %s", c.Prop, o.Rule, o.Construct, k.WhatFails))
			continue
		}
		nviol++
		os.MkdirAll(repDir, 0o755)
		name := unsafeKey.ReplaceAllString(o.Rule+"_"+o.Construct, "_")
		if len(name) > 120 {
			name = name[:120]
		}
		p := filepath.Join(repDir, name+".json")
		rep := map[string]interface{}{
			"property": c.Prop, "rule": o.Rule, "rule_doc": c.ruleDoc[o.Rule], "construct": o.Construct,
			"status": o.Status, "pos": o.Pos, "detail": o.Detail, "path": o.Path, "key": o.Key(),
			"tier": c.Tier, "repo": c.RepoDir,
		}
		b, _ := json.MarshalIndent(rep, "", " ")
		os.WriteFile(p, b, 0o644)
		lines = append(lines, fmt.Sprintf("VIOLATION property=%s replay=%s", c.Prop, p))
		lines = append(lines, fmt.Sprintf("  rule=%s status=%s at %s: %s — %s", o.Rule, o.Status, o.Pos, o.Construct, o.Detail))
	}
	// evidence
	var samples []interface{}
	perRule := map[string]int{}
	for _, o := range c.Obls {
		perRule[o.Rule]++
		if len(samples) < 400 {
			s := map[string]interface{}{"rule": o.Rule, "construct": o.Construct, "status": o.Status, "pos": o.Pos}
			if o.How != "" {
				s["how"] = o.How
			}
			if o.Detail != "" {
				s["detail"] = o.Detail
			}
			samples = append(samples, s)
		}
	}
	rulesDoc := map[string]interface{}{}
	for r, d := range c.ruleDoc {
		rulesDoc[r] = map[string]interface{}{"doc": d, "instances": perRule[r], "min_instances": c.minInst[r]}
	}
	cov := map[string]interface{}{
		"explanation":    c.Explanation,
		"obligations":    len(c.Obls),
		"discharged":     ndis,
		"known_findings": nknown,
		"rules":          rulesDoc,
		"samples":        samples,
		"stats":          c.Stats,
		"build_configs":  c.Configs,
		"notes":          c.Notes,
		"exhaustive":     true,
		"checker_cmd":    fmt.Sprintf("bin/fv check -prop %s -tier %s", c.Prop, c.Tier),
	}
	if len(c.Selftests) > 0 {
		cov["detection_selftest"] = c.Selftests
	}
	if c.Assumptions == nil {
		c.Assumptions = []string{}
	}
	ev := map[string]interface{}{
		"property_id": c.Prop, "tier": c.Tier, "seed": c.Seed, "level": "other",
		"coverage": cov, "assumptions": c.Assumptions,
		"wall_s": time.Since(c.Start).Seconds(), "violations": nviol,
	}
	os.MkdirAll(filepath.Join(c.VerifDir, "evidence"), 0o755)
	b, _ := json.MarshalIndent(ev, "", " ")
	if err := os.WriteFile(filepath.Join(c.VerifDir, "evidence", c.Prop+".json"), b, 0o644); err != nil {
		fmt.Printf("fv: cannot write evidence: %v\n", err)
		return 2
	}
	for _, l := range lines {
		fmt.Println(l)
	}
	fmt.Printf("fv: %s tier=%s obligations=%d discharged=%d known=%d violations=%d rules=%d wall=%.1fs\n",
		c.Prop, c.Tier, len(c.Obls), ndis, nknown, nviol, len(c.ruleDoc), time.Since(c.Start).Seconds())
	if nviol > 0 {
		return 1
	}
	return 0
}

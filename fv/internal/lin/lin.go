// Package lin: linear integer inequalities and a Fourier–Motzkin feasibility
// test (over the rationals, with integer tightening of constants). A set of
// constraints that FM finds infeasible has no integer solution; "feasible or
// unknown" is the conservative answer.
package lin

import (
	"fmt"
	"math/big"
	"sort"
	"strings"
)

// Term is c0 + Σ c_v·v with integer coefficients.
type Term struct {
	C  *big.Int
	Vs map[string]*big.Int
}

func Const(n int64) Term { return Term{C: big.NewInt(n), Vs: map[string]*big.Int{}} }
func ConstBig(n *big.Int) Term {
	return Term{C: new(big.Int).Set(n), Vs: map[string]*big.Int{}}
}
func Var(name string) Term {
	return Term{C: big.NewInt(0), Vs: map[string]*big.Int{name: big.NewInt(1)}}
}

func (t Term) clone() Term {
	n := Term{C: new(big.Int).Set(t.C), Vs: map[string]*big.Int{}}
	for k, v := range t.Vs {
		n.Vs[k] = new(big.Int).Set(v)
	}
	return n
}

func (t Term) Add(u Term) Term {
	n := t.clone()
	n.C.Add(n.C, u.C)
	for k, v := range u.Vs {
		if c, ok := n.Vs[k]; ok {
			c.Add(c, v)
			if c.Sign() == 0 {
				delete(n.Vs, k)
			}
		} else {
			n.Vs[k] = new(big.Int).Set(v)
		}
	}
	return n
}

func (t Term) Scale(k int64) Term {
	n := Term{C: new(big.Int).Mul(t.C, big.NewInt(k)), Vs: map[string]*big.Int{}}
	if k == 0 {
		return n
	}
	for v, c := range t.Vs {
		n.Vs[v] = new(big.Int).Mul(c, big.NewInt(k))
	}
	return n
}

func (t Term) Sub(u Term) Term { return t.Add(u.Scale(-1)) }
func (t Term) AddConst(n int64) Term {
	r := t.clone()
	r.C.Add(r.C, big.NewInt(n))
	return r
}

func (t Term) IsConst() bool { return len(t.Vs) == 0 }

func (t Term) String() string {
	var ks []string
	for k := range t.Vs {
		ks = append(ks, k)
	}
	sort.Strings(ks)
	var parts []string
	for _, k := range ks {
		c := t.Vs[k]
		switch {
		case c.Cmp(big.NewInt(1)) == 0:
			parts = append(parts, k)
		case c.Cmp(big.NewInt(-1)) == 0:
			parts = append(parts, "-"+k)
		default:
			parts = append(parts, c.String()+"·"+k)
		}
	}
	if t.C.Sign() != 0 || len(parts) == 0 {
		parts = append(parts, t.C.String())
	}
	return strings.Join(parts, " + ")
}

// Ineq means T ≥ 0.
type Ineq struct {
	T   Term
	Why string
}

func GE(a, b Term, why string) Ineq { return Ineq{a.Sub(b), why} }              // a ≥ b
func LE(a, b Term, why string) Ineq { return Ineq{b.Sub(a), why} }              // a ≤ b
func GT(a, b Term, why string) Ineq { return Ineq{a.Sub(b).AddConst(-1), why} } // a > b  (integers)
func LT(a, b Term, why string) Ineq { return Ineq{b.Sub(a).AddConst(-1), why} } // a < b

func (i Ineq) String() string { return i.T.String() + " ≥ 0" }

// Negate returns the integer negation of T ≥ 0, i.e. T ≤ -1.
func (i Ineq) Negate() Ineq { return Ineq{i.T.Scale(-1).AddConst(-1), "¬(" + i.Why + ")"} }

func normalise(t Term) Term {
	// divide by gcd of variable coefficients, flooring the constant
	g := new(big.Int)
	for _, c := range t.Vs {
		g.GCD(nil, nil, g, new(big.Int).Abs(c))
	}
	if g.Sign() == 0 || g.Cmp(big.NewInt(1)) == 0 {
		return t
	}
	n := Term{C: new(big.Int), Vs: map[string]*big.Int{}}
	for k, c := range t.Vs {
		n.Vs[k] = new(big.Int).Quo(c, g)
	}
	// floor division for the constant: T ≥ 0 ⇔ Σ(c/g)v + C/g ≥ 0 ⇒ (integers) Σ(c/g)v + floor(C/g) ≥ 0
	q, m := new(big.Int).DivMod(t.C, g, new(big.Int))
	_ = m
	n.C = q
	return n
}

func key(t Term) string { return t.String() }

// Feasible reports whether the conjunction may have an integer solution.
// false is definitive (no solution); true means "feasible or unknown".
func Feasible(cs []Ineq) bool {
	cur := make([]Term, 0, len(cs))
	seen := map[string]bool{}
	add := func(list []Term, t Term) ([]Term, bool) {
		t = normalise(t)
		if t.IsConst() {
			if t.C.Sign() < 0 {
				return list, false
			}
			return list, true
		}
		k := key(t)
		if seen[k] {
			return list, true
		}
		seen[k] = true
		return append(list, t), true
	}
	for _, c := range cs {
		var ok bool
		cur, ok = add(cur, c.T)
		if !ok {
			return false
		}
	}
	for iter := 0; iter < 64; iter++ {
		// choose the variable with the fewest pos×neg combinations
		count := map[string][2]int{}
		for _, t := range cur {
			for v, c := range t.Vs {
				x := count[v]
				if c.Sign() > 0 {
					x[0]++
				} else {
					x[1]++
				}
				count[v] = x
			}
		}
		if len(count) == 0 {
			return true
		}
		best, bestCost := "", -1
		var names []string
		for v := range count {
			names = append(names, v)
		}
		sort.Strings(names)
		for _, v := range names {
			c := count[v]
			cost := c[0]*c[1] - c[0] - c[1]
			if bestCost == -1 || cost < bestCost {
				best, bestCost = v, cost
			}
		}
		var pos, neg, rest []Term
		for _, t := range cur {
			c, ok := t.Vs[best]
			switch {
			case !ok:
				rest = append(rest, t)
			case c.Sign() > 0:
				pos = append(pos, t)
			default:
				neg = append(neg, t)
			}
		}
		seen = map[string]bool{}
		next := make([]Term, 0, len(rest)+len(pos)*len(neg))
		for _, t := range rest {
			var ok bool
			next, ok = add(next, t)
			if !ok {
				return false
			}
		}
		if len(pos)*len(neg) > 4000 {
			return true // give up: unknown
		}
		for _, p := range pos {
			for _, n := range neg {
				// p: a·x + P ≥ 0 (a>0), n: -b·x + N ≥ 0 (b>0) ⇒ b·P + a·N ≥ 0
				a := p.Vs[best]
				b := new(big.Int).Neg(n.Vs[best])
				comb := Term{C: new(big.Int), Vs: map[string]*big.Int{}}
				comb.C.Add(new(big.Int).Mul(b, p.C), new(big.Int).Mul(a, n.C))
				for v, c := range p.Vs {
					if v == best {
						continue
					}
					comb.Vs[v] = new(big.Int).Mul(b, c)
				}
				for v, c := range n.Vs {
					if v == best {
						continue
					}
					if e, ok := comb.Vs[v]; ok {
						e.Add(e, new(big.Int).Mul(a, c))
						if e.Sign() == 0 {
							delete(comb.Vs, v)
						}
					} else {
						comb.Vs[v] = new(big.Int).Mul(a, c)
					}
				}
				var ok bool
				next, ok = add(next, comb)
				if !ok {
					return false
				}
			}
		}
		cur = next
		if len(cur) > 6000 {
			return true
		}
	}
	return true
}

// Entails: do the facts entail goal (over the integers)?
func Entails(facts []Ineq, goal Ineq) bool {
	cs := append(append([]Ineq{}, facts...), goal.Negate())
	return !Feasible(cs)
}

func Describe(facts []Ineq) string {
	var s []string
	for _, f := range facts {
		s = append(s, fmt.Sprintf("%s  [%s]", f.String(), f.Why))
	}
	return strings.Join(s, "; ")
}

// Subst replaces variables of t: a variable in m by its term, any other
// variable by rename(name).
func Subst(t Term, m map[string]Term, rename func(string) string) Term {
	out := ConstBig(t.C)
	for v, c := range t.Vs {
		var rep Term
		if r, ok := m[v]; ok {
			rep = r
		} else {
			rep = Var(rename(v))
		}
		// rep scaled by c
		sc := Term{C: new(big.Int).Mul(rep.C, c), Vs: map[string]*big.Int{}}
		for rv, rc := range rep.Vs {
			sc.Vs[rv] = new(big.Int).Mul(rc, c)
		}
		out = out.Add(sc)
	}
	return out
}

package ssax

import (
	"fmt"
	"go/token"
	"go/types"
	"sort"
	"strings"

	"golang.org/x/tools/go/ssa"
)

// ---- lockset (A4) ---------------------------------------------------------

// LockSet maps lock key -> mode ('W' exclusive, 'R' shared).
type LockSet map[string]byte

func (l LockSet) clone() LockSet {
	n := LockSet{}
	for k, v := range l {
		n[k] = v
	}
	return n
}

func (l LockSet) Keys() []string {
	var ks []string
	for k, m := range l {
		ks = append(ks, k+":"+string(m))
	}
	sort.Strings(ks)
	return ks
}

// Holds reports whether a lock whose key ends with suffix is held (write
// mode required when write is true).
func (l LockSet) Holds(suffix string, write bool) bool {
	for k, m := range l {
		if k == suffix || strings.HasSuffix(k, "."+suffix) {
			if !write || m == 'W' {
				return true
			}
		}
	}
	return false
}

func meet(a, b LockSet) LockSet {
	n := LockSet{}
	for k, m := range a {
		if m2, ok := b[k]; ok {
			if m == 'R' || m2 == 'R' {
				n[k] = 'R'
			} else {
				n[k] = 'W'
			}
		}
	}
	return n
}

func equal(a, b LockSet) bool {
	if len(a) != len(b) {
		return false
	}
	for k, m := range a {
		if b[k] != m {
			return false
		}
	}
	return true
}

// LockOp classifies a call as a mutex operation: returns key and one of
// "Lock","RLock","Unlock","RUnlock", or "".
func LockOp(c Call) (key, op string) {
	if c.Static == nil {
		return "", ""
	}
	fn := c.FullName()
	switch fn {
	case "(*sync.Mutex).Lock", "(*sync.RWMutex).Lock":
		op = "Lock"
	case "(*sync.RWMutex).RLock":
		op = "RLock"
	case "(*sync.Mutex).Unlock", "(*sync.RWMutex).Unlock":
		op = "Unlock"
	case "(*sync.RWMutex).RUnlock":
		op = "RUnlock"
	default:
		return "", ""
	}
	if len(c.Common.Args) == 0 {
		return "", ""
	}
	k := AddrKey(c.Common.Args[0])
	// a mutex pointer loaded from a field names the same lock as the field
	k = strings.TrimSuffix(k, "^")
	return k, op
}

// LockSets computes, for every instruction of fn, the set of locks that are
// held on every path reaching it (must-analysis). `defer mu.Unlock()` keeps
// the lock to the function exits. entry is the lockset assumed at entry.
func LockSets(fn *ssa.Function, entry LockSet) map[ssa.Instruction]LockSet {
	if entry == nil {
		entry = LockSet{}
	}
	in := map[*ssa.BasicBlock]LockSet{}
	out := map[*ssa.BasicBlock]LockSet{}
	res := map[ssa.Instruction]LockSet{}
	if len(fn.Blocks) == 0 {
		return res
	}
	transfer := func(b *ssa.BasicBlock, s LockSet, record bool) LockSet {
		s = s.clone()
		for _, i := range b.Instrs {
			if record {
				res[i] = s.clone()
			}
			c, ok := AsCall(i)
			if !ok {
				continue
			}
			if _, isDefer := i.(*ssa.Defer); isDefer {
				continue
			}
			if _, isGo := i.(*ssa.Go); isGo {
				continue
			}
			k, op := LockOp(c)
			switch op {
			case "Lock":
				s[k] = 'W'
			case "RLock":
				s[k] = 'R'
			case "Unlock", "RUnlock":
				delete(s, k)
			}
		}
		return s
	}
	in[fn.Blocks[0]] = entry
	changed := true
	for iter := 0; changed && iter < 100; iter++ {
		changed = false
		for _, b := range fn.Blocks {
			var s LockSet
			if b == fn.Blocks[0] {
				s = entry
			} else {
				first := true
				for _, p := range b.Preds {
					po, ok := out[p]
					if !ok {
						continue // not yet computed: optimistic
					}
					if first {
						s = po.clone()
						first = false
					} else {
						s = meet(s, po)
					}
				}
				if s == nil {
					continue
				}
			}
			in[b] = s
			o := transfer(b, s, false)
			if old, ok := out[b]; !ok || !equal(old, o) {
				out[b] = o
				changed = true
			}
		}
	}
	for _, b := range fn.Blocks {
		if s, ok := in[b]; ok {
			transfer(b, s, true)
		}
	}
	return res
}

// ---- blocking operations (A5) ---------------------------------------------

// Blocking classifies an instruction as an operation that can wait for
// another goroutine indefinitely. Sends/receives that are communications of
// a select with a default are not blocking (they are part of the Select).
func Blocking(in ssa.Instruction) (string, bool) {
	switch x := in.(type) {
	case *ssa.Send:
		return "channel send " + AddrKey(x.Chan) + " <- …", true
	case *ssa.UnOp:
		if x.Op == token.ARROW {
			return "channel receive <-" + AddrKey(x.X), true
		}
	case *ssa.Select:
		if x.Blocking {
			return "select without default", true
		}
	case *ssa.Call:
		c, _ := AsCall(in)
		switch c.FullName() {
		case "(*sync.WaitGroup).Wait", "(*sync.Cond).Wait", "time.Sleep":
			return "call " + c.FullName(), true
		}
	}
	return "", false
}

// MayBlock computes, for the functions of pkg, whether a blocking operation
// is reachable through static and package-internal interface calls
// (interface calls are resolved to every implementer in pkg — CHA).
type BlockInfo struct {
	Direct map[*ssa.Function][]ssa.Instruction
	Reach  map[*ssa.Function]*ssa.Function // fn -> next function on a path to a blocking op (itself if direct)
}

func ComputeBlocking(fns []*ssa.Function, resolve func(Call) []*ssa.Function) *BlockInfo {
	bi := &BlockInfo{Direct: map[*ssa.Function][]ssa.Instruction{}, Reach: map[*ssa.Function]*ssa.Function{}}
	for _, f := range fns {
		Instrs(f, func(in ssa.Instruction) {
			if _, ok := Blocking(in); ok {
				bi.Direct[f] = append(bi.Direct[f], in)
			}
		})
		if len(bi.Direct[f]) > 0 {
			bi.Reach[f] = f
		}
	}
	changed := true
	for changed {
		changed = false
		for _, f := range fns {
			if bi.Reach[f] != nil {
				continue
			}
			for _, c := range Calls(f) {
				if _, isGo := c.Instr.(*ssa.Go); isGo {
					continue
				}
				for _, callee := range resolve(c) {
					if bi.Reach[callee] != nil {
						bi.Reach[f] = callee
						changed = true
					}
				}
			}
		}
	}
	return bi
}

// Chain renders the call chain from f to the blocking operation.
func (bi *BlockInfo) Chain(f *ssa.Function) string {
	var parts []string
	for i := 0; i < 20 && f != nil; i++ {
		parts = append(parts, Name(f))
		n := bi.Reach[f]
		if n == f || n == nil {
			if d := bi.Direct[f]; len(d) > 0 {
				desc, _ := Blocking(d[0])
				parts = append(parts, desc)
			}
			break
		}
		f = n
	}
	return strings.Join(parts, " → ")
}

// Resolver builds a call resolver for one package: static callees, and for
// interface invocations every method of a type declared in pkg that
// implements the interface.
func Resolver(pkg *ssa.Package) func(Call) []*ssa.Function {
	type ck struct {
		t types.Type
		m string
	}
	cache := map[ck][]*ssa.Function{}
	return func(c Call) []*ssa.Function {
		if c.Static != nil {
			if c.Static.Pkg == pkg || (c.Static.Parent() != nil) {
				return []*ssa.Function{c.Static}
			}
			return nil
		}
		// closure value called directly
		if mc, ok := c.Common.Value.(*ssa.MakeClosure); ok {
			return []*ssa.Function{mc.Fn.(*ssa.Function)}
		}
		if c.Method == nil {
			return nil
		}
		// resolve against the static interface type of the receiver value (more
		// precise than the interface that declares the method, e.g. io.Closer)
		it := c.Common.Value.Type()
		k := ck{it, c.Method.Name()}
		if r, ok := cache[k]; ok {
			return r
		}
		var out []*ssa.Function
		if iface, ok := it.Underlying().(*types.Interface); ok {
			for _, f := range Implementers(pkg, iface, c.Method.Name()) {
				if f.Pkg == pkg {
					out = append(out, f)
				}
			}
		}
		cache[k] = out
		return out
	}
}

// Cone returns the functions reachable from entries through resolve,
// excluding go-spawned callees when followGo is false.
func Cone(entries []*ssa.Function, resolve func(Call) []*ssa.Function, followGo bool) []*ssa.Function {
	seen := map[*ssa.Function]bool{}
	var order []*ssa.Function
	var walk func(f *ssa.Function)
	walk = func(f *ssa.Function) {
		if f == nil || seen[f] || f.Blocks == nil {
			return
		}
		seen[f] = true
		order = append(order, f)
		for _, c := range Calls(f) {
			if _, isGo := c.Instr.(*ssa.Go); isGo && !followGo {
				continue
			}
			for _, cal := range resolve(c) {
				walk(cal)
			}
		}
		// closures created here may be called later: include them
		Instrs(f, func(in ssa.Instruction) {
			if mc, ok := in.(*ssa.MakeClosure); ok {
				// only if it is not exclusively go-spawned
				spawnedOnly := true
				if refs := mc.Referrers(); refs != nil {
					for _, r := range *refs {
						if g, ok := r.(*ssa.Go); ok && g.Call.Value == mc {
							continue
						}
						spawnedOnly = false
					}
				}
				if !spawnedOnly || followGo {
					walk(mc.Fn.(*ssa.Function))
				}
			}
		})
	}
	for _, e := range entries {
		walk(e)
	}
	return order
}

// LockLeak describes a lock that may still be held when a function returns.
type LockLeak struct {
	Key    string
	Return *ssa.Return
	Path   []*ssa.BasicBlock
}

// LeakedLocks runs a may-hold analysis (union at joins) and reports every
// lock acquired in fn that can still be held at a normal return and is not
// released by a deferred unlock executed on that path. A function whose
// every path ends with the lock held (a deliberate "lock and return" helper)
// is reported too — callers whitelist such helpers by name.
func LeakedLocks(fn *ssa.Function) []LockLeak {
	type state struct {
		held     map[string]bool
		deferred map[string]bool
	}
	clone := func(s state) state {
		n := state{map[string]bool{}, map[string]bool{}}
		for k := range s.held {
			n.held[k] = true
		}
		for k := range s.deferred {
			n.deferred[k] = true
		}
		return n
	}
	// path-sensitive enough: explore per-block states as sets of (held,deferred) with a bound
	type key struct {
		b *ssa.BasicBlock
		s string
	}
	enc := func(s state) string {
		var ks []string
		for k := range s.held {
			ks = append(ks, "h:"+k)
		}
		for k := range s.deferred {
			ks = append(ks, "d:"+k)
		}
		sort.Strings(ks)
		return strings.Join(ks, ",")
	}
	var leaks []LockLeak
	seenLeak := map[string]bool{}
	seen := map[key]bool{}
	type item struct {
		b    *ssa.BasicBlock
		s    state
		path []*ssa.BasicBlock
	}
	if len(fn.Blocks) == 0 {
		return nil
	}
	work := []item{{fn.Blocks[0], state{map[string]bool{}, map[string]bool{}}, nil}}
	for steps := 0; len(work) > 0 && steps < 20000; steps++ {
		it := work[len(work)-1]
		work = work[:len(work)-1]
		k := key{it.b, enc(it.s)}
		if seen[k] {
			continue
		}
		seen[k] = true
		s := clone(it.s)
		path := append(append([]*ssa.BasicBlock{}, it.path...), it.b)
		for _, in := range it.b.Instrs {
			if c, ok := AsCall(in); ok {
				lk, op := LockOp(c)
				if op != "" {
					if _, isDefer := in.(*ssa.Defer); isDefer {
						if op == "Unlock" || op == "RUnlock" {
							s.deferred[lk] = true
						}
						continue
					}
					if _, isGo := in.(*ssa.Go); isGo {
						continue
					}
					switch op {
					case "Lock", "RLock":
						s.held[lk] = true
					case "Unlock", "RUnlock":
						delete(s.held, lk)
					}
				}
			}
			if r, ok := in.(*ssa.Return); ok && it.b.Comment != "recover" {
				for lk := range s.held {
					if s.deferred[lk] {
						continue
					}
					id := lk + "@" + fmt.Sprint(it.b.Index)
					if !seenLeak[id] {
						seenLeak[id] = true
						leaks = append(leaks, LockLeak{lk, r, path})
					}
				}
			}
		}
		for _, succ := range it.b.Succs {
			work = append(work, item{succ, s, path})
		}
	}
	return leaks
}

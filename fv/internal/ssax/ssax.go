// Package ssax: helpers over go/ssa used by the rules — naming, callee
// resolution by types object, value roots, CFG path queries, post-dominators.
package ssax

import (
	"fmt"
	"go/token"
	"go/types"
	"sort"
	"strings"

	"golang.org/x/tools/go/ssa"
)

// Name is the package-relative name of a function: "(*T).m", "f", "f$1".
func Name(fn *ssa.Function) string {
	if fn == nil {
		return "<nil>"
	}
	return fn.RelString(fn.Pkg.Pkg)
}

// Find returns the function with the package-relative name.
func Find(fns []*ssa.Function, name string) *ssa.Function {
	for _, f := range fns {
		if Name(f) == name {
			return f
		}
	}
	// a method keeps its identity when its receiver changes between T and *T
	alt := ""
	switch {
	case strings.HasPrefix(name, "(*"):
		alt = "(" + name[2:]
	case strings.HasPrefix(name, "("):
		alt = "(*" + name[1:]
	}
	if alt != "" {
		for _, f := range fns {
			if Name(f) == alt {
				return f
			}
		}
	}
	return nil
}

// Instrs calls f for every instruction of fn in block order.
func Instrs(fn *ssa.Function, f func(ssa.Instruction)) {
	for _, b := range fn.Blocks {
		for _, in := range b.Instrs {
			f(in)
		}
	}
}

// Call describes a resolved call site.
type Call struct {
	Instr  ssa.CallInstruction
	Common *ssa.CallCommon
	Static *ssa.Function // nil for interface / dynamic calls
	Method *types.Func   // interface method for invoke-mode calls
}

// FullName: "pkgpath.Func", "(*pkgpath.T).M", "(pkgpath.I).M" or "" for dynamic calls.
func (c Call) FullName() string {
	if c.Static != nil {
		if o := c.Static.Object(); o != nil {
			return o.(*types.Func).FullName()
		}
		return c.Static.String()
	}
	if c.Method != nil {
		return c.Method.FullName()
	}
	if b, ok := c.Common.Value.(*ssa.Builtin); ok {
		return "builtin." + b.Name()
	}
	return ""
}

// ShortName is the bare function/method name.
func (c Call) ShortName() string {
	if c.Static != nil {
		return c.Static.Name()
	}
	if c.Method != nil {
		return c.Method.Name()
	}
	if b, ok := c.Common.Value.(*ssa.Builtin); ok {
		return b.Name()
	}
	return ""
}

// Args returns the call arguments with the receiver first for both static
// method calls and interface invocations.
func (c Call) Args() []ssa.Value {
	if c.Common.IsInvoke() {
		return append([]ssa.Value{c.Common.Value}, c.Common.Args...)
	}
	return c.Common.Args
}

func AsCall(in ssa.Instruction) (Call, bool) {
	ci, ok := in.(ssa.CallInstruction)
	if !ok {
		return Call{}, false
	}
	cc := ci.Common()
	c := Call{Instr: ci, Common: cc}
	if cc.IsInvoke() {
		c.Method = cc.Method
	} else {
		c.Static = cc.StaticCallee()
	}
	return c, true
}

// Calls lists the call sites (call, go, defer) of fn.
func Calls(fn *ssa.Function) []Call {
	var out []Call
	Instrs(fn, func(in ssa.Instruction) {
		if c, ok := AsCall(in); ok {
			out = append(out, c)
		}
	})
	return out
}

// CallsTo lists call sites in fn whose FullName equals one of names, or whose
// ShortName equals a name that has no dot.
func CallsTo(fn *ssa.Function, names ...string) []Call {
	var out []Call
	for _, c := range Calls(fn) {
		if MatchCall(c, names...) {
			out = append(out, c)
		}
	}
	return out
}

func MatchCall(c Call, names ...string) bool {
	fn, sn := c.FullName(), c.ShortName()
	for _, n := range names {
		if strings.ContainsAny(n, "./") {
			if fn == n {
				return true
			}
		} else if sn == n {
			return true
		}
	}
	return false
}

// Strip removes value-preserving wrappers (interface conversions, type
// changes, single-input phis).
func Strip(v ssa.Value) ssa.Value { return stripSeen(v, nil) }

func stripSeen(v ssa.Value, seen map[*ssa.Phi]bool) ssa.Value {
	for i := 0; i < 20; i++ {
		switch x := v.(type) {
		case *ssa.UnOp:
			if p := Unbox(x); p != ssa.Value(x) {
				v = p
				continue
			}
			return v
		case *ssa.ChangeInterface:
			v = x.X
		case *ssa.MakeInterface:
			v = x.X
		case *ssa.ChangeType:
			v = x.X
		case *ssa.Phi:
			// loop-carried phis refer to themselves (directly or through other phis)
			if seen[x] {
				return v
			}
			if seen == nil {
				seen = map[*ssa.Phi]bool{}
			}
			seen[x] = true
			var u ssa.Value
			same := true
			for _, e := range x.Edges {
				e = stripSeen(e, seen)
				if e == ssa.Value(x) {
					continue // the phi itself: does not add a value
				}
				if u == nil {
					u = e
				} else if u != e {
					same = false
				}
			}
			if same && u != nil && u != v {
				v = u
			} else {
				return v
			}
		default:
			return v
		}
	}
	return v
}

// AddrKey gives a structural name to an address / value expression so that
// two syntactically separate computations of the same l-value compare equal
// (go/ssa has no CSE): "f.registry", "c.mu", "*f.writeMu".
// FieldName names field i of st in address keys; the rules install a function
// that maps a renamed field back to its canonical name.
var FieldName = func(st *types.Struct, i int) string { return st.Field(i).Name() }

func AddrKey(v ssa.Value) string {
	v = Strip(v)
	switch x := v.(type) {
	case *ssa.FieldAddr:
		st := x.X.Type().Underlying().(*types.Pointer).Elem().Underlying().(*types.Struct)
		return AddrKey(x.X) + "." + FieldName(st, x.Field)
	case *ssa.Field:
		st := x.X.Type().Underlying().(*types.Struct)
		return AddrKey(x.X) + "." + FieldName(st, x.Field)
	case *ssa.UnOp:
		if x.Op == token.MUL {
			if p := Unbox(x); p != x {
				return AddrKey(p)
			}
			// load: a loaded struct pointer field names the pointee
			return AddrKey(x.X) + "^"
		}
	case *ssa.Parameter:
		return x.Name()
	case *ssa.FreeVar:
		return x.Name()
	case *ssa.Global:
		return "global:" + x.Name()
	case *ssa.Alloc:
		if x.Comment != "" {
			return "alloc:" + x.Comment
		}
	case *ssa.IndexAddr:
		return AddrKey(x.X) + "[]"
	case *ssa.Extract:
		return AddrKey(x.Tuple)
	case *ssa.Lookup:
		return AddrKey(x.X) + "[" + AddrKey(x.Index) + "]"
	case *ssa.MakeChan:
		return "make(chan)"
	case *ssa.Call:
		if c, ok := AsCall(x); ok && c.ShortName() != "" {
			return c.ShortName() + "()"
		}
	case *ssa.Const:
		return x.String()
	}
	return v.Name()
}

// Idx returns the index of in within its block.
func Idx(in ssa.Instruction) int {
	for i, x := range in.Block().Instrs {
		if x == in {
			return i
		}
	}
	return -1
}

// Dominates: every path from entry to b passes a first.
func Dominates(a, b ssa.Instruction) bool {
	if a.Block() == b.Block() {
		return Idx(a) < Idx(b)
	}
	return a.Block().Dominates(b.Block())
}

// Pred over instructions.
type Pred func(ssa.Instruction) bool

// PathFrom searches the CFG for a path that starts immediately after `from`
// (or at function entry when from is nil and fn given), reaches an
// instruction satisfying goal, and passes no instruction satisfying avoid
// before that. It returns the sequence of blocks of such a path, or nil.
func PathFrom(fn *ssa.Function, from ssa.Instruction, goal, avoid Pred) []*ssa.BasicBlock {
	type st struct {
		b   *ssa.BasicBlock
		idx int
	}
	var start st
	if from != nil {
		start = st{from.Block(), Idx(from) + 1}
	} else {
		start = st{fn.Blocks[0], 0}
	}
	visited := map[*ssa.BasicBlock]bool{}
	parent := map[*ssa.BasicBlock]*ssa.BasicBlock{}
	var queue []st
	queue = append(queue, start)
	first := true
	for len(queue) > 0 {
		s := queue[0]
		queue = queue[1:]
		if !first {
			if visited[s.b] {
				continue
			}
			visited[s.b] = true
		}
		first = false
		blocked := false
		for i := s.idx; i < len(s.b.Instrs); i++ {
			in := s.b.Instrs[i]
			if goal(in) {
				var path []*ssa.BasicBlock
				for b := s.b; b != nil; b = parent[b] {
					path = append([]*ssa.BasicBlock{b}, path...)
					if b == start.b {
						break
					}
				}
				return path
			}
			if avoid != nil && avoid(in) {
				blocked = true
				break
			}
		}
		if blocked {
			continue
		}
		for _, succ := range s.b.Succs {
			if !visited[succ] {
				if _, ok := parent[succ]; !ok {
					parent[succ] = s.b
				}
				queue = append(queue, st{succ, 0})
			}
		}
	}
	return nil
}

func IsReturn(in ssa.Instruction) bool { _, ok := in.(*ssa.Return); return ok }
func IsPanic(in ssa.Instruction) bool  { _, ok := in.(*ssa.Panic); return ok }

// PathString renders a block path with source lines.
func PathString(fset *token.FileSet, path []*ssa.BasicBlock) []string {
	var out []string
	for _, b := range path {
		line := 0
		for _, in := range b.Instrs {
			if in.Pos().IsValid() {
				line = fset.Position(in.Pos()).Line
				break
			}
		}
		out = append(out, fmt.Sprintf("block %d (%s) line %d", b.Index, b.Comment, line))
	}
	return out
}

// FreeVarBinding maps a free variable of an anonymous function to the value
// bound at its (unique) MakeClosure site in the parent.
func FreeVarBinding(fv *ssa.FreeVar) ssa.Value {
	fn := fv.Parent()
	par := fn.Parent()
	if par == nil {
		return nil
	}
	idx := -1
	for i, x := range fn.FreeVars {
		if x == fv {
			idx = i
		}
	}
	var res ssa.Value
	Instrs(par, func(in ssa.Instruction) {
		if mc, ok := in.(*ssa.MakeClosure); ok && mc.Fn == fn && idx >= 0 && idx < len(mc.Bindings) {
			res = mc.Bindings[idx]
		}
	})
	return res
}

// Referrers of v, following through Strip-able wrappers and phis.
func UsesTransitive(v ssa.Value) []ssa.Instruction {
	seen := map[ssa.Value]bool{}
	var out []ssa.Instruction
	var walk func(v ssa.Value)
	walk = func(v ssa.Value) {
		if seen[v] {
			return
		}
		seen[v] = true
		refs := v.Referrers()
		if refs == nil {
			return
		}
		for _, r := range *refs {
			switch x := r.(type) {
			case *ssa.ChangeInterface, *ssa.MakeInterface, *ssa.ChangeType, *ssa.Phi:
				walk(x.(ssa.Value))
			default:
				out = append(out, r)
			}
		}
	}
	walk(v)
	return out
}

// TypeNamed reports whether t (after pointer deref) is the named type pkgSuffix.Name.
func TypeNamed(t types.Type, pkgSuffix, name string) bool {
	if p, ok := t.(*types.Pointer); ok {
		t = p.Elem()
	}
	n, ok := t.(*types.Named)
	if !ok {
		return false
	}
	o := n.Obj()
	if o.Name() != name {
		return false
	}
	if pkgSuffix == "" {
		return true
	}
	if o.Pkg() == nil {
		return false
	}
	return o.Pkg().Path() == pkgSuffix || strings.HasSuffix(o.Pkg().Path(), "/"+pkgSuffix)
}

// Implementers returns the functions of pkg that implement method `method`
// of interface type `iface` (a *types.Named whose underlying is an interface).
func Implementers(pkg *ssa.Package, iface *types.Interface, method string) []*ssa.Function {
	var out []*ssa.Function
	for _, m := range pkg.Members {
		t, ok := m.(*ssa.Type)
		if !ok {
			continue
		}
		if types.IsInterface(t.Type()) {
			continue
		}
		for _, tt := range []types.Type{t.Type(), types.NewPointer(t.Type())} {
			if !types.Implements(tt, iface) {
				continue
			}
			ms := pkg.Prog.MethodSets.MethodSet(tt)
			sel := ms.Lookup(pkg.Pkg, method)
			if sel == nil {
				continue
			}
			fn := pkg.Prog.MethodValue(sel)
			if fn == nil {
				continue
			}
			// unwrap promoted-method wrappers to the declared method
			out = append(out, fn)
			break
		}
	}
	sort.Slice(out, func(i, j int) bool { return out[i].String() < out[j].String() })
	return out
}

// Iface looks up a named interface in pkg.
func Iface(pkg *ssa.Package, name string) *types.Interface {
	o := pkg.Pkg.Scope().Lookup(name)
	if o == nil {
		return nil
	}
	i, _ := o.Type().Underlying().(*types.Interface)
	return i
}

// ConstInt returns the integer value of a constant SSA value.
func ConstInt(v ssa.Value) (int64, bool) {
	c, ok := Strip(v).(*ssa.Const)
	if !ok || c.Value == nil {
		return 0, false
	}
	if !c.IsNil() {
		if b, ok := c.Type().Underlying().(*types.Basic); ok && b.Info()&types.IsInteger != 0 {
			return c.Int64(), true
		}
	}
	return 0, false
}

// CountOnPaths returns the minimum and maximum number (saturating at 2) of
// instructions satisfying pred on any path from `from` (exclusive; function
// entry when nil) to a normal return. Paths ending in panic are ignored.
// Deferred calls are counted where the defer statement executes.
func CountOnPaths(fn *ssa.Function, from ssa.Instruction, pred Pred) (min, max int) {
	const inf = 3
	type mm struct{ lo, hi int }
	in := map[*ssa.BasicBlock]mm{}
	startB := fn.Blocks[0]
	startI := 0
	if from != nil {
		startB = from.Block()
		startI = Idx(from) + 1
	}
	sat := func(x int) int {
		if x > 2 {
			return 2
		}
		return x
	}
	count := func(b *ssa.BasicBlock, i0 int) int {
		n := 0
		for i := i0; i < len(b.Instrs); i++ {
			if pred(b.Instrs[i]) {
				n++
			}
		}
		return n
	}
	min, max = inf, -1
	// worklist propagation; start state (0,0) at start point
	type item struct {
		b  *ssa.BasicBlock
		i0 int
		s  mm
	}
	work := []item{{startB, startI, mm{0, 0}}}
	for steps := 0; len(work) > 0 && steps < 100000; steps++ {
		it := work[0]
		work = work[1:]
		c := count(it.b, it.i0)
		out := mm{sat(it.s.lo + c), sat(it.s.hi + c)}
		last := it.b.Instrs[len(it.b.Instrs)-1]
		if _, ok := last.(*ssa.Return); ok && it.b.Comment != "recover" {
			if out.lo < min {
				min = out.lo
			}
			if out.hi > max {
				max = out.hi
			}
		}
		for _, s := range it.b.Succs {
			old, seen := in[s]
			nw := out
			if seen {
				if old.lo < nw.lo {
					nw.lo = old.lo
				}
				if old.hi > nw.hi {
					nw.hi = old.hi
				}
				if nw == old {
					continue
				}
			}
			in[s] = nw
			work = append(work, item{s, 0, nw})
		}
	}
	if max < 0 {
		// no normal return reachable
		return 0, 0
	}
	return min, max
}

// CountOnPathsTo is CountOnPaths restricted to paths that end in a return
// satisfying goal.
func CountOnPathsTo(fn *ssa.Function, from ssa.Instruction, pred Pred, goal func(*ssa.Return) bool) (min, max int) {
	return CountOnPathsToW(fn, from, func(in ssa.Instruction) (int, int) {
		if pred(in) {
			return 1, 1
		}
		return 0, 0
	}, goal)
}

// CountOnPathsToW is CountOnPathsTo with a weight per instruction: an
// instruction contributes between lo and hi occurrences (a call whose callee
// performs the operation counts with the callee's own range).
func CountOnPathsToW(fn *ssa.Function, from ssa.Instruction, weight func(ssa.Instruction) (int, int), goal func(*ssa.Return) bool) (min, max int) {
	// blocks from which a goal return is reachable
	can := map[*ssa.BasicBlock]bool{}
	changed := true
	for changed {
		changed = false
		for _, b := range fn.Blocks {
			if can[b] {
				continue
			}
			if r, ok := b.Instrs[len(b.Instrs)-1].(*ssa.Return); ok && b.Comment != "recover" && goal(r) {
				can[b] = true
				changed = true
				continue
			}
			for _, s := range b.Succs {
				if can[s] {
					can[b] = true
					changed = true
					break
				}
			}
		}
	}
	const inf = 3
	type mm struct{ lo, hi int }
	in := map[*ssa.BasicBlock]mm{}
	startB := fn.Blocks[0]
	startI := 0
	if from != nil {
		startB = from.Block()
		startI = Idx(from) + 1
	}
	sat := func(x int) int {
		if x > 2 {
			return 2
		}
		return x
	}
	min, max = inf, -1
	type item struct {
		b  *ssa.BasicBlock
		i0 int
		s  mm
	}
	if !can[startB] {
		return 0, 0
	}
	work := []item{{startB, startI, mm{0, 0}}}
	for steps := 0; len(work) > 0 && steps < 100000; steps++ {
		it := work[0]
		work = work[1:]
		cl, ch := 0, 0
		for i := it.i0; i < len(it.b.Instrs); i++ {
			l, h := weight(it.b.Instrs[i])
			cl, ch = cl+l, ch+h
		}
		out := mm{sat(it.s.lo + cl), sat(it.s.hi + ch)}
		if r, ok := it.b.Instrs[len(it.b.Instrs)-1].(*ssa.Return); ok && it.b.Comment != "recover" && goal(r) {
			if out.lo < min {
				min = out.lo
			}
			if out.hi > max {
				max = out.hi
			}
		}
		for _, s := range it.b.Succs {
			if !can[s] {
				continue
			}
			old, seen := in[s]
			nw := out
			if seen {
				if old.lo < nw.lo {
					nw.lo = old.lo
				}
				if old.hi > nw.hi {
					nw.hi = old.hi
				}
				if nw == old {
					continue
				}
			}
			in[s] = nw
			work = append(work, item{s, 0, nw})
		}
	}
	if max < 0 {
		return 0, 0
	}
	return min, max
}

// Unbox: a load of a local cell that holds a captured parameter (go/ssa boxes
// parameters captured by closures: t0 = new T (p); *t0 = p; … *t0) is the
// parameter itself; inside the closure a load of the free variable cell
// resolves to the same parameter.
// onlyRead: besides its single store, the cell is only loaded — here and in
// the closures that capture it.
func onlyRead(cell ssa.Value, depth int) bool {
	if depth > 3 || cell.Referrers() == nil {
		return false
	}
	for _, r := range *cell.Referrers() {
		switch x := r.(type) {
		case *ssa.Store:
			if x.Addr != cell {
				return false // the address itself is stored somewhere
			}
			if depth > 0 {
				return false // a closure assigns the variable
			}
		case *ssa.UnOp:
			if x.Op != token.MUL {
				return false
			}
		case *ssa.DebugRef:
		case *ssa.MakeClosure:
			fn, ok := x.Fn.(*ssa.Function)
			if !ok {
				return false
			}
			for i, b := range x.Bindings {
				if b == cell {
					if i >= len(fn.FreeVars) || !onlyRead(fn.FreeVars[i], depth+1) {
						return false
					}
				}
			}
		default:
			return false
		}
	}
	return true
}

// before: instruction a is executed before b on every path to b (same
// function).
func before(a, b ssa.Instruction) bool {
	if a.Parent() != b.Parent() {
		return false
	}
	if a.Block() == b.Block() {
		for _, in := range a.Block().Instrs {
			if in == a {
				return true
			}
			if in == b {
				return false
			}
		}
		return false
	}
	return a.Block().Dominates(b.Block())
}

func Unbox(v ssa.Value) ssa.Value {
	u, ok := v.(*ssa.UnOp)
	if !ok || u.Op != token.MUL {
		return v
	}
	var cell *ssa.Alloc
	switch x := u.X.(type) {
	case *ssa.Alloc:
		cell = x
	case *ssa.FreeVar:
		if b, ok := FreeVarBinding(x).(*ssa.Alloc); ok {
			cell = b
		}
	}
	if cell == nil || cell.Referrers() == nil {
		return v
	}
	var stored ssa.Value
	var store *ssa.Store
	n := 0
	for _, r := range *cell.Referrers() {
		if st, ok := r.(*ssa.Store); ok && st.Addr == cell {
			n++
			stored, store = st.Val, st
		}
	}
	if n == 1 {
		if p, ok := stored.(*ssa.Parameter); ok {
			return p
		}
		// a local that is assigned once, where it is declared, and only read
		// afterwards (by the function and by the closures that capture it) is
		// that value: ctx := &T{…}; visit(func() { ctx.M() }); ctx.N()
		if cell.Heap && onlyRead(cell, 0) {
			var at ssa.Instruction = u
			if u.Parent() != cell.Parent() {
				at = nil
				for _, r := range *cell.Referrers() {
					if mc, ok := r.(*ssa.MakeClosure); ok && mc.Fn == ssa.Value(u.Parent()) {
						at = mc
					}
				}
			}
			if at != nil && before(store, at) {
				return stored
			}
		}
	}
	return v
}

// Package load builds the program views (typed syntax + SSA) from the
// repository's current working tree.
package load

import (
	"fmt"
	"go/ast"
	"go/token"
	"go/types"
	"os"
	"sort"
	"strings"

	"fv/internal/core"

	"golang.org/x/tools/go/callgraph"
	"golang.org/x/tools/go/callgraph/cha"
	"golang.org/x/tools/go/callgraph/vta"
	"golang.org/x/tools/go/packages"
	"golang.org/x/tools/go/ssa"
	"golang.org/x/tools/go/ssa/ssautil"
)

type View struct {
	Name     string
	Dir      string
	Fset     *token.FileSet
	Pkgs     []*packages.Package // root packages of the view
	All      map[string]*packages.Package
	Prog     *ssa.Program
	SSA      map[string]*ssa.Package // by package path
	cg       *callgraph.Graph
	vtaSites map[ssa.CallInstruction][]*ssa.Function
	Config   string
}

func env(goos, goarch string) []string {
	e := os.Environ()
	out := e[:0:0]
	for _, kv := range e {
		if strings.HasPrefix(kv, "GOWORK=") || strings.HasPrefix(kv, "GOFLAGS=") ||
			strings.HasPrefix(kv, "GOOS=") || strings.HasPrefix(kv, "GOARCH=") ||
			strings.HasPrefix(kv, "GOPROXY=") || strings.HasPrefix(kv, "GOSUMDB=") || strings.HasPrefix(kv, "GOTOOLCHAIN=") {
			continue
		}
		out = append(out, kv)
	}
	out = append(out, "GOWORK=off", "GOFLAGS=-mod=mod", "GOPROXY=off", "GOSUMDB=off", "GOTOOLCHAIN=local", "CGO_ENABLED=0")
	if goos != "" {
		out = append(out, "GOOS="+goos)
	}
	if goarch != "" {
		out = append(out, "GOARCH="+goarch)
	}
	return out
}

// Load loads patterns in dir (typed, all syntax incl. dependencies) and builds SSA.
func Load(ctx *core.Ctx, name, dir string, goos, goarch string, patterns ...string) *View {
	fset := token.NewFileSet()
	cfg := &packages.Config{Mode: packages.LoadAllSyntax, Dir: dir, Fset: fset, Env: env(goos, goarch), Tests: false}
	pkgs, err := packages.Load(cfg, patterns...)
	cfgName := "linux/amd64"
	if goos != "" || goarch != "" {
		g, a := goos, goarch
		if g == "" {
			g = "linux"
		}
		if a == "" {
			a = "amd64"
		}
		cfgName = g + "/" + a
	}
	v := &View{Name: name, Dir: dir, Fset: fset, Config: cfgName, All: map[string]*packages.Package{}, SSA: map[string]*ssa.Package{}}
	if err != nil {
		ctx.LoadError(fmt.Sprintf("%s[%s]: packages.Load: %v", name, cfgName, err))
		return v
	}
	if len(pkgs) == 0 {
		ctx.LoadError(fmt.Sprintf("%s[%s]: no packages matched %v in %s", name, cfgName, patterns, dir))
		return v
	}
	nerr := 0
	packages.Visit(pkgs, nil, func(p *packages.Package) {
		v.All[p.PkgPath] = p
	})
	for _, p := range pkgs {
		for _, e := range p.Errors {
			nerr++
			if nerr <= 5 {
				ctx.LoadError(fmt.Sprintf("%s[%s]: %s: %v", name, cfgName, p.PkgPath, e))
			}
		}
		if p.Types == nil || p.TypesInfo == nil {
			ctx.LoadError(fmt.Sprintf("%s[%s]: %s: no type information", name, cfgName, p.PkgPath))
		}
	}
	v.Pkgs = pkgs
	if nerr > 0 {
		return v
	}
	prog, _ := ssautil.AllPackages(pkgs, ssa.InstantiateGenerics)
	prog.Build()
	v.Prog = prog
	for _, sp := range prog.AllPackages() {
		v.SSA[sp.Pkg.Path()] = sp
	}
	ctx.Configs = append(ctx.Configs, name+":"+cfgName)
	ctx.Stat("packages_loaded_"+name, len(pkgs))
	return v
}

func (v *View) OK() bool { return v.Prog != nil }

// Pkg returns the root package with the given path suffix.
func (v *View) Pkg(suffix string) *packages.Package {
	for _, p := range v.Pkgs {
		if p.PkgPath == suffix || strings.HasSuffix(p.PkgPath, "/"+suffix) {
			return p
		}
	}
	return nil
}

func (v *View) SSAPkg(suffix string) *ssa.Package {
	p := v.Pkg(suffix)
	if p == nil {
		return nil
	}
	return v.SSA[p.PkgPath]
}

// Pos renders a position as file:line.
func (v *View) Pos(p token.Pos) string {
	if !p.IsValid() {
		return ""
	}
	pp := v.Fset.Position(p)
	return fmt.Sprintf("%s:%d", pp.Filename, pp.Line)
}

// SrcFuncs returns every function with source (methods, functions, anonymous
// functions, init) of the given SSA package, deterministically ordered.
func SrcFuncs(pkg *ssa.Package) []*ssa.Function {
	var out []*ssa.Function
	seen := map[*ssa.Function]bool{}
	var add func(f *ssa.Function)
	add = func(f *ssa.Function) {
		if f == nil || seen[f] {
			return
		}
		seen[f] = true
		if f.Blocks != nil {
			out = append(out, f)
		}
		for _, a := range f.AnonFuncs {
			add(a)
		}
	}
	for _, m := range pkg.Members {
		switch m := m.(type) {
		case *ssa.Function:
			add(m)
		case *ssa.Type:
			t := m.Type()
			for _, tt := range []types.Type{t, types.NewPointer(t)} {
				ms := pkg.Prog.MethodSets.MethodSet(tt)
				for i := 0; i < ms.Len(); i++ {
					fn := pkg.Prog.MethodValue(ms.At(i))
					if fn != nil && fn.Pkg == pkg && fn.Synthetic == "" {
						add(fn)
					}
				}
			}
		}
	}
	sort.Slice(out, func(i, j int) bool {
		if out[i].Pos() != out[j].Pos() {
			return out[i].Pos() < out[j].Pos()
		}
		return out[i].String() < out[j].String()
	})
	return out
}

// CHA returns the class-hierarchy call graph of the view (cached).
func (v *View) CHA() *callgraph.Graph {
	if v.cg == nil {
		v.cg = cha.CallGraph(v.Prog)
	}
	return v.cg
}

// VTASites returns, for every call instruction of the functions of pkg, the
// callees computed by the VTA call graph (seeded with CHA). Cached.
func (v *View) VTASites(pkg *ssa.Package) map[ssa.CallInstruction][]*ssa.Function {
	if v.vtaSites != nil {
		return v.vtaSites
	}
	g := vta.CallGraph(ssautil.AllFunctions(v.Prog), v.CHA())
	out := map[ssa.CallInstruction][]*ssa.Function{}
	for fn, n := range g.Nodes {
		if fn == nil || fn.Pkg != pkg {
			if fn == nil || fn.Parent() == nil || fn.Package() != pkg {
				continue
			}
		}
		for _, e := range n.Out {
			if e.Site != nil && e.Callee != nil && e.Callee.Func != nil {
				out[e.Site] = append(out[e.Site], e.Callee.Func)
			}
		}
	}
	v.vtaSites = out
	return out
}

// FileOf returns the syntax file containing pos among the root packages.
func (v *View) FileOf(pos token.Pos) (*packages.Package, *ast.File) {
	for _, p := range v.Pkgs {
		for _, f := range p.Syntax {
			if f.Pos() <= pos && pos <= f.End() {
				return p, f
			}
		}
	}
	return nil, nil
}

// Package bounds: a small abstract interpreter over go/ssa that proves
// index / slice / make obligations from the linear facts contributed by the
// branch conditions that dominate a program point (A6 in DESIGN.md).
//
// Soundness notes. Facts at point P are conditions of If instructions whose
// taken edge dominates P; their operands are SSA values (immutable), so the
// condition was evaluated on the current values. A fixed-width +, - or
// conversion contributes its defining equation only when "no overflow" is
// itself entailed by the facts at P; otherwise the result is an unconstrained
// variable of its type's range. Loop-carried φ-values get candidate
// invariants checked inductively over the back edges (Houdini).
// Preconditions of unexported functions are kept only if entailed at every
// call site.
package bounds

import (
	"fmt"
	"go/constant"
	"go/token"
	"go/types"
	"math/big"
	"sort"
	"strings"

	"fv/internal/lin"
	"fv/internal/ssax"

	"golang.org/x/tools/go/ssa"
)

// Config carries sizes and the summaries/assumptions in force.
type Config struct {
	IntBits       int  // 64 or 32
	AssumeLenI32  bool // len of any slice/string ≤ 2^31-1
	ASCIIStrings  bool // assumption: strings handled are ASCII, so len([]rune(s)) == len(s)
	Ideal         bool // treat +,-,conversions as mathematical integers (for equivalence of layouts, not for safety)
	UsedSummaries map[string]bool
}

func (c *Config) use(s string) {
	if c.UsedSummaries == nil {
		c.UsedSummaries = map[string]bool{}
	}
	c.UsedSummaries[s] = true
}

// Pre is a precondition candidate/fact over parameters: A ≥ B + K where A/B
// are "p:<idx>" (int param), "len:<idx>" (len of slice param) or "" (zero).
type Pre struct {
	A, B string
	K    int64
}

func (p Pre) String() string {
	b := p.B
	if b == "" {
		b = "0"
	}
	if p.K != 0 {
		return fmt.Sprintf("%s ≥ %s + %d", p.A, b, p.K)
	}
	return fmt.Sprintf("%s ≥ %s", p.A, b)
}

type Prover struct {
	Cfg    *Config
	Pre    map[*ssa.Function][]Pre
	inv    map[*ssa.Phi][]phiInv
	stored map[*ssa.Function]map[string]bool
	// helpers currently being inlined (recursion guard)
	inlining map[*ssa.Function]bool
}

type phiInv struct {
	lower  ssa.Value // φ ≥ lower (when non-nil)
	upper  ssa.Value // φ ≤ upper (when non-nil), φ < upper when strict
	strict bool
}

func New(cfg *Config) *Prover {
	return &Prover{Cfg: cfg, Pre: map[*ssa.Function][]Pre{}, inv: map[*ssa.Phi][]phiInv{}, stored: map[*ssa.Function]map[string]bool{}}
}

// Env is the fact set at one program point.
type Env struct {
	p      *Prover
	at     ssa.Instruction
	fn     *ssa.Function
	Facts  []lin.Ineq
	memo   map[ssa.Value]lin.Term
	vars   map[string]bool
	lenPhi map[*ssa.Phi]bool
}

func intRange(t types.Type, intBits int) (lo, hi *big.Int, ok bool) {
	b, isB := t.Underlying().(*types.Basic)
	if !isB || b.Info()&types.IsInteger == 0 {
		return nil, nil, false
	}
	bits := 0
	unsigned := b.Info()&types.IsUnsigned != 0
	switch b.Kind() {
	case types.Int8, types.Uint8:
		bits = 8
	case types.Int16, types.Uint16:
		bits = 16
	case types.Int32, types.Uint32:
		bits = 32
	case types.Int64, types.Uint64:
		bits = 64
	case types.Int, types.Uint, types.Uintptr:
		bits = intBits
	case types.UntypedInt, types.UntypedRune:
		bits = 64
	default:
		return nil, nil, false
	}
	one := big.NewInt(1)
	if unsigned {
		hi = new(big.Int).Sub(new(big.Int).Lsh(one, uint(bits)), one)
		return big.NewInt(0), hi, true
	}
	hi = new(big.Int).Sub(new(big.Int).Lsh(one, uint(bits-1)), one)
	lo = new(big.Int).Neg(new(big.Int).Lsh(one, uint(bits-1)))
	return lo, hi, true
}

func (e *Env) addRange(name string, t types.Type) {
	if e.vars[name] {
		return
	}
	e.vars[name] = true
	lo, hi, ok := intRange(t, e.p.Cfg.IntBits)
	if !ok {
		return
	}
	v := lin.Var(name)
	e.Facts = append(e.Facts, lin.GE(v, lin.ConstBig(lo), "range of "+name), lin.LE(v, lin.ConstBig(hi), "range of "+name))
}

func (e *Env) fresh(v ssa.Value) lin.Term {
	name := v.Name()
	if p, ok := v.(*ssa.Parameter); ok {
		name = p.Name()
	}
	e.addRange(name, v.Type())
	return lin.Var(name)
}

// storesTo: does fn store to an address with this key (then loads are not merged)?
func (p *Prover) storesTo(fn *ssa.Function, key string) bool {
	m, ok := p.stored[fn]
	if !ok {
		m = map[string]bool{}
		ssax.Instrs(fn, func(in ssa.Instruction) {
			if st, ok := in.(*ssa.Store); ok {
				m[ssax.AddrKey(st.Addr)] = true
			}
		})
		p.stored[fn] = m
	}
	return m[key]
}

// lenTerm returns the term for len(x).
func (e *Env) lenTerm(x ssa.Value) lin.Term {
	x = ssax.Strip(x)
	switch y := x.(type) {
	case *ssa.Const:
		if y.Value != nil && y.Value.Kind() == constant.String {
			return lin.Const(int64(len(constant.StringVal(y.Value))))
		}
		if y.IsNil() {
			return lin.Const(0)
		}
	case *ssa.MakeSlice:
		// after the make executed, len == Len (and Len ≥ 0)
		e.p.Cfg.use("len(make(T,n)) = n")
		t := e.Term(y.Len)
		return t
	case *ssa.Slice:
		// after the slice executed, len == hi - lo
		var lo lin.Term = lin.Const(0)
		if y.Low != nil {
			lo = e.Term(y.Low)
		}
		var hi lin.Term
		if y.High != nil {
			hi = e.Term(y.High)
		} else {
			hi = e.baseLen(y.X)
		}
		return hi.Sub(lo)
	case *ssa.Convert:
		// string([]byte) / []byte(string) keep the length
		if _, ok := y.X.Type().Underlying().(*types.Basic); ok {
			if sl, isSl := y.Type().Underlying().(*types.Slice); isSl {
				if eb, isB := sl.Elem().Underlying().(*types.Basic); isB && eb.Kind() == types.Byte {
					return e.lenTerm(y.X)
				}
				if e.p.Cfg.ASCIIStrings {
					e.p.Cfg.use("identifiers are ASCII (grammar rule Identifier): len([]rune(s)) = len(s)")
					return e.lenTerm(y.X)
				}
				// []rune(s): between 0 and len(s) elements
				name := "len(" + e.valKey(x) + ")"
				if !e.vars[name] {
					e.vars[name] = true
					e.Facts = append(e.Facts, lin.GE(lin.Var(name), lin.Const(0), "len ≥ 0"), lin.LE(lin.Var(name), e.lenTerm(y.X), "len([]rune(s)) ≤ len(s)"))
				}
				return lin.Var(name)
			}
		}
		if _, ok := y.X.Type().Underlying().(*types.Slice); ok {
			if b, isB := y.Type().Underlying().(*types.Basic); isB && b.Kind() == types.String {
				return e.lenTerm(y.X)
			}
		}
	}
	switch y := x.(type) {
	case *ssa.Phi:
		// a slice that only grows in a loop: s = φ(s0, append(s, …)) has len(s) ≥ len(s0)
		var entry ssa.Value
		grows := true
		for _, ev := range y.Edges {
			if c, isC := ssax.Strip(ev).(*ssa.Call); isC {
				if cc, _ := ssax.AsCall(c); cc.FullName() == "builtin.append" && len(c.Call.Args) >= 1 && ssax.Strip(c.Call.Args[0]) == ssa.Value(y) {
					continue
				}
			}
			if entry != nil {
				grows = false
			}
			entry = ev
		}
		if grows && entry != nil && !e.lenPhi[y] {
			if e.lenPhi == nil {
				e.lenPhi = map[*ssa.Phi]bool{}
			}
			e.lenPhi[y] = true
			name := "len(" + e.valKey(x) + ")"
			e.Facts = append(e.Facts, lin.GE(lin.Var(name), e.lenTerm(entry), "a slice that is only appended to in the loop keeps at least its initial length"))
			e.p.Cfg.use("s = φ(s0, append(s, …)) ⇒ len(s) ≥ len(s0)")
			// (the variable itself and its range facts are introduced below)
		}
	case *ssa.Call:
		if c, _ := ssax.AsCall(y); c.FullName() == "builtin.append" && len(y.Call.Args) == 2 {
			// append(a, b...) (go/ssa passes the variadic elements as one slice)
			e.p.Cfg.use("len(append(a, b...)) = len(a) + len(b)")
			return e.lenTerm(y.Call.Args[0]).Add(e.lenTerm(y.Call.Args[1]))
		}
		if t, ok := e.inlineLen(y, 0); ok {
			return t
		}
	case *ssa.Extract:
		if c, isCall := y.Tuple.(*ssa.Call); isCall {
			if t, ok := e.inlineLen(c, y.Index); ok {
				return t
			}
		}
	}
	name := "len(" + e.valKey(x) + ")"
	if !e.vars[name] {
		e.vars[name] = true
		v := lin.Var(name)
		e.Facts = append(e.Facts, lin.GE(v, lin.Const(0), "len ≥ 0"))
		if c, ok := x.(*ssa.Call); ok {
			if cc, _ := ssax.AsCall(c); cc.FullName() == "strings.Split" || cc.FullName() == "strings.SplitN" {
				if sep, isC := c.Call.Args[1].(*ssa.Const); isC && sep.Value != nil && constant.StringVal(sep.Value) != "" {
					e.Facts = append(e.Facts, lin.GE(v, lin.Const(1), "strings.Split(s, sep≠\"\") has at least one part"))
					e.p.Cfg.use("strings.Split(s, sep≠\"\") has len ≥ 1")
					// strings.Contains(s, sep) held on a dominating edge ⇒ at least two parts
					if e.at != nil {
						for _, ef := range dominatingEdges(e.at.Block()) {
							if !ef.taken {
								continue
							}
							if cc2, ok := ef.cond.(*ssa.Call); ok {
								if k, _ := ssax.AsCall(cc2); k.FullName() == "strings.Contains" && ssax.Strip(cc2.Call.Args[0]) == ssax.Strip(c.Call.Args[0]) {
									if sep2, isC2 := cc2.Call.Args[1].(*ssa.Const); isC2 && sep2.Value != nil && constant.StringVal(sep2.Value) == constant.StringVal(sep.Value) {
										e.Facts = append(e.Facts, lin.GE(v, lin.Const(2), "strings.Contains(s, sep) ⇒ Split(s, sep) has at least two parts"))
										e.p.Cfg.use("strings.Contains(s, sep) ⇒ len(strings.Split(s, sep)) ≥ 2")
									}
								}
							}
						}
					}
				}
			}
		}
		if e.p.Cfg.AssumeLenI32 {
			e.Facts = append(e.Facts, lin.LE(v, lin.Const(1<<31-1), "assumed: buffers are shorter than 2^31 bytes"))
			e.p.Cfg.use("len(b) ≤ 2^31-1 for every slice/string (no buffer of 2 GiB or more)")
		} else {
			_, hi, _ := intRange(types.Typ[types.Int], e.p.Cfg.IntBits)
			e.Facts = append(e.Facts, lin.LE(v, lin.ConstBig(hi), "len ≤ maxint"))
		}
	}
	return lin.Var(name)
}

// baseLen: len of the operand of a slice/index expression (array pointer ⇒ constant).
func (e *Env) baseLen(x ssa.Value) lin.Term {
	t := x.Type().Underlying()
	if p, ok := t.(*types.Pointer); ok {
		if a, ok := p.Elem().Underlying().(*types.Array); ok {
			return lin.Const(a.Len())
		}
	}
	if a, ok := t.(*types.Array); ok {
		return lin.Const(a.Len())
	}
	return e.lenTerm(x)
}

func (e *Env) capTerm(x ssa.Value) lin.Term {
	t := x.Type().Underlying()
	if p, ok := t.(*types.Pointer); ok {
		if a, ok := p.Elem().Underlying().(*types.Array); ok {
			return lin.Const(a.Len())
		}
	}
	if b, ok := t.(*types.Basic); ok && b.Info()&types.IsString != 0 {
		return e.lenTerm(x)
	}
	// cap ≥ len is all we know
	x = ssax.Strip(x)
	name := "cap(" + e.valKey(x) + ")"
	if !e.vars[name] {
		e.vars[name] = true
		e.Facts = append(e.Facts, lin.GE(lin.Var(name), e.lenTerm(x), "cap ≥ len"))
	}
	return lin.Var(name)
}

// valKey names a value for len()/cap(): loads of the same field address are
// merged when the function never stores to that address.
func (e *Env) valKey(x ssa.Value) string {
	x = ssax.Strip(x)
	if u, ok := x.(*ssa.UnOp); ok && u.Op == token.MUL {
		k := ssax.AddrKey(u.X)
		if _, isFA := u.X.(*ssa.FieldAddr); isFA && !e.p.storesTo(e.fn, k) {
			e.p.Cfg.use("a message object's fields are not mutated concurrently while it is being handled (two loads of the same field agree)")
			return "*" + k
		}
	}
	if p, ok := x.(*ssa.Parameter); ok {
		return p.Name()
	}
	return x.Name()
}

func constBig(c *ssa.Const) (*big.Int, bool) {
	if c.Value == nil {
		return nil, false
	}
	v := constant.ToInt(c.Value)
	if v.Kind() != constant.Int {
		return nil, false
	}
	if i, ok := constant.Int64Val(v); ok {
		return big.NewInt(i), true
	}
	if u, ok := constant.Uint64Val(v); ok {
		return new(big.Int).SetUint64(u), true
	}
	return nil, false
}

// inRange: do the facts entail lo ≤ t ≤ hi of type typ?
func (e *Env) inRange(t lin.Term, typ types.Type) bool {
	if e.p.Cfg.Ideal {
		return true
	}
	lo, hi, ok := intRange(typ, e.p.Cfg.IntBits)
	if !ok {
		return false
	}
	return lin.Entails(e.Facts, lin.GE(t, lin.ConstBig(lo), "")) && lin.Entails(e.Facts, lin.LE(t, lin.ConstBig(hi), ""))
}

// Term translates an integer-valued SSA value.
func (e *Env) Term(v ssa.Value) lin.Term {
	if t, ok := e.memo[v]; ok {
		return t
	}
	t := e.term(v)
	e.memo[v] = t
	return t
}

func (e *Env) term(v ssa.Value) lin.Term {
	switch x := v.(type) {
	case *ssa.Const:
		if b, ok := constBig(x); ok {
			return lin.ConstBig(b)
		}
	case *ssa.BinOp:
		switch x.Op {
		case token.ADD, token.SUB:
			l, r := e.Term(x.X), e.Term(x.Y)
			var cand lin.Term
			if x.Op == token.ADD {
				cand = l.Add(r)
			} else {
				cand = l.Sub(r)
			}
			if e.inRange(cand, x.Type()) {
				return cand
			}
			return e.fresh(v)
		case token.MUL:
			if c, ok := x.Y.(*ssa.Const); ok {
				if b, ok := constBig(c); ok && b.IsInt64() {
					cand := e.Term(x.X).Scale(b.Int64())
					if e.inRange(cand, x.Type()) {
						return cand
					}
				}
			}
			return e.fresh(v)
		}
	case *ssa.Convert:
		if _, _, ok := intRange(x.X.Type(), e.p.Cfg.IntBits); ok {
			if _, _, ok2 := intRange(x.Type(), e.p.Cfg.IntBits); ok2 {
				src := e.Term(x.X)
				if e.inRange(src, x.Type()) {
					return src
				}
				return e.fresh(v)
			}
		}
	case *ssa.ChangeType:
		return e.Term(x.X)
	case *ssa.Call:
		c, _ := ssax.AsCall(x)
		switch c.FullName() {
		case "builtin.len":
			return e.lenTerm(x.Call.Args[0])
		case "builtin.cap":
			return e.capTerm(x.Call.Args[0])
		case "builtin.copy":
			t := e.fresh(v)
			e.Facts = append(e.Facts, lin.GE(t, lin.Const(0), "copy ≥ 0"), lin.LE(t, e.lenTerm(x.Call.Args[0]), "copy ≤ len(dst)"), lin.LE(t, e.lenTerm(x.Call.Args[1]), "copy ≤ len(src)"))
			e.p.Cfg.use("copy(d,s) = min(len d, len s)")
			return t
		case "strings.Index", "strings.LastIndex", "strings.IndexByte", "strings.LastIndexByte", "bytes.Index", "bytes.LastIndex", "bytes.IndexByte":
			t := e.fresh(v)
			e.Facts = append(e.Facts, lin.GE(t, lin.Const(-1), "Index ≥ -1"), lin.LT(t, e.lenTerm(x.Call.Args[0]), "Index < len(s)"))
			e.p.Cfg.use("strings.Index/LastIndex(s,·) ∈ [-1, len(s)-1]")
			return t
		case "(*bytes.Buffer).Len", "(*github.com/apache/thrift/lib/go/thrift.TMemoryBuffer).Len":
			t := e.fresh(v)
			e.Facts = append(e.Facts, lin.GE(t, lin.Const(0), "Buffer.Len ≥ 0"))
			e.p.Cfg.use("bytes.Buffer.Len() ≥ 0")
			if e.p.Cfg.AssumeLenI32 {
				e.Facts = append(e.Facts, lin.LE(t, lin.Const(1<<31-1), "assumed: buffers are shorter than 2^31 bytes"))
			}
			return t
		}
		if n := binaryWidth(c.FullName(), "Uint"); n > 0 {
			t := e.fresh(v) // range of the unsigned result type
			e.p.Cfg.use("binary.BigEndian.UintN ∈ [0, 2^N-1], needs len ≥ N/8")
			return t
		}
		if t, ok := e.inlineCall(x, 0); ok {
			return t
		}
	case *ssa.Extract:
		if c, isCall := x.Tuple.(*ssa.Call); isCall {
			if t, ok := e.inlineCall(c, x.Index); ok {
				return t
			}
		}
	case *ssa.Phi:
		t := e.fresh(v)
		for _, inv := range e.p.inv[x] {
			if inv.lower != nil {
				lo := e.Term(inv.lower)
				e.Facts = append(e.Facts, lin.GE(t, lo, "loop invariant "+x.Comment+" ≥ "+lo.String()))
			}
			if inv.upper != nil {
				var hi lin.Term
				if c, ok := inv.upper.(*ssa.Call); ok {
					if cc, _ := ssax.AsCall(c); cc.FullName() == "builtin.len" {
						hi = e.lenTerm(c.Call.Args[0])
					} else {
						hi = e.Term(inv.upper)
					}
				} else {
					hi = e.Term(inv.upper)
				}
				if inv.strict {
					e.Facts = append(e.Facts, lin.LT(t, hi, "loop invariant "+x.Comment+" < "+hi.String()))
				} else {
					e.Facts = append(e.Facts, lin.LE(t, hi, "loop invariant "+x.Comment+" ≤ "+hi.String()))
				}
			}
		}
		return t
	case *ssa.UnOp:
		if x.Op == token.MUL {
			// loads of the same never-stored field address agree
			k := ssax.AddrKey(x.X)
			if _, isFA := x.X.(*ssa.FieldAddr); isFA && !e.p.storesTo(e.fn, k) {
				name := "*" + k
				e.addRange(name, x.Type())
				return lin.Var(name)
			}
			// otherwise: equal to an earlier dominating load of the same address when no store
			// to that address and no call can execute in between
			if _, isFA := x.X.(*ssa.FieldAddr); isFA {
				if rep := e.p.earlierLoad(x); rep != nil {
					return e.Term(rep)
				}
			}
		}
		if x.Op == token.SUB {
			cand := e.Term(x.X).Scale(-1)
			if e.inRange(cand, x.Type()) {
				return cand
			}
		}
	}
	return e.fresh(v)
}

func binaryWidth(full, prefix string) int {
	// (encoding/binary.bigEndian).Uint32 / PutUint32, littleEndian too
	i := strings.LastIndex(full, ").")
	if i < 0 || !strings.Contains(full, "encoding/binary") {
		return 0
	}
	name := full[i+2:]
	if !strings.HasPrefix(name, prefix) {
		return 0
	}
	switch strings.TrimPrefix(name, prefix) {
	case "16":
		return 2
	case "32":
		return 4
	case "64":
		return 8
	}
	return 0
}

// condFacts turns a boolean SSA value into inequalities (taken = value of the condition).
func (e *Env) condFacts(c ssa.Value, taken bool, why string) {
	switch x := c.(type) {
	case *ssa.UnOp:
		if x.Op == token.NOT {
			e.condFacts(x.X, !taken, why)
		}
		return
	case *ssa.BinOp:
		if _, _, ok := intRange(x.X.Type(), e.p.Cfg.IntBits); !ok {
			return
		}
		op := x.Op
		if !taken {
			switch op {
			case token.LSS:
				op = token.GEQ
			case token.LEQ:
				op = token.GTR
			case token.GTR:
				op = token.LEQ
			case token.GEQ:
				op = token.LSS
			case token.EQL:
				op = token.NEQ
			case token.NEQ:
				op = token.EQL
			default:
				return
			}
		}
		l, r := e.Term(x.X), e.Term(x.Y)
		switch op {
		case token.LSS:
			e.Facts = append(e.Facts, lin.LT(l, r, why))
		case token.LEQ:
			e.Facts = append(e.Facts, lin.LE(l, r, why))
		case token.GTR:
			e.Facts = append(e.Facts, lin.GT(l, r, why))
		case token.GEQ:
			e.Facts = append(e.Facts, lin.GE(l, r, why))
		case token.EQL:
			e.Facts = append(e.Facts, lin.LE(l, r, why), lin.GE(l, r, why))
		case token.NEQ:
			if lin.Entails(e.Facts, lin.GE(l, r, "")) {
				e.Facts = append(e.Facts, lin.GT(l, r, why))
			} else if lin.Entails(e.Facts, lin.LE(l, r, "")) {
				e.Facts = append(e.Facts, lin.LT(l, r, why))
			}
		}
	}
}

// edgeFact describes a dominating branch.
type edgeFact struct {
	cond  ssa.Value
	taken bool
	pos   token.Pos
}

func dominatingEdges(b *ssa.BasicBlock) []edgeFact {
	var out []edgeFact
	for cur := b; cur != nil; cur = cur.Idom() {
		d := cur.Idom()
		if d == nil {
			break
		}
		// cur is control dependent on the If of a unique predecessor p with p==d or p dominated...
		if len(cur.Preds) != 1 {
			continue
		}
		p := cur.Preds[0]
		iff, ok := p.Instrs[len(p.Instrs)-1].(*ssa.If)
		if !ok {
			continue
		}
		if p.Succs[0] == cur && p.Succs[1] != cur {
			out = append(out, edgeFact{iff.Cond, true, iff.Pos()})
		} else if p.Succs[1] == cur && p.Succs[0] != cur {
			out = append(out, edgeFact{iff.Cond, false, iff.Pos()})
		}
	}
	// reverse: entry first
	for i, j := 0, len(out)-1; i < j; i, j = i+1, j-1 {
		out[i], out[j] = out[j], out[i]
	}
	return out
}

// executedBefore lists instructions of interest (makes, slices) that dominate
// `in`: they completed without panicking, which is itself a fact.
func (e *Env) addExecutedFacts(in ssa.Instruction) {
	fn := e.fn
	for _, b := range fn.Blocks {
		for _, x := range b.Instrs {
			if x == in {
				break
			}
			dom := false
			if x.Block() == in.Block() {
				dom = ssax.Idx(x) < ssax.Idx(in)
			} else {
				dom = x.Block().Dominates(in.Block())
			}
			if !dom {
				continue
			}
			switch y := x.(type) {
			case *ssa.MakeSlice:
				e.Facts = append(e.Facts, lin.GE(e.Term(y.Len), lin.Const(0), "make succeeded"))
			case *ssa.Slice:
				// lo ≥ 0, lo ≤ hi ≤ cap
				var lo lin.Term = lin.Const(0)
				if y.Low != nil {
					lo = e.Term(y.Low)
				}
				e.Facts = append(e.Facts, lin.GE(lo, lin.Const(0), "slice succeeded"))
				if y.High != nil {
					e.Facts = append(e.Facts, lin.LE(lo, e.Term(y.High), "slice succeeded"))
				} else {
					e.Facts = append(e.Facts, lin.LE(lo, e.baseLen(y.X), "slice succeeded"))
				}
			}
		}
	}
}

// EnvAt builds the fact set holding immediately before instruction in.
func (p *Prover) EnvAt(in ssa.Instruction) *Env {
	fn := in.Parent()
	e := &Env{p: p, at: in, fn: fn, memo: map[ssa.Value]lin.Term{}, vars: map[string]bool{}}
	// preconditions
	for _, pre := range p.Pre[fn] {
		a, ok1 := e.preTerm(pre.A)
		b, ok2 := e.preTerm(pre.B)
		if ok1 && ok2 {
			e.Facts = append(e.Facts, lin.GE(a, b.AddConst(pre.K), "precondition "+pre.String()+" (entailed at every call site)"))
		}
	}
	for _, ef := range dominatingEdges(in.Block()) {
		e.condFacts(ef.cond, ef.taken, fmt.Sprintf("branch at line %d", fn.Prog.Fset.Position(ef.pos).Line))
	}
	e.addExecutedFacts(in)
	return e
}

func (e *Env) preTerm(s string) (lin.Term, bool) {
	if s == "" {
		return lin.Const(0), true
	}
	var kind string
	var idx int
	if _, err := fmt.Sscanf(s, "p:%d", &idx); err == nil {
		kind = "p"
	} else if _, err := fmt.Sscanf(s, "len:%d", &idx); err == nil {
		kind = "len"
	}
	if kind == "" || idx >= len(e.fn.Params) {
		return lin.Term{}, false
	}
	if kind == "p" {
		return e.Term(e.fn.Params[idx]), true
	}
	return e.lenTerm(e.fn.Params[idx]), true
}

func (e *Env) Prove(goal lin.Ineq) bool { return lin.Entails(e.Facts, goal) }

// ---- loop invariants ------------------------------------------------------------

// InferInvariants finds, for loop-header phis of fn, lower bounds φ ≥ init that
// are inductive.
func (p *Prover) InferInvariants(fn *ssa.Function) {
	type cand struct {
		phi    *ssa.Phi
		lower  ssa.Value
		upper  ssa.Value
		strict bool
	}
	var cands []cand
	for _, b := range fn.Blocks {
		for _, in := range b.Instrs {
			phi, ok := in.(*ssa.Phi)
			if !ok {
				break
			}
			if _, _, isInt := intRange(phi.Type(), p.Cfg.IntBits); !isInt {
				continue
			}
			hasBack := false
			for i := range phi.Edges {
				if b.Dominates(b.Preds[i]) {
					hasBack = true
				}
			}
			if !hasBack {
				continue
			}
			for i, ev := range phi.Edges {
				if !b.Dominates(b.Preds[i]) {
					cands = append(cands, cand{phi, ev, nil, false})
				}
			}
			// upper bounds: φ ≤ Y for guards v < Y / v ≤ Y on the back-edge value v (or φ itself), Y defined outside the loop
			for i, ev := range phi.Edges {
				if !b.Dominates(b.Preds[i]) {
					continue
				}
				for _, v := range []ssa.Value{ev, phi} {
					refs := v.Referrers()
					if refs == nil {
						continue
					}
					for _, u := range *refs {
						bo, ok := u.(*ssa.BinOp)
						if !ok || (bo.Op != token.LSS && bo.Op != token.LEQ) || bo.X != v {
							continue
						}
						if yi, ok := bo.Y.(ssa.Instruction); ok {
							if !(yi.Block() != b && yi.Block().Dominates(b)) {
								continue
							}
						}
						cands = append(cands, cand{phi, nil, bo.Y, false})
						if bo.Op == token.LSS {
							cands = append(cands, cand{phi, nil, bo.Y, true})
						}
					}
				}
			}
		}
	}
	// assume all, then drop the non-inductive ones
	set := func() {
		for k := range p.inv {
			if k.Parent() == fn {
				delete(p.inv, k)
			}
		}
		for _, c := range cands {
			p.inv[c.phi] = append(p.inv[c.phi], phiInv{c.lower, c.upper, c.strict})
		}
	}
	for iter := 0; iter < 8; iter++ {
		set()
		var keep []cand
		changed := false
		for _, c := range cands {
			b := c.phi.Block()
			ok := true
			for i, ev := range c.phi.Edges {
				pb := b.Preds[i]
				last := pb.Instrs[len(pb.Instrs)-1]
				if c.lower != nil {
					if !b.Dominates(pb) {
						continue
					}
					env := p.EnvAt(last)
					if !env.Prove(lin.GE(env.Term(ev), env.Term(c.lower), "")) {
						ok = false
					}
				} else {
					// upper bound must hold on every incoming edge (entry and back edges)
					env := p.EnvAt(last)
					var hi lin.Term
					if cl, isCall := c.upper.(*ssa.Call); isCall {
						if cc, _ := ssax.AsCall(cl); cc.FullName() == "builtin.len" {
							hi = env.LenOf(cl.Call.Args[0])
						} else {
							hi = env.Term(c.upper)
						}
					} else {
						hi = env.Term(c.upper)
					}
					goal := lin.LE(env.Term(ev), hi, "")
					if c.strict {
						goal = lin.LT(env.Term(ev), hi, "")
					}
					if !env.Prove(goal) {
						ok = false
					}
				}
			}
			if ok {
				keep = append(keep, c)
			} else {
				changed = true
			}
		}
		cands = keep
		if !changed {
			break
		}
	}
	set()
}

// ---- obligations ------------------------------------------------------------------

type Obligation struct {
	Instr  ssa.Instruction
	Kind   string // index | slice | make | call-precondition
	Desc   string
	Proved bool
	Need   string
	Facts  string
}

// Check generates and decides every bounds obligation of fn.
func (p *Prover) Check(fn *ssa.Function) []Obligation {
	var out []Obligation
	add := func(in ssa.Instruction, kind, desc string, goals ...lin.Ineq) {
		env := p.EnvAt(in)
		// the goals may mention values defined by `in` itself (none here) – translate first
		ok := true
		var need []string
		for _, g := range goals {
			_ = g
		}
		gs := goalsFor(env, in)
		for _, g := range gs {
			if !env.Prove(g) {
				ok = false
				need = append(need, g.Why+": "+g.String())
			}
		}
		o := Obligation{Instr: in, Kind: kind, Desc: desc, Proved: ok}
		if !ok {
			o.Need = strings.Join(need, " ∧ ")
			o.Facts = describeRelevant(env.Facts)
		}
		out = append(out, o)
	}
	ssax.Instrs(fn, func(in ssa.Instruction) {
		switch x := in.(type) {
		case *ssa.IndexAddr:
			if c, ok := x.Index.(*ssa.Const); ok {
				if a, isArr := arrayLen(x.X.Type()); isArr {
					if b, k := constBig(c); k && b.Sign() >= 0 && b.Cmp(big.NewInt(a)) < 0 {
						return // constant index into an array: checked by the compiler
					}
				}
				// varargs arrays etc.
				if _, isAlloc := x.X.(*ssa.Alloc); isAlloc {
					return
				}
			}
			add(in, "index", "index "+exprOf(x.X)+"["+exprOf(x.Index)+"]")
		case *ssa.Index:
			add(in, "index", "index "+exprOf(x.X)+"["+exprOf(x.Index)+"]")
		case *ssa.Lookup:
			if b, ok := x.X.Type().Underlying().(*types.Basic); ok && b.Info()&types.IsString != 0 {
				add(in, "index", "string index "+exprOf(x.X)+"["+exprOf(x.Index)+"]")
			}
		case *ssa.Slice:
			if x.Low == nil && x.High == nil && x.Max == nil {
				return
			}
			add(in, "slice", "slice "+exprOf(x.X)+"["+exprOpt(x.Low)+":"+exprOpt(x.High)+"]")
		case *ssa.MakeSlice:
			if _, ok := x.Len.(*ssa.Const); ok {
				return
			}
			add(in, "make", "make([]T, "+exprOf(x.Len)+")")
		case *ssa.Call:
			c, _ := ssax.AsCall(x)
			if binaryWidth(c.FullName(), "Uint") > 0 || binaryWidth(c.FullName(), "PutUint") > 0 {
				add(in, "call-precondition", c.ShortName()+"("+exprOf(x.Call.Args[1])+")")
			}
		}
	})
	return out
}

func arrayLen(t types.Type) (int64, bool) {
	t = t.Underlying()
	if p, ok := t.(*types.Pointer); ok {
		t = p.Elem().Underlying()
	}
	if a, ok := t.(*types.Array); ok {
		return a.Len(), true
	}
	return 0, false
}

func goalsFor(env *Env, in ssa.Instruction) []lin.Ineq {
	switch x := in.(type) {
	case *ssa.IndexAddr:
		i := env.Term(x.Index)
		return []lin.Ineq{lin.GE(i, lin.Const(0), "index ≥ 0"), lin.LT(i, env.baseLen(x.X), "index < len")}
	case *ssa.Index:
		i := env.Term(x.Index)
		return []lin.Ineq{lin.GE(i, lin.Const(0), "index ≥ 0"), lin.LT(i, env.baseLen(x.X), "index < len")}
	case *ssa.Lookup:
		i := env.Term(x.Index)
		return []lin.Ineq{lin.GE(i, lin.Const(0), "index ≥ 0"), lin.LT(i, env.lenTerm(x.X), "index < len")}
	case *ssa.Slice:
		var gs []lin.Ineq
		var lo lin.Term = lin.Const(0)
		if x.Low != nil {
			lo = env.Term(x.Low)
			gs = append(gs, lin.GE(lo, lin.Const(0), "low ≥ 0"))
		}
		limit := env.capTerm(x.X)
		if x.High != nil {
			hi := env.Term(x.High)
			gs = append(gs, lin.LE(lo, hi, "low ≤ high"), lin.LE(hi, limit, "high ≤ cap"))
		} else {
			gs = append(gs, lin.LE(lo, env.baseLen(x.X), "low ≤ len"))
		}
		return gs
	case *ssa.MakeSlice:
		return []lin.Ineq{lin.GE(env.Term(x.Len), lin.Const(0), "make length ≥ 0")}
	case *ssa.Call:
		c, _ := ssax.AsCall(x)
		n := binaryWidth(c.FullName(), "Uint")
		if n == 0 {
			n = binaryWidth(c.FullName(), "PutUint")
		}
		if n > 0 {
			return []lin.Ineq{lin.GE(env.lenTerm(x.Call.Args[1]), lin.Const(int64(n)), fmt.Sprintf("len ≥ %d", n))}
		}
	}
	return nil
}

func exprOf(v ssa.Value) string {
	if v == nil {
		return ""
	}
	switch x := v.(type) {
	case *ssa.Convert:
		return x.Type().String() + "(" + exprOf(x.X) + ")"
	case *ssa.BinOp:
		return exprOf(x.X) + x.Op.String() + exprOf(x.Y)
	case *ssa.Phi:
		if x.Comment != "" {
			return x.Comment
		}
	case *ssa.Const:
		return x.Value.String()
	case *ssa.Parameter:
		return x.Name()
	}
	k := ssax.AddrKey(v)
	return k
}

func exprOpt(v ssa.Value) string {
	if v == nil {
		return ""
	}
	return exprOf(v)
}

func describeRelevant(fs []lin.Ineq) string {
	var s []string
	seen := map[string]bool{}
	for _, f := range fs {
		if strings.HasPrefix(f.Why, "range of") || f.Why == "len ≥ 0" || f.Why == "cap ≥ len" || strings.HasPrefix(f.Why, "assumed") || f.Why == "len ≤ maxint" {
			continue
		}
		t := f.String() + " [" + f.Why + "]"
		if !seen[t] {
			seen[t] = true
			s = append(s, t)
		}
	}
	sort.Strings(s)
	if len(s) > 12 {
		s = s[:12]
	}
	return strings.Join(s, "; ")
}

// ---- interprocedural preconditions (Houdini) -------------------------------------

// CallSite is a call of fn from caller with the given actuals (receiver first).
type CallSite struct {
	Instr ssa.Instruction
	Args  []ssa.Value
}

// InferPreconditions assumes every candidate precondition for the given
// functions and removes those not entailed at some call site, to a fixpoint.
// sites[fn] must list every call site of fn (functions with unknown callers
// must not be passed).
func (p *Prover) InferPreconditions(sites map[*ssa.Function][]CallSite) {
	for fn := range sites {
		var cs []Pre
		for i, a := range fn.Params {
			if _, _, ok := intRange(a.Type(), p.Cfg.IntBits); ok {
				cs = append(cs, Pre{A: fmt.Sprintf("p:%d", i)}) // p ≥ 0
				for j, b := range fn.Params {
					if i == j {
						continue
					}
					if _, _, ok := intRange(b.Type(), p.Cfg.IntBits); ok && i < j {
						cs = append(cs, Pre{A: fmt.Sprintf("p:%d", j), B: fmt.Sprintf("p:%d", i)}) // pj ≥ pi
					}
					if isSliceOrString(b.Type()) {
						cs = append(cs, Pre{A: fmt.Sprintf("len:%d", j), B: fmt.Sprintf("p:%d", i)}) // len(s) ≥ p
					}
				}
			}
			if isSliceOrString(a.Type()) {
				for _, k := range []int64{1, 2, 4, 8} {
					cs = append(cs, Pre{A: fmt.Sprintf("len:%d", i), K: k}) // len(s) ≥ k
				}
			}
		}
		p.Pre[fn] = cs
	}
	for iter := 0; iter < 10; iter++ {
		changed := false
		var fns []*ssa.Function
		for fn := range sites {
			fns = append(fns, fn)
		}
		sort.Slice(fns, func(i, j int) bool { return fns[i].String() < fns[j].String() })
		for _, fn := range fns {
			for _, f2 := range fns {
				p.InferInvariants(f2)
			}
			var keep []Pre
			for _, pre := range p.Pre[fn] {
				ok := len(sites[fn]) > 0
				for _, s := range sites[fn] {
					env := p.EnvAt(s.Instr)
					at := func(sx string) (lin.Term, bool) {
						if sx == "" {
							return lin.Const(0), true
						}
						var idx int
						if _, err := fmt.Sscanf(sx, "p:%d", &idx); err == nil && idx < len(s.Args) {
							return env.Term(s.Args[idx]), true
						}
						if _, err := fmt.Sscanf(sx, "len:%d", &idx); err == nil && idx < len(s.Args) {
							return env.lenTerm(s.Args[idx]), true
						}
						return lin.Term{}, false
					}
					a, ok1 := at(pre.A)
					b, ok2 := at(pre.B)
					if !ok1 || !ok2 || !env.Prove(lin.GE(a, b.AddConst(pre.K), "")) {
						ok = false
						break
					}
				}
				if ok {
					keep = append(keep, pre)
				} else {
					changed = true
				}
			}
			p.Pre[fn] = keep
		}
		if !changed {
			break
		}
	}
}

func isSliceOrString(t types.Type) bool {
	switch u := t.Underlying().(type) {
	case *types.Slice:
		return true
	case *types.Basic:
		return u.Info()&types.IsString != 0
	}
	return false
}

// AddCond adds the fact that boolean value c evaluated to taken.
func (e *Env) AddCond(c ssa.Value, taken bool) { e.condFacts(c, taken, "guard") }

// LenOf returns the term for len(v).
func (e *Env) LenOf(v ssa.Value) lin.Term { return e.lenTerm(v) }

// earlierLoad finds a load of the same address that dominates ld such that no
// store to that address key and no call lies on any path between them.
func (p *Prover) earlierLoad(ld *ssa.UnOp) *ssa.UnOp {
	fn := ld.Parent()
	key := ssax.AddrKey(ld.X)
	var best *ssa.UnOp
	for _, b := range fn.Blocks {
		for _, in := range b.Instrs {
			u, ok := in.(*ssa.UnOp)
			if !ok || u == ld || u.Op != token.MUL || ssax.AddrKey(u.X) != key {
				continue
			}
			if !ssax.Dominates(u, ld) {
				continue
			}
			// a killer reachable from u (without passing ld) that can reach ld
			killed := false
			isKiller := func(x ssa.Instruction) bool {
				if st, ok := x.(*ssa.Store); ok && ssax.AddrKey(st.Addr) == key {
					return true
				}
				if _, ok := x.(*ssa.Call); ok {
					c, _ := ssax.AsCall(x)
					if !strings.HasPrefix(c.FullName(), "builtin.") {
						return true
					}
				}
				return false
			}
			isLd := func(x ssa.Instruction) bool { return x == ssa.Instruction(ld) }
			uu := u
			isLdOrU := func(x ssa.Instruction) bool { return x == ssa.Instruction(ld) || x == ssa.Instruction(uu) }
			isU := func(x ssa.Instruction) bool { return x == ssa.Instruction(uu) }
			// search paths u → killer avoiding ld, then killer → ld
			for _, b2 := range fn.Blocks {
				for _, k := range b2.Instrs {
					if !isKiller(k) {
						continue
					}
					kk := k
					// paths that re-execute u re-load the value: only same-iteration paths count
					if ssax.PathFrom(fn, u, func(x ssa.Instruction) bool { return x == kk }, isLdOrU) != nil &&
						ssax.PathFrom(fn, kk, isLd, isU) != nil {
						killed = true
					}
				}
			}
			if !killed && (best == nil || ssax.Dominates(u, best)) {
				best = u
			}
		}
	}
	return best
}

// calleeView: for a call x of a small helper of the same package, the fact set
// at the helper's unique (successful) return, that return, and the
// substitution expressing the helper's parameters in the caller's terms. For a
// helper whose last result is an error only the return with a nil error
// counts, and the view is available only at points of the caller dominated by
// the edge on which that error was tested to be nil (elsewhere nothing is
// known about the other results).
func (e *Env) calleeView(x *ssa.Call) (ce *Env, ret *ssa.Return, sub map[string]lin.Term, rename func(string) string, ok bool) {
	g := x.Call.StaticCallee()
	if g == nil || g.Pkg == nil || g.Pkg != e.fn.Pkg || g == e.fn || len(g.Blocks) == 0 || e.p.inlining[g] || len(e.p.inlining) >= 2 {
		return
	}
	res := g.Signature.Results()
	if res.Len() == 0 {
		return
	}
	// the last result may report success: an error (nil) or, with other results, an ok flag (true)
	errLast, okLast := false, false
	if n, isN := res.At(res.Len() - 1).Type().(*types.Named); isN && n.Obj().Pkg() == nil && n.Obj().Name() == "error" {
		errLast = true
	}
	if b, isB := res.At(res.Len() - 1).Type().Underlying().(*types.Basic); isB && b.Kind() == types.Bool && res.Len() > 1 {
		okLast = true
	}
	n := 0
	ssax.Instrs(g, func(in ssa.Instruction) {
		r, isR := in.(*ssa.Return)
		if !isR || in.Block().Comment == "recover" || len(r.Results) != res.Len() {
			return
		}
		if errLast {
			c, isC := r.Results[len(r.Results)-1].(*ssa.Const)
			if !isC || !c.IsNil() {
				return
			}
		}
		if okLast {
			c, isC := r.Results[len(r.Results)-1].(*ssa.Const)
			if !isC || c.Value == nil || !constant.BoolVal(c.Value) {
				return
			}
		}
		ret = r
		n++
	})
	if n != 1 {
		return
	}
	if errLast {
		if res.Len() == 1 || !e.knownNilError(x, res.Len()-1) {
			return
		}
	}
	if okLast && !e.knownTrue(x, res.Len()-1) {
		return
	}
	if e.p.inlining == nil {
		e.p.inlining = map[*ssa.Function]bool{}
	}
	func() {
		// the guard covers the analysis of the callee only; the arguments below
		// may themselves be results of the same helper (chained calls)
		e.p.inlining[g] = true
		defer delete(e.p.inlining, g)
		ce = e.p.EnvAt(ret)
		// force the terms of every result now, so that their side facts are in ce.Facts
		for _, rv := range ret.Results {
			if _, _, isInt := intRange(rv.Type(), e.p.Cfg.IntBits); isInt {
				ce.Term(rv)
			} else if isSliceOrString(rv.Type()) {
				ce.lenTerm(rv)
			}
		}
	}()
	sub, rename = e.paramSubst(x)
	e.importFacts(ce, sub, rename)
	e.p.Cfg.use("result of a single-return helper of the package = its return expression over the arguments")
	return ce, ret, sub, rename, true
}

// paramSubst: how the callee's vocabulary maps to the caller's at call x —
// integer parameters and the len/cap of slice/string parameters become the
// argument's terms; a never-stored field read through a pointer parameter
// ("*p.f") names the same memory as the caller's "*<arg>.f"; every other
// variable of the callee is renamed per call site.
func (e *Env) paramSubst(x *ssa.Call) (map[string]lin.Term, func(string) string) {
	g := x.Call.StaticCallee()
	sub := map[string]lin.Term{}
	ptr := map[string]string{}
	for i, p := range g.Params {
		if i >= len(x.Call.Args) {
			break
		}
		a := x.Call.Args[i]
		if _, _, isInt := intRange(p.Type(), e.p.Cfg.IntBits); isInt {
			sub[p.Name()] = e.Term(a)
		}
		switch p.Type().Underlying().(type) {
		case *types.Slice, *types.Basic:
			if b, isB := p.Type().Underlying().(*types.Basic); !isB || b.Info()&types.IsString != 0 {
				sub["len("+p.Name()+")"] = e.lenTerm(a)
				if !isB {
					sub["cap("+p.Name()+")"] = e.capTerm(a)
				}
			}
		case *types.Pointer:
			ptr["*"+p.Name()+"."] = "*" + ssax.AddrKey(a) + "."
		}
	}
	prefix := "@" + x.Name() + "."
	rename := func(n string) string {
		for from, to := range ptr {
			if strings.HasPrefix(n, from) {
				return to + strings.TrimPrefix(n, from)
			}
			if strings.HasPrefix(n, "len("+from) {
				return "len(" + to + strings.TrimPrefix(n, "len("+from)
			}
		}
		return prefix + n
	}
	return sub, rename
}

// clone copies the environment (facts so far, no sharing of later additions).
func (e *Env) clone() *Env {
	n := &Env{p: e.p, at: e.at, fn: e.fn, memo: map[ssa.Value]lin.Term{}, vars: map[string]bool{}}
	n.Facts = append(n.Facts, e.Facts...)
	for k, v := range e.memo {
		n.memo[k] = v
	}
	for k, v := range e.vars {
		n.vars[k] = v
	}
	return n
}

// CondCases: the environments in which the boolean c has the value taken. An
// ordinary condition gives one (e plus the facts of the condition). A call of
// a bool-valued helper of the package (an extracted predicate) gives one per
// way the helper can return that value — each return, and each incoming edge
// of a returned φ (short-circuit && / ||) — carrying the facts of that way in
// the caller's terms: a disjunctive guard is decided case by case, exactly as
// it is edge by edge when written inline.
func (e *Env) CondCases(c ssa.Value, taken bool) []*Env {
	one := func() []*Env {
		n := e.clone()
		n.condFacts(c, taken, "guard")
		return []*Env{n}
	}
	if u, ok := c.(*ssa.UnOp); ok && u.Op == token.NOT {
		return e.CondCases(u.X, !taken)
	}
	// `err != nil` / `err == nil` on the error a helper of the package returns (an
	// extracted guard: if err := f.checkSize(n); err != nil {…}): one case per
	// return of the helper with an error of that nil-ness
	if bo, isBo := c.(*ssa.BinOp); isBo && (bo.Op == token.NEQ || bo.Op == token.EQL) {
		if k, isK := bo.Y.(*ssa.Const); isK && k.IsNil() {
			if ec, isCall := bo.X.(*ssa.Call); isCall {
				g := ec.Call.StaticCallee()
				if g != nil && g.Pkg != nil && g.Pkg == e.fn.Pkg && g != e.fn && len(g.Blocks) > 0 && !e.p.inlining[g] && g.Signature.Results().Len() == 1 {
					if n, isN := g.Signature.Results().At(0).Type().(*types.Named); isN && n.Obj().Pkg() == nil && n.Obj().Name() == "error" {
						wantNil := (bo.Op == token.EQL) == taken
						sub, rename := e.paramSubst(ec)
						var out []*Env
						ssax.Instrs(g, func(in ssa.Instruction) {
							ret, isRet := in.(*ssa.Return)
							if !isRet || in.Block().Comment == "recover" || len(ret.Results) != 1 {
								return
							}
							rk, isConst := ret.Results[0].(*ssa.Const)
							isNil := isConst && rk.IsNil()
							if isNil != wantNil {
								return
							}
							for _, ce := range e.p.envsAtReturn(ret) {
								n := e.clone()
								n.importFacts(ce, sub, rename)
								out = append(out, n)
							}
						})
						if len(out) > 0 {
							e.p.Cfg.use("an error-returning helper of the package returns (non-)nil only in one of the ways its body does")
							return out
						}
					}
				}
			}
		}
	}
	call, ok := c.(*ssa.Call)
	if !ok {
		return one()
	}
	g := call.Call.StaticCallee()
	if g == nil || g.Pkg == nil || g.Pkg != e.fn.Pkg || g == e.fn || len(g.Blocks) == 0 || e.p.inlining[g] {
		return one()
	}
	res := g.Signature.Results()
	if res.Len() != 1 {
		return one()
	}
	if b, isB := res.At(0).Type().Underlying().(*types.Basic); !isB || b.Kind() != types.Bool {
		return one()
	}
	sub, rename := e.paramSubst(call)
	var out []*Env
	lift := func(ce *Env) {
		n := e.clone()
		n.importFacts(ce, sub, rename)
		out = append(out, n)
	}
	matches := func(k *ssa.Const) bool { return k.Value != nil && constant.BoolVal(k.Value) == taken }
	ssax.Instrs(g, func(in ssa.Instruction) {
		ret, isRet := in.(*ssa.Return)
		if !isRet || in.Block().Comment == "recover" || len(ret.Results) != 1 {
			return
		}
		switch v := ret.Results[0].(type) {
		case *ssa.Const:
			if matches(v) {
				for _, ce := range e.p.envsAtReturn(ret) {
					lift(ce)
				}
			}
		case *ssa.Phi:
			for i, ev := range v.Edges {
				pb := v.Block().Preds[i]
				last := pb.Instrs[len(pb.Instrs)-1]
				ce := e.p.EnvAt(last)
				if iff, isIf := last.(*ssa.If); isIf && pb.Succs[0] != pb.Succs[1] {
					ce.condFacts(iff.Cond, pb.Succs[0] == v.Block(), "branch (in "+g.Name()+")")
				}
				if k, isK := ev.(*ssa.Const); isK {
					if matches(k) {
						lift(ce)
					}
					continue
				}
				ce.condFacts(ev, taken, "returned condition (in "+g.Name()+")")
				lift(ce)
			}
		default:
			ce := e.p.EnvAt(ret)
			ce.condFacts(v, taken, "returned condition (in "+g.Name()+")")
			lift(ce)
		}
	})
	if len(out) == 0 {
		return one()
	}
	e.p.Cfg.use("a bool-valued helper of the package has a given value only in one of the ways its body returns it")
	return out
}

// envsAtReturn: the fact sets in which a return is reached — one per incoming
// edge when its block is a join of several branch edges (the false edges of a
// short-circuit condition meet before `return nil`), otherwise the one at the
// return itself.
func (p *Prover) envsAtReturn(ret *ssa.Return) []*Env {
	b := ret.Block()
	if len(b.Preds) < 2 {
		return []*Env{p.EnvAt(ret)}
	}
	for _, in := range b.Instrs {
		if _, isPhi := in.(*ssa.Phi); isPhi {
			return []*Env{p.EnvAt(ret)}
		}
	}
	var out []*Env
	for _, pb := range b.Preds {
		last := pb.Instrs[len(pb.Instrs)-1]
		ce := p.EnvAt(last)
		if iff, isIf := last.(*ssa.If); isIf && pb.Succs[0] != pb.Succs[1] {
			ce.condFacts(iff.Cond, pb.Succs[0] == b, "branch")
		}
		out = append(out, ce)
	}
	return out
}

// LiftValue expresses an integer value of the helper called by x (or, with
// length, the len of one of its values) in e's terms, whatever the helper's
// return structure.
func (e *Env) LiftValue(x *ssa.Call, v ssa.Value, length bool) (lin.Term, bool) {
	g := x.Call.StaticCallee()
	if g == nil || g.Pkg != e.fn.Pkg || len(g.Blocks) == 0 {
		return lin.Term{}, false
	}
	// no branch facts of the helper: the value may be computed on one of its
	// paths only; what comes along are the definitional facts of the term
	// (ranges, len ≥ 0, …)
	ce := &Env{p: e.p, at: nil, fn: g, memo: map[ssa.Value]lin.Term{}, vars: map[string]bool{}}
	sub, rename := e.paramSubst(x)
	var t lin.Term
	if length {
		t = lin.Subst(ce.lenTerm(v), sub, rename)
	} else {
		t = lin.Subst(ce.Term(v), sub, rename)
	}
	e.importFacts(ce, sub, rename)
	return t, true
}

// importFacts brings the callee's facts (renamed) into e, each once.
func (e *Env) importFacts(ce *Env, sub map[string]lin.Term, rename func(string) string) {
	for _, f := range ce.Facts {
		t := lin.Subst(f.T, sub, rename)
		k := "fact:" + t.String()
		if e.vars[k] {
			continue
		}
		e.vars[k] = true
		e.Facts = append(e.Facts, lin.Ineq{T: t, Why: f.Why + " (in " + ce.fn.Name() + ")"})
	}
}

// knownTrue: the point of e is dominated by the edge on which result #idx (an
// ok flag) of call x was found to be true.
func (e *Env) knownTrue(x *ssa.Call, idx int) bool {
	if e.at == nil || x.Referrers() == nil {
		return false
	}
	for _, u := range *x.Referrers() {
		ex, isEx := u.(*ssa.Extract)
		if !isEx || ex.Index != idx {
			continue
		}
		for _, ef := range dominatingEdges(e.at.Block()) {
			c, taken := ef.cond, ef.taken
			for {
				n, isN := c.(*ssa.UnOp)
				if !isN || n.Op != token.NOT {
					break
				}
				c, taken = n.X, !taken
			}
			if c == ssa.Value(ex) && taken {
				return true
			}
		}
	}
	return false
}

// knownNilError: the point of e is dominated by the edge on which result #idx
// (an error) of call x was found to be nil.
func (e *Env) knownNilError(x *ssa.Call, idx int) bool {
	if e.at == nil || x.Referrers() == nil {
		return false
	}
	for _, u := range *x.Referrers() {
		ex, isEx := u.(*ssa.Extract)
		if !isEx || ex.Index != idx {
			continue
		}
		for _, ef := range dominatingEdges(e.at.Block()) {
			bo, isB := ef.cond.(*ssa.BinOp)
			if !isB || bo.X != ssa.Value(ex) {
				continue
			}
			c, isC := bo.Y.(*ssa.Const)
			if !isC || !c.IsNil() {
				continue
			}
			if bo.Op == token.EQL && ef.taken || bo.Op == token.NEQ && !ef.taken {
				return true
			}
		}
	}
	return false
}

// inlineCall: the integer result (#idx) of a call of a small function of the
// same package (an extracted helper) is the callee's return term with the
// parameters replaced by the arguments; the facts that hold at the callee's
// return come along, with the callee's other variables renamed per call site.
func (e *Env) inlineCall(x *ssa.Call, idx int) (lin.Term, bool) {
	ce, ret, sub, rename, ok := e.calleeView(x)
	if !ok || idx >= len(ret.Results) {
		return lin.Term{}, false
	}
	if _, _, isInt := intRange(ret.Results[idx].Type(), e.p.Cfg.IntBits); !isInt {
		return lin.Term{}, false
	}
	t := lin.Subst(ce.Term(ret.Results[idx]), sub, rename)
	e.importFacts(ce, sub, rename)
	return t, true
}

// inlineLen: len of the slice/string result (#idx) of a helper call.
func (e *Env) inlineLen(x *ssa.Call, idx int) (lin.Term, bool) {
	ce, ret, sub, rename, ok := e.calleeView(x)
	if !ok || idx >= len(ret.Results) || !isSliceOrString(ret.Results[idx].Type()) {
		return lin.Term{}, false
	}
	t := lin.Subst(ce.lenTerm(ret.Results[idx]), sub, rename)
	e.importFacts(ce, sub, rename)
	return t, true
}

// CalleeTerm expresses an integer value (or, with length, the len of a
// slice/string value) of the helper called by x in the caller's terms.
func (e *Env) CalleeTerm(x *ssa.Call, v ssa.Value, length bool) (lin.Term, bool) {
	ce, _, sub, rename, ok := e.calleeView(x)
	if !ok {
		return lin.Term{}, false
	}
	var t lin.Term
	if length {
		t = lin.Subst(ce.lenTerm(v), sub, rename)
	} else {
		t = lin.Subst(ce.Term(v), sub, rename)
	}
	e.importFacts(ce, sub, rename)
	return t, true
}

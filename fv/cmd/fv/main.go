// fv — static checker for the frugal properties C01–C20.
//
//	fv check -prop C01 -tier quick|thorough
//	fv explain <report.json>
//
// Environment: FV_REPO (default /repo) selects the tree to analyse, FV_VERIF
// (default /verif) where evidence/reports/known_findings live.
package main

import (
	"encoding/json"
	"flag"
	"fmt"
	"os"
	"runtime/debug"
	"sort"

	"fv/internal/core"
	"fv/rules"
)

func main() {
	if len(os.Args) < 2 {
		usage()
	}
	switch os.Args[1] {
	case "check":
		fs := flag.NewFlagSet("check", flag.ExitOnError)
		prop := fs.String("prop", "", "property id")
		tier := fs.String("tier", "quick", "quick|thorough")
		fs.Parse(os.Args[2:])
		if t := os.Getenv("VERIF_TIER"); t != "" && *tier == "" {
			*tier = t
		}
		os.Exit(check(*prop, *tier))
	case "explain":
		if len(os.Args) < 3 {
			usage()
		}
		os.Exit(explain(os.Args[2]))
	case "list":
		var ids []string
		for id := range rules.Registry {
			ids = append(ids, id)
		}
		sort.Strings(ids)
		for _, id := range ids {
			fmt.Println(id)
		}
	default:
		usage()
	}
}

func usage() {
	fmt.Fprintln(os.Stderr, "usage: fv check -prop Cnn -tier quick|thorough | fv explain <report.json> | fv list")
	os.Exit(2)
}

func check(prop, tier string) (code int) {
	f, ok := rules.Registry[prop]
	if !ok {
		fmt.Fprintf(os.Stderr, "fv: no check for property %q\n", prop)
		return 2
	}
	if tier != "quick" && tier != "thorough" {
		fmt.Fprintf(os.Stderr, "fv: bad tier %q\n", tier)
		return 2
	}
	ctx := core.NewCtx(prop, tier)
	func() {
		defer func() {
			if r := recover(); r != nil {
				ctx.LoadError(fmt.Sprintf("checker panic: %v\n%s", r, debug.Stack()))
			}
		}()
		f(ctx)
	}()
	return ctx.Finish()
}

func explain(path string) int {
	b, err := os.ReadFile(path)
	if err != nil {
		fmt.Fprintln(os.Stderr, err)
		return 2
	}
	var rep map[string]interface{}
	if err := json.Unmarshal(b, &rep); err != nil {
		fmt.Fprintln(os.Stderr, err)
		return 2
	}
	fmt.Printf("property : %v\nrule     : %v\n           %v\nconstruct: %v\nat       : %v\nstatus   : %v\ndetail   : %v\n",
		rep["property"], rep["rule"], rep["rule_doc"], rep["construct"], rep["pos"], rep["status"], rep["detail"])
	if p, ok := rep["path"].([]interface{}); ok && len(p) > 0 {
		fmt.Println("path     :")
		for _, s := range p {
			fmt.Printf("  %v\n", s)
		}
	}
	prop, _ := rep["property"].(string)
	tier, _ := rep["tier"].(string)
	if tier == "" {
		tier = "quick"
	}
	fmt.Printf("--- re-running %s on the current tree ---\n", prop)
	code := check(prop, tier)
	key, _ := rep["key"].(string)
	fmt.Printf("--- obligation %s: see the lines above (exit %d) ---\n", key, code)
	return code
}

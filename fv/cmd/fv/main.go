// fv — static checker for the frugal properties C01–C20.
//
//	fv check -prop C01 -tier quick|thorough
//	fv explain <report.json>
//
// Environment: FV_REPO (default /repo) selects the tree to analyse, FV_VERIF
// (default /verif) where evidence/reports/known_findings live.
package main

import (
	"encoding/json"
	"flag"
	"fmt"
	"os"
	"os/exec"
	"path/filepath"
	"runtime/debug"
	"sort"
	"strings"

	"fv/internal/core"
	"fv/rules"
)

func main() {
	if len(os.Args) < 2 {
		usage()
	}
	switch os.Args[1] {
	case "check":
		fs := flag.NewFlagSet("check", flag.ExitOnError)
		prop := fs.String("prop", "", "property id")
		tier := fs.String("tier", "quick", "quick|thorough")
		fs.Parse(os.Args[2:])
		if t := os.Getenv("VERIF_TIER"); t != "" && *tier == "" {
			*tier = t
		}
		os.Exit(check(*prop, *tier))
	case "explain":
		if len(os.Args) < 3 {
			usage()
		}
		os.Exit(explain(os.Args[2]))
	case "list":
		var ids []string
		for id := range rules.Registry {
			ids = append(ids, id)
		}
		sort.Strings(ids)
		for _, id := range ids {
			fmt.Println(id)
		}
	default:
		usage()
	}
}

func usage() {
	fmt.Fprintln(os.Stderr, "usage: fv check -prop Cnn -tier quick|thorough | fv explain <report.json> | fv list")
	os.Exit(2)
}

func check(prop, tier string) (code int) {
	f, ok := rules.Registry[prop]
	if !ok {
		fmt.Fprintf(os.Stderr, "fv: no check for property %q\n", prop)
		return 2
	}
	if tier != "quick" && tier != "thorough" {
		fmt.Fprintf(os.Stderr, "fv: bad tier %q\n", tier)
		return 2
	}
	ctx := core.NewCtx(prop, tier)
	run := func() {
		defer func() {
			if r := recover(); r != nil {
				ctx.LoadError(fmt.Sprintf("checker panic: %v\n%s", r, debug.Stack()))
			}
		}()
		f(ctx)
		rules.Shared(ctx)
	}
	rules.CurGOOS, rules.CurGOARCH = os.Getenv("FV_GOOS"), os.Getenv("FV_GOARCH")
	run()
	if tier == "thorough" && rules.CurGOARCH == "" {
		// second build configuration: 32-bit int changes the overflow side
		// conditions of the prover and covers build-tagged files; obligations
		// are merged by key (worst status wins)
		explanation := ctx.Explanation
		rules.CurGOARCH = "386"
		run()
		rules.CurGOARCH = ""
		ctx.Explanation = explanation + " Thorough tier: every rule over the Go runtime was decided under linux/amd64 and linux/386 and the seeded changes of this property were replayed against scratch copies (detection_selftest)."
		selftest(ctx, prop)
	}
	return ctx.Finish()
}

// selftest replays the seeded changes stored for a property: each patch is
// applied to a scratch copy of the analysed tree (outside /repo and /verif),
// the property's quick check is run on the copy in a fresh process, and the
// outcome is recorded in the evidence. It tests the checker, never frugal,
// and has no influence on the verdict.
func selftest(ctx *core.Ctx, prop string) {
	dirs, _ := filepath.Glob(filepath.Join(ctx.VerifDir, "seeded", "*"))
	sort.Strings(dirs)
	self, _ := os.Executable()
	for _, d := range dirs {
		b, err := os.ReadFile(filepath.Join(d, "meta.json"))
		if err != nil {
			continue
		}
		var meta struct {
			Property string   `json:"property"`
			Also     []string `json:"also"`
		}
		if json.Unmarshal(b, &meta) != nil {
			continue
		}
		applies := meta.Property == prop
		for _, a := range meta.Also {
			if a == prop {
				applies = true
			}
		}
		if !applies {
			continue
		}
		seed := filepath.Base(d)
		res := map[string]interface{}{"seed": seed, "seeded_for": meta.Property}
		tmp, err := os.MkdirTemp("", "fvseed.")
		if err != nil {
			continue
		}
		func() {
			defer os.RemoveAll(tmp)
			repo := filepath.Join(tmp, "repo")
			if out, err := exec.Command("rsync", "-a", "--exclude", ".git", ctx.RepoDir+"/", repo+"/").CombinedOutput(); err != nil {
				res["error"] = "copy: " + string(out)
				return
			}
			ap := exec.Command("git", "apply", filepath.Join(d, "patch.diff"))
			ap.Dir = repo
			if out, err := ap.CombinedOutput(); err != nil {
				res["error"] = "patch does not apply: " + strings.TrimSpace(string(out))
				return
			}
			sv := filepath.Join(tmp, "verif")
			os.MkdirAll(sv, 0o755)
			if kb, err := os.ReadFile(filepath.Join(ctx.VerifDir, "known_findings.json")); err == nil {
				os.WriteFile(filepath.Join(sv, "known_findings.json"), kb, 0o644)
			}
			c := exec.Command(self, "check", "-prop", prop, "-tier", "quick")
			c.Env = append(os.Environ(), "FV_REPO="+repo, "FV_VERIF="+sv)
			out, _ := c.CombinedOutput()
			code := c.ProcessState.ExitCode()
			var rulesHit []string
			seen := map[string]bool{}
			for _, l := range strings.Split(string(out), "\n") {
				l = strings.TrimSpace(l)
				if strings.HasPrefix(l, "rule=") {
					r := strings.Fields(l)[0]
					if !seen[r] {
						seen[r] = true
						rulesHit = append(rulesHit, strings.TrimPrefix(r, "rule="))
					}
				}
			}
			res["exit"] = code
			res["caught"] = code == 1
			res["rules"] = rulesHit
		}()
		ctx.Selftests = append(ctx.Selftests, res)
		fmt.Printf("SELFTEST: property=%s seed=%s caught=%v rules=%v\n", prop, seed, res["caught"], res["rules"])
	}
}

func explain(path string) int {
	b, err := os.ReadFile(path)
	if err != nil {
		fmt.Fprintln(os.Stderr, err)
		return 2
	}
	var rep map[string]interface{}
	if err := json.Unmarshal(b, &rep); err != nil {
		fmt.Fprintln(os.Stderr, err)
		return 2
	}
	fmt.Printf("property : %v\nrule     : %v\n           %v\nconstruct: %v\nat       : %v\nstatus   : %v\ndetail   : %v\n",
		rep["property"], rep["rule"], rep["rule_doc"], rep["construct"], rep["pos"], rep["status"], rep["detail"])
	if p, ok := rep["path"].([]interface{}); ok && len(p) > 0 {
		fmt.Println("path     :")
		for _, s := range p {
			fmt.Printf("  %v\n", s)
		}
	}
	prop, _ := rep["property"].(string)
	tier, _ := rep["tier"].(string)
	if tier == "" {
		tier = "quick"
	}
	fmt.Printf("--- re-running %s on the current tree ---\n", prop)
	code := check(prop, tier)
	key, _ := rep["key"].(string)
	fmt.Printf("--- obligation %s: see the lines above (exit %d) ---\n", key, code)
	return code
}

package rules

import (
	"go/token"
	"go/types"
	"sort"
	"strings"

	"fv/internal/core"
	"fv/internal/ssax"

	"golang.org/x/tools/go/ssa"
)

var pureExternalPrefixes = []string{"strings.", "strconv.", "fmt.Sprintf", "fmt.Sprint", "fmt.Errorf", "errors.", "sort.", "path/filepath.", "path.", "unicode.", "unicode/utf8.", "builtin.", "bytes.", "regexp.", "(*regexp.Regexp).", "(*strings.Builder).", "html/template.HTML", "html.Escape", "(reflect."}

func isPureExternal(full string) bool {
	for _, p := range pureExternalPrefixes {
		if strings.HasPrefix(full, p) {
			return true
		}
	}
	return false
}

// loopBlocks returns the blocks on a cycle through b.
func loopBlocks(b *ssa.BasicBlock) map[*ssa.BasicBlock]bool {
	out := map[*ssa.BasicBlock]bool{}
	for _, x := range b.Parent().Blocks {
		if (x == b || blockReaches(b, x)) && (x == b || blockReaches(x, b)) {
			out[x] = true
		}
	}
	return out
}

type benignInfo struct {
	cache map[*ssa.Function]int // 0 unknown, 1 benign (or in progress), 2 not
	why   map[*ssa.Function]string
	res   func(ssax.Call) []*ssa.Function
}

// benign: the function has no effect other than inserting into maps it was
// given / local state, and calling benign functions — so calling it in any
// order gives the same final state.
func (bi *benignInfo) benign(fn *ssa.Function) bool {
	if v, ok := bi.cache[fn]; ok {
		return v == 1
	}
	bi.cache[fn] = 1
	ok := true
	ssax.Instrs(fn, func(in ssa.Instruction) {
		if !ok {
			return
		}
		switch x := in.(type) {
		case *ssa.Store:
			root := addrRoot(x.Addr)
			if _, isAlloc := root.(*ssa.Alloc); !isAlloc {
				ok = false
				bi.why[fn] = "stores to non-local memory"
			}
		case *ssa.Send, *ssa.Go:
			ok = false
		case ssa.CallInstruction:
			c, _ := ssax.AsCall(in)
			full := c.FullName()
			if isPureExternal(full) {
				return
			}
			ts := bi.res(c)
			if len(ts) == 0 {
				ok = false
				bi.why[fn] = "calls " + full + " (unknown effect)"
				return
			}
			for _, t := range ts {
				if !bi.benign(t) {
					ok = false
					bi.why[fn] = "calls " + QName(t)
				}
			}
		}
	})
	if !ok {
		bi.cache[fn] = 2
	}
	return ok
}

func addrRoot(v ssa.Value) ssa.Value {
	for i := 0; i < 20; i++ {
		switch x := v.(type) {
		case *ssa.FieldAddr:
			v = x.X
		case *ssa.IndexAddr:
			v = x.X
		case *ssa.UnOp:
			if x.Op == token.MUL {
				return v
			}
			return v
		default:
			return v
		}
	}
	return v
}

// sortedBeforeUse: every use of slice value v outside the loop is dominated by
// a sort call on v (or is that call).
func sortedBeforeUse(v ssa.Value, loop map[*ssa.BasicBlock]bool) (bool, string) {
	var sorts []ssa.Instruction
	var others []ssa.Instruction
	var visit func(x ssa.Value, depth int)
	seen := map[ssa.Value]bool{}
	visit = func(x ssa.Value, depth int) {
		if seen[x] || depth > 4 {
			return
		}
		seen[x] = true
		refs := x.Referrers()
		if refs == nil {
			return
		}
		for _, u := range *refs {
			if loop[u.Block()] {
				continue
			}
			switch y := u.(type) {
			case *ssa.DebugRef:
			case *ssa.ChangeType:
				visit(y, depth+1)
			case *ssa.MakeInterface:
				visit(y, depth+1)
			case *ssa.Phi:
				visit(y, depth+1)
			case *ssa.Call:
				c, _ := ssax.AsCall(y)
				if strings.HasPrefix(c.FullName(), "sort.") {
					sorts = append(sorts, u)
				} else {
					others = append(others, u)
				}
			default:
				others = append(others, u)
			}
		}
	}
	visit(v, 0)
	if len(sorts) == 0 {
		return false, "the slice filled in map order is never sorted"
	}
	for _, o := range others {
		dom := false
		for _, s := range sorts {
			if ssax.Dominates(s, o) {
				dom = true
			}
		}
		if !dom {
			return false, "the slice filled in map order is used (" + shortInstr(o) + ") before it is sorted"
		}
	}
	return true, ""
}

// C19 — generation is deterministic and location-independent.
func C19(ctx *core.Ctx) {
	ctx.Explanation = "Decides for all IDL programs the structural conditions of deterministic, location-independent output: every range over a map reachable from compiler.Compile has an order-insensitive body (map inserts, calls to functions whose only effect is map inserts, or appends to a slice that is sorted before any other use); no nondeterminism source (time.Now outside the globals initialiser/reset whose only reader is the Java dated-annotation path, math/rand, environment, pid, hostname, goroutines, select) in the cone; " +
		"values derived from the location of the sources or the output directory (Frugal.File/Dir/Path, globals.Out/FileDir, filepath.Abs, os.Getwd) reach neither emitted content nor sort keys (whole-program field-based taint analysis); Compile defers globals.Reset and Reset re-initialises every mutable global. Not decided: the bytes themselves; yaml/json marshalling of maps is summarised as key-sorted."
	cc := LoadCC(ctx)
	if !cc.OK() {
		return
	}
	ctx.Rule("C19.R1", "map order never reaches output: every map range in cone(compiler.Compile) has an order-insensitive body", 3)
	ctx.Rule("C19.R2", "no nondeterminism source in the cone (time, rand, env, pid, host, goroutines, select)", 2)
	ctx.Rule("C19.R3", "location taint reaches neither emitted content nor sort keys", 2)
	ctx.Rule("C19.R4", "Compile defers globals.Reset; Reset assigns every mutable global", 2)
	ctx.Assume("encoding/json and yaml.v2 marshal maps with sorted keys")
	res := cc.Resolver()
	entry := cc.Fn("C19.R1", "compiler", "Compile")
	if entry == nil {
		return
	}
	cone := ssax.Cone([]*ssa.Function{entry}, res, true)
	ctx.Stat("c19_cone_functions", len(cone))
	bi := &benignInfo{cache: map[*ssa.Function]int{}, why: map[*ssa.Function]string{}, res: res}

	// ---- R1 -------------------------------------------------------------------------
	for _, fn := range cone {
		ord := 0
		ssax.Instrs(fn, func(in ssa.Instruction) {
			rg, ok := in.(*ssa.Range)
			if !ok {
				return
			}
			if _, isMap := rg.X.Type().Underlying().(*types.Map); !isMap {
				return
			}
			ord++
			construct := QName(fn) + sprintf(" › range #%d over map %s", ord, ssax.AddrKey(rg.X))
			var next *ssa.Next
			for _, u := range *rg.Referrers() {
				if n, ok := u.(*ssa.Next); ok {
					next = n
				}
			}
			if next == nil {
				ctx.Discharge("C19.R1", construct, cc.IPos(in), "iterator never advanced")
				return
			}
			loop := loopBlocks(next.Block())
			problem := ""
			how := []string{}
			for b := range loop {
				for _, x := range b.Instrs {
					switch y := x.(type) {
					case *ssa.MapUpdate:
						// two iterations must not be able to write different values under one key
						// (last writer would win in map order): the key is this range's own key
						// (distinct per iteration), or the value does not depend on the iteration
						keyOK := false
						if e, isE := ssax.Strip(y.Key).(*ssa.Extract); isE && e.Tuple == ssa.Value(next) && e.Index == 1 {
							keyOK = true
						}
						valOK := false
						switch vv := ssax.Strip(y.Value).(type) {
						case *ssa.Const:
							valOK = true
						case *ssa.MakeInterface:
							_, valOK = vv.X.(*ssa.Const)
						}
						if st, isSt := y.Value.Type().Underlying().(*types.Struct); isSt && st.NumFields() == 0 {
							valOK = true
						}
						if keyOK || valOK {
							how = append(how, "map insert")
						} else {
							problem = "inserts an iteration-dependent value under a computed key (" + y.Key.Name() + "): if two entries map to the same key the last writer wins in map order"
						}
					case *ssa.Store:
						root := addrRoot(y.Addr)
						if _, isAlloc := root.(*ssa.Alloc); !isAlloc {
							if _, isC := y.Val.(*ssa.Const); !isC {
								problem = "stores an iteration-dependent value to non-local memory (last writer wins in map order)"
							}
						}
					case *ssa.Send, *ssa.Go:
						problem = "sends/spawns in map order"
					case *ssa.Return:
						for _, rv := range y.Results {
							if _, isC := ssax.Strip(ResolveLocal(rv)).(*ssa.Const); !isC {
								problem = "returns an iteration-dependent value from inside the map range"
							}
						}
					case *ssa.BinOp:
						if b, isB := y.Type().Underlying().(*types.Basic); isB && b.Info()&types.IsString != 0 && y.Op == token.ADD {
							// string built up across iterations?
							for _, op := range []ssa.Value{y.X, y.Y} {
								if ph, isPhi := op.(*ssa.Phi); isPhi && loop[ph.Block()] {
									problem = "concatenates a string across iterations in map order"
								}
							}
						}
					case ssa.CallInstruction:
						c, _ := ssax.AsCall(x)
						full := c.FullName()
						if full == "builtin.append" {
							v := x.(ssa.Value)
							// follow to the loop-carried phi
							var target ssa.Value = v
							for _, u := range *v.Referrers() {
								if ph, isPhi := u.(*ssa.Phi); isPhi && loop[ph.Block()] {
									target = ph
								}
							}
							ok, why := sortedBeforeUse(target, loop)
							if !ok {
								problem = why
							} else {
								how = append(how, "append to a slice sorted before use")
							}
							continue
						}
						if isPureExternal(full) {
							continue
						}
						ts := res(c)
						if len(ts) == 0 {
							problem = "calls " + full + " in map order (effect unknown)"
							continue
						}
						for _, t := range ts {
							if !bi.benign(t) {
								problem = "calls " + QName(t) + " in map order (" + bi.why[t] + ")"
							} else {
								how = append(how, "call of map-insert-only "+QName(t))
							}
						}
						// an ordered aggregate (slice, string) handed back by the callee and
						// carried round the loop is an append in disguise:
						// `acc = collect(item, acc)` accumulates in map order
						if v, isV := x.(ssa.Value); isV {
							ordered := false
							switch tt := v.Type().Underlying().(type) {
							case *types.Slice:
								ordered = true
							case *types.Basic:
								ordered = tt.Info()&types.IsString != 0
							}
							if ordered && v.Referrers() != nil {
								for _, u := range *v.Referrers() {
									if ph, isPhi := u.(*ssa.Phi); isPhi && loop[ph.Block()] {
										if ok, why := sortedBeforeUse(ph, loop); !ok {
											problem = "carries the " + v.Type().String() + " returned by " + c.ShortName() + " round the loop (accumulation in map order): " + why
										} else {
											how = append(how, "accumulated slice sorted before use")
										}
									}
								}
							}
						}
					}
				}
			}
			// early exits of the body: the first entry (in map order) that satisfies a
			// test decides what is returned / what the variable holds after a break
			header := next.Block()
			for b := range loop {
				if b == header {
					continue
				}
				for _, sx := range b.Succs {
					if loop[sx] {
						continue
					}
					for _, x := range sx.Instrs {
						switch y := x.(type) {
						case *ssa.Phi:
							for i, pb := range sx.Preds {
								if pb == b {
									if _, isC := ssax.Strip(y.Edges[i]).(*ssa.Const); !isC {
										problem = "leaves the loop early (break) with an iteration-dependent value: the first matching entry in map order wins"
									}
								}
							}
						case *ssa.Return:
							for _, rv := range y.Results {
								if _, isC := ssax.Strip(ResolveLocal(rv)).(*ssa.Const); !isC {
									if !isErrorType(rv.Type()) {
										problem = "returns from inside the map range with an iteration-dependent value: the first matching entry in map order wins"
									}
								}
							}
						}
					}
				}
			}
			sort.Strings(how)
			if problem == "" {
				ctx.Discharge("C19.R1", construct, cc.IPos(in), "order-insensitive body: "+strings.Join(uniq(how), ", "))
			} else {
				ctx.Violate("C19.R1", construct, cc.IPos(in), "Go randomises map iteration per run and the loop body "+problem+": generated output can differ between runs")
			}
		})
	}

	// ---- R2 -------------------------------------------------------------------------
	globalsPkg := cc.Pkg("globals")
	nsrc := 0
	for _, fn := range cone {
		ssax.Instrs(fn, func(in ssa.Instruction) {
			switch x := in.(type) {
			case *ssa.Go:
				nsrc++
				ctx.Violate("C19.R2", QName(fn)+" › go statement", cc.IPos(in), "goroutine in the compile cone: output order can depend on scheduling")
			case *ssa.Select:
				nsrc++
				ctx.Violate("C19.R2", QName(fn)+" › select", cc.IPos(in), "select in the compile cone")
			case *ssa.Call:
				c, _ := ssax.AsCall(x)
				full := c.FullName()
				bad := full == "time.Now" || strings.HasPrefix(full, "math/rand.") || full == "os.Getenv" || full == "os.Getpid" || full == "os.Hostname" || full == "os.Environ" || strings.HasPrefix(full, "crypto/rand.") || full == "os.LookupEnv"
				if full == "path/filepath.EvalSymlinks" || full == "os.Readlink" {
					// the names the user gave are the location; resolving links replaces them
					// by wherever the links happen to point on this machine
					nsrc++
					ctx.Violate("C19.R2", QName(fn)+" › call "+full, cc.IPos(in), "a source path is resolved through symbolic links: module name, include directory and `../` includes are then taken from the link target's location instead of the path the user named — the same sources give different output (or another file is included) depending on how the tree is linked on this machine")
					return
				}
				if (full == "path/filepath.Abs" || full == "os.Getwd") && fn.Pkg == cc.Pkg("parser") {
					// the root file is made absolute once, by Compile; inside the parser a
					// path resolved against the working directory makes *what is parsed*
					// depend on where the compiler is run from
					nsrc++
					ctx.Violate("C19.R2", QName(fn)+" › call "+full, cc.IPos(in), "the parser resolves a path against the working directory: which file an include names — and so the generated text, or whether the program compiles at all — depends on the directory the compiler is run from")
					return
				}
				if !bad {
					return
				}
				if full == "time.Now" && fn.Pkg == globalsPkg && (fn.Name() == "Reset" || fn.Name() == "init") {
					return
				}
				nsrc++
				ctx.Violate("C19.R2", QName(fn)+" › call "+full, cc.IPos(in), "nondeterminism source in the compile cone: something other than the IDL, options and compiler version influences the output")
			}
		})
	}
	// the clock value may be rendered only where the user did not ask for undated output
	for _, fn := range cone {
		if fn.Pkg == globalsPkg {
			continue
		}
		for _, c := range ssax.Calls(fn) {
			if c.Static == nil || c.Static.Signature.Recv() == nil || !ssax.TypeNamed(c.Static.Signature.Recv().Type(), "time", "Time") {
				continue
			}
			switch c.Static.Name() {
			case "Format", "String", "Unix", "UnixNano", "Year", "YearDay", "Date", "Clock", "AppendFormat", "MarshalText", "MarshalJSON":
			default:
				continue
			}
			in := c.Instr.(ssa.Instruction)
			guarded := false
			for b := in.Block(); b != nil && b.Idom() != nil; b = b.Idom() {
				d := b.Idom()
				iff, isIf := d.Instrs[len(d.Instrs)-1].(*ssa.If)
				if !isIf || len(b.Preds) != 1 || b.Preds[0] != d {
					continue
				}
				bo, isB := iff.Cond.(*ssa.BinOp)
				if !isB {
					continue
				}
				undated := false
				for _, side := range []ssa.Value{bo.X, bo.Y} {
					if k, isK := ConstString(side); isK && k == "undated" {
						undated = true
					}
				}
				if undated && ((bo.Op == token.NEQ && d.Succs[0] == b) || (bo.Op == token.EQL && d.Succs[1] == b)) {
					guarded = true
				}
			}
			if !guarded {
				nsrc++
			}
			ctx.Check(guarded, "C19.R2", QName(fn)+" › the clock is rendered only when dated output was asked for ("+c.Static.Name()+")", cc.IPos(in), "under the edge option != \"undated\"",
				"the compile-time clock is formatted into the output without the `undated` test: with generated_annotations=undated (or no such option) the emitted text still carries the date of the run, so two compilations on different days differ")
		}
	}
	if nsrc == 0 {
		ctx.Discharge("C19.R2", "cone(compiler.Compile) › no nondeterminism source", cc.FPos(entry), sprintf("%d functions scanned", len(cone)))
	}
	// readers of globals.Now
	if globalsPkg != nil {
		if now, ok := globalsPkg.Members["Now"].(*ssa.Global); ok {
			okReaders := true
			n := 0
			for _, fn := range cc.Fns {
				ssax.Instrs(fn, func(in ssa.Instruction) {
					if u, isU := in.(*ssa.UnOp); isU && u.X == ssa.Value(now) {
						n++
						if fn.Pkg.Pkg.Name() != "java" {
							okReaders = false
						}
					}
				})
			}
			ctx.Check(okReaders, "C19.R2", "globals.Now › read only by the Java dated-annotation path", cc.V.Pos(now.Pos()), sprintf("%d reader(s), all in package java", n), "the compile-time clock is read outside the Java generated_annotations path: output is dated")
		}
	}

	// ---- R3 -------------------------------------------------------------------------
	c19Taint(ctx, cc, cone, res)

	ctx.Rule("C19.R6", "output does not depend on what the output directory held before: a file opened with O_CREATE for writing is opened with O_TRUNC", 1)
	truncateOnCreate(ctx, cc, cone, entry, "C19.R6")
	// ---- R7: nothing is decided by what the output directory already holds -----------
	ctx.Rule("C19.R7", "generators never test whether an output file or directory already exists (os.Stat/Lstat, os.IsExist/IsNotExist, O_EXCL): the emitted text does not depend on what an earlier run left behind", 1)
	{
		n, scanned := 0, 0
		for _, fn := range cone {
			if fn.Pkg == nil || !strings.Contains(fn.Pkg.Pkg.Path(), "/compiler/generator") {
				continue
			}
			scanned++
			for _, c := range ssax.Calls(fn) {
				switch c.FullName() {
				case "os.Stat", "os.Lstat", "os.IsExist", "os.IsNotExist", "path/filepath.Glob", "os.ReadDir", "io/ioutil.ReadDir":
					n++
					ctx.Violate("C19.R7", QName(fn)+" › "+c.FullName(), cc.IPos(c.Instr),
						"a generator looks at what the output directory already contains: a file left by an earlier run (another IDL revision, another target) is kept or changes what is written — in-place writers that rely on a fresh file then leave its stale tail — so the same IDL and options no longer give the same bytes in every output directory")
				case "os.OpenFile":
					if flags, isK := ssax.ConstInt(c.Args()[1]); isK && flags&0x80 != 0 { // O_EXCL
						n++
						ctx.Violate("C19.R7", QName(fn)+" › os.OpenFile(O_EXCL)", cc.IPos(c.Instr), "creation that fails or is skipped when the file exists: the result depends on the previous contents of the output directory")
					}
				}
			}
		}
		if n == 0 {
			ctx.Discharge("C19.R7", "generator packages › no existence test", cc.FPos(entry), sprintf("%d generator functions of the compile cone scanned", scanned))
		}
	}
	ctx.Rule("C19.R8", "what is generated for a file does not depend on which other files the same run generated before it: no generator map field memoises the current program's resolution across SetFrugal", 1)
	generatorCaches(ctx, cc, "C19.R8")
	// ---- R4 -------------------------------------------------------------------------
	ctx.Rule("C19.R5", "no compilation state outside package globals: no other package-level variable is written or mutated in place by the compile cone", 1)
	{
		muts := packageStateMutations(cone, cc.Fns, globalsPkg)
		var gs []*ssa.Global
		for g := range muts {
			gs = append(gs, g)
		}
		sort.Slice(gs, func(i, j int) bool { return gs[i].String() < gs[j].String() })
		for _, g := range gs {
			ctx.Violate("C19.R5", g.Pkg.Pkg.Name()+"."+g.Name()+" › package-level state written during compilation", cc.V.Pos(g.Pos()),
				"the variable is "+muts[g]+": it outlives the compilation (it is not one of the globals Reset re-initialises), so what a later Compile in the same process emits depends on what was compiled before (stale parse trees, trees rewritten by another generator)")
		}
		if len(gs) == 0 {
			ctx.Discharge("C19.R5", "cone(compiler.Compile) › no package-level state outside globals is written", cc.FPos(entry), sprintf("%d functions scanned", len(cone)))
		}
	}
	if globalsPkg != nil {
		reset := cc.Fn("C19.R4", "globals", "Reset")
		deferred := false
		for _, c := range ssax.Calls(entry) {
			if _, isD := c.Instr.(*ssa.Defer); isD && c.Static == reset && reset != nil {
				deferred = ssax.Idx(c.Instr.(ssa.Instruction)) >= 0 && c.Instr.Block() == entry.Blocks[0]
			}
		}
		ctx.Check(deferred, "C19.R4", "compiler.Compile › defers globals.Reset", cc.FPos(entry), "defer globals.Reset() in the entry block", "global state survives a compilation: the next Compile in the same process (tests, library use) produces different output")
		if reset != nil {
			assigned := map[string]bool{}
			ssax.Instrs(reset, func(in ssa.Instruction) {
				if st, ok := in.(*ssa.Store); ok {
					if g, ok := st.Addr.(*ssa.Global); ok {
						assigned[g.Name()] = true
					}
				}
			})
			// mutable globals: stored to outside init/Reset, or map-typed (mutated in place)
			for name, m := range globalsPkg.Members {
				g, ok := m.(*ssa.Global)
				if !ok || strings.HasPrefix(name, "init$") {
					continue
				}
				mutable := false
				if _, isMap := g.Type().(*types.Pointer).Elem().Underlying().(*types.Map); isMap {
					mutable = true
				}
				for _, fn := range cc.Fns {
					if fn.Pkg == globalsPkg && (fn.Name() == "init" || fn == reset) {
						continue
					}
					ssax.Instrs(fn, func(in ssa.Instruction) {
						if st, ok := in.(*ssa.Store); ok && st.Addr == ssa.Value(g) {
							mutable = true
						}
					})
				}
				if !mutable {
					continue
				}
				ctx.Check(assigned[name], "C19.R4", "globals.Reset › re-initialises "+name, cc.V.Pos(g.Pos()), "assigned in Reset", "mutable global "+name+" is not reset between compilations")
			}
		}
	}
}

func uniq(s []string) []string {
	var out []string
	for i, x := range s {
		if i == 0 || x != s[i-1] {
			out = append(out, x)
		}
	}
	return out
}

// c19Taint: flow-insensitive, field-based taint from location sources to
// content sinks and sort keys.
func c19Taint(ctx *core.Ctx, cc *CC, cone []*ssa.Function, res func(ssax.Call) []*ssa.Function) {
	tainted := map[ssa.Value]string{} // value -> source description
	fieldTaint := map[string]string{} // "Type.field" -> source
	globalTaint := map[*ssa.Global]string{}
	var work []ssa.Value
	from := map[ssa.Value]ssa.Value{}
	var cur ssa.Value
	mark := func(v ssa.Value, src string) {
		if v == nil {
			return
		}
		if _, ok := tainted[v]; ok {
			return
		}
		tainted[v] = src
		from[v] = cur
		work = append(work, v)
	}
	// containers whose KEYS are tainted: propagated separately so that lookups
	// (which return values, not keys) stay clean
	keyTainted := map[ssa.Value]bool{}
	var markKeys func(m ssa.Value, src string)
	markKeys = func(m ssa.Value, src string) {
		if m == nil || keyTainted[m] {
			return
		}
		keyTainted[m] = true
		refs := m.Referrers()
		if refs == nil {
			return
		}
		for _, u := range *refs {
			switch x := u.(type) {
			case *ssa.Phi, *ssa.ChangeType:
				markKeys(x.(ssa.Value), src)
			case *ssa.Range:
				for _, r2 := range *x.Referrers() {
					if nx, ok := r2.(*ssa.Next); ok {
						for _, r3 := range *nx.Referrers() {
							if ex, ok := r3.(*ssa.Extract); ok && ex.Index == 1 {
								mark(ex, src)
							}
						}
					}
				}
			case *ssa.Return:
				fn := u.Parent()
				for _, f2 := range cc.Fns {
					for _, c := range ssax.Calls(f2) {
						for _, t := range res(c) {
							if t == fn {
								if cv := c.Instr.Value(); cv != nil {
									markKeys(cv, src)
								}
							}
						}
					}
				}
			case ssa.CallInstruction:
				c, _ := ssax.AsCall(u)
				for i, a := range c.Args() {
					if a == m {
						for _, t := range res(c) {
							if i < len(t.Params) {
								markKeys(t.Params[i], src)
							}
						}
					}
				}
			}
		}
	}
	chain := func(v ssa.Value) []string {
		var out []string
		for i := 0; v != nil && i < 25; i++ {
			fn := "?"
			if in, ok := v.(ssa.Instruction); ok && in.Parent() != nil {
				fn = QName(in.Parent())
			} else if p, ok := v.(*ssa.Parameter); ok {
				fn = QName(p.Parent()) + " param"
			}
			out = append(out, fn+": "+v.Name()+" = "+strings.TrimSpace(v.String()))
			v = from[v]
		}
		return out
	}
	fieldKey := func(fa *ssa.FieldAddr) string {
		st := fa.X.Type().Underlying().(*types.Pointer).Elem()
		name := ""
		if n, ok := st.(*types.Named); ok {
			name = n.Obj().Name()
		}
		return name + "." + st.Underlying().(*types.Struct).Field(fa.Field).Name()
	}
	isLocField := func(k string) bool {
		return k == "Frugal.File" || k == "Frugal.Dir" || k == "Frugal.Path"
	}
	inCone := map[*ssa.Function]bool{}
	for _, f := range cone {
		inCone[f] = true
	}
	// seeds
	for _, fn := range cone {
		ssax.Instrs(fn, func(in ssa.Instruction) {
			switch x := in.(type) {
			case *ssa.UnOp:
				if x.Op != token.MUL {
					return
				}
				if fa, ok := x.X.(*ssa.FieldAddr); ok && isLocField(fieldKey(fa)) {
					mark(x, fieldKey(fa))
				}
				if g, ok := x.X.(*ssa.Global); ok && g.Pkg != nil && g.Pkg.Pkg.Name() == "globals" && (g.Name() == "Out" || g.Name() == "FileDir") {
					mark(x, "globals."+g.Name())
				}
			case *ssa.Call:
				c, _ := ssax.AsCall(x)
				if c.FullName() == "path/filepath.Abs" || c.FullName() == "os.Getwd" {
					mark(x, c.FullName())
				}
			}
		})
	}
	sanitiser := func(full string) bool {
		return full == "path/filepath.Base" || full == "os.Stat" || full == "os.MkdirAll" || full == "os.Create" || full == "os.Open" || full == "os.OpenFile" || strings.HasPrefix(full, "fmt.Print") || full == "fmt.Errorf" || strings.HasPrefix(full, "errors.") || full == "os.Remove" || full == "os.RemoveAll" || full == "builtin.len"
	}
	type hit struct {
		fn   *ssa.Function
		in   ssa.Instruction
		desc string
		src  string
		path []string
	}
	var hits []hit
	hitSeen := map[ssa.Instruction]bool{}
	paramOf := func(fn *ssa.Function, i int) ssa.Value {
		if i < len(fn.Params) {
			return fn.Params[i]
		}
		return nil
	}
	for len(work) > 0 {
		v := work[len(work)-1]
		work = work[:len(work)-1]
		cur = v
		src := tainted[v]
		refs := v.Referrers()
		if refs == nil {
			continue
		}
		for _, u := range *refs {
			fn := u.Parent()
			switch x := u.(type) {
			case *ssa.BinOp:
				if x.Op == token.ADD {
					mark(x, src)
				}
				if x.Op == token.LSS || x.Op == token.GTR || x.Op == token.LEQ || x.Op == token.GEQ {
					// ordering comparison on a tainted string: a sort key if inside Less/sort closure
					if strings.HasSuffix(fn.Name(), "Less") || (fn.Parent() != nil && usedBySort(fn)) {
						if !hitSeen[u] {
							hitSeen[u] = true
							hits = append(hits, hit{fn, u, "ordering comparison used as a sort key", src, chain(v)})
						}
					}
				}
			case *ssa.Lookup:
				if x.X == v {
					mark(x, src)
				}
			case *ssa.Index:
				if x.X == v {
					mark(x, src)
				}
			case *ssa.Extract:
				if _, isNext := x.Tuple.(*ssa.Next); !isNext {
					mark(x, src)
				}
			case *ssa.Phi, *ssa.ChangeType, *ssa.MakeInterface, *ssa.ChangeInterface, *ssa.Convert, *ssa.Slice, *ssa.TypeAssert, *ssa.Field:
				mark(x.(ssa.Value), src)
			case *ssa.Store:
				if x.Val != v {
					continue
				}
				switch a := x.Addr.(type) {
				case *ssa.FieldAddr:
					k := fieldKey(a)
					if _, ok := fieldTaint[k]; !ok && !isLocField(k) {
						fieldTaint[k] = src
						// taint every load of that field in the module
						for _, f2 := range cc.Fns {
							ssax.Instrs(f2, func(in ssa.Instruction) {
								if ld, ok := in.(*ssa.UnOp); ok && ld.Op == token.MUL {
									if fa2, ok := ld.X.(*ssa.FieldAddr); ok && fieldKey(fa2) == k {
										mark(ld, src+" via field "+k)
									}
								}
							})
						}
					}
				case *ssa.IndexAddr:
					// element of a local array/slice (varargs): taint the aggregate
					mark(a.X, src)
					if al, ok := a.X.(*ssa.Alloc); ok {
						for _, r2 := range *al.Referrers() {
							if sl, ok := r2.(*ssa.Slice); ok {
								mark(sl, src)
							}
						}
					}
				case *ssa.Alloc:
					for _, r2 := range *a.Referrers() {
						if ld, ok := r2.(*ssa.UnOp); ok && ld.Op == token.MUL {
							mark(ld, src)
						}
					}
				case *ssa.Global:
					if _, ok := globalTaint[a]; !ok {
						globalTaint[a] = src
					}
				}
			case *ssa.MapUpdate:
				if x.Value == v {
					mark(x.Map, src) // container taint: lookups return tainted
				}
				if x.Key == v {
					markKeys(x.Map, src+" used as map key") // ranging over the map yields the tainted keys
				}
			case *ssa.Range:
				mark(x, src)
			case *ssa.Next:
				// value taint of the container: the element (index 2) is tainted
				for _, r3 := range *x.Referrers() {
					if ex, ok := r3.(*ssa.Extract); ok && ex.Index == 2 {
						mark(ex, src)
					}
				}
			case *ssa.Return:
				// taint call results at every call site of fn
				for _, f2 := range cc.Fns {
					for _, c := range ssax.Calls(f2) {
						for _, t := range res(c) {
							if t == fn {
								if cv := c.Instr.Value(); cv != nil {
									mark(cv, src)
								}
							}
						}
					}
				}
			case ssa.CallInstruction:
				c, _ := ssax.AsCall(u)
				full := c.FullName()
				if sanitiser(full) {
					continue
				}
				// content sinks
				isSink := false
				switch {
				case strings.HasPrefix(full, "fmt.Fprint"):
					isSink = true
				case c.ShortName() == "WriteString" || c.ShortName() == "Write":
					if c.Static == nil || c.Static.Pkg == nil || c.Static.Pkg.Pkg.Path() == "os" || c.Static.Pkg.Pkg.Path() == "bufio" || c.Static.Pkg.Pkg.Path() == "io" {
						isSink = true
					}
				case strings.HasSuffix(full, "template.Template).Execute"):
					isSink = true
				case full == "sort.Strings":
					isSink = true
				case strings.HasPrefix(full, "os.WriteFile") || strings.HasPrefix(full, "io/ioutil.WriteFile"):
					isSink = true
				}
				if isSink {
					// the receiver file handle itself (os.File created from a tainted path) is not content
					args := c.Args()
					isContent := false
					for i, a := range args {
						if a == v && !(i == 0 && (c.ShortName() == "WriteString" || c.ShortName() == "Write" || strings.HasPrefix(full, "fmt.Fprint"))) {
							isContent = true
						}
					}
					if isContent && !hitSeen[u] {
						hitSeen[u] = true
						hits = append(hits, hit{fn, u, "argument of " + full, src, chain(v)})
					}
					continue
				}
				// propagate into module callees (args → params), external pure functions (args → result)
				ts := res(c)
				if len(ts) > 0 {
					for i, a := range c.Args() {
						if a == v {
							for _, t := range ts {
								mark(paramOf(t, i), src)
							}
						}
					}
				} else if cv := c.Instr.Value(); cv != nil {
					// os.Create(path) etc. are sanitised above; other externals propagate
					if full != "" {
						mark(cv, src)
					}
				}
			}
		}
	}
	ctx.Stat("c19_tainted_values", len(tainted))
	ctx.Stat("c19_tainted_fields", len(fieldTaint))
	if len(hits) == 0 {
		ctx.Discharge("C19.R3", "location taint › no emitted content and no sort key depends on source/output location", cc.FPos(cone[0]), sprintf("%d tainted values, %d tainted fields, none reaches a writer or a sort key", len(tainted), len(fieldTaint)))
	}
	for _, h := range hits {
		ctx.Violate("C19.R3", QName(h.fn)+" › "+h.desc, cc.IPos(h.in), "a value derived from "+h.src+" (the location of the sources / output directory) reaches generated content or the ordering of generated content", h.path...)
	}
	// the source list itself must exist (non-vacuity)
	ctx.Check(len(tainted) > 5, "C19.R3", "location taint › sources found", cc.FPos(cone[0]), sprintf("%d tainted values", len(tainted)), "no location sources found: the taint rule lost its subjects")
}

// usedBySort: is closure fn passed to sort.Slice / sort.SliceStable?
func usedBySort(fn *ssa.Function) bool {
	par := fn.Parent()
	if par == nil {
		return false
	}
	found := false
	ssax.Instrs(par, func(in ssa.Instruction) {
		if c, ok := ssax.AsCall(in); ok && strings.HasPrefix(c.FullName(), "sort.Slice") {
			for _, a := range c.Common.Args {
				for _, f := range funcValues(a) {
					if f == fn {
						found = true
					}
				}
			}
		}
	})
	return found
}

// truncateOnCreate: every os.OpenFile of the compile cone that creates a file
// for writing truncates it (C19.R6; also C11.R18 — a shorter output written
// over a longer file of an earlier run is not well-formed).
func truncateOnCreate(ctx *core.Ctx, cc *CC, cone []*ssa.Function, entry *ssa.Function, rule string) {
	{
		n := 0
		for _, fn := range cone {
			for _, c := range ssax.Calls(fn) {
				if c.FullName() != "os.OpenFile" {
					continue
				}
				flags, isK := ssax.ConstInt(c.Args()[1])
				if !isK {
					ctx.Undecided(rule, QName(fn)+" › os.OpenFile flags", cc.IPos(c.Instr), "flags are not a constant")
					continue
				}
				const oWRONLY, oRDWR, oAPPEND, oCREATE, oTRUNC = 0x1, 0x2, 0x400, 0x40, 0x200
				if flags&oCREATE == 0 || flags&(oWRONLY|oRDWR) == 0 {
					continue // opens a file this run has created (os.Create truncates)
				}
				n++
				ctx.Check(flags&oTRUNC != 0 || flags&oAPPEND != 0, rule, QName(fn)+sprintf(" › output file #%d is truncated when it already exists", n), cc.IPos(c.Instr), "O_CREATE|O_TRUNC",
					"an existing output file is overwritten in place without being truncated: when the new content is shorter, the tail of whatever an earlier run (or another program) left in the output directory stays in the file")
			}
		}
		if n == 0 {
			ctx.Discharge(rule, "cone(compiler.Compile) › no create-without-truncate", cc.FPos(entry), "no os.OpenFile with O_CREATE for writing (os.Create truncates)")
		}
	}
}

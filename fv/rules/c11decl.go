package rules

import (
	"go/token"
	"sort"
	"strings"

	"fv/internal/core"
	"fv/internal/ssax"

	"golang.org/x/tools/go/ssa"
)

// c11InheritedMembers — C11.R17: a member the Java generator declares once, in
// the client of the root service of an `extends` chain, and uses in the
// clients of all services of the chain (`asyncExecutor`) must be declared
// whenever it can be used: the conditions the declaration is emitted under are
// the root test (`service.Extends == ""`) and conditions every use is emitted
// under as well — nothing that depends on the root service alone (its number
// of methods …). Otherwise a derived client refers to a field no class of the
// chain declares and the generated Java does not compile.
func c11InheritedMembers(ctx *core.Ctx, cc *CC) {
	ctx.Rule("C11.R17", "a generated member that derived classes inherit is declared under no stronger condition than it is used under (Java client: asyncExecutor)", 1)
	jp := cc.Pkg("generator/java")
	if jp == nil {
		return
	}
	type site struct {
		fn *ssa.Function
		in ssa.Instruction
	}
	// emitted string constants, by function
	emits := func(fn *ssa.Function, pred func(string) bool) []ssa.Instruction {
		var out []ssa.Instruction
		ssax.Instrs(fn, func(in ssa.Instruction) {
			for _, op := range in.Operands(nil) {
				if *op == nil {
					continue
				}
				if s, ok := ConstString(*op); ok && pred(s) {
					out = append(out, in)
					return
				}
			}
		})
		return out
	}
	condKey := func(v ssa.Value) string {
		v = ssax.Strip(v)
		switch x := v.(type) {
		case *ssa.Call:
			if f := x.Call.StaticCallee(); f != nil {
				return "call " + f.Name()
			}
		case *ssa.BinOp:
			return ssax.AddrKey(x.X) + " " + x.Op.String() + " " + ssax.AddrKey(x.Y)
		}
		return v.String()
	}
	guards := func(in ssa.Instruction) map[string]bool {
		out := map[string]bool{}
		loops := naturalLoops(in.Parent())
		for b := in.Block(); b != nil && b.Idom() != nil; b = b.Idom() {
			d := b.Idom()
			iff, isIf := d.Instrs[len(d.Instrs)-1].(*ssa.If)
			if !isIf || len(b.Preds) != 1 || b.Preds[0] != d || isLoopExit(loops, d, b) {
				continue
			}
			pol := "+"
			if d.Succs[1] == b {
				pol = "-"
			}
			out[pol+condKey(iff.Cond)] = true
		}
		return out
	}
	isRootTest := func(k string) bool {
		return strings.HasPrefix(k, "+") && strings.Contains(k, ".Extends") && strings.Contains(k, `== ""`)
	}
	for _, member := range []string{"asyncExecutor"} {
		var decls, uses []site
		for _, fn := range cc.Fns {
			if fn.Pkg != jp {
				continue
			}
			for _, in := range emits(fn, func(s string) bool { return strings.Contains(s, " "+member+" =") || strings.Contains(s, " "+member+";") }) {
				decls = append(decls, site{fn, in})
			}
			for _, in := range emits(fn, func(s string) bool { return strings.Contains(s, member+".") }) {
				uses = append(uses, site{fn, in})
			}
		}
		if len(decls) == 0 && len(uses) == 0 {
			ctx.Unresolved("C11.R17", "member "+member, "neither declared nor used by the Java generator (anchor lost)")
			continue
		}
		// conditions common to every use (in its function and at the call sites of that function)
		var common map[string]bool
		for _, u := range uses {
			g := guards(u.in)
			for _, caller := range cc.Fns {
				if caller.Pkg != jp {
					continue
				}
				for _, c := range ssax.Calls(caller) {
					if c.Static == u.fn {
						for k := range guards(c.Instr) {
							g[k] = true
						}
					}
				}
			}
			if common == nil {
				common = g
			} else {
				for k := range common {
					if !g[k] {
						delete(common, k)
					}
				}
			}
		}
		for i, d := range decls {
			var extra []string
			for k := range guards(d.in) {
				if !isRootTest(k) && !common[k] {
					extra = append(extra, k[1:])
				}
			}
			sort.Strings(extra)
			ctx.Check(len(extra) == 0, "C11.R17", QName(d.fn)+sprintf(" › declaration #%d of %s is emitted whenever the member can be used", i+1, member), cc.IPos(d.in), "guarded by the root test and by conditions of every use only",
				"the declaration of "+member+" also depends on "+strings.Join(extra, ", ")+", which the uses do not: for a chain whose root service fails that test no class declares the member, every derived client still uses it, and the generated Java does not compile (cannot find symbol "+member+")")
		}
		if len(decls) == 0 {
			ctx.Violate("C11.R17", "member "+member+" › declared", "", "the member is used in emitted code but never declared")
		}
	}
	_ = token.ADD
}

// Package rules holds one file per property. Every rule discovers its
// instances through types / SSA value identity, never through text.
package rules

import (
	"fmt"
	"go/constant"
	"go/token"
	"go/types"
	"path/filepath"
	"strings"

	"fv/internal/core"
	"fv/internal/load"
	"fv/internal/ssax"

	"golang.org/x/tools/go/ssa"
)

// RT is the Go runtime view: package frugal of module lib/go.
type RT struct {
	Ctx        *core.Ctx
	V          *load.View
	Pkg        *ssa.Package
	Fns        []*ssa.Function
	Resolve    func(ssax.Call) []*ssa.Function
	ResolveCHA func(ssax.Call) []*ssa.Function
}

var rtCache = map[string]*RT{}

// CurGOOS / CurGOARCH select the build configuration used by rules that do
// not ask for a specific one (the thorough tier re-runs a property's rules
// under a second configuration; obligations are merged by key, worst status wins).
var CurGOOS, CurGOARCH string

// IntBits is the width of int under the current configuration.
func IntBits() int {
	if CurGOARCH == "386" || CurGOARCH == "arm" {
		return 32
	}
	return 64
}

func LoadRT(ctx *core.Ctx, goos, goarch string) *RT {
	if goos == "" && goarch == "" {
		goos, goarch = CurGOOS, CurGOARCH
	}
	key := goos + "/" + goarch
	if r, ok := rtCache[key]; ok {
		return r
	}
	v := load.Load(ctx, "RT", filepath.Join(ctx.RepoDir, "lib/go"), goos, goarch, ".")
	r := &RT{Ctx: ctx, V: v}
	rtCache[key] = r
	if !v.OK() {
		return r
	}
	if len(v.Pkgs) != 1 || v.Pkgs[0].Name != "frugal" {
		ctx.LoadError("RT: expected exactly package frugal in lib/go")
		v.Prog = nil
		return r
	}
	r.Pkg = v.SSA[v.Pkgs[0].PkgPath]
	r.Fns = load.SrcFuncs(r.Pkg)
	computeAllocators(r.Fns)
	computeFieldAliases(r.Pkg.Pkg)
	chaResolve := ssax.Resolver(r.Pkg)
	sites := v.VTASites(r.Pkg)
	// interface calls are resolved with the VTA call graph (type-flow based),
	// which unlike CHA does not pretend that e.g. an http.Response.Body could
	// be one of our transports; static calls and closures as before.
	r.Resolve = func(c ssax.Call) []*ssa.Function {
		if c.Static != nil || c.Method == nil {
			return chaResolve(c)
		}
		var out []*ssa.Function
		for _, f := range sites[c.Instr] {
			if f.Pkg == r.Pkg && f.Synthetic == "" {
				out = append(out, f)
			}
		}
		if len(out) == 0 {
			// values entering through exported API parameters have no type flow
			// inside the program: for interfaces declared in package frugal fall
			// back to every implementer declared here (CHA).
			if n, ok := c.Common.Value.Type().(*types.Named); ok && n.Obj().Pkg() == r.Pkg.Pkg {
				return chaResolve(c)
			}
		}
		return out
	}
	r.ResolveCHA = chaResolve
	ctx.Stat("rt_functions", len(r.Fns))
	nb, ni := 0, 0
	for _, f := range r.Fns {
		nb += len(f.Blocks)
		for _, b := range f.Blocks {
			ni += len(b.Instrs)
		}
	}
	ctx.Stat("rt_blocks", nb)
	ctx.Stat("rt_instructions", ni)
	return r
}

func (r *RT) OK() bool { return r.V.OK() && r.Pkg != nil }

// Fn resolves a function by package-relative name; a missing one is an
// unresolved anchor for rule.
func (r *RT) Fn(rule, name string) *ssa.Function {
	f := ssax.Find(r.Fns, name)
	if f == nil {
		r.Ctx.Unresolved(rule, name, "function "+name+" not found in package frugal")
	}
	return f
}

func (r *RT) FnOpt(name string) *ssa.Function { return ssax.Find(r.Fns, name) }

func (r *RT) Pos(p token.Pos) string { return r.V.Pos(p) }

func (r *RT) IPos(in ssa.Instruction) string {
	if in == nil {
		return ""
	}
	if in.Pos().IsValid() {
		return r.V.Pos(in.Pos())
	}
	// fall back to nearest positioned instruction in the block, then the function
	b := in.Block()
	for _, x := range b.Instrs {
		if x.Pos().IsValid() {
			return r.V.Pos(x.Pos())
		}
	}
	return r.V.Pos(in.Parent().Pos())
}

// Impl returns the functions implementing iface.method declared in package frugal.
func (r *RT) Impl(iface, method string) []*ssa.Function {
	it := ssax.Iface(r.Pkg, iface)
	if it == nil {
		return nil
	}
	var out []*ssa.Function
	for _, f := range ssax.Implementers(r.Pkg, it, method) {
		// promoted methods appear as synthetic wrappers: resolve to declared
		if f.Synthetic != "" {
			continue
		}
		if f.Pkg == r.Pkg {
			out = append(out, f)
		}
	}
	return out
}

// StructType returns the named struct type.
func (r *RT) Named(name string) *types.Named {
	o := r.Pkg.Pkg.Scope().Lookup(name)
	if o == nil {
		return nil
	}
	n, _ := o.Type().(*types.Named)
	return n
}

// FieldAccesses lists every FieldAddr/Field instruction in RT selecting
// field `field` of struct type `typ`.
type FieldAccess struct {
	Fn    *ssa.Function
	Instr ssa.Instruction
	Val   ssa.Value // the FieldAddr (address) or Field (value)
	Base  ssa.Value
}

func (r *RT) FieldAccesses(typ, field string) []FieldAccess {
	var out []FieldAccess
	for _, fn := range r.Fns {
		ssax.Instrs(fn, func(in ssa.Instruction) {
			switch x := in.(type) {
			case *ssa.FieldAddr:
				pt, ok := x.X.Type().Underlying().(*types.Pointer)
				if !ok {
					return
				}
				if !ssax.TypeNamed(pt.Elem(), "", typ) {
					return
				}
				st := pt.Elem().Underlying().(*types.Struct)
				if structFieldName(st, x.Field) == field {
					out = append(out, FieldAccess{fn, in, x, x.X})
				}
			case *ssa.Field:
				if !ssax.TypeNamed(x.X.Type(), "", typ) {
					return
				}
				st := x.X.Type().Underlying().(*types.Struct)
				if structFieldName(st, x.Field) == field {
					out = append(out, FieldAccess{fn, in, x, x.X})
				}
			}
		})
	}
	return out
}

// FreshBase reports whether the struct a field address is taken from is an
// object allocated in the same function (composite literal / new): not yet
// shared, so lock rules exempt it.
func FreshBase(v ssa.Value) bool {
	v = ssax.Strip(v)
	if _, ok := v.(*ssa.Alloc); ok {
		return true
	}
	if ex, ok := v.(*ssa.Extract); ok && ex.Index == 0 {
		v = ex.Tuple // (object, error) of a helper constructor
	}
	if c, ok := v.(*ssa.Call); ok {
		if f := c.Call.StaticCallee(); f != nil && allocatorFns[f] {
			return true
		}
	}
	return false
}

// allocatorFns: functions of the analysed package whose every return hands out
// an object allocated by that very call (helper constructors). The result of a
// call to one is as fresh as an allocation in the caller.
var allocatorFns = map[*ssa.Function]bool{}

func computeAllocators(fns []*ssa.Function) {
	allocatorFns = map[*ssa.Function]bool{}
	// (T*) or (T*, error); a return hands out an allocation of this call, the
	// result of another allocator, or nil (with the error); to a fixpoint
	for round := 0; round < 3; round++ {
		for _, fn := range fns {
			res := fn.Signature.Results()
			if res.Len() != 1 && !(res.Len() == 2 && isErrorType(res.At(1).Type())) {
				continue
			}
			if _, isPtr := res.At(0).Type().Underlying().(*types.Pointer); !isPtr {
				continue
			}
			n, ok := 0, true
			for _, vs := range ReturnedValues(fn) {
				v := ssax.Strip(vs[0])
				if k, isK := v.(*ssa.Const); isK && k.IsNil() && res.Len() == 2 {
					continue
				}
				n++
				if !FreshBase(v) {
					ok = false
				}
			}
			if ok && n > 0 {
				allocatorFns[fn] = true
			}
		}
	}
}

// SendSite is a channel send, stand-alone or as a select communication.
type SendSite struct {
	Fn          *ssa.Function
	Instr       ssa.Instruction
	Chan, X     ssa.Value
	InSelect    bool
	NonBlocking bool // select has a default
	SelIndex    int
	Via         *ssa.Function // non-nil: the send happens in this helper, called at Instr
}

func SendSites(fn *ssa.Function) []SendSite {
	out := directSendSites(fn)
	// one level of helper: a call of a function of the same package that sends one of its
	// parameters on another of its parameters (e.g. an extracted non-blocking hand-off)
	// is a send site of the caller, with the arguments in the helper's roles
	ssax.Instrs(fn, func(in ssa.Instruction) {
		c, ok := in.(*ssa.Call)
		if !ok {
			return
		}
		g := c.Call.StaticCallee()
		if g == nil || g == fn || g.Pkg != fn.Pkg || len(g.Blocks) == 0 {
			return
		}
		for _, hs := range directSendSites(g) {
			ci, xi := paramIndexOf(g, hs.Chan), paramIndexOf(g, hs.X)
			if ci >= 0 && xi >= 0 && ci < len(c.Call.Args) && xi < len(c.Call.Args) {
				out = append(out, SendSite{Fn: fn, Instr: in, Chan: c.Call.Args[ci], X: c.Call.Args[xi], InSelect: hs.InSelect, NonBlocking: hs.NonBlocking, SelIndex: hs.SelIndex, Via: g})
				continue
			}
			// a method of the same object sending on one of its fields (f.signal()):
			// the channel is named by the helper's own field address, the value is
			// the argument, a constant, or the helper's value
			if ci < 0 && g.Signature.Recv() != nil && fn.Signature.Recv() != nil && len(c.Call.Args) > 0 && len(fn.Params) > 0 &&
				ssax.Strip(c.Call.Args[0]) == ssa.Value(fn.Params[0]) && fieldRootedAt(hs.Chan, g.Params[0]) {
				x := hs.X
				if xi >= 0 && xi < len(c.Call.Args) {
					x = c.Call.Args[xi]
				}
				out = append(out, SendSite{Fn: fn, Instr: in, Chan: hs.Chan, X: x, InSelect: hs.InSelect, NonBlocking: hs.NonBlocking, SelIndex: hs.SelIndex, Via: g})
			}
		}
	})
	return out
}

// fieldRootedAt: v is (a load of) a field of the object p points to.
func fieldRootedAt(v ssa.Value, p *ssa.Parameter) bool {
	v = ssax.Strip(v)
	if u, ok := v.(*ssa.UnOp); ok && u.Op == token.MUL {
		v = u.X
	}
	fa, ok := v.(*ssa.FieldAddr)
	return ok && ssax.Strip(fa.X) == ssa.Value(p)
}

func paramIndexOf(fn *ssa.Function, v ssa.Value) int {
	v = ssax.Strip(v)
	if cv, ok := v.(*ssa.ChangeType); ok {
		v = ssax.Strip(cv.X)
	}
	for i, p := range fn.Params {
		if ssa.Value(p) == v {
			return i
		}
	}
	return -1
}

func directSendSites(fn *ssa.Function) []SendSite {
	var out []SendSite
	ssax.Instrs(fn, func(in ssa.Instruction) {
		switch x := in.(type) {
		case *ssa.Send:
			out = append(out, SendSite{Fn: fn, Instr: in, Chan: x.Chan, X: x.X})
		case *ssa.Select:
			for i, st := range x.States {
				if st.Dir == types.SendOnly {
					out = append(out, SendSite{Fn: fn, Instr: in, Chan: st.Chan, X: st.Send, InSelect: true, NonBlocking: !x.Blocking, SelIndex: i})
				}
			}
		}
	})
	return out
}

// RecvSite is a channel receive, stand-alone or as a select communication.
type RecvSite struct {
	Fn          *ssa.Function
	Instr       ssa.Instruction
	Chan        ssa.Value
	InSelect    bool
	NonBlocking bool
	SelIndex    int
}

// RecvSitesLifted: the receives of fn plus those of methods of the same object
// it calls (f.drainSignal()): such a call is a receive site of fn on the
// helper's field address.
func RecvSitesLifted(fn *ssa.Function) []RecvSite {
	out := RecvSites(fn)
	ssax.Instrs(fn, func(in ssa.Instruction) {
		c, ok := in.(*ssa.Call)
		if !ok {
			return
		}
		g := c.Call.StaticCallee()
		if g == nil || g == fn || g.Pkg != fn.Pkg || len(g.Blocks) == 0 || g.Signature.Recv() == nil || fn.Signature.Recv() == nil ||
			len(c.Call.Args) == 0 || len(fn.Params) == 0 || ssax.Strip(c.Call.Args[0]) != ssa.Value(fn.Params[0]) {
			return
		}
		for _, rs := range RecvSites(g) {
			if fieldRootedAt(rs.Chan, g.Params[0]) {
				out = append(out, RecvSite{Fn: fn, Instr: in, Chan: rs.Chan, InSelect: rs.InSelect, NonBlocking: rs.NonBlocking, SelIndex: -1})
			}
		}
	})
	return out
}

func RecvSites(fn *ssa.Function) []RecvSite {
	var out []RecvSite
	ssax.Instrs(fn, func(in ssa.Instruction) {
		switch x := in.(type) {
		case *ssa.UnOp:
			if x.Op == token.ARROW {
				out = append(out, RecvSite{Fn: fn, Instr: in, Chan: x.X})
			}
		case *ssa.Select:
			for i, st := range x.States {
				if st.Dir == types.RecvOnly {
					out = append(out, RecvSite{Fn: fn, Instr: in, Chan: st.Chan, InSelect: true, NonBlocking: !x.Blocking, SelIndex: i})
				}
			}
		}
	})
	return out
}

// SelectCaseBlock returns the block executed when select `sel` chose case idx.
func SelectCaseBlock(sel *ssa.Select, idx int) *ssa.BasicBlock {
	// pattern: tK = extract sel #0; tC = tK == idx; if tC goto body else next
	refs := sel.Referrers()
	if refs == nil {
		return nil
	}
	for _, r := range *refs {
		ex, ok := r.(*ssa.Extract)
		if !ok || ex.Index != 0 {
			continue
		}
		if er := ex.Referrers(); er != nil {
			for _, u := range *er {
				bo, ok := u.(*ssa.BinOp)
				if !ok || bo.Op != token.EQL {
					continue
				}
				if c, ok := ssax.ConstInt(bo.Y); ok && int(c) == idx {
					if br := bo.Referrers(); br != nil {
						for _, i := range *br {
							if iff, ok := i.(*ssa.If); ok {
								return iff.Block().Succs[0]
							}
						}
					}
				}
			}
		}
	}
	return nil
}

// LoadedFrom: is v a load (*addr) of a FieldAddr of field `field`? Returns the base.
func LoadedFrom(v ssa.Value, field string) (ssa.Value, bool) {
	v = ssax.Strip(v)
	u, ok := v.(*ssa.UnOp)
	if !ok || u.Op != token.MUL {
		return nil, false
	}
	fa, ok := u.X.(*ssa.FieldAddr)
	if !ok {
		return nil, false
	}
	st := fa.X.Type().Underlying().(*types.Pointer).Elem().Underlying().(*types.Struct)
	if structFieldName(st, fa.Field) != field {
		return nil, false
	}
	return fa.X, true
}

// ConstString returns the string value of a constant.
func ConstString(v ssa.Value) (string, bool) {
	c, ok := ssax.Strip(v).(*ssa.Const)
	if !ok || c.Value == nil || c.Value.Kind() != constant.String {
		return "", false
	}
	return constant.StringVal(c.Value), true
}

// ExtractOf: v == extract tuple #idx → returns tuple.
func ExtractOf(v ssa.Value, idx int) (ssa.Value, bool) {
	e, ok := ssax.Strip(v).(*ssa.Extract)
	if !ok || e.Index != idx {
		return nil, false
	}
	return e.Tuple, true
}

// CallValue: is v the result of a call? returns the resolved call.
func CallValue(v ssa.Value) (ssax.Call, bool) {
	c, ok := ssax.Strip(v).(*ssa.Call)
	if !ok {
		return ssax.Call{}, false
	}
	return ssax.AsCall(c)
}

// ResolveLocal follows a load of a function-local Alloc (defer-spilled named
// result) back to the value last stored to it in the same block before the load.
func ResolveLocal(v ssa.Value) ssa.Value {
	u, ok := v.(*ssa.UnOp)
	if !ok || u.Op != token.MUL {
		return v
	}
	a, ok := u.X.(*ssa.Alloc)
	if !ok {
		return v
	}
	b := u.Block()
	idx := ssax.Idx(u)
	for i := idx - 1; i >= 0; i-- {
		if st, ok := b.Instrs[i].(*ssa.Store); ok && st.Addr == a {
			return st.Val
		}
	}
	return v
}

// ReturnedValues returns, per Return instruction, the values returned with
// defer-spilled locals resolved.
func ReturnedValues(fn *ssa.Function) map[*ssa.Return][]ssa.Value {
	out := map[*ssa.Return][]ssa.Value{}
	ssax.Instrs(fn, func(in ssa.Instruction) {
		if r, ok := in.(*ssa.Return); ok {
			if in.Block().Comment == "recover" {
				return
			}
			var vs []ssa.Value
			for _, v := range r.Results {
				vs = append(vs, ResolveLocal(v))
			}
			out[r] = vs
		}
	})
	return out
}

// TransportExceptionKind: if v is (an interface conversion of) a call to
// thrift.NewTTransportException(kind, …) with constant kind, return it.
func ExceptionKind(v ssa.Value, ctor string) (int64, bool) {
	c, ok := CallValue(v)
	if !ok {
		return 0, false
	}
	if !strings.HasSuffix(c.FullName(), ctor) {
		// a parameterless constructor helper of the analysed package that returns such an exception
		if g := c.Static; g != nil && len(g.Blocks) > 0 && len(c.Common.Args) == 0 && g.Signature.Recv() == nil {
			kind, n := int64(0), 0
			for _, vs := range ReturnedValues(g) {
				if len(vs) != 1 {
					return 0, false
				}
				k, ok := ExceptionKind(vs[0], ctor)
				if !ok || (n > 0 && k != kind) {
					return 0, false
				}
				kind = k
				n++
			}
			return kind, n > 0
		}
		return 0, false
	}
	if len(c.Common.Args) == 0 {
		return 0, false
	}
	return ssax.ConstInt(c.Common.Args[0])
}

func fnPos(r *RT, fn *ssa.Function) string { return r.V.Pos(fn.Pos()) }

func sprintf(f string, a ...interface{}) string { return fmt.Sprintf(f, a...) }

// IsParam: v is the idx-th parameter of its function (receiver counts as 0).
func IsParam(v ssa.Value, fn *ssa.Function, idx int) bool {
	p, ok := ssax.Strip(v).(*ssa.Parameter)
	return ok && idx < len(fn.Params) && fn.Params[idx] == p
}

// ParamNamed returns the parameter with the given name.
func ParamNamed(fn *ssa.Function, name string) *ssa.Parameter {
	for _, p := range fn.Params {
		if p.Name() == name {
			return p
		}
	}
	return nil
}

// ParamOfType returns the parameters whose type string ends in suffix.
func ParamsOfType(fn *ssa.Function, match func(types.Type) bool) []*ssa.Parameter {
	var out []*ssa.Parameter
	for _, p := range fn.Params {
		if match(p.Type()) {
			out = append(out, p)
		}
	}
	return out
}

func constantInt64(c *types.Const) (int64, bool) {
	return constant.Int64Val(constant.ToInt(c.Val()))
}

// lockOwner returns the struct type name whose field is the mutex operated on by c.
func lockOwner(c ssax.Call) string {
	if _, op := ssax.LockOp(c); op == "" || len(c.Common.Args) == 0 {
		return ""
	}
	v := ssax.Strip(c.Common.Args[0])
	if u, ok := v.(*ssa.UnOp); ok && u.Op == token.MUL {
		v = u.X
	}
	fa, ok := v.(*ssa.FieldAddr)
	if !ok {
		return ""
	}
	t := fa.X.Type().Underlying().(*types.Pointer).Elem()
	if n, ok := t.(*types.Named); ok {
		return n.Obj().Name()
	}
	return ""
}

// lockBalance: every function that acquires a mutex field of one of the named
// struct types releases it on every path to a return (directly or by defer).
func lockBalance(ctx *core.Ctx, r *RT, rule string, owners ...string) {
	own := map[string]bool{}
	for _, o := range owners {
		own[o] = true
	}
	for _, fn := range r.Fns {
		uses := false
		for _, c := range ssax.Calls(fn) {
			if own[lockOwner(c)] {
				if _, op := ssax.LockOp(c); op == "Lock" || op == "RLock" {
					uses = true
				}
			}
		}
		if !uses {
			continue
		}
		leaks := ssax.LeakedLocks(fn)
		if len(leaks) == 0 {
			ctx.Discharge(rule, ssax.Name(fn)+" › every acquired lock is released on all exits", fnPos(r, fn), "may-hold lockset empty at every return (deferred unlocks included)")
			continue
		}
		for _, l := range leaks {
			ctx.Violate(rule, ssax.Name(fn)+" › lock "+l.Key+" still held at a return", r.IPos(l.Return),
				"a path returns with "+l.Key+" held (acquire without matching release on this exit): the next writer blocks forever and, with RWMutex writer preference, so does every later reader",
				ssax.PathString(r.V.Fset, l.Path)...)
		}
	}
}

// lockField returns "Owner.field" for a mutex operation.
func lockField(c ssax.Call) (owner, field string, recv ssa.Value) {
	if _, op := ssax.LockOp(c); op == "" || len(c.Common.Args) == 0 {
		return
	}
	v := ssax.Strip(c.Common.Args[0])
	if u, ok := v.(*ssa.UnOp); ok && u.Op == token.MUL {
		v = u.X
	}
	fa, ok := v.(*ssa.FieldAddr)
	if !ok {
		return
	}
	t := fa.X.Type().Underlying().(*types.Pointer).Elem()
	n, ok := t.(*types.Named)
	if !ok {
		return
	}
	st := t.Underlying().(*types.Struct)
	return n.Obj().Name(), st.Field(fa.Field).Name(), fa.X
}

// acquires computes, per function, the set of "Owner.field" mutexes the
// function may acquire on its own receiver, directly or through same-receiver
// package-internal calls (not go).
func acquires(r *RT) map[*ssa.Function]map[string]bool {
	acq := map[*ssa.Function]map[string]bool{}
	for _, fn := range r.Fns {
		acq[fn] = map[string]bool{}
		for _, c := range ssax.Calls(fn) {
			if _, isGo := c.Instr.(*ssa.Go); isGo {
				continue
			}
			if _, op := ssax.LockOp(c); op == "Lock" || op == "RLock" {
				o, f, recv := lockField(c)
				if o != "" && len(fn.Params) > 0 && ssax.Strip(recv) == ssa.Value(fn.Params[0]) {
					acq[fn][o+"."+f] = true
				}
			}
		}
	}
	changed := true
	for changed {
		changed = false
		for _, fn := range r.Fns {
			for _, c := range ssax.Calls(fn) {
				if _, isGo := c.Instr.(*ssa.Go); isGo {
					continue
				}
				if c.Static == nil || c.Static.Pkg != r.Pkg || len(c.Common.Args) == 0 || len(fn.Params) == 0 {
					continue
				}
				if ssax.Strip(c.Common.Args[0]) != ssa.Value(fn.Params[0]) {
					continue
				}
				for k := range acq[c.Static] {
					if !acq[fn][k] {
						acq[fn][k] = true
						changed = true
					}
				}
			}
		}
	}
	return acq
}

// noDoubleAcquire: while a non-reentrant mutex of `owners` is held, no call is
// made (on the same receiver) to a function that acquires the same mutex.
func noDoubleAcquire(ctx *core.Ctx, r *RT, rule string, owners ...string) {
	own := map[string]bool{}
	for _, o := range owners {
		own[o] = true
	}
	acq := acquires(r)
	for _, fn := range r.Fns {
		var locks map[ssa.Instruction]ssax.LockSet
		n, bad := 0, 0
		for _, c := range ssax.Calls(fn) {
			if c.Static == nil || c.Static.Pkg != r.Pkg || len(c.Common.Args) == 0 {
				continue
			}
			if _, isGo := c.Instr.(*ssa.Go); isGo {
				continue
			}
			if len(acq[c.Static]) == 0 {
				continue
			}
			if locks == nil {
				locks = ssax.LockSets(fn, nil)
			}
			in := c.Instr.(ssa.Instruction)
			_, isDefer := in.(*ssa.Defer)
			ls := locks[in]
			recvKey := ssax.AddrKey(c.Common.Args[0])
			for k := range acq[c.Static] {
				parts := strings.SplitN(k, ".", 2)
				if !own[parts[0]] {
					continue
				}
				n++
				held := false
				for lk := range ls {
					if lk == recvKey+"."+parts[1] {
						held = true
					}
				}
				if held && !isDefer {
					bad++
					ctx.Violate(rule, ssax.Name(fn)+" › calls "+ssax.Name(c.Static)+" while holding "+recvKey+"."+parts[1], r.IPos(in),
						"the callee acquires the same non-reentrant mutex on the same object: the goroutine deadlocks with itself and the mutex is never released")
				}
			}
		}
		if n > 0 && bad == 0 {
			ctx.Discharge(rule, ssax.Name(fn)+" › no call re-acquires a held mutex", fnPos(r, fn), sprintf("%d lock-taking callee(s) are called with that lock released", n))
		}
	}
}

// resolveFieldLoad: for a load of base.field, return the value most recently
// stored to the same field address earlier in the same block (if any).
func resolveFieldLoad(v ssa.Value) ssa.Value {
	v = ssax.Strip(v)
	u, ok := v.(*ssa.UnOp)
	if !ok || u.Op != token.MUL {
		return v
	}
	fa, ok := u.X.(*ssa.FieldAddr)
	if !ok {
		return v
	}
	key := ssax.AddrKey(fa)
	b := u.Block()
	for i := ssax.Idx(u) - 1; i >= 0; i-- {
		if st, ok := b.Instrs[i].(*ssa.Store); ok && ssax.AddrKey(st.Addr) == key {
			return ssax.Strip(st.Val)
		}
		if _, isCall := b.Instrs[i].(*ssa.Call); isCall {
			break
		}
	}
	return v
}

// protoOp classifies a call as an operation on an *FProtocol value:
// op is the method name for header/message operations, "body.Write" /
// "body.Read" for a struct written to / read from the protocol.
func protoOp(c ssax.Call) (proto ssa.Value, op string) {
	isFProto := func(v ssa.Value) bool { return ssax.TypeNamed(v.Type(), "", "FProtocol") }
	if c.Static != nil && c.Static.Signature.Recv() != nil && len(c.Common.Args) > 0 && isFProto(c.Common.Args[0]) &&
		ssax.TypeNamed(c.Static.Signature.Recv().Type(), "", "FProtocol") {
		return ssax.Strip(c.Common.Args[0]), c.Static.Name()
	}
	if c.Method != nil && ssax.TypeNamed(c.Common.Value.Type(), "thrift", "TProtocol") {
		v := ssax.Strip(c.Common.Value)
		if u, ok := v.(*ssa.UnOp); ok && u.Op == token.MUL {
			if fa, ok := u.X.(*ssa.FieldAddr); ok && isFProto(fa.X) {
				return ssax.Strip(fa.X), c.Method.Name()
			}
		}
	}
	name := c.ShortName()
	if name == "Write" || name == "Read" {
		for _, a := range c.Args() {
			if mi, ok := a.(*ssa.MakeInterface); ok && isFProto(mi.X) {
				return ssax.Strip(mi.X), "body." + name
			}
		}
	}
	return nil, ""
}

// seqStep is one step of an expected operation sequence.
type seqStep struct {
	Name string
	P    ssax.Pred
}

// checkSequence: on every path from `from` to a return satisfying goal each
// step occurs exactly once, and the steps occur in the given order.
func checkSequence(ctx *core.Ctx, r *RT, rule, construct string, fn *ssa.Function, from ssa.Instruction, steps []seqStep, goal func(*ssa.Return) bool, opaque ...*ssa.Function) {
	okAll := true
	var firsts []ssa.Instruction
	for _, s := range steps {
		w := liftedWeight(fn, s.P, 2, opaque...)
		mn, mx := ssax.CountOnPathsToW(fn, from, w, goal)
		if mn != 1 || mx != 1 {
			okAll = false
			ctx.Violate(rule, construct+" › "+s.Name+" exactly once", fnPos(r, fn), sprintf("%s occurs %d..%d times on a success path (must be exactly once)", s.Name, mn, mx))
		}
		var f ssa.Instruction
		ssax.Instrs(fn, func(in ssa.Instruction) {
			if _, hi := w(in); f == nil && hi > 0 && (from == nil || ssax.Dominates(from, in)) {
				f = in
			}
		})
		firsts = append(firsts, f)
	}
	for i := 0; i+1 < len(steps); i++ {
		a, b := firsts[i], firsts[i+1]
		if a == nil || b == nil {
			continue
		}
		if a == b {
			// both steps happen inside the same helper call: their order is decided in the helper
			if c, ok := a.(ssa.CallInstruction); ok {
				if g := c.Common().StaticCallee(); g != nil {
					ia, ib := firstMatchingLifted(g, steps[i].P), firstMatchingLifted(g, steps[i+1].P)
					if ia != nil && ib != nil && ia != ib && !ssax.Dominates(ia, ib) {
						okAll = false
						ctx.Violate(rule, construct+" › "+steps[i].Name+" ≺ "+steps[i+1].Name, r.IPos(ib), steps[i+1].Name+" is not preceded by "+steps[i].Name+" on every path (in "+ssax.Name(g)+")")
					}
				}
			}
			continue
		}
		if !ssax.Dominates(a, b) {
			okAll = false
			ctx.Violate(rule, construct+" › "+steps[i].Name+" ≺ "+steps[i+1].Name, r.IPos(b), steps[i+1].Name+" is not preceded by "+steps[i].Name+" on every path")
		}
	}
	if okAll {
		var names []string
		for _, s := range steps {
			names = append(names, s.Name)
		}
		ctx.Discharge(rule, construct, fnPos(r, fn), "each exactly once and in order on every success path: "+strings.Join(names, " ≺ "))
	}
}

// liftedWeight: how often does instruction `in` of fn perform the step P —
// directly (once), or through a same-goroutine call of a function of the same
// package, with the range the callee performs it on its own successful paths.
func liftedWeight(fn *ssa.Function, P ssax.Pred, depth int, opaque ...*ssa.Function) func(ssa.Instruction) (int, int) {
	memo := map[*ssa.Function][2]int{}
	for _, o := range opaque {
		if o != nil {
			memo[o] = [2]int{0, 0} // steps inside are somebody else's subject
		}
	}
	var w func(in ssa.Instruction, d int) (int, int)
	w = func(in ssa.Instruction, d int) (int, int) {
		if P(in) {
			return 1, 1
		}
		if d <= 0 {
			return 0, 0
		}
		c, ok := in.(*ssa.Call)
		if !ok {
			return 0, 0
		}
		g := c.Call.StaticCallee()
		if g == nil || g.Pkg != fn.Pkg || len(g.Blocks) == 0 || g == fn {
			return 0, 0
		}
		if v, ok := memo[g]; ok {
			return v[0], v[1]
		}
		memo[g] = [2]int{0, 0}
		lo, hi := ssax.CountOnPathsToW(g, nil, func(i2 ssa.Instruction) (int, int) { return w(i2, d-1) }, func(ret *ssa.Return) bool {
			// successful return of the helper: no error result, or a nil one
			res := g.Signature.Results()
			if res.Len() == 0 || !isErrorType(res.At(res.Len()-1).Type()) {
				return true
			}
			return successReturn(ret)
		})
		if hi <= 0 {
			lo, hi = 0, 0
		}
		memo[g] = [2]int{lo, hi}
		return lo, hi
	}
	return func(in ssa.Instruction) (int, int) { return w(in, depth) }
}

func firstMatchingLifted(fn *ssa.Function, P ssax.Pred) ssa.Instruction {
	w := liftedWeight(fn, P, 1)
	var f ssa.Instruction
	ssax.Instrs(fn, func(in ssa.Instruction) {
		if _, hi := w(in); f == nil && hi > 0 {
			f = in
		}
	})
	return f
}

// successReturn: the return can deliver a nil error — a nil constant, or the
// result of a tail call `return helper(…)` of a function of the same package
// that itself has such a return (bounded depth). With liftedWeight, which
// counts a helper's steps on the helper's own successful paths, this makes
// the sequence rules indifferent to an extracted tail.
func successReturn(ret *ssa.Return) bool { return successReturnD(ret, 3) }

func successReturnD(ret *ssa.Return, depth int) bool {
	if nilErrorReturn(ret) {
		return true
	}
	if depth <= 0 || len(ret.Results) == 0 {
		return false
	}
	c, ok := ssax.Strip(ResolveLocal(ret.Results[len(ret.Results)-1])).(*ssa.Call)
	if !ok {
		return false
	}
	if !isErrorType(c.Type()) {
		return false
	}
	// a tail call: the result is handed on untested (`if err := g(); err != nil
	// { return err }` returns a value known to be non-nil)
	if refs := c.Referrers(); refs != nil {
		for _, u := range *refs {
			if _, tested := u.(*ssa.BinOp); tested {
				return false
			}
		}
	}
	g := c.Call.StaticCallee()
	if g == ret.Parent() {
		return false
	}
	if g == nil || g.Pkg != ret.Parent().Pkg || len(g.Blocks) == 0 {
		// `return oprot.Flush(ctx)`: the last step's own result, which may be nil;
		// not an error wrapper such as thrift.PrependError(msg, err)
		for _, a := range c.Call.Args {
			if isErrorType(a.Type()) {
				return false
			}
		}
		return true
	}
	res := g.Signature.Results()
	if res.Len() != 1 || !isErrorType(res.At(0).Type()) {
		return false
	}
	for i := 0; i < g.Signature.Params().Len(); i++ {
		// an error filter (trapError(err)): its nil result says nothing about
		// the steps before it having succeeded
		if isErrorType(g.Signature.Params().At(i).Type()) {
			return false
		}
	}
	found := false
	ssax.Instrs(g, func(in ssa.Instruction) {
		if r2, ok := in.(*ssa.Return); ok && in.Block().Comment != "recover" && successReturnD(r2, depth-1) {
			found = true
		}
	})
	return found
}

func nilErrorReturn(ret *ssa.Return) bool {
	if len(ret.Results) == 0 {
		return true
	}
	last := ret.Results[len(ret.Results)-1]
	c, ok := ssax.Strip(ResolveLocal(last)).(*ssa.Const)
	return ok && c.IsNil()
}

// protoStep builds a predicate for "operation op on protocol value proto".
func protoStep(proto ssa.Value, op string) ssax.Pred {
	aliases := valueAliases(proto)
	return func(in ssa.Instruction) bool {
		c, ok := ssax.AsCall(in)
		if !ok {
			return false
		}
		p, o := protoOp(c)
		return o == op && aliases[p]
	}
}

// valueAliases: v itself and the parameters of functions of the same package
// that receive v as an argument (two levels): the same object seen from an
// extracted helper.
func valueAliases(v ssa.Value) map[ssa.Value]bool {
	out := map[ssa.Value]bool{ssax.Strip(v): true}
	var fn *ssa.Function
	switch x := ssax.Strip(v).(type) {
	case *ssa.Parameter:
		fn = x.Parent()
	case ssa.Instruction:
		fn = x.Parent()
	}
	if fn == nil {
		return out
	}
	frontier := []*ssa.Function{fn}
	for d := 0; d < 2; d++ {
		var next []*ssa.Function
		for _, f := range frontier {
			for _, c := range ssax.Calls(f) {
				g := c.Static
				if g == nil || g.Pkg != fn.Pkg || len(g.Blocks) == 0 {
					continue
				}
				for i, a := range c.Common.Args {
					if out[ssax.Strip(a)] && i < len(g.Params) && !out[g.Params[i]] {
						out[g.Params[i]] = true
						next = append(next, g)
					}
				}
			}
		}
		frontier = next
	}
	return out
}

// ThroughCall looks through a call of a small function of the analysed package
// that simply computes and returns a value: it yields the returned value (in
// the callee) and a function mapping callee values back to the caller's
// (parameters become the call's arguments). For any other value it returns v
// and the identity.
func ThroughCall(r *RT, v ssa.Value) (ssa.Value, func(ssa.Value) ssa.Value) {
	id := func(x ssa.Value) ssa.Value { return x }
	idx := 0
	var call *ssa.Call
	if ex, isEx := ssax.Strip(v).(*ssa.Extract); isEx {
		// result #idx of a helper returning a tuple: its value on the helper's
		// unique successful return
		call, _ = ex.Tuple.(*ssa.Call)
		idx = ex.Index
	} else {
		call, _ = ssax.Strip(v).(*ssa.Call)
	}
	if call == nil {
		return v, id
	}
	c, _ := ssax.AsCall(call)
	if c.Static == nil || c.Static.Pkg != r.Pkg || len(c.Static.Blocks) == 0 {
		return v, id
	}
	g := c.Static
	res := g.Signature.Results()
	var inner ssa.Value
	n := 0
	for ret, vs := range ReturnedValues(g) {
		if res.Len() > 1 && isErrorType(res.At(res.Len()-1).Type()) && !nilErrorReturn(ret) {
			continue
		}
		if idx >= len(vs) {
			return v, id
		}
		inner = vs[idx]
		n++
	}
	if n != 1 {
		return v, id
	}
	args := c.Common.Args
	back := func(x ssa.Value) ssa.Value {
		sx := ssax.Strip(x)
		for i, p := range g.Params {
			if ssa.Value(p) == sx && i < len(args) {
				return args[i]
			}
		}
		return x
	}
	return inner, back
}

// errorOrigins: the values a non-nil error v may be, looking through helpers
// of the package that hand an error on (result #idx of their failing
// returns), to a bounded depth; leaf(v) stops the descent.
func errorOrigins(r *RT, v ssa.Value, leaf func(ssa.Value) bool, depth int) []ssa.Value {
	v = ssax.Strip(v)
	if depth <= 0 || leaf(v) {
		return []ssa.Value{v}
	}
	idx := 0
	var call *ssa.Call
	if ex, isEx := v.(*ssa.Extract); isEx {
		call, _ = ex.Tuple.(*ssa.Call)
		idx = ex.Index
	} else {
		call, _ = v.(*ssa.Call)
	}
	if call == nil {
		return []ssa.Value{v}
	}
	g := call.Call.StaticCallee()
	if g == nil || g.Pkg != r.Pkg || len(g.Blocks) == 0 {
		return []ssa.Value{v}
	}
	var out []ssa.Value
	for ret, vs := range ReturnedValues(g) {
		if nilErrorReturn(ret) || idx >= len(vs) {
			continue
		}
		out = append(out, errorOrigins(r, vs[idx], leaf, depth-1)...)
	}
	if len(out) == 0 {
		return []ssa.Value{v}
	}
	return out
}

// Role-based anchors: unexported helpers are found through the exported entry
// point they serve and their shape, so a rename does not lose them.

// roleSendError: the method the exported SendError delegates the writing to
// (same receiver, takes the output protocol); falls back to SendError itself.
func (r *RT) roleSendError() *ssa.Function {
	se := r.FnOpt("(*FBaseProcessorFunction).SendError")
	if se == nil {
		return nil
	}
	for _, c := range ssax.Calls(se) {
		g := c.Static
		if g == nil || g.Pkg != r.Pkg || g.Signature.Recv() == nil || !types.Identical(g.Signature.Recv().Type(), se.Signature.Recv().Type()) {
			continue
		}
		for _, p := range g.Params {
			if ssax.TypeNamed(p.Type(), "", "FProtocol") {
				return g
			}
		}
	}
	return se
}

// roleTrapError: the method SendReply routes a failed write step through
// (same receiver, has an error parameter and returns an error).
func (r *RT) roleTrapError() *ssa.Function {
	sr := r.FnOpt("(*FBaseProcessorFunction).SendReply")
	if sr == nil {
		return nil
	}
	for _, f := range localCone(sr, 2) {
		if f == sr {
			continue
		}
		if f.Signature.Recv() == nil || !types.Identical(f.Signature.Recv().Type(), sr.Signature.Recv().Type()) {
			continue
		}
		hasErrParam := false
		for i := 0; i < f.Signature.Params().Len(); i++ {
			if isErrorType(f.Signature.Params().At(i).Type()) {
				hasErrParam = true
			}
		}
		if hasErrParam && f.Signature.Results().Len() == 1 && isErrorType(f.Signature.Results().At(0).Type()) {
			return f
		}
	}
	return nil
}

// Canonical field names. The rules name a few unexported fields; where such a
// field is the only one of its type in its struct, it is recognised by that
// type after a rename (the pinned tree's name stays the canonical one).
var canonicalFields = map[string]map[string]string{ // owner → canonical name → type (as written by types.TypeString with package names)
	"fAdapterTransport":         {"closeSignal": "chan struct{}", "closeChan": "chan error", "monitorCloseSignal": "chan<- error", "isOpen": "bool", "mu": "sync.RWMutex"},
	"fNatsServer":               {"workerCount": "uint", "workC": "chan *frugal.frameWrapper", "quit": "chan chan<- error"},
	"FBaseProcessor":            {"processMap": "map[string]frugal.FProcessorFunction", "writeMu": "sync.Mutex"},
	"FBaseProcessorFunction":    {"writeMu": "*sync.Mutex", "handler": "*frugal.Method"},
	"FContextImpl":              {"mu": "sync.RWMutex"},
	"fRegistryImpl":             {"mu": "sync.RWMutex"},
	"TFramedTransport":          {"mu": "sync.Mutex"},
	"fNatsSubscriberTransport":  {"workerCount": "uint", "workC": "chan *nats.Msg", "quitC": "chan struct{}", "openMu": "sync.RWMutex"},
	"fStompSubscriberTransport": {"openMu": "sync.RWMutex"},
	"FScopeProvider":            {"middleware": "[]frugal.ServiceMiddleware"},
	"FServiceProvider":          {"middleware": "[]frugal.ServiceMiddleware"},
	"TMemoryOutputBuffer":       {"limit": "uint"},
	"FStandardClient":           {"limit": "uint"},
	"Method":                    {"handler": "frugal.InvocationHandler", "proxiedStruct": "reflect.Value", "proxiedMethod": "reflect.Method"},
	"FSimpleServer":             {"quit": "chan struct{}"},
	"monitorRunner":             {"closedChannel": "<-chan error"},
}

var fieldAlias = map[*types.Var]string{} // renamed field → canonical name

func computeFieldAliases(pkg *types.Package) {
	fieldAlias = map[*types.Var]string{}
	ssax.FieldName = structFieldName
	qual := func(p *types.Package) string { return p.Name() }
	for owner, fields := range canonicalFields {
		tn, ok := pkg.Scope().Lookup(owner).(*types.TypeName)
		if !ok {
			continue
		}
		st, ok := tn.Type().Underlying().(*types.Struct)
		if !ok {
			continue
		}
		for canon, typ := range fields {
			present := false
			var cands []*types.Var
			for i := 0; i < st.NumFields(); i++ {
				f := st.Field(i)
				if f.Name() == canon {
					present = true
				}
				if types.TypeString(f.Type(), qual) == typ {
					cands = append(cands, f)
				}
			}
			if !present && len(cands) == 1 {
				fieldAlias[cands[0]] = canon
			}
		}
	}
}

// structFieldName: the (canonical) name of field i of st.
func structFieldName(st *types.Struct, i int) string {
	f := st.Field(i)
	if c, ok := fieldAlias[f]; ok {
		return c
	}
	return f.Name()
}

package rules

import (
	"go/ast"
	"go/constant"
	"go/token"
	"go/types"
	"strconv"
	"strings"

	"fv/internal/core"
	"fv/internal/ssax"

	"golang.org/x/tools/go/ssa"
)

// c08ListOrder — C08.R5: every list a generator accumulates while ranging
// over the scope's prefix variables is built by appending, so the parameter
// list, the forwarded argument list and the template substitutions all name
// the variables in declaration order.
func c08ListOrder(ctx *core.Ctx, cc *CC) {
	ctx.Rule("C08.R5", "lists built over the prefix variables are appended to (declaration order) — parameter lists, forwarded argument lists and substitution lists agree", 8)
	prefixListOrder(ctx, cc, "C08.R5")
}

func prefixListOrder(ctx *core.Ctx, cc *CC, rule string) {
	for _, p := range cc.V.Pkgs {
		switch p.Name {
		case "golang", "java", "dartlang", "python":
		default:
			continue
		}
		for _, f := range p.Syntax {
			for _, d := range f.Decls {
				fd, ok := d.(*ast.FuncDecl)
				if !ok || fd.Body == nil {
					continue
				}
				fname := fd.Name.Name
				if fd.Recv != nil && len(fd.Recv.List) > 0 {
					fname = types.ExprString(fd.Recv.List[0].Type) + "." + fname
				}
				n := 0
				ast.Inspect(fd.Body, func(nd ast.Node) bool {
					rs, ok := nd.(*ast.RangeStmt)
					if !ok {
						return true
					}
					sel, ok := ast.Unparen(rs.X).(*ast.SelectorExpr)
					if !ok || sel.Sel.Name != "Variables" {
						return true
					}
					if t := p.TypesInfo.Types[sel.X].Type; t == nil || !isNamedPtr(t, "parser", "ScopePrefix") {
						return true
					}
					elem, _ := rs.Value.(*ast.Ident)
					if elem == nil || elem.Name == "_" {
						return true
					}
					elemObj := p.TypesInfo.Defs[elem]
					mentions := func(e ast.Expr, obj types.Object) bool {
						hit := false
						ast.Inspect(e, func(m ast.Node) bool {
							if id, ok := m.(*ast.Ident); ok && p.TypesInfo.Uses[id] == obj {
								hit = true
							}
							return true
						})
						return hit
					}
					ast.Inspect(rs.Body, func(m ast.Node) bool {
						as, ok := m.(*ast.AssignStmt)
						if !ok || len(as.Lhs) != 1 || len(as.Rhs) != 1 {
							return true
						}
						acc, ok := as.Lhs[0].(*ast.Ident)
						if !ok {
							return true
						}
						accObj := p.TypesInfo.Uses[acc]
						if accObj == nil || !mentions(as.Rhs[0], elemObj) {
							return true
						}
						if b, isB := accObj.Type().Underlying().(*types.Basic); !isB || b.Kind() != types.String {
							return true
						}
						n++
						construct := p.Name + "." + fname + " › list " + acc.Name + " over the prefix variables (#" + strconv.Itoa(n) + ")"
						pos := cc.V.Pos(as.Pos())
						if as.Tok == token.ADD_ASSIGN {
							ctx.Discharge(rule, construct, pos, acc.Name+" += … appends")
							return true
						}
						if !mentions(as.Rhs[0], accObj) {
							return true // plain overwrite, not an accumulation
						}
						order, why := accBeforeElem(p.TypesInfo, as.Rhs[0], accObj, elemObj)
						ctx.Check(order, rule, construct, pos, "the accumulator precedes the element in the new value",
							"the list is built by prepending ("+why+"): with two or more prefix variables it names them in reverse declaration order while the sibling lists of the same generator use declaration order — values are bound to the wrong variables and publisher and subscriber topics differ")
						return true
					})
					return true
				})
			}
		}
	}
}

// accBeforeElem: in expr (a + chain or fmt.Sprintf with a constant format),
// does the accumulator's text come before the element's?
func accBeforeElem(info *types.Info, e ast.Expr, acc, elem types.Object) (bool, string) {
	var flat func(e ast.Expr) []ast.Expr
	flat = func(e ast.Expr) []ast.Expr {
		e = ast.Unparen(e)
		if b, ok := e.(*ast.BinaryExpr); ok && b.Op == token.ADD {
			return append(flat(b.X), flat(b.Y)...)
		}
		if c, ok := e.(*ast.CallExpr); ok {
			if s, ok := c.Fun.(*ast.SelectorExpr); ok && s.Sel.Name == "Sprintf" && len(c.Args) > 0 {
				if tv, ok := info.Types[c.Args[0]]; ok && tv.Value != nil && tv.Value.Kind() == constant.String {
					// arguments in the order their verbs occur (no explicit indexes in this code base)
					format := constant.StringVal(tv.Value)
					if strings.Contains(format, "%[") {
						return []ast.Expr{e}
					}
					var out []ast.Expr
					for _, a := range c.Args[1:] {
						out = append(out, flat(a)...)
					}
					return out
				}
			}
		}
		return []ast.Expr{e}
	}
	uses := func(x ast.Expr, obj types.Object) bool {
		hit := false
		ast.Inspect(x, func(m ast.Node) bool {
			if id, ok := m.(*ast.Ident); ok && info.Uses[id] == obj {
				hit = true
			}
			return true
		})
		return hit
	}
	ai, ei := -1, -1
	for i, part := range flat(e) {
		if uses(part, acc) && ai < 0 {
			ai = i
		}
		if uses(part, elem) && ei < 0 {
			ei = i
		}
	}
	if ai < 0 || ei < 0 {
		return false, "cannot order accumulator and element in " + types.ExprString(e)
	}
	if ai == ei {
		return false, "accumulator and element are mixed in one operand: " + types.ExprString(e)
	}
	return ai < ei, types.ExprString(e)
}

// c08OptionPlumbing — C08.R10: the topic delimiter the generators read is the
// one the user gave, whatever it is (the empty string included): Compile
// stores every field of its Options into the corresponding global on every
// path — not only "when it is set".
func c08OptionPlumbing(ctx *core.Ctx, cc *CC) {
	ctx.Rule("C08.R10", "the -delim option reaches the generators for every value: Compile assigns globals.TopicDelimiter from the options unconditionally", 1)
	entry := cc.FnOpt("compiler", "Compile")
	if entry == nil {
		ctx.Unresolved("C08.R10", "compiler.Compile", "entry point not found")
		return
	}
	n := 0
	domAll := func(fn *ssa.Function, in ssa.Instruction) bool {
		for _, b := range fn.Blocks {
			if len(b.Instrs) == 0 {
				continue
			}
			if _, isRet := b.Instrs[len(b.Instrs)-1].(*ssa.Return); isRet && b.Comment != "recover" {
				if !(in.Block() == b || in.Block().Dominates(b)) {
					return false
				}
			}
		}
		return true
	}
	// the store may sit in a helper of Compile (setGlobals(options)): then the helper
	// stores on all its paths and Compile calls it on all of its own
	var scan func(fn *ssa.Function, depth int) (found bool, every bool, at ssa.Instruction)
	scan = func(fn *ssa.Function, depth int) (bool, bool, ssa.Instruction) {
		found, every := false, false
		var at ssa.Instruction
		ssax.Instrs(fn, func(in ssa.Instruction) {
			if st, ok := in.(*ssa.Store); ok {
				if g, ok := st.Addr.(*ssa.Global); ok && g.Pkg != nil && g.Pkg.Pkg.Name() == "globals" && g.Name() == "TopicDelimiter" {
					found, at = true, in
					if domAll(fn, in) {
						every = true
					}
				}
			}
		})
		if found || depth == 0 {
			return found, every, at
		}
		for _, c := range ssax.Calls(fn) {
			h := c.Static
			if h == nil || h.Pkg != fn.Pkg || len(h.Blocks) == 0 || h == fn {
				continue
			}
			if _, isGo := c.Instr.(*ssa.Go); isGo {
				continue
			}
			if _, isDefer := c.Instr.(*ssa.Defer); isDefer {
				continue
			}
			if f2, e2, a2 := scan(h, depth-1); f2 {
				return true, e2 && domAll(fn, c.Instr.(ssa.Instruction)), a2
			}
		}
		return false, false, nil
	}
	if found, every, at := scan(entry, 2); found {
		n++
		ctx.Check(every, "C08.R10", "compiler.Compile › globals.TopicDelimiter is assigned on every path", cc.IPos(at), "the store dominates every return",
			"the delimiter option is copied only under a condition (e.g. when it is not empty): for the other values the generators read the default '.', so the generated topics are not joined by the delimiter the user asked for")
	}
	if n == 0 {
		ctx.Violate("C08.R10", "compiler.Compile › globals.TopicDelimiter is assigned on every path", cc.FPos(entry), "Compile never assigns the delimiter option to globals.TopicDelimiter")
	}
}

package rules

import (
	"go/ast"
	"go/constant"
	"go/types"
	"sort"
	"strconv"
	"strings"

	"fv/internal/core"
)

// c11SwitchExhaustive — C11.R8: a switch over the IDL type name whose default
// branch panics must list every base type of the parser (a valid base type
// that reaches the default aborts generation).
func c11SwitchExhaustive(ctx *core.Ctx, cc *CC) {
	ctx.Rule("C11.R8", "no valid base type reaches a panicking default: a switch over the IDL type name whose default panics lists every member of each type group (base types / containers) it discriminates", 4)
	// base types from the parser's table
	var base []string
	for _, p := range cc.V.Pkgs {
		if p.Name != "parser" {
			continue
		}
		for _, f := range p.Syntax {
			ast.Inspect(f, func(n ast.Node) bool {
				vs, ok := n.(*ast.ValueSpec)
				if !ok || len(vs.Names) != 1 || vs.Names[0].Name != "frugalBaseTypes" || len(vs.Values) != 1 {
					return true
				}
				if cl, ok := vs.Values[0].(*ast.CompositeLit); ok {
					for _, e := range cl.Elts {
						if kv, ok := e.(*ast.KeyValueExpr); ok {
							if bl, ok := kv.Key.(*ast.BasicLit); ok {
								s, _ := strconv.Unquote(bl.Value)
								base = append(base, s)
							}
						}
					}
				}
				return true
			})
		}
	}
	sort.Strings(base)
	if len(base) < 5 {
		ctx.Unresolved("C11.R8", "parser.frugalBaseTypes", "base type table not found")
		return
	}
	for _, p := range cc.V.Pkgs {
		switch p.Name {
		case "golang", "java", "dartlang", "python", "parser", "html", "json", "generator":
		default:
			continue
		}
		for _, f := range p.Syntax {
			for _, d := range f.Decls {
				fd, ok := d.(*ast.FuncDecl)
				if !ok || fd.Body == nil {
					continue
				}
				fname := fd.Name.Name
				if fd.Recv != nil && len(fd.Recv.List) > 0 {
					fname = types.ExprString(fd.Recv.List[0].Type) + "." + fname
				}
				n := 0
				ast.Inspect(fd.Body, func(nd ast.Node) bool {
					s, ok := nd.(*ast.SwitchStmt)
					if !ok || s.Tag == nil {
						return true
					}
					sel, ok := ast.Unparen(s.Tag).(*ast.SelectorExpr)
					if !ok || sel.Sel.Name != "Name" {
						return true
					}
					if t := p.TypesInfo.Types[sel.X].Type; t == nil || !isNamedPtr(t, "parser", "Type") {
						return true
					}
					labels := map[string]bool{}
					var def *ast.CaseClause
					for _, st := range s.Body.List {
						cl := st.(*ast.CaseClause)
						if cl.List == nil {
							def = cl
						}
						for _, e := range cl.List {
							if tv, ok := p.TypesInfo.Types[e]; ok && tv.Value != nil && tv.Value.Kind() == constant.String {
								labels[constant.StringVal(tv.Value)] = true
							}
						}
					}
					if def == nil {
						return true
					}
					// does the default panic unconditionally (first-level statement)?
					panics := false
					for _, st := range def.Body {
						if es, ok := st.(*ast.ExprStmt); ok {
							if c, ok := es.X.(*ast.CallExpr); ok {
								if id, ok := c.Fun.(*ast.Ident); ok && id.Name == "panic" {
									panics = true
								}
							}
						}
					}
					if !panics {
						return true
					}
					n++
					var missing []string
					for _, group := range [][]string{base, {"list", "map", "set"}} {
						any := false
						for _, b := range group {
							if labels[b] {
								any = true
							}
						}
						if !any {
							continue // this switch does not discriminate within the group (handled elsewhere)
						}
						for _, b := range group {
							if !labels[b] {
								missing = append(missing, b)
							}
						}
					}
					ctx.Check(len(missing) == 0, "C11.R8", p.Name+"."+fname+" › switch #"+strconv.Itoa(n)+" with a panicking default lists every base type", cc.V.Pos(s.Pos()), "every member of each type group it discriminates (base types: "+strings.Join(base, ", ")+"; containers)",
						"type(s) "+strings.Join(missing, ", ")+" reach the panicking default: valid IDL using them aborts the generator")
					return true
				})
			}
		}
	}
}

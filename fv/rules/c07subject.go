package rules

import (
	"go/token"
	"go/types"
	"sort"
	"strings"

	"fv/internal/core"
	"fv/internal/ssax"

	"golang.org/x/tools/go/ssa"
)

// symbolic broker subjects ------------------------------------------------------

type subjSym struct {
	alts       []string // alternative symbolic strings
	topicTests []string // positions of branch conditions that choose between alternatives and read the topic
	unknown    bool
}

type subjEval struct {
	r     *RT
	topic map[ssa.Value]bool // values standing for the topic
	depth int
}

func (e *subjEval) eval(v ssa.Value, env map[*ssa.Parameter]subjSym) subjSym {
	e.depth++
	defer func() { e.depth-- }()
	if e.depth > 12 {
		return subjSym{unknown: true, alts: []string{"«?deep»"}}
	}
	v = ssax.Strip(v)
	if e.topic[v] {
		return subjSym{alts: []string{"«topic»"}}
	}
	if s, ok := ConstString(v); ok {
		return subjSym{alts: []string{s}}
	}
	switch x := v.(type) {
	case *ssa.Parameter:
		if s, ok := env[x]; ok {
			return s
		}
		return subjSym{alts: []string{"«param " + x.Name() + "»"}}
	case *ssa.UnOp:
		if x.Op == token.MUL {
			if f := fieldNameOfAddr(x.X); f != "" {
				return subjSym{alts: []string{"«." + f + "»"}}
			}
		}
	case *ssa.BinOp:
		if x.Op == token.ADD {
			return concatSym(e.eval(x.X, env), e.eval(x.Y, env))
		}
	case *ssa.Phi:
		out := subjSym{}
		for _, ed := range x.Edges {
			s := e.eval(ed, env)
			out.alts = append(out.alts, s.alts...)
			out.topicTests = append(out.topicTests, s.topicTests...)
			out.unknown = out.unknown || s.unknown
		}
		out = dedupSym(out)
		if len(out.alts) > 1 {
			// the conditions that select the φ's value: from each predecessor up to the φ block's dominator
			sel := map[*ssa.BasicBlock]bool{}
			top := x.Block().Idom()
			for _, p := range x.Block().Preds {
				for b := p; b != nil; b = b.Idom() {
					sel[b] = true
					if b == top {
						break
					}
				}
			}
			out.topicTests = append(out.topicTests, e.topicCondsIn(x.Parent(), env, sel)...)
		}
		return out
	case *ssa.Call:
		c, _ := ssax.AsCall(x)
		if c.FullName() == "fmt.Sprintf" && len(c.Common.Args) >= 1 {
			f, ok := ConstString(c.Common.Args[0])
			if !ok {
				break
			}
			var args []subjSym
			if len(c.Common.Args) > 1 {
				for _, a := range variadicElems(c.Common.Args[1]) {
					args = append(args, e.eval(a, env))
				}
			}
			out := subjSym{alts: []string{""}}
			ai := 0
			for i := 0; i < len(f); i++ {
				if f[i] == '%' && i+1 < len(f) {
					i++
					switch f[i] {
					case '%':
						out = concatSym(out, subjSym{alts: []string{"%"}})
					case 's', 'v':
						if ai < len(args) {
							out = concatSym(out, args[ai])
						} else {
							out = concatSym(out, subjSym{alts: []string{"«?arg»"}, unknown: true})
						}
						ai++
					default:
						out = concatSym(out, subjSym{alts: []string{"«?verb»"}, unknown: true})
						ai++
					}
					continue
				}
				out = concatSym(out, subjSym{alts: []string{string(f[i])}})
			}
			return out
		}
		if g := c.Static; g != nil && g.Pkg == e.r.Pkg && len(g.Blocks) > 0 && g.Signature.Results().Len() == 1 {
			env2 := map[*ssa.Parameter]subjSym{}
			for i, p := range g.Params {
				if i < len(c.Common.Args) {
					if b, ok := p.Type().Underlying().(*types.Basic); ok && b.Kind() == types.String {
						env2[p] = e.eval(c.Common.Args[i], env)
					}
				}
			}
			out := subjSym{}
			for _, rv := range ReturnedValues(g) {
				s := e.eval(rv[0], env2)
				out.alts = append(out.alts, s.alts...)
				out.topicTests = append(out.topicTests, s.topicTests...)
				out.unknown = out.unknown || s.unknown
			}
			out = dedupSym(out)
			if len(out.alts) > 1 {
				out.topicTests = append(out.topicTests, e.topicConds(g, env2)...)
			}
			return out
		}
	}
	return subjSym{alts: []string{"«?" + v.Name() + "»"}, unknown: true}
}

// topicConds: branch conditions of fn that read a value standing for the topic
// (directly, or through a string parameter bound to a topic-dependent symbol).
func (e *subjEval) topicConds(fn *ssa.Function, env map[*ssa.Parameter]subjSym) []string {
	return e.topicCondsIn(fn, env, nil)
}

func (e *subjEval) topicCondsIn(fn *ssa.Function, env map[*ssa.Parameter]subjSym, only map[*ssa.BasicBlock]bool) []string {
	var out []string
	var srcs []ssa.Value
	for v := range e.topic {
		srcs = append(srcs, v)
	}
	for p, s := range env {
		for _, a := range s.alts {
			if strings.Contains(a, "«topic»") {
				srcs = append(srcs, p)
			}
		}
	}
	for _, b := range fn.Blocks {
		if len(b.Instrs) == 0 || (only != nil && !only[b]) {
			continue
		}
		iff, ok := b.Instrs[len(b.Instrs)-1].(*ssa.If)
		if !ok {
			continue
		}
		for _, s := range srcs {
			if dependsOn(iff.Cond, s, 0) {
				out = append(out, e.r.IPos(iff))
			}
		}
	}
	return out
}

func concatSym(a, b subjSym) subjSym {
	out := subjSym{unknown: a.unknown || b.unknown, topicTests: append(append([]string{}, a.topicTests...), b.topicTests...)}
	for _, x := range a.alts {
		for _, y := range b.alts {
			out.alts = append(out.alts, x+y)
		}
	}
	return out
}

func dedupSym(s subjSym) subjSym {
	seen := map[string]bool{}
	var alts []string
	for _, a := range s.alts {
		if !seen[a] {
			seen[a] = true
			alts = append(alts, a)
		}
	}
	sort.Strings(alts)
	s.alts = alts
	return s
}

// variadicElems: the values stored into the backing array of a variadic slice.
func variadicElems(v ssa.Value) []ssa.Value {
	sl, ok := v.(*ssa.Slice)
	if !ok {
		return nil
	}
	al, ok := sl.X.(*ssa.Alloc)
	if !ok {
		return nil
	}
	type el struct {
		i int64
		v ssa.Value
	}
	var els []el
	for _, u := range *al.Referrers() {
		ia, ok := u.(*ssa.IndexAddr)
		if !ok {
			continue
		}
		idx, _ := ssax.ConstInt(ia.Index)
		for _, w := range *ia.Referrers() {
			if st, ok := w.(*ssa.Store); ok && st.Addr == ssa.Value(ia) {
				els = append(els, el{idx, st.Val})
			}
		}
	}
	sort.Slice(els, func(i, j int) bool { return els[i].i < els[j].i })
	var out []ssa.Value
	for _, e := range els {
		out = append(out, e.v)
	}
	return out
}

// c07SubjectAgreement — C07.R12: publisher and subscriber of one broker map a
// scope topic to the same broker subject. The destination handed to the broker
// client (first string argument of the external Publish/Send, resp.
// Subscribe/QueueSubscribe call in the cone of Publish / Subscribe) is
// evaluated symbolically over the topic parameter; the publisher's expression
// must be one of the subscriber's alternatives, and no alternative may be
// selected by a test on the topic's own text (a subject that depends on what
// the topic looks like sends some topics to another topic's subscribers).
func c07SubjectAgreement(ctx *core.Ctx, r *RT) {
	ctx.Rule("C07.R12", "publisher and subscriber of a broker compute the same subject from a scope topic, for every topic (symbolic evaluation of the destination handed to the broker client)", 2)
	type side struct {
		fn   *ssa.Function
		sym  subjSym
		pos  string
		call string
	}
	brokers := map[string]map[string][]side{} // broker pkg → "pub"/"sub" → sites
	for _, fn := range r.Fns {
		role := ""
		switch fn.Name() {
		case "Publish":
			role = "pub"
		case "Subscribe":
			role = "sub"
		}
		if role == "" || fn.Signature.Recv() == nil || len(fn.Params) < 2 {
			continue
		}
		if b, ok := fn.Params[1].Type().Underlying().(*types.Basic); !ok || b.Kind() != types.String {
			continue
		}
		ev := &subjEval{r: r, topic: map[ssa.Value]bool{fn.Params[1]: true}}
		for _, g := range localCone(fn, 2) {
			// the topic as seen by helpers that are handed it unchanged
			for _, c := range ssax.Calls(g) {
				callee := c.Static
				if callee == nil || callee.Pkg == nil || callee.Pkg == r.Pkg {
					continue
				}
				path := callee.Pkg.Pkg.Path()
				if !strings.Contains(path, "nats") && !strings.Contains(path, "stomp") {
					continue
				}
				want := map[string]bool{"Publish": role == "pub", "Send": role == "pub", "PublishRequest": false, "Subscribe": role == "sub", "QueueSubscribe": role == "sub", "ChanSubscribe": role == "sub", "ChanQueueSubscribe": role == "sub"}
				if !want[callee.Name()] {
					continue
				}
				// first string argument after the receiver
				var dest ssa.Value
				for i, a := range c.Common.Args {
					if i == 0 {
						continue
					}
					if b, ok := a.Type().Underlying().(*types.Basic); ok && b.Kind() == types.String {
						dest = a
						break
					}
				}
				if dest == nil {
					continue
				}
				env := map[*ssa.Parameter]subjSym{}
				if g != fn {
					// helper of Publish/Subscribe: its string parameters that receive the topic
					for _, c2 := range ssax.Calls(fn) {
						if c2.Static == g {
							for i, a := range c2.Common.Args {
								if i < len(g.Params) {
									if b, ok := g.Params[i].Type().Underlying().(*types.Basic); ok && b.Kind() == types.String {
										env[g.Params[i]] = ev.eval(a, nil)
									}
								}
							}
						}
					}
				}
				s := dedupSym(ev.eval(dest, env))
				bk := "nats"
				if strings.Contains(path, "stomp") {
					bk = "stomp"
				}
				if brokers[bk] == nil {
					brokers[bk] = map[string][]side{}
				}
				brokers[bk][role] = append(brokers[bk][role], side{fn, s, r.IPos(c.Instr), callee.Name()})
			}
		}
	}
	var names []string
	for bk := range brokers {
		names = append(names, bk)
	}
	sort.Strings(names)
	for _, bk := range names {
		pubs, subs := brokers[bk]["pub"], brokers[bk]["sub"]
		if len(pubs) == 0 || len(subs) == 0 {
			ctx.Undecided("C07.R12", bk+" › publisher and subscriber destinations", "", sprintf("found %d publishing and %d subscribing broker call(s): cannot compare", len(pubs), len(subs)))
			continue
		}
		for _, sd := range append(append([]side{}, pubs...), subs...) {
			bad := ""
			if sd.sym.unknown {
				bad = "the destination is not a closed expression of the topic (" + strings.Join(sd.sym.alts, " | ") + ")"
			}
			if len(sd.sym.topicTests) > 0 {
				bad = "which destination is used depends on the text of the topic (test at " + sd.sym.topicTests[0] + "): alternatives " + strings.Join(sd.sym.alts, " | ")
			}
			hasTopic := false
			for _, a := range sd.sym.alts {
				if strings.Contains(a, "«topic»") {
					hasTopic = true
				}
			}
			if bad == "" && !hasTopic {
				bad = "the destination does not contain the topic"
			}
			ctx.Check(bad == "", "C07.R12", ssax.Name(sd.fn)+" › "+sd.call+" destination is one expression of the topic", sd.pos, strings.Join(sd.sym.alts, " | "),
				bad+": some topics are mapped to another topic's subject, so their subscribers get foreign messages and miss their own")
		}
		for _, p := range pubs {
			for _, pa := range p.sym.alts {
				okAny := false
				var all []string
				for _, s := range subs {
					for _, sa := range s.sym.alts {
						all = append(all, sa)
						if sa == pa {
							okAny = true
						}
					}
				}
				ctx.Check(okAny, "C07.R12", ssax.Name(p.fn)+" › published subject "+pa+" is a subject subscribers listen on", p.pos, "subscriber alternatives: "+strings.Join(all, " | "),
					"the "+bk+" publisher sends to "+pa+" but subscribers listen on "+strings.Join(all, " | ")+": messages of a topic do not reach its subscribers")
			}
		}
	}
	if len(names) == 0 {
		ctx.Unresolved("C07.R12", "broker calls", "no publishing/subscribing broker call found")
	}
}

// c07SubscriptionIdentity — C07.R13: on a STOMP connection the subscription id
// names the subscription; the factory's transports share one connection, so two
// subscriptions to the same topic must not be given the same id. Where the
// Subscribe cone passes `stomp.SubscribeOpt.Id(x)`, x must not be a closed
// expression of the topic (and constants / configuration): such an id is
// shared by every subscription to that topic, the broker answers the second
// SUBSCRIBE with ERROR and closes the connection — neither handler is invoked.
func c07SubscriptionIdentity(ctx *core.Ctx, r *RT) {
	ctx.Rule("C07.R13", "a STOMP subscription id is not a function of the topic alone (subscriptions to one topic on the shared connection stay distinct)", 1)
	n := 0
	for _, fn := range r.Fns {
		if fn.Name() != "Subscribe" || fn.Signature.Recv() == nil || len(fn.Params) < 2 {
			continue
		}
		ev := &subjEval{r: r, topic: map[ssa.Value]bool{fn.Params[1]: true}}
		usesStomp := false
		for _, g := range localCone(fn, 2) {
			ssax.Instrs(g, func(in ssa.Instruction) {
				call, ok := in.(*ssa.Call)
				if !ok {
					return
				}
				if sc := call.Call.StaticCallee(); sc != nil && sc.Pkg != nil && strings.Contains(sc.Pkg.Pkg.Path(), "stomp") {
					usesStomp = true
				}
				ld, ok := call.Call.Value.(*ssa.UnOp)
				if !ok || ld.Op != token.MUL {
					return
				}
				fa, ok := ld.X.(*ssa.FieldAddr)
				if !ok {
					return
				}
				gl, ok := fa.X.(*ssa.Global)
				if !ok || gl.Pkg == nil || !strings.Contains(gl.Pkg.Pkg.Path(), "stomp") || gl.Name() != "SubscribeOpt" || fieldNameOfAddr(fa) != "Id" || len(call.Call.Args) != 1 {
					return
				}
				n++
				s := dedupSym(ev.eval(call.Call.Args[0], nil))
				ctx.Check(s.unknown, "C07.R13", ssax.Name(g)+sprintf(" › subscription id #%d is unique per subscription", n), r.IPos(call), "the id has a part that is not determined by the topic",
					"the subscription id is "+strings.Join(s.alts, " | ")+", the same for every subscription to this topic: the factory's transports share one STOMP connection, the second SUBSCRIBE with that id is refused (ERROR, connection closed) and no handler of the topic receives its messages")
			})
		}
		if usesStomp && n == 0 {
			ctx.Discharge("C07.R13", ssax.Name(fn)+" › subscription ids are assigned by the client library", fnPos(r, fn), "no SubscribeOpt.Id in the Subscribe cone")
		}
	}
}

package rules

import (
	"os"
	"path/filepath"
	"sort"
	"strconv"

	"fv/internal/core"
	"fv/internal/peg"
)

// c10LanguageKept — C10.R16: every text the reference grammar accepts is still
// accepted. /verif/reference/grammar.peg is the grammar of the pinned commit
// (confirmed against the IDL corpus of the repository). From it a bounded set
// of texts is derived per rule — a base line plus every alternative of every
// choice, optional, repetition, character class and separator (blank, newline,
// the three comment kinds, ',' ';' or nothing), one position at a time — and
// kept where the reference grammar itself matches the whole text. The current
// grammar.peg, interpreted as a parsing expression grammar (ordered choice,
// greedy loops, predicates; actions ignored), must match each of them from the
// same rule and consume it entirely. The grammar is the object of the
// analysis; frugal's parser is not run. The check is one-directional: a
// grammar that accepts more is silent, a rule that was renamed or removed is
// compared through the rules that refer to it.
func c10LanguageKept(ctx *core.Ctx, cur *peg.Grammar) {
	ctx.Rule("C10.R16", "the language is kept: every text of a bounded, systematically derived set that the reference grammar accepts is accepted by the current grammar from the same rule", 30)
	refPath := filepath.Join(ctx.VerifDir, "reference", "grammar.peg")
	src, err := os.ReadFile(refPath)
	if err != nil {
		// a scratch evidence directory (seed / refactor replays): the reference lives with the checker
		refPath = "/verif/reference/grammar.peg"
		src, err = os.ReadFile(refPath)
	}
	if err != nil {
		ctx.Undecided("C10.R16", "reference grammar", "", "cannot read "+refPath+": "+err.Error())
		return
	}
	ref, err := peg.ParseSource(string(src))
	if err != nil {
		ctx.Undecided("C10.R16", "reference grammar", "", "cannot parse the reference grammar: "+err.Error())
		return
	}
	gen := peg.NewGenerator(ref)
	names := ref.RuleNames()
	sort.Strings(names)
	total := 0
	for _, name := range names {
		if cur.ByName[name] == nil {
			continue // renamed or inlined: covered through the rules that used it
		}
		texts := gen.Rule(name)
		kept, lost := 0, ""
		for _, t := range texts {
			if _, _, full := peg.Match(ref, name, t); !full {
				continue
			}
			kept++
			if _, _, full := peg.Match(cur, name, t); !full && lost == "" {
				lost = t
			}
		}
		if kept == 0 {
			continue
		}
		total += kept
		ctx.Check(lost == "", "C10.R16", "rule "+name+" › still matches what the reference grammar matches", "compiler/parser/grammar.peg", strconv.Itoa(kept)+" derived text(s) accepted by both",
			"the reference grammar matches "+strconv.Quote(lost)+" as "+name+" and the current grammar does not: a syntactically valid IDL that contains it no longer parses (or parses as something else)")
	}
	ctx.Stat("c10_language_texts", total)
}

package rules

import (
	"strings"

	"fv/internal/core"
	"fv/internal/ssax"

	"golang.org/x/tools/go/ssa"
)

// c02DoubleWidth — C02.R16. An IDL double is a 64-bit IEEE number from the
// grammar action that parses it to the literal a generator prints. Every
// strconv.ParseFloat / FormatFloat in the compiler therefore works at 64 bits:
// at 32 bits a default such as 3.141592653589793 is emitted as 3.1415927, an
// odd integer above 2^24 changes, and magnitudes outside float32 become 0 or
// +Inf — the generated default (and the value `IsSet` is decided against) is
// no longer the one the IDL declares.
func c02DoubleWidth(ctx *core.Ctx, cc *CC) {
	ctx.Rule("C02.R16", "doubles keep 64 bits through the compiler: every strconv.ParseFloat/FormatFloat works at bit size 64", 1)
	n := 0
	for _, fn := range cc.Fns {
		if fn.Pkg == nil || !strings.Contains(fn.Pkg.Pkg.Path(), "/compiler") {
			continue
		}
		ord := 0
		for _, c := range ssax.Calls(fn) {
			full := c.FullName()
			idx := -1
			switch full {
			case "strconv.ParseFloat":
				idx = 1
			case "strconv.FormatFloat":
				idx = 3
			}
			if idx < 0 {
				continue
			}
			n++
			ord++
			w, isK := ssax.ConstInt(c.Args()[idx])
			ctx.Check(isK && w == 64, "C02.R16", QName(fn)+sprintf(" › %s #%d works at 64 bits", strings.TrimPrefix(full, "strconv."), ord), cc.IPos(c.Instr.(ssa.Instruction)), "bitSize 64",
				sprintf("the conversion rounds to %d bits: a double constant or default with more than 7 significant digits (or outside float32's range) is generated with a different value than the IDL declares", w))
		}
	}
	if n == 0 {
		ctx.Unresolved("C02.R16", "float conversions", "no strconv.ParseFloat/FormatFloat in the compiler")
	}
}

// c02ArgsNormalised — C02.R17. GetServiceMethodTypes synthesises <m>_args for
// EVERY method, oneway or not, and an argument list has no optional fields
// ("optional" is rewritten to default, so the field is always written). The
// loop that rewrites the modifiers of the argument fields is therefore entered
// on every trip of the loop over the service's methods.
func c02ArgsNormalised(ctx *core.Ctx, cc *CC) {
	ctx.Rule("C02.R17", "argument structs are normalised for every method: the loop that rewrites the modifiers of the argument fields is reached on every trip of the loop over methods (oneway included)", 1)
	fn := cc.FnOpt("generator", "(*BaseGenerator).GetServiceMethodTypes")
	if fn == nil {
		ctx.Unresolved("C02.R17", "GetServiceMethodTypes", "function not found")
		return
	}
	// the loop over the argument fields that rewrites Modifier — in the function
	// itself (nested in the loop over methods) or in a helper called from that loop
	n := 0
	detail := "for some methods (e.g. oneway ones) the `optional` arguments stay optional: the generated args struct writes such an argument only when IsSet — a value equal to the default, or an empty container, is left off the wire and the handler sees the zero value"
	argsLoop := func(g *ssa.Function) (*ssa.BasicBlock, ssa.Instruction) {
		var hdr *ssa.BasicBlock
		var at ssa.Instruction
		ssax.Instrs(g, func(in ssa.Instruction) {
			st, ok := in.(*ssa.Store)
			if !ok || fieldNameOfAddr(st.Addr) != "Modifier" || !inCycle(in) {
				return
			}
			inner := loopHeaderOf(in.Block())
			if inner == nil {
				return
			}
			ssax.Instrs(g, func(y ssa.Instruction) {
				if ia, ok := y.(*ssa.IndexAddr); ok && loopHeaderOf(y.Block()) == inner && dependsOnField(ia.X, "Arguments", g, 0) {
					hdr, at = inner, in
				}
			})
		})
		return hdr, at
	}
	everyTripOf := func(g *ssa.Function, outer *ssa.BasicBlock, hit func(ssa.Instruction) bool) bool {
		isOuter := func(x ssa.Instruction) bool { return x.Block() == outer && x == outer.Instrs[0] }
		for _, s := range outer.Succs {
			if !blockReaches(s, outer) || len(s.Instrs) == 0 || hit(s.Instrs[0]) {
				continue
			}
			if ssax.PathFrom(g, s.Instrs[0], isOuter, hit) != nil {
				return false
			}
		}
		return true
	}
	if inner, at := argsLoop(fn); inner != nil {
		n++
		outer := loopHeaderOf(inner.Idom())
		if outer == nil {
			ctx.Undecided("C02.R17", QName(fn)+" › argument normalisation loop", cc.IPos(at), "the normalisation loop is not nested in the loop over methods")
		} else {
			ok := everyTripOf(fn, outer, func(x ssa.Instruction) bool { return x.Block() == inner })
			ctx.Check(ok, "C02.R17", QName(fn)+sprintf(" › argument normalisation #%d is reached for every method", n), cc.IPos(at), "no path round the loop over methods avoids it", detail)
		}
	}
	for _, c := range ssax.Calls(fn) {
		h := c.Static
		if h == nil || h.Pkg != fn.Pkg || len(h.Blocks) == 0 {
			continue
		}
		inner, at := argsLoop(h)
		if inner == nil {
			continue
		}
		n++
		call := c.Instr.(ssa.Instruction)
		outer := loopHeaderOf(call.Block())
		// the helper reaches its loop on every path to a return, and is called on every trip
		reaches := ssax.PathFrom(h, nil, ssax.IsReturn, func(x ssa.Instruction) bool { return x.Block() == inner }) == nil
		ok := outer != nil && reaches && everyTripOf(fn, outer, func(x ssa.Instruction) bool { return x == call })
		ctx.Check(ok, "C02.R17", QName(fn)+sprintf(" › argument normalisation #%d (in %s) is reached for every method", n, h.Name()), cc.IPos(at), "the helper is called on every trip of the loop over methods and always reaches its loop", detail)
	}
	if n == 0 {
		ctx.Unresolved("C02.R17", "argument normalisation loop", "no loop over the argument fields rewrites Modifier")
	}
}

// loopHeaderOf: header of the innermost natural loop containing b (nil if none).
func loopHeaderOf(b *ssa.BasicBlock) *ssa.BasicBlock {
	for h := b; h != nil; h = h.Idom() {
		for _, p := range h.Preds {
			if h.Dominates(p) && (p == b || h == b || blockReaches(b, p)) {
				return h
			}
		}
	}
	return nil
}

// dependsOnField: v is (derived by loads, slices, φ, fields of locally built
// structs) from a load of a field with the given name.
func dependsOnField(v ssa.Value, field string, fn *ssa.Function, d int) bool {
	if d > 8 || v == nil {
		return false
	}
	v = ssax.Strip(v)
	switch x := v.(type) {
	case *ssa.UnOp:
		if fieldNameOfAddr(x.X) == field {
			return true
		}
		if fa, ok := x.X.(*ssa.FieldAddr); ok {
			// a field of a struct built in this function: what was stored there?
			found := false
			ssax.Instrs(fn, func(in ssa.Instruction) {
				if st, ok := in.(*ssa.Store); ok {
					if fb, ok := st.Addr.(*ssa.FieldAddr); ok && fb.Field == fa.Field && ssax.Strip(fb.X) == ssax.Strip(fa.X) {
						if dependsOnField(st.Val, field, fn, d+1) {
							found = true
						}
					}
				}
			})
			return found
		}
		return dependsOnField(x.X, field, fn, d+1)
	case *ssa.Slice:
		return dependsOnField(x.X, field, fn, d+1)
	case *ssa.Phi:
		for _, e := range x.Edges {
			if dependsOnField(e, field, fn, d+1) {
				return true
			}
		}
	}
	return false
}

var _ = core.Ctx{}

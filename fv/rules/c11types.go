package rules

import (
	"go/token"
	"go/types"
	"sort"
	"strings"

	"fv/internal/core"
	"fv/internal/ssax"

	"golang.org/x/tools/go/ssa"
)

// typedefResolverAgreement — (C02.R9) in (*Frugal).UnderlyingType the aliased
// type of a typedef is resolved by the program whose typedef index the alias
// was found in: the receiver of the recursive call and the owner of the index
// are the same object on every path.
func typedefResolverAgreement(ctx *core.Ctx, cc *CC, rule string) {
	ut := cc.Fn(rule, "parser", "(*Frugal).UnderlyingType")
	if ut == nil {
		return
	}
	// owner(idx): the *Frugal value whose typedefIndex field idx was loaded from (per phi edge)
	var ownerOf func(v ssa.Value) ssa.Value
	ownerOf = func(v ssa.Value) ssa.Value {
		if u, ok := ssax.Strip(v).(*ssa.UnOp); ok && u.Op == token.MUL {
			if fa, ok := u.X.(*ssa.FieldAddr); ok && fieldName(fa) == "typedefIndex" {
				return ssax.Strip(fa.X)
			}
		}
		return nil
	}
	n := 0
	for _, c := range ssax.Calls(ut) {
		if c.Static != ut {
			continue
		}
		// the typedef whose Type is passed: found by a lookup in some index value
		arg := ssax.Strip(c.Common.Args[1])
		var idx ssa.Value
		if u, ok := arg.(*ssa.UnOp); ok {
			if fa, ok := u.X.(*ssa.FieldAddr); ok && fieldName(fa) == "Type" {
				if ex, ok := ssax.Strip(fa.X).(*ssa.Extract); ok {
					if lk, ok := ex.Tuple.(*ssa.Lookup); ok {
						idx = ssax.Strip(lk.X)
					}
				}
			}
		}
		n++
		construct := QName(ut) + " › aliased type is resolved by the program that declares the typedef"
		if idx == nil {
			ctx.Undecided(rule, construct, cc.IPos(c.Instr), "cannot relate the recursive call's argument to a typedef-index lookup")
			continue
		}
		recv := ssax.Strip(c.Common.Args[0])
		ok, why := true, ""
		if ip, isPhi := idx.(*ssa.Phi); isPhi {
			rp, isRPhi := recv.(*ssa.Phi)
			if !isRPhi || rp.Block() != ip.Block() {
				ok, why = false, "the index comes from the include on one path but the aliased type is always resolved by "+recv.Name()
			} else {
				for i := range ip.Edges {
					if ownerOf(ip.Edges[i]) != ssax.Strip(rp.Edges[i]) {
						ok, why = false, "on one path the index of one program is paired with another program as resolver"
					}
				}
			}
		} else if ownerOf(idx) != recv {
			ok, why = false, "index owner and resolver differ"
		}
		ctx.Check(ok, rule, construct, cc.IPos(c.Instr), "receiver of the recursive call = owner of the typedef index, edge by edge",
			"a typedef found in an include's index has its aliased type resolved in another program ("+why+"): a typedef chain declared in an included file (typedef i64 Id; typedef Id UserId; used as base.UserId) stops at the intermediate alias, which is then generated as a struct")
	}
	if n == 0 {
		ctx.Unresolved(rule, QName(ut), "no recursive resolution of the aliased type found")
	}
}

// c11TypePredicates — C11.R9: the type predicates of the model that are
// documented to look at the underlying type resolve typedefs themselves:
// every method of *Frugal with signature func(*Type) bool that consults the
// declaration lists (Enums, Unions, Structs, …) calls UnderlyingType on its
// parameter (siblings IsStruct / IsUnion do; a sibling that does not gives a
// typedef of such a declaration no kind at all).
func c11TypePredicates(ctx *core.Ctx, cc *CC) {
	ctx.Rule("C11.R9", "typedef-resolution siblings: every func(*Type) bool predicate of the model that consults the declaration lists resolves its argument with UnderlyingType first (or consults the typedefs itself)", 2)
	pp := cc.Pkg("parser")
	ut := cc.FnOpt("parser", "(*Frugal).UnderlyingType")
	if pp == nil || ut == nil {
		ctx.Unresolved("C11.R9", "parser", "package or UnderlyingType not found")
		return
	}
	var preds []*ssa.Function
	for _, fn := range cc.Fns {
		if fn.Pkg != pp || fn.Signature.Recv() == nil || !ssax.TypeNamed(fn.Signature.Recv().Type(), "", "Frugal") {
			continue
		}
		sig := fn.Signature
		if sig.Params().Len() != 1 || sig.Results().Len() != 1 || !ssax.TypeNamed(sig.Params().At(0).Type(), "", "Type") {
			continue
		}
		if b, ok := sig.Results().At(0).Type().Underlying().(*types.Basic); !ok || b.Kind() != types.Bool {
			continue
		}
		preds = append(preds, fn)
	}
	sort.Slice(preds, func(i, j int) bool { return preds[i].Name() < preds[j].Name() })
	for _, fn := range preds {
		// consults a declaration list directly?
		lists := []string{}
		ssax.Instrs(fn, func(in ssa.Instruction) {
			if fa, ok := in.(*ssa.FieldAddr); ok && ssax.TypeNamed(fa.X.Type(), "", "Frugal") {
				switch n := fieldName(fa); n {
				case "Enums", "Unions", "Structs", "Exceptions":
					lists = append(lists, n)
				}
			}
		})
		if len(lists) == 0 {
			continue
		}
		resolves := false
		for _, c := range ssax.Calls(fn) {
			if c.Static == ut && IsParam(c.Common.Args[1], fn, 1) {
				resolves = true
			}
		}
		// … or it treats aliases itself: it consults the typedefs next to the other
		// declaration lists (isValidType: "is this name declared at all")
		ssax.Instrs(fn, func(in ssa.Instruction) {
			if fa, ok := in.(*ssa.FieldAddr); ok && ssax.TypeNamed(fa.X.Type(), "", "Frugal") {
				if n := fieldName(fa); n == "Typedefs" || n == "typedefIndex" {
					resolves = true
				}
			}
		})
		ctx.Check(resolves, "C11.R9", QName(fn)+" › resolves typedefs before consulting "+strings.Join(uniq(lists), "/"), cc.FPos(fn), "t = f.UnderlyingType(t)",
			"the predicate looks only at the name it is given while its siblings resolve typedefs: a typedef of such a declaration is neither a struct nor an enum for the generators (Java/Python getTType abort on valid IDL)")
	}
}

// c11GoTypedefDecl — C11.R10: the Go renderer of type references returns
// "*"+name for every type for which IsStruct holds — including typedefs of
// structs. A typedef declaration rendered through that function on the
// IsStruct side therefore defines a pointer type, and every reference to it
// ("*Alias") is a pointer to a pointer that the generated readers cannot fill.
func c11GoTypedefDecl(ctx *core.Ctx, cc *CC) {
	ctx.Rule("C11.R10", "Go typedef declarations: the aliased type of a typedef is rendered through the reference renderer only where IsStruct and IsEnum are false (typedefs of structs/enums are aliases, not defined types)", 1)
	gp := cc.Pkg("generator/golang")
	gt := cc.FnOpt("generator/golang", "(*Generator).GenerateTypeDef")
	ref := cc.FnOpt("generator/golang", "(*Generator).getGoTypeFromThriftTypePtr")
	if gp == nil || gt == nil || ref == nil {
		ctx.Unresolved("C11.R10", "golang generator", "GenerateTypeDef / getGoTypeFromThriftTypePtr not found")
		return
	}
	// does the reference renderer add '*' under IsStruct?
	addsStar := false
	ssax.Instrs(ref, func(in ssa.Instruction) {
		bo, ok := in.(*ssa.BinOp)
		if !ok || bo.Op != token.ADD {
			return
		}
		if s, isK := ConstString(bo.X); isK && s == "*" && condDominated(in, "IsStruct", true) {
			addsStar = true
		}
	})
	if !addsStar {
		ctx.Discharge("C11.R10", QName(ref)+" › does not add '*' for struct types", cc.FPos(ref), "nothing to guard")
		return
	}
	// emission sites in GenerateTypeDef that use the renderer's result
	n := 0
	for _, c := range ssax.Calls(gt) {
		if c.FullName() != "fmt.Sprintf" {
			continue
		}
		f, isK := ConstString(c.Args()[0])
		if !isK || !strings.HasPrefix(strings.TrimSpace(f), "type ") {
			continue
		}
		// raw (untrimmed) renderer result among the operands?
		raw := false
		for _, a := range VarargValues(c.Args()[1]) {
			if mi, ok := a.(*ssa.MakeInterface); ok {
				a = ssax.Strip(mi.X)
			}
			if rc, ok := CallValue(a); ok && rc.Static != nil && (rc.Static == ref || rc.Static.Name() == "getGoTypeFromThriftType") {
				raw = true
			}
		}
		if !raw {
			continue
		}
		n++
		guarded := condDominated(c.Instr.(ssa.Instruction), "IsStruct", false) && condDominated(c.Instr.(ssa.Instruction), "IsEnum", false)
		alias := strings.Contains(f, "=")
		ctx.Check(guarded || alias, "C11.R10", QName(gt)+" › declaration through the reference renderer is on the !IsStruct side", cc.IPos(c.Instr), "guarded by !IsStruct(typedef.Type) && !IsEnum(typedef.Type)",
			"a typedef of a struct is declared as `type Alias *Thing` (the renderer's pointer) while every use is rendered `*Alias` and filled with NewThing(), and a typedef of an enum becomes a distinct defined type that cannot take the enum's typed constants (defaults, constants): the generated Go does not compile for valid IDL with such a typedef")
	}
	if n == 0 {
		ctx.Discharge("C11.R10", QName(gt)+" › no declaration uses the renderer's raw result", cc.FPos(gt), "nothing to guard")
	}
}

// condDominated: is `in` control-dependent on a call to a method named
// `method` having returned `want`?
func condDominated(in ssa.Instruction, method string, want bool) bool {
	for cur := in.Block(); cur != nil; cur = cur.Idom() {
		if len(cur.Preds) != 1 {
			continue
		}
		p := cur.Preds[0]
		iff, ok := p.Instrs[len(p.Instrs)-1].(*ssa.If)
		if !ok || p.Succs[0] == p.Succs[1] {
			continue
		}
		pol := p.Succs[0] == cur
		cond := iff.Cond
		for {
			u, isU := cond.(*ssa.UnOp)
			if !isU || u.Op != token.NOT {
				break
			}
			cond, pol = u.X, !pol
		}
		if c, ok := CallValue(cond); ok && c.ShortName() == method && pol == want {
			return true
		}
	}
	return false
}

// c11PartialKey — C11.R11: (*KeyValue).KeyToString panics for a key that is
// neither a string nor an identifier. It may be applied to the pairs of a
// struct constant (keys are field names) or under a test of the key's dynamic
// type; a call that is reachable for any map constant aborts generation for
// valid IDL (map<i32, …> constants).
func c11PartialKey(ctx *core.Ctx, cc *CC) {
	ctx.Rule("C11.R11", "partial key conversion: KeyToString is called only where the pairs belong to a struct constant or the key's type has been tested", 4)
	kt := cc.FnOpt("parser", "(*KeyValue).KeyToString")
	if kt == nil {
		ctx.Unresolved("C11.R11", "parser.(*KeyValue).KeyToString", "not found")
		return
	}
	// does it panic at all?
	panics := false
	ssax.Instrs(kt, func(in ssa.Instruction) {
		if _, ok := in.(*ssa.Panic); ok {
			panics = true
		}
	})
	if !panics {
		ctx.Discharge("C11.R11", QName(kt)+" › total", cc.FPos(kt), "no panic in the conversion")
		return
	}
	isStructVal := func(v ssa.Value) bool { return ssax.TypeNamed(v.Type(), "", "Struct") }
	for _, fn := range cc.Fns {
		n := 0
		for _, c := range ssax.Calls(fn) {
			if c.Static != kt {
				continue
			}
			n++
			in := c.Instr.(ssa.Instruction)
			ok := false
			how := ""
			for cur := in.Block(); cur != nil && !ok; cur = cur.Idom() {
				if len(cur.Preds) == 0 {
					continue
				}
				// every way into this block is the taken edge of a qualifying test
				// (a multi-type case of a type switch has one test per listed type)
				all := true
				var iff *ssa.If
				for _, p := range cur.Preds {
					i2, isIf := p.Instrs[len(p.Instrs)-1].(*ssa.If)
					if !isIf || p.Succs[0] != cur {
						all = false
						break
					}
					if iff == nil {
						iff = i2
					}
				}
				if !all || iff == nil {
					continue
				}
				if len(cur.Preds) > 1 {
					// all of them must qualify: checked below through allQualify
				}
				// a condition over a *parser.Struct value (struct found), IsStruct(...), or a type test of a Key
				var walk func(v ssa.Value, d int) bool
				walk = func(v ssa.Value, d int) bool {
					if d > 4 {
						return false
					}
					if isStructVal(v) {
						how = "a struct was found for the constant's type"
						return true
					}
					switch x := v.(type) {
					case *ssa.Call:
						if cc2, isC := ssax.AsCall(x); isC && cc2.ShortName() == "IsStruct" {
							how = "IsStruct"
							return true
						}
					case *ssa.TypeAssert:
						switch k := ssax.Strip(x.X).(type) {
						case *ssa.UnOp:
							if fa, isFA := k.X.(*ssa.FieldAddr); isFA && fieldName(fa) == "Key" {
								how = "type test of the key"
								return true
							}
						case *ssa.Field:
							if st, isSt := k.X.Type().Underlying().(*types.Struct); isSt && st.Field(k.Field).Name() == "Key" {
								how = "type test of the key"
								return true
							}
						}
					case *ssa.Extract:
						return walk(x.Tuple, d+1)
					}
					if vi, isI := v.(ssa.Instruction); isI {
						for _, op := range vi.Operands(nil) {
							if *op != nil && walk(*op, d+1) {
								return true
							}
						}
					}
					return false
				}
				allQualify := true
				for _, p := range cur.Preds {
					i2 := p.Instrs[len(p.Instrs)-1].(*ssa.If)
					if !walk(i2.Cond, 0) {
						allQualify = false
					}
				}
				if allQualify {
					ok = true
				}
			}
			ctx.Check(ok, "C11.R11", QName(fn)+sprintf(" › KeyToString call #%d is guarded", n), cc.IPos(in), how,
				"KeyToString is reachable for the pairs of any map constant: a constant of a map type whose keys are numbers (const map<i32,string> M = {1: \"a\"}) makes this generator panic on valid IDL")
		}
	}
}

// c11SyntacticKind — C11.R12 (who-may-call): (*Type).IsCustom only says "not a
// base type and not a container" of the *written* type; it is true for
// structs, enums and every typedef alike. Code generators must decide on the
// resolved kind (IsStruct / IsEnum / IsUnion / UnderlyingType); only the
// documentation generators and the parser may use the syntactic test.
func c11SyntacticKind(ctx *core.Ctx, cc *CC) {
	ctx.Rule("C11.R12", "who-may-call: the syntactic test (*Type).IsCustom is not used by the code generators (go, java, dart, python), which must decide on the resolved kind", 1)
	ic := cc.FnOpt("parser", "(*Type).IsCustom")
	if ic == nil {
		ctx.Discharge("C11.R12", "parser.(*Type).IsCustom", "", "the syntactic test does not exist")
		return
	}
	total, bad := 0, 0
	for _, fn := range cc.Fns {
		for _, c := range ssax.Calls(fn) {
			if c.Static != ic {
				continue
			}
			total++
			pk := ""
			if fn.Pkg != nil {
				pk = fn.Pkg.Pkg.Name()
			}
			switch pk {
			case "golang", "java", "dartlang", "python", "generator":
				bad++
				ctx.Violate("C11.R12", QName(fn)+" › uses the syntactic IsCustom", cc.IPos(c.Instr),
					"a code generator decides how to handle a type with IsCustom, which holds for enums and for typedefs of anything as well as for structs: e.g. an enum payload is passed where a thrift.TStruct is required and the generated Go does not build")
			}
		}
	}
	if bad == 0 {
		ctx.Discharge("C11.R12", "code generators do not call IsCustom", "compiler/generator", sprintf("%d call site(s), all in documentation generators / parser", total))
	}
}

package rules

import (
	"go/token"

	"fv/internal/core"
	"fv/internal/ssax"

	"golang.org/x/tools/go/ssa"
)

// c13PositiveTimeout — C13.R8: the timeout travels as whole milliseconds and
// a value of 0 arms no deadline (ToContext). So the encoder must not turn a
// positive duration into 0: on every edge that lets the truncated quotient
// d/Millisecond through, either the quotient is known to be non-zero or the
// duration is known not to be positive; any other edge supplies a constant ≥ 1.
func c13PositiveTimeout(ctx *core.Ctx, r *RT) {
	ctx.Rule("C13.R8", "a positive timeout stays positive on the wire: SetTimeout never encodes 0 milliseconds for a duration > 0 (0 arms no deadline)", 1)
	// does a zero/absent timeout really mean "no deadline"? (otherwise nothing to require)
	tc := r.FnOpt("ToContext")
	unbounded := false
	if tc != nil {
		for _, vs := range ReturnedValues(tc) {
			if c, ok := CallValue(vs[0]); ok && c.FullName() == "context.Background" {
				unbounded = true
			}
		}
	}
	n := 0
	// the encoder: SetTimeout itself, or the unexported helper it hands the duration to
	type encFn struct {
		fn *ssa.Function
		d  *ssa.Parameter
	}
	var encs []encFn
	for _, fn := range r.Impl("FContext", "SetTimeout") {
		if len(fn.Params) < 2 {
			continue
		}
		encs = append(encs, encFn{fn, fn.Params[1]})
		for _, c := range ssax.Calls(fn) {
			g := c.Static
			if g == nil || g.Pkg != r.Pkg || len(g.Blocks) == 0 || g.Object() == nil || g.Object().Exported() {
				continue
			}
			for i, a := range c.Common.Args {
				if ssax.Strip(a) == ssa.Value(fn.Params[1]) && i < len(g.Params) {
					encs = append(encs, encFn{g, g.Params[i]})
				}
			}
		}
	}
	for _, ef := range encs {
		fn, d := ef.fn, ef.d
		for _, c := range ssax.Calls(fn) {
			if c.FullName() != "strconv.FormatInt" {
				continue
			}
			n++
			construct := ssax.Name(fn) + " › encoded milliseconds are ≥ 1 for a positive duration"
			if !unbounded {
				ctx.Discharge("C13.R8", construct, r.IPos(c.Instr), "ToContext arms a deadline for every timeout value")
				continue
			}
			v := ssax.Strip(c.Args()[0])
			isQuot := func(x ssa.Value) bool {
				x = ssax.Strip(x)
				if cv, ok := x.(*ssa.Convert); ok {
					x = ssax.Strip(cv.X)
				}
				bo, ok := x.(*ssa.BinOp)
				return ok && bo.Op == token.QUO && d != nil && ssax.Strip(bo.X) == ssa.Value(d)
			}
			// is (cond == pol) a fact that excludes "quotient == 0 and duration > 0"?
			excludes := func(cond ssa.Value, pol bool) bool {
				for {
					u, ok := cond.(*ssa.UnOp)
					if !ok || u.Op != token.NOT {
						break
					}
					cond, pol = u.X, !pol
				}
				bo, ok := cond.(*ssa.BinOp)
				if !ok {
					return false
				}
				k, isK := ssax.ConstInt(bo.Y)
				if !isK {
					return false
				}
				onQuot := isQuot(bo.X)
				onDur := d != nil && ssax.Strip(bo.X) == ssa.Value(d)
				op := bo.Op
				if !pol {
					switch op {
					case token.EQL:
						op = token.NEQ
					case token.NEQ:
						op = token.EQL
					case token.GTR:
						op = token.LEQ
					case token.LEQ:
						op = token.GTR
					case token.LSS:
						op = token.GEQ
					case token.GEQ:
						op = token.LSS
					}
				}
				switch {
				case onQuot && (op == token.NEQ && k == 0 || op == token.GTR && k >= 0 || op == token.GEQ && k >= 1):
					return true // quotient ≠ 0
				case onDur && (op == token.LEQ && k <= 0 || op == token.LSS && k <= 1 || op == token.EQL && k <= 0):
					return true // duration not positive
				}
				return false
			}
			ok, why := true, ""
			var check func(x ssa.Value, via *ssa.BasicBlock, to *ssa.BasicBlock)
			check = func(x ssa.Value, via, to *ssa.BasicBlock) {
				x = ssax.Strip(x)
				if k, isK := ssax.ConstInt(x); isK {
					if k < 1 {
						ok, why = false, sprintf("a constant %d is encoded", k)
					}
					return
				}
				if phi, isPhi := x.(*ssa.Phi); isPhi {
					for i, e := range phi.Edges {
						check(e, phi.Block().Preds[i], phi.Block())
					}
					return
				}
				if isQuot(x) {
					if via == nil {
						ok, why = false, "the truncated quotient is encoded unconditionally"
						return
					}
					// the edge via→to, or a dominating single-pred edge above via, must exclude the bad case
					for b, next := via, to; b != nil; {
						if iff, isIf := b.Instrs[len(b.Instrs)-1].(*ssa.If); isIf && b.Succs[0] != b.Succs[1] {
							if excludes(iff.Cond, b.Succs[0] == next) {
								return
							}
						}
						if len(b.Preds) != 1 {
							break
						}
						b, next = b.Preds[0], b
					}
					ok, why = false, "the truncated quotient reaches the encoder on a path where it may be 0 although the duration is positive"
					return
				}
				ok, why = false, "cannot interpret the encoded value "+x.String()
			}
			check(v, nil, nil)
			ctx.Check(ok, "C13.R8", construct, r.IPos(c.Instr), "every way the quotient d/Millisecond gets through has quotient ≠ 0 or d ≤ 0; otherwise a constant ≥ 1",
				why+": a timeout between 1ns and 999µs is sent as 0, ToContext arms no deadline for it, and Request on the adapter transport waits for a silent peer forever")
		}
	}
	if n == 0 {
		ctx.Unresolved("C13.R8", "FContext.SetTimeout", "no timeout encoder found")
	}
}

// c13OneBudget — C13.R9: a call has one timeout budget. On every path through
// Request / Oneway (helpers of the package included) at most one clock is
// started from the FContext's timeout: ToContext(fctx), context.WithTimeout /
// WithDeadline, time.After / NewTimer / AfterFunc. Two clocks in sequence (one
// for the send phase, one for the wait) let the call return as late as twice
// the timeout.
func c13OneBudget(ctx *core.Ctx, r *RT) {
	ctx.Rule("C13.R9", "one timeout budget per call: no path through Request/Oneway starts a second clock from the FContext's timeout", 4)
	tc := r.FnOpt("ToContext")
	isClock := func(in ssa.Instruction) bool {
		c, ok := ssax.AsCall(in)
		if !ok {
			return false
		}
		if tc != nil && c.Static == tc {
			return true
		}
		switch c.FullName() {
		case "context.WithTimeout", "context.WithDeadline", "time.After", "time.NewTimer", "time.AfterFunc", "time.Tick", "time.NewTicker":
			return true
		}
		return false
	}
	for _, m := range []string{"Request", "Oneway"} {
		for _, fn := range r.Impl("FTransport", m) {
			if len(fn.Blocks) == 0 {
				continue
			}
			// helpers count with every one of their returns (a helper that reports the
			// send error still spent its clock); ToContext's inner WithTimeout is the same clock
			memo := map[*ssa.Function]int{}
			var maxClocks func(g *ssa.Function, d int) int
			maxClocks = func(g *ssa.Function, d int) int {
				if v, ok := memo[g]; ok {
					return v
				}
				memo[g] = 0
				_, hi := ssax.CountOnPathsToW(g, nil, func(in ssa.Instruction) (int, int) {
					if isClock(in) {
						return 1, 1
					}
					if c, ok := in.(*ssa.Call); ok && d > 0 {
						if h := c.Call.StaticCallee(); h != nil && h.Pkg == fn.Pkg && len(h.Blocks) > 0 && h != tc {
							n := maxClocks(h, d-1)
							return 0, n
						}
					}
					return 0, 0
				}, func(*ssa.Return) bool { return true })
				memo[g] = hi
				return hi
			}
			mx := maxClocks(fn, 3)
			ctx.Check(mx <= 1, "C13.R9", ssax.Name(fn)+" › at most one timeout clock per call", fnPos(r, fn), sprintf("at most %d clock(s) on any path", mx),
				sprintf("a path through the call starts %d clocks from the context's timeout (e.g. one in the send helper and another for the wait): the budget restarts between the phases, so a peer that stalls the write for a while and then never answers keeps the caller for up to twice the timeout", mx))
		}
	}
}

// c13StableKey — C13.R10: the registration is removed under the key it was
// made with. The registry derives the key from the context's op id when
// Register and again when Unregister runs; a Request that gives its context a
// new op id in between (e.g. on the timeout branch, "so that a late response
// cannot be mistaken") makes the deferred Unregister delete nothing — the
// result channel stays registered for the life of the transport.
func c13StableKey(ctx *core.Ctx, r *RT) {
	ctx.Rule("C13.R10", "the registration key is stable: Request never assigns the op id of its context (the deferred Unregister recomputes the key from it)", 2)
	opid := constString(r, "opIDHeader")
	for _, fn := range r.Impl("FTransport", "Request") {
		if len(fn.Blocks) == 0 {
			continue
		}
		registers := false
		for _, g := range localCone(fn, 2) {
			for _, c := range ssax.Calls(g) {
				if c.Method != nil && c.Method.Name() == "Register" {
					registers = true
				}
			}
		}
		if !registers {
			continue
		}
		bad := ""
		for _, g := range localCone(fn, 2) {
			for _, c := range ssax.Calls(g) {
				if c.ShortName() == "AddRequestHeader" && len(c.Args()) == 3 {
					if k, ok := ConstString(c.Args()[1]); ok && k == opid {
						bad = r.IPos(c.Instr) + " (" + ssax.Name(g) + ")"
					}
				}
				if c.Static != nil && c.Static.Pkg == r.Pkg && g == fn {
					// a helper that does it for its parameter (setRequestOpID-like)
					for _, c2 := range ssax.Calls(c.Static) {
						if c2.ShortName() == "AddRequestHeader" && len(c2.Args()) == 3 {
							if k, ok := ConstString(c2.Args()[1]); ok && k == opid && c.Static.Signature.Recv() == nil {
								bad = r.IPos(c.Instr) + " (through " + ssax.Name(c.Static) + ")"
							}
						}
					}
				}
			}
		}
		ctx.Check(bad == "", "C13.R10", ssax.Name(fn)+" › does not assign the op id of the context it registered", fnPos(r, fn), "no AddRequestHeader(_opid, …) in the Request cone",
			"Request assigns a new op id to its context at "+bad+" while the context is registered: the deferred Unregister derives its key from the new id and removes nothing, so every such call leaves its result channel in the registry (and a late response is pushed into a channel nobody reads)")
	}
}

package rules

import (
	"go/types"

	"fv/internal/core"
	"fv/internal/ssax"

	"golang.org/x/tools/go/ssa"
)

// c03ResponseOutlivesContext — C03.R12: the reply of an HTTP call is the body
// of the response, and net/http tears the connection down when the request's
// context is cancelled. A function that creates the context of a request
// (context.WithTimeout/WithCancel/WithDeadline) and cancels it itself (defer
// cancel(), or a call of cancel) must therefore consume the response there: it
// never returns the *http.Response obtained with that context to a caller that
// would read the body after the cancellation.
func c03ResponseOutlivesContext(ctx *core.Ctx, r *RT) {
	ctx.Rule("C03.R12", "a response is read before its request context is cancelled: the function that creates and cancels the context of an HTTP request does not hand the unread *http.Response to its caller", 1)
	n := 0
	for _, fn := range r.Fns {
		for _, c := range ssax.Calls(fn) {
			switch c.FullName() {
			case "context.WithTimeout", "context.WithCancel", "context.WithDeadline":
			default:
				// a helper of the package that returns (context.Context, context.CancelFunc): ToContext
				if c.Static == nil || c.Static.Pkg != r.Pkg || c.Static.Signature.Results().Len() != 2 || c.Static.Signature.Results().At(1).Type().String() != "context.CancelFunc" {
					continue
				}
			}
			tup := c.Instr.Value()
			if tup == nil || tup.Referrers() == nil {
				continue
			}
			var cctx, cancel ssa.Value
			for _, u := range *tup.Referrers() {
				if e, ok := u.(*ssa.Extract); ok {
					if e.Index == 0 {
						cctx = e
					} else {
						cancel = e
					}
				}
			}
			if cctx == nil {
				continue
			}
			// is the context attached to an HTTP request here?
			var reqCalls []ssax.Call
			for _, c2 := range ssax.Calls(fn) {
				switch c2.FullName() {
				case "(*net/http.Request).WithContext", "net/http.NewRequestWithContext":
					for _, a := range c2.Common.Args {
						if dependsOn(a, cctx, 0) {
							reqCalls = append(reqCalls, c2)
						}
					}
				}
			}
			if len(reqCalls) == 0 {
				continue
			}
			n++
			// cancelled by this function?
			cancelled := false
			if cancel != nil && cancel.Referrers() != nil {
				for _, u := range *cancel.Referrers() {
					switch x := u.(type) {
					case *ssa.Defer:
						if x.Call.Value == cancel {
							cancelled = true
						}
					case *ssa.Call:
						if x.Call.Value == cancel {
							cancelled = true
						}
					}
				}
			}
			returnsResp := false
			res := fn.Signature.Results()
			for i := 0; i < res.Len(); i++ {
				if p, ok := res.At(i).Type().(*types.Pointer); ok {
					if nm, ok := p.Elem().(*types.Named); ok && nm.Obj().Name() == "Response" && nm.Obj().Pkg() != nil && nm.Obj().Pkg().Path() == "net/http" {
						returnsResp = true
					}
				}
			}
			ctx.Check(!(cancelled && returnsResp), "C03.R12", ssax.Name(fn)+sprintf(" › request context #%d is cancelled only after the response was consumed", n), r.IPos(c.Instr),
				"the function that cancels the context does not return the *http.Response",
				"the function cancels the context of the request it sends (defer cancel()) and returns the *http.Response: the caller reads the body after the cancellation, net/http closes the connection, and a reply larger than what is already buffered is lost (context canceled) although the handler ran and returned it")
		}
	}
	if n == 0 {
		ctx.Discharge("C03.R12", "HTTP client › no cancellable request context is created by the runtime", "", "nothing to cancel before the body is read")
	}
}

// liftedMax: the largest number of instructions satisfying pred on any path
// through fn, helpers of the package counted with all their returns; a `go`
// statement counts as the maximum of the function it starts.
func liftedMax(fn *ssa.Function, pred func(ssa.Instruction) bool, depth int) int {
	memo := map[*ssa.Function]int{}
	var rec func(g *ssa.Function, d int) int
	rec = func(g *ssa.Function, d int) int {
		if v, ok := memo[g]; ok {
			return v
		}
		memo[g] = 0
		_, hi := ssax.CountOnPathsToW(g, nil, func(in ssa.Instruction) (int, int) {
			if pred(in) {
				return 1, 1
			}
			if d <= 0 {
				return 0, 0
			}
			var callee *ssa.Function
			switch x := in.(type) {
			case *ssa.Call:
				callee = x.Call.StaticCallee()
			case *ssa.Go:
				callee = x.Call.StaticCallee()
			}
			if callee != nil && callee.Pkg == fn.Pkg && len(callee.Blocks) > 0 {
				return 0, rec(callee, d-1)
			}
			return 0, 0
		}, func(*ssa.Return) bool { return true })
		// inside a loop the count is unbounded: report 2 for "more than once"
		ssax.Instrs(g, func(in ssa.Instruction) {
			if inCycle(in) {
				if pred(in) {
					hi = 2
				}
				if c, ok := in.(*ssa.Call); ok && d > 0 {
					if callee := c.Call.StaticCallee(); callee != nil && callee.Pkg == fn.Pkg && len(callee.Blocks) > 0 && rec(callee, d-1) > 0 {
						hi = 2
					}
				}
			}
		})
		memo[g] = hi
		return hi
	}
	return rec(fn, depth)
}

// c03TransmitOnce — C03.R14/R15.
//
// R14: the handler runs once per call because the request goes out once: on
// no path through Request/Oneway is the request handed to the wire a second
// time (HTTP round trip, NATS publish, flush of the stream). A retry after an
// error that can also mean "processed, response lost" runs the handler twice.
//
// R15: the NATS server discards a message without reply subject as invalid;
// the NATS client therefore publishes every request — one-way included — with
// PublishRequest and its inbox, never with the reply-less Publish.
func c03TransmitOnce(ctx *core.Ctx, r *RT) {
	ctx.Rule("C03.R14", "a request is handed to the wire at most once per call: no second HTTP round trip / NATS publish / flush on any path through Request or Oneway", 4)
	ctx.Rule("C03.R15", "the NATS client publishes every request with a reply subject (the server discards reply-less messages)", 1)
	isTransmit := func(in ssa.Instruction) bool {
		c, ok := ssax.AsCall(in)
		if !ok {
			return false
		}
		if _, isGo := in.(*ssa.Go); isGo {
			return false
		}
		switch c.FullName() {
		case "(*net/http.Client).Do", "(*github.com/nats-io/nats.go.Conn).PublishRequest", "(*github.com/nats-io/nats.go.Conn).Publish", "(*github.com/nats-io/nats.go.Conn).PublishMsg":
			return true
		}
		return c.Method != nil && c.Method.Name() == "Flush" && ssax.TypeNamed(c.Common.Value.Type(), "thrift", "TTransport")
	}
	nNats := 0
	for _, m := range []string{"Request", "Oneway"} {
		for _, fn := range r.Impl("FTransport", m) {
			if len(fn.Blocks) == 0 {
				continue
			}
			mx := liftedMax(fn, isTransmit, 3)
			ctx.Check(mx <= 1, "C03.R14", ssax.Name(fn)+" › transmits at most once", fnPos(r, fn), sprintf("at most %d transmission(s) on any path", mx),
				"a path through the call hands the request to the wire more than once (a retry): the errors that look like a stale connection — EOF, connection reset — also occur after the server processed the request and before the response arrived, so the handler runs twice for one call and the caller gets the second outcome")
			for _, g := range localCone(fn, 2) {
				for _, c := range ssax.Calls(g) {
					switch c.FullName() {
					case "(*github.com/nats-io/nats.go.Conn).PublishRequest":
						nNats++
						ctx.Discharge("C03.R15", ssax.Name(fn)+sprintf(" › publish #%d carries a reply subject", nNats), r.IPos(c.Instr), "PublishRequest")
					case "(*github.com/nats-io/nats.go.Conn).Publish":
						nNats++
						ctx.Violate("C03.R15", ssax.Name(fn)+sprintf(" › publish #%d carries a reply subject", nNats), r.IPos(c.Instr),
							"the request is published without a reply subject: fNatsServer's handler discards such a message as invalid, so the call returns nil and the handler is never invoked")
					}
				}
			}
		}
	}
	if nNats == 0 {
		ctx.Unresolved("C03.R15", "NATS client", "no publish in the NATS client transport")
	}
}

// processOnce — a received request is handed to the processor once. In every
// function of the runtime that reaches FProcessor.Process (directly, or
// through one helper of the package) there is exactly one call site that does
// so: a second one — "retry the reply" around a function that processes *and*
// publishes — runs the user's handler twice for one request.
func processOnce(ctx *core.Ctx, r *RT, rule string) {
	isProcess := func(c ssax.Call) bool {
		return c.Method != nil && c.Method.Name() == "Process" && ssax.TypeNamed(c.Common.Value.Type(), "", "FProcessor")
	}
	direct := map[*ssa.Function]bool{}
	for _, fn := range r.Fns {
		for _, c := range ssax.Calls(fn) {
			if isProcess(c) {
				direct[fn] = true
			}
		}
	}
	n := 0
	for _, fn := range r.Fns {
		if fn.Pkg != r.Pkg {
			continue
		}
		sites := 0
		var where []string
		for _, c := range ssax.Calls(fn) {
			if isProcess(c) || (c.Static != nil && direct[c.Static] && c.Static != fn) {
				sites++
				where = append(where, r.IPos(c.Instr))
			}
		}
		if sites == 0 {
			continue
		}
		n++
		ctx.Check(sites == 1, rule, ssax.Name(fn)+" › one call site hands a request to the processor", fnPos(r, fn), "exactly one",
			sprintf("%d call sites reach FProcessor.Process (%v): a request can be processed more than once — e.g. a retry of the step that processes and publishes — so the handler's side effects happen twice for one call", sites, where))
	}
	if n == 0 {
		ctx.Unresolved(rule, "servers", "no function reaching FProcessor.Process found")
	}
}

package rules

import (
	"go/types"

	"fv/internal/core"
	"fv/internal/ssax"

	"golang.org/x/tools/go/ssa"
)

// c03ResponseOutlivesContext — C03.R12: the reply of an HTTP call is the body
// of the response, and net/http tears the connection down when the request's
// context is cancelled. A function that creates the context of a request
// (context.WithTimeout/WithCancel/WithDeadline) and cancels it itself (defer
// cancel(), or a call of cancel) must therefore consume the response there: it
// never returns the *http.Response obtained with that context to a caller that
// would read the body after the cancellation.
func c03ResponseOutlivesContext(ctx *core.Ctx, r *RT) {
	ctx.Rule("C03.R12", "a response is read before its request context is cancelled: the function that creates and cancels the context of an HTTP request does not hand the unread *http.Response to its caller", 1)
	n := 0
	for _, fn := range r.Fns {
		for _, c := range ssax.Calls(fn) {
			switch c.FullName() {
			case "context.WithTimeout", "context.WithCancel", "context.WithDeadline":
			default:
				// a helper of the package that returns (context.Context, context.CancelFunc): ToContext
				if c.Static == nil || c.Static.Pkg != r.Pkg || c.Static.Signature.Results().Len() != 2 || c.Static.Signature.Results().At(1).Type().String() != "context.CancelFunc" {
					continue
				}
			}
			tup := c.Instr.Value()
			if tup == nil || tup.Referrers() == nil {
				continue
			}
			var cctx, cancel ssa.Value
			for _, u := range *tup.Referrers() {
				if e, ok := u.(*ssa.Extract); ok {
					if e.Index == 0 {
						cctx = e
					} else {
						cancel = e
					}
				}
			}
			if cctx == nil {
				continue
			}
			// is the context attached to an HTTP request here?
			var reqCalls []ssax.Call
			for _, c2 := range ssax.Calls(fn) {
				switch c2.FullName() {
				case "(*net/http.Request).WithContext", "net/http.NewRequestWithContext":
					for _, a := range c2.Common.Args {
						if dependsOn(a, cctx, 0) {
							reqCalls = append(reqCalls, c2)
						}
					}
				}
			}
			if len(reqCalls) == 0 {
				continue
			}
			n++
			// cancelled by this function?
			cancelled := false
			if cancel != nil && cancel.Referrers() != nil {
				for _, u := range *cancel.Referrers() {
					switch x := u.(type) {
					case *ssa.Defer:
						if x.Call.Value == cancel {
							cancelled = true
						}
					case *ssa.Call:
						if x.Call.Value == cancel {
							cancelled = true
						}
					}
				}
			}
			returnsResp := false
			res := fn.Signature.Results()
			for i := 0; i < res.Len(); i++ {
				if p, ok := res.At(i).Type().(*types.Pointer); ok {
					if nm, ok := p.Elem().(*types.Named); ok && nm.Obj().Name() == "Response" && nm.Obj().Pkg() != nil && nm.Obj().Pkg().Path() == "net/http" {
						returnsResp = true
					}
				}
			}
			ctx.Check(!(cancelled && returnsResp), "C03.R12", ssax.Name(fn)+sprintf(" › request context #%d is cancelled only after the response was consumed", n), r.IPos(c.Instr),
				"the function that cancels the context does not return the *http.Response",
				"the function cancels the context of the request it sends (defer cancel()) and returns the *http.Response: the caller reads the body after the cancellation, net/http closes the connection, and a reply larger than what is already buffered is lost (context canceled) although the handler ran and returned it")
		}
	}
	if n == 0 {
		ctx.Discharge("C03.R12", "HTTP client › no cancellable request context is created by the runtime", "", "nothing to cancel before the body is read")
	}
}

package rules

import (
	"go/token"
	"go/types"
	"sort"

	"fv/internal/core"
	"fv/internal/ssax"

	"golang.org/x/tools/go/ssa"
)

// rangeCopiesAllBut checks that a `for k, v := range src` loop in fn calls
// adder(dst, k, v) on every iteration except when k == skipConst.
func rangeCopiesAllBut(fn *ssa.Function, src ssa.Value, adder string, dst ssa.Value, skipConst string) (bool, string) {
	addsPair := func(in ssa.Instruction, key, val ssa.Value, to ssa.Value) bool {
		c, ok := ssax.AsCall(in)
		if !ok || c.ShortName() != adder {
			return false
		}
		args := c.Args()
		return len(args) == 3 && ssax.Strip(args[0]) == ssax.Strip(to) && ssax.Strip(args[1]) == key && ssax.Strip(args[2]) == val
	}
	ok, why := rangeVisitsAllBut(fn, src, skipConst, func(in ssa.Instruction, k, v ssa.Value) bool { return addsPair(in, k, v, dst) })
	if ok || why != "no loop over the headers that were read" {
		return ok, why
	}
	// the iteration may be a helper of the package that is handed the map and a
	// visitor: forEach(headers, func(name, value string) { dst.Add…(name, value) })
	for _, c := range ssax.Calls(fn) {
		g := c.Static
		if g == nil || g.Pkg != fn.Pkg || len(g.Blocks) == 0 {
			continue
		}
		mi, vi := -1, -1
		var visitor *ssa.Function
		var mc *ssa.MakeClosure
		for i, a := range c.Common.Args {
			if ssax.Strip(a) == ssax.Strip(src) {
				mi = i
			}
			if cl, isMC := ssax.Strip(a).(*ssa.MakeClosure); isMC {
				vi, mc = i, cl
				visitor, _ = cl.Fn.(*ssa.Function)
			}
		}
		if mi < 0 || vi < 0 || visitor == nil || mi >= len(g.Params) || vi >= len(g.Params) || len(visitor.Params) != 2 {
			continue
		}
		// the helper calls the visitor with (key, value) of every entry but the skipped one
		fp := g.Params[vi]
		okIter, whyIter := rangeVisitsAllBut(g, g.Params[mi], skipConst, func(in ssa.Instruction, k, v ssa.Value) bool {
			call, isCall := in.(*ssa.Call)
			return isCall && ssax.Strip(call.Call.Value) == ssa.Value(fp) && len(call.Call.Args) == 2 && ssax.Strip(call.Call.Args[0]) == k && ssax.Strip(call.Call.Args[1]) == v
		})
		if !okIter {
			return false, whyIter + " (in " + g.Name() + ")"
		}
		// the visitor adds its two parameters to dst on every path
		var to ssa.Value
		for i, fv := range visitor.FreeVars {
			if i < len(mc.Bindings) {
				b := ssax.Strip(mc.Bindings[i])
				if b == ssax.Strip(dst) {
					to = fv
				}
				if a, isAlloc := b.(*ssa.Alloc); isAlloc { // captured by reference: the cell holding dst
					for _, u := range *a.Referrers() {
						if st, isSt := u.(*ssa.Store); isSt && st.Addr == ssa.Value(a) && ssax.Strip(st.Val) == ssax.Strip(dst) {
							to = fv
						}
					}
				}
			}
		}
		if to == nil {
			return false, "the visitor does not add to the context"
		}
		isAdd := func(in ssa.Instruction) bool {
			c, ok := ssax.AsCall(in)
			if !ok || c.ShortName() != adder || len(c.Args()) != 3 {
				return false
			}
			recv := ssax.Strip(c.Args()[0])
			if u, isU := recv.(*ssa.UnOp); isU && u.Op == token.MUL {
				recv = u.X // load of the captured cell
			}
			return (recv == to || recv == ssax.Strip(dst)) && ssax.Strip(c.Args()[1]) == ssa.Value(visitor.Params[0]) && ssax.Strip(c.Args()[2]) == ssa.Value(visitor.Params[1])
		}
		if ssax.PathFrom(visitor, nil, ssax.IsReturn, isAdd) != nil {
			return false, "the visitor can return without adding the pair"
		}
		return true, ""
	}
	return ok, why
}

// rangeVisitsAllBut: fn ranges over map src and, on every trip whose key is not
// skipConst, executes an instruction accepted by visit(in, key, value).
func rangeVisitsAllBut(fn *ssa.Function, src ssa.Value, skipConst string, visit func(in ssa.Instruction, k, v ssa.Value) bool) (bool, string) {
	var rg *ssa.Range
	ssax.Instrs(fn, func(in ssa.Instruction) {
		if r, ok := in.(*ssa.Range); ok && ssax.Strip(r.X) == ssax.Strip(src) {
			rg = r
		}
	})
	if rg == nil {
		return false, "no loop over the headers that were read"
	}
	var next *ssa.Next
	for _, u := range *rg.Referrers() {
		if n, ok := u.(*ssa.Next); ok {
			next = n
		}
	}
	if next == nil {
		return false, "range without next"
	}
	// the body: ok-edge successor
	var body *ssa.BasicBlock
	for _, u := range *next.Referrers() {
		if e, ok := u.(*ssa.Extract); ok && e.Index == 0 {
			for _, u2 := range *e.Referrers() {
				if iff, ok := u2.(*ssa.If); ok {
					body = iff.Block().Succs[0]
				}
			}
		}
	}
	if body == nil {
		return false, "range body not found"
	}
	var call ssa.Instruction
	var keyV, valV ssa.Value
	for _, u := range *next.Referrers() {
		if e, ok := u.(*ssa.Extract); ok {
			switch e.Index {
			case 1:
				keyV = e
			case 2:
				valV = e
			}
		}
	}
	ssax.Instrs(fn, func(in ssa.Instruction) {
		if keyV != nil && valV != nil && visit(in, keyV, valV) {
			call = in
		}
	})
	if call == nil {
		return false, "the loop does not add (name, value) of each entry to the context"
	}
	// from the body entry, every path back to the loop header without the call goes through k == skipConst (true edge)
	header := next.Block()
	isHeader := func(in ssa.Instruction) bool { return in == ssa.Instruction(next) }
	isCall := func(in ssa.Instruction) bool { return in == call }
	// find skip edges
	// skipBlocks[b] = index of the successor taken when key == skipConst (either polarity of the test)
	skipBlocks := map[*ssa.BasicBlock]int{}
	for _, b := range fn.Blocks {
		iff, ok := b.Instrs[len(b.Instrs)-1].(*ssa.If)
		if !ok {
			continue
		}
		cond, eqSucc := iff.Cond, 0
		for {
			u, isU := cond.(*ssa.UnOp)
			if !isU || u.Op != token.NOT {
				break
			}
			cond, eqSucc = u.X, 1-eqSucc
		}
		bo, ok := cond.(*ssa.BinOp)
		if !ok || (bo.Op != token.EQL && bo.Op != token.NEQ) {
			continue
		}
		if bo.Op == token.NEQ {
			eqSucc = 1 - eqSucc
		}
		kx, sy := bo.X, bo.Y
		if _, isC := ConstString(kx); isC {
			kx, sy = sy, kx
		}
		k, ok1 := ssax.Strip(kx).(*ssa.Extract)
		s, ok2 := ConstString(sy)
		if ok1 && ok2 && k.Tuple == ssa.Value(next) && k.Index == 1 && s == skipConst {
			skipBlocks[b] = eqSucc + 1
		}
	}
	// the reserved entry really is excluded: the visit happens only past the `key != skipConst` edge
	if skipConst != "" {
		excluded := false
		for b, sb := range skipBlocks {
			if len(b.Succs) != 2 {
				continue
			}
			other := b.Succs[1-(sb-1)]
			if other != b.Succs[sb-1] && (other == call.Block() || other.Dominates(call.Block())) && len(other.Preds) == 1 {
				excluded = true
			}
		}
		if !excluded {
			return false, "the entry " + skipConst + " is copied like any other"
		}
	}
	// explore paths from body start avoiding the call; every arrival at the header must have used a skip edge
	type st struct {
		b       *ssa.BasicBlock
		skipped bool
	}
	seen := map[st]bool{}
	work := []st{{body, false}}
	for len(work) > 0 {
		s := work[len(work)-1]
		work = work[:len(work)-1]
		if seen[s] {
			continue
		}
		seen[s] = true
		blocked := false
		for _, in := range s.b.Instrs {
			if isCall(in) {
				blocked = true
				break
			}
			if isHeader(in) && s.b == header {
				if !s.skipped {
					return false, "an entry other than " + skipConst + " can be skipped"
				}
				blocked = true
				break
			}
		}
		if blocked {
			continue
		}
		for i, succ := range s.b.Succs {
			ns := st{succ, s.skipped}
			if sb := skipBlocks[s.b]; sb != 0 && i == sb-1 {
				ns.skipped = true
			}
			work = append(work, ns)
		}
	}
	return true, ""
}

// C09 — the request context travels with the call and back.
func C09(ctx *core.Ctx) {
	ctx.Explanation = "Decides the identity of the context object along the request/reply path and the structural facts of header construction: server side, ReadRequestHeader copies every wire header except _opid into the new context, moves the wire op id into the response headers (missing ⇒ error), sets a fresh request op id and echoes the context's own correlation id; replies are written with the response headers of the request's context (SendReply, SendError/sendError/trapError, unknown-method branch); " +
		"client side, Call/Oneway/Publish pass the caller's FContext to WriteRequestHeader, and Call passes the same FContext to ReadResponseHeader, which merges every response header except _opid; WriteRequest/ResponseHeader serialise exactly RequestHeaders()/ResponseHeaders(); SetTimeout/Timeout agree on header, unit and radix. Not decided: header contents surviving the codec (C04), transports."
	r := LoadRT(ctx, "", "")
	if !r.OK() {
		return
	}
	ctx.Rule("C09.R1", "reply carries the request's context: every reply path writes WriteResponseHeader(fctx) with the fctx it was given", 4)
	ctx.Rule("C09.R2", "server-side construction in ReadRequestHeader", 5)
	ctx.Rule("C09.R3", "client-side: same FContext to prepareMessage/WriteRequestHeader and processReply/ReadResponseHeader; ReadResponseHeader merges all but _opid", 7)
	c09Ownership(ctx, r)
	ctx.Rule("C09.R4", "timeout encoding siblings agree on header key, unit and radix", 3)
	opid := constString(r, "opIDHeader")
	cid := constString(r, "cidHeader")

	// ---- R1 ---------------------------------------------------------------------
	pf := "(*FBaseProcessorFunction)."
	helperFns := map[*ssa.Function]bool{}
	label := map[*ssa.Function]string{}
	var r1fns []*ssa.Function
	for _, name := range []string{pf + "SendReply", pf + "SendError"} {
		if fn := r.Fn("C09.R1", name); fn != nil {
			r1fns = append(r1fns, fn)
			helperFns[fn] = true
			label[fn] = name
		}
	}
	for what, fn := range map[string]*ssa.Function{"the writer behind SendError": r.roleSendError(), "the error trap of SendReply": r.roleTrapError()} {
		if fn == nil {
			ctx.Unresolved("C09.R1", what, "not found among the callees of the exported reply functions")
			continue
		}
		if !helperFns[fn] {
			r1fns = append(r1fns, fn)
			helperFns[fn] = true
			label[fn] = pf + "(" + what + ")"
		}
	}
	// write steps extracted from SendReply into helpers of the same receiver
	if sr := r.FnOpt(pf + "SendReply"); sr != nil {
		takesBoth := func(g *ssa.Function) bool { // a writing helper: it is handed the context and the output protocol
			hasCtx, hasProto := false, false
			for _, p := range g.Params {
				if ssax.TypeNamed(p.Type(), "", "FContext") {
					hasCtx = true
				}
				if ssax.TypeNamed(p.Type(), "", "FProtocol") {
					hasProto = true
				}
			}
			return hasCtx && hasProto && g.Object() != nil && !g.Object().Exported()
		}
		for _, g := range localCone(sr, 3) {
			if helperFns[g] {
				continue
			}
			if (g.Signature.Recv() != nil && types.Identical(g.Signature.Recv().Type(), sr.Signature.Recv().Type())) || takesBoth(g) {
				r1fns = append(r1fns, g)
				helperFns[g] = true
				label[g] = ssax.Name(g)
			}
		}
	}
	sort.Slice(r1fns, func(i, j int) bool { return r1fns[i].Name() < r1fns[j].Name() })
	for _, fn := range r1fns {
		name := label[fn]
		var fctx *ssa.Parameter
		for _, p := range fn.Params {
			if ssax.TypeNamed(p.Type(), "", "FContext") {
				fctx = p
			}
		}
		n, ok := 0, true
		for _, c := range ssax.Calls(fn) {
			_, op := protoOp(c)
			if op == "WriteResponseHeader" {
				n++
				if ssax.Strip(c.Common.Args[1]) != ssa.Value(fctx) {
					ok = false
				}
			}
			// forwarding to the sibling helpers
			if c.Static != nil && helperFns[c.Static] && c.Static.Pkg == r.Pkg {
				n++
				found := false
				for _, a := range c.Common.Args {
					if ssax.Strip(a) == ssa.Value(fctx) {
						found = true
					}
				}
				if !found {
					ok = false
				}
			}
		}
		ctx.Check(ok && n > 0, "C09.R1", name+" › response header / helper gets the fctx it was given", fnPos(r, fn), sprintf("%d use(s), all with the fctx parameter", n),
			"a reply is written with a context other than the request's: the caller sees another request's op id / headers")
	}

	// ---- R8: a reply is encoded into a buffer of its own ---------------------------------
	ctx.Rule("C09.R8", "the response a caller receives carries only its own request's op id, correlation id and response headers: every server entry point encodes each reply into a buffer allocated for that message (never a pooled or shared one)", 2)
	perMessageTransports(ctx, r, "C09.R8")
	c09DerivedHeaderState(ctx, r)

	// ---- R7: the dispatcher hands the handler the context as it was received ---------------
	ctx.Rule("C09.R7", "the server-side dispatcher does not rewrite the request's context: between ReadRequestHeader and the processor function no request header (timeout, correlation id, user header) is set on it", 1)
	if proc := r.Fn("C09.R7", "(*FBaseProcessor).Process"); proc != nil {
		var fctx ssa.Value
		for _, c := range ssax.Calls(proc) {
			if _, op := protoOp(c); op == "ReadRequestHeader" {
				for _, u := range *c.Instr.Value().Referrers() {
					if e, ok := u.(*ssa.Extract); ok && e.Index == 0 {
						fctx = e
					}
				}
			}
		}
		if fctx == nil {
			ctx.Unresolved("C09.R7", ssax.Name(proc), "ReadRequestHeader result not found")
		} else {
			al := valueAliases(fctx)
			bad := ""
			for _, g := range localCone(proc, 2) {
				if g != proc && (g.Object() == nil || g.Object().Exported()) {
					continue
				}
				for _, c := range ssax.Calls(g) {
					switch c.ShortName() {
					case "SetTimeout", "AddRequestHeader":
						if len(c.Args()) > 0 && al[ssax.Strip(c.Args()[0])] {
							bad = r.IPos(c.Instr) + ": " + c.ShortName() + " in " + ssax.Name(g)
						}
					}
				}
			}
			ctx.Check(bad == "", "C09.R7", ssax.Name(proc)+" › the request's context reaches the handler unmodified", fnPos(r, proc), "no SetTimeout/AddRequestHeader on the received context before dispatch",
				"the dispatcher changes the received context ("+bad+") — SetTimeout and AddRequestHeader mutate their receiver — so the handler observes a timeout or header the caller did not place on the FContext")
		}
	}

	// ---- R2 ---------------------------------------------------------------------
	if rr0 := r.Fn("C09.R2", "(*FProtocol).ReadRequestHeader"); rr0 != nil {
		rn := ssax.Name(rr0)
		rr, headers := headerConsumer(r, rr0)
		var al ssa.Value
		ssax.Instrs(rr, func(in ssa.Instruction) {
			if a, ok := in.(*ssa.Alloc); ok && ssax.TypeNamed(a.Type(), "", "FContextImpl") {
				al = a
			}
			if c, ok := in.(*ssa.Call); ok && FreshBase(c) && ssax.TypeNamed(c.Type(), "", "FContextImpl") {
				al = c
			}
		})
		if headers == nil || al == nil {
			ctx.Unresolved("C09.R2", rn, "header read or context allocation not found")
		} else {
			ok, why := rangeCopiesAllBut(rr, headers, "AddRequestHeader", al, opid)
			ctx.Check(ok, "C09.R2", rn+" › every wire header except _opid becomes a request header", fnPos(r, rr), "range over the headers read, AddRequestHeader(name, value) unless name == _opid", "the server-side context does not carry all request headers: "+why)
			// response-header writes of rr on the new context: direct
			// AddResponseHeader calls, or calls of a helper of the package whose
			// body is such a call on its parameters (setResponseOpID)
			type rhWrite struct {
				key string
				val ssa.Value
			}
			var writes []rhWrite
			unboxed := func(v ssa.Value) ssa.Value {
				if mi, ok := v.(*ssa.MakeInterface); ok {
					return ssax.Strip(mi.X)
				}
				return ssax.Strip(v)
			}
			for _, c := range ssax.Calls(rr) {
				if c.ShortName() == "AddResponseHeader" {
					args := c.Args()
					if k, isC := ConstString(args[1]); isC && len(args) == 3 && unboxed(args[0]) == al {
						writes = append(writes, rhWrite{k, args[2]})
					}
					continue
				}
				g := c.Static
				if g == nil || g.Pkg != r.Pkg || len(g.Blocks) == 0 {
					continue
				}
				for _, c2 := range ssax.Calls(g) {
					if c2.ShortName() != "AddResponseHeader" || len(c2.Args()) != 3 {
						continue
					}
					a2 := c2.Args()
					k, isC := ConstString(a2[1])
					pi, pv := -1, -1
					for i, q := range g.Params {
						if unboxed(a2[0]) == ssa.Value(q) {
							pi = i
						}
						if ssax.Strip(a2[2]) == ssa.Value(q) {
							pv = i
						}
					}
					if isC && pi >= 0 && pv >= 0 && pi < len(c.Common.Args) && pv < len(c.Common.Args) && unboxed(c.Common.Args[pi]) == al {
						writes = append(writes, rhWrite{k, c.Common.Args[pv]})
					}
				}
			}
			wireHeader := func(v ssa.Value, key string, commaOk bool) bool {
				v = ssax.Strip(v)
				if tup, k := ExtractOf(v, 0); k {
					v = tup
				}
				lk, k2 := v.(*ssa.Lookup)
				if !k2 || ssax.Strip(lk.X) != headers || (commaOk && !lk.CommaOk) {
					return false
				}
				s, k3 := ConstString(lk.Index)
				return k3 && s == key
			}
			okID := false
			for _, w := range writes {
				if w.key == opid && wireHeader(w.val, opid, true) {
					okID = true
				}
			}
			ctx.Check(okID, "C09.R2", rn+" › response op id = the request's wire op id", fnPos(r, rr), "setResponseOpID(ctx, headers[_opid])", "the reply will not carry the request's op id: the client cannot correlate it")
			if hs := r.FnOpt("setResponseOpID"); hs != nil {
				okS := false
				for _, c := range ssax.Calls(hs) {
					if c.ShortName() == "AddResponseHeader" {
						args := c.Args()
						if k, isC := ConstString(args[1]); isC && k == opid && IsParam(args[2], hs, 1) && IsParam(args[0], hs, 0) {
							okS = true
						}
					}
				}
				ctx.Check(okS, "C09.R2", "setResponseOpID › stores the id under _opid of the response headers", fnPos(r, hs), "ctx.AddResponseHeader(_opid, id)", "the response op id is stored under the wrong header")
			}
			// missing op id => error
			okMiss := false
			ssax.Instrs(rr, func(in ssa.Instruction) {
				if lk, k := in.(*ssa.Lookup); k && lk.CommaOk && ssax.Strip(lk.X) == headers {
					for _, u := range *lk.Referrers() {
						if e, k2 := u.(*ssa.Extract); k2 && e.Index == 1 {
							for _, u2 := range *e.Referrers() {
								if iff, k3 := u2.(*ssa.If); k3 {
									miss := iff.Block().Succs[1]
									for ret := range ReturnedValues(rr) {
										if ret.Block() == miss && !nilErrorReturn(ret) {
											okMiss = true
										}
									}
								}
							}
						}
					}
				}
			})
			ctx.Check(okMiss, "C09.R2", rn+" › request without op id is rejected", fnPos(r, rr), "missing _opid ⇒ error return", "a request without op id is processed: its reply cannot be correlated")
			// cid echo
			okCid := false
			for _, w := range writes {
				if w.key != cid {
					continue
				}
				// the context's own correlation id (all wire headers were copied into it) or the wire header itself
				if cc, isCall := CallValue(w.val); isCall && cc.ShortName() == "CorrelationID" && unboxed(cc.Args()[0]) == al {
					okCid = true
				}
				if wireHeader(w.val, cid, false) {
					okCid = true
				}
			}
			ctx.Check(okCid, "C09.R2", rn+" › correlation id echoed into the response headers", fnPos(r, rr), "AddResponseHeader(_cid, ctx.CorrelationID())", "the response does not carry the request's correlation id")
		}
	}

	// ---- R3 ---------------------------------------------------------------------
	prep := r.Fn("C09.R3", "(FStandardClient).prepareMessage")
	reply := r.Fn("C09.R3", "(FStandardClient).processReply")
	for _, name := range []string{"Call", "Oneway", "Publish"} {
		fn := r.Fn("C09.R3", "(*FStandardClient)."+name)
		if fn == nil || prep == nil {
			continue
		}
		fctx := fn.Params[1]
		ok, n := true, 0
		for _, c := range ssax.Calls(fn) {
			if c.Static == prep || c.Static == reply {
				n++
				found := false
				for i, a := range c.Common.Args {
					if ssax.Strip(a) == ssa.Value(fctx) && ssax.TypeNamed(c.Static.Params[i].Type(), "", "FContext") {
						found = true
					}
				}
				if !found {
					ok = false
				}
			}
			if c.Method != nil && (c.Method.Name() == "Request" || c.Method.Name() == "Oneway") && ssax.TypeNamed(c.Common.Value.Type(), "", "FTransport") {
				n++
				if ssax.Strip(c.Common.Args[0]) != ssa.Value(fctx) {
					ok = false
				}
			}
		}
		want := 2
		if name == "Call" {
			want = 3
		}
		if name == "Publish" {
			want = 1
		}
		ctx.Check(ok && n >= want, "C09.R3", ssax.Name(fn)+" › the caller's FContext is used for encode, transport and decode", fnPos(r, fn), sprintf("%d uses, all with the fctx parameter", n),
			"the client encodes/decodes with a different FContext than the caller's: headers set by the caller are not sent or response headers do not reach the caller")
	}
	if prep != nil {
		ok := false
		var fctx *ssa.Parameter
		for _, p := range prep.Params {
			if ssax.TypeNamed(p.Type(), "", "FContext") {
				fctx = p
			}
		}
		// in prepareMessage itself or in a helper it hands the context to
		fa := valueAliases(fctx)
		for _, g := range localCone(prep, 2) {
			for _, c := range ssax.Calls(g) {
				if _, op := protoOp(c); op == "WriteRequestHeader" && fa[ssax.Strip(c.Common.Args[1])] {
					ok = true
				}
			}
		}
		ctx.Check(ok, "C09.R3", ssax.Name(prep)+" › WriteRequestHeader(fctx)", fnPos(r, prep), "request header written from the caller's FContext", "the request header is not written from the caller's FContext")
	}
	if reply != nil {
		ok := false
		var fctx *ssa.Parameter
		for _, p := range reply.Params {
			if ssax.TypeNamed(p.Type(), "", "FContext") {
				fctx = p
			}
		}
		fa := valueAliases(fctx)
		for _, g := range localCone(reply, 2) {
			for _, c := range ssax.Calls(g) {
				if _, op := protoOp(c); op == "ReadResponseHeader" && fa[ssax.Strip(c.Common.Args[1])] {
					ok = true
				}
			}
		}
		ctx.Check(ok, "C09.R3", ssax.Name(reply)+" › ReadResponseHeader(fctx)", fnPos(r, reply), "response headers merged into the caller's FContext", "response headers are merged into a context other than the caller's")
	}
	// the exported reader, and whatever else the client's reply path reads response headers with
	var readers []*ssa.Function
	if rh := r.Fn("C09.R3", "(*FProtocol).ReadResponseHeader"); rh != nil {
		readers = append(readers, rh)
	}
	if reply != nil {
		for _, g := range localCone(reply, 2) {
			dup := false
			for _, x := range readers {
				dup = dup || x == g
			}
			if dup {
				continue
			}
			reads, adds := false, false
			for _, c := range ssax.Calls(g) {
				if c.Static != nil && c.Static.Pkg == r.Pkg && returnsHeaderMap(c.Static) {
					reads = true
				}
				if c.ShortName() == "AddResponseHeader" {
					adds = true
				}
			}
			if reads && adds {
				readers = append(readers, g)
			}
		}
	}
	for _, rh := range readers {
		var headers ssa.Value
		for _, c := range ssax.Calls(rh) {
			if c.Static != nil && c.Static.Pkg == r.Pkg && returnsHeaderMap(c.Static) {
				for _, u := range *c.Instr.Value().Referrers() {
					if e, ok := u.(*ssa.Extract); ok && e.Index == 0 {
						headers = e
					}
				}
			}
		}
		if headers == nil {
			ctx.Unresolved("C09.R3", ssax.Name(rh), "header read not found")
		} else {
			var dst ssa.Value = rh.Params[len(rh.Params)-1]
			for _, q := range rh.Params {
				if ssax.TypeNamed(q.Type(), "", "FContext") {
					dst = q
				}
			}
			ok, why := rangeCopiesAllBut(rh, headers, "AddResponseHeader", dst, opid)
			ctx.Check(ok, "C09.R3", ssax.Name(rh)+" › every response header except _opid is merged into the caller's context", fnPos(r, rh), "range over the headers read, ctx.AddResponseHeader(name, value) unless name == _opid", "response headers set by the handler do not all reach the caller: "+why)
		}
	}
	for _, spec := range []struct{ fn, acc string }{{"(*FProtocol).WriteRequestHeader", "RequestHeaders"}, {"(*FProtocol).WriteResponseHeader", "ResponseHeaders"}} {
		if fn := r.Fn("C09.R3", spec.fn); fn != nil {
			ok := false
			for _, c := range ssax.Calls(fn) {
				if c.Static != nil && c.Static.Name() == "writeHeader" {
					if hc, isC := CallValue(c.Common.Args[1]); isC && hc.ShortName() == spec.acc && ssax.Strip(hc.Args()[0]) == ssa.Value(fn.Params[1]) {
						ok = true
					}
				}
			}
			ctx.Check(ok, "C09.R3", spec.fn+" › serialises ctx."+spec.acc+"()", fnPos(r, fn), "writeHeader(ctx."+spec.acc+"())", "the wrong header set of the context is serialised")
		}
	}

	// ---- R4 ---------------------------------------------------------------------
	st := r.Fn("C09.R4", "(*FContextImpl).SetTimeout")
	gt := r.Fn("C09.R4", "(*FContextImpl).Timeout")
	if st != nil && gt != nil {
		tkey := constString(r, "timeoutHeader")
		var unitSet, unitGet, radSet, radGet int64 = -1, -2, -1, -2
		keySet, keyGet := "", ""
		ssax.Instrs(st, func(in ssa.Instruction) {
			// the header is stored directly (map update) or through the context's own accessor
			var keyV, valV ssa.Value
			if mu, ok := in.(*ssa.MapUpdate); ok {
				keyV, valV = mu.Key, mu.Value
			} else if ac, ok := ssax.AsCall(in); ok && ac.ShortName() == "AddRequestHeader" && len(ac.Args()) == 3 {
				keyV, valV = ac.Args()[1], ac.Args()[2]
			}
			if keyV != nil {
				if k, isC := ConstString(keyV); isC {
					keySet = k
				}
				// the text may be produced by a small encoding helper handed the duration
				encV, back := ThroughCall(r, valV)
				if fc, isCall := CallValue(encV); isCall && fc.FullName() == "strconv.FormatInt" {
					radSet, _ = ssax.ConstInt(fc.Common.Args[1])
					// the encoded value is d/unit, possibly selected against clamping constants (φ)
					seen := map[ssa.Value]bool{}
					var walk func(v ssa.Value)
					walk = func(v ssa.Value) {
						v = ssax.Strip(v)
						if seen[v] {
							return
						}
						seen[v] = true
						switch x := v.(type) {
						case *ssa.Convert:
							walk(x.X)
						case *ssa.Phi:
							for _, e := range x.Edges {
								walk(e)
							}
						case *ssa.BinOp:
							if x.Op == token.QUO && IsParam(back(x.X), st, 1) {
								unitSet, _ = ssax.ConstInt(x.Y)
							}
						}
					}
					walk(fc.Common.Args[0])
				}
			}
		})
		var gtCone []*ssa.Function // Timeout and the unexported helpers it decodes through
		for _, g := range localCone(gt, 1) {
			if g == gt || (g.Object() != nil && !g.Object().Exported()) {
				gtCone = append(gtCone, g)
			}
		}
		forInstrs(gtCone, func(in ssa.Instruction) {
			if lk, ok := in.(*ssa.Lookup); ok {
				if k, isC := ConstString(lk.Index); isC {
					keyGet = k
				}
			}
			if ac, ok := ssax.AsCall(in); ok && ac.ShortName() == "RequestHeader" && len(ac.Args()) == 2 {
				if k, isC := ConstString(ac.Args()[1]); isC {
					keyGet = k
				}
			}
			if c, ok := ssax.AsCall(in); ok && c.FullName() == "strconv.ParseInt" {
				radGet, _ = ssax.ConstInt(c.Common.Args[1])
			}
			if bo, ok := in.(*ssa.BinOp); ok && bo.Op == token.MUL {
				if k, isC := ssax.ConstInt(bo.X); isC {
					unitGet = k
				} else if k, isC := ssax.ConstInt(bo.Y); isC {
					unitGet = k
				}
			}
		})
		ctx.Check(keySet == tkey && keyGet == tkey, "C09.R4", "SetTimeout/Timeout › same header key", fnPos(r, st), "both use timeoutHeader", "SetTimeout and Timeout use different header keys")
		ctx.Check(unitSet == unitGet && unitSet > 0, "C09.R4", "SetTimeout/Timeout › same unit", fnPos(r, st), sprintf("unit %d ns both ways", unitSet), sprintf("SetTimeout divides by %d ns but Timeout multiplies by %d ns: the server sees a different timeout", unitSet, unitGet))
		ctx.Check(radSet == radGet && radSet == 10, "C09.R4", "SetTimeout/Timeout › same radix", fnPos(r, st), "radix 10 both ways", "different radix for encoding and decoding the timeout")
	}
	_ = types.Typ
}

// headerConsumer: the function that turns the decoded header map into the
// context — ReadRequestHeader itself, or the helper of the package it hands
// the map to — together with the map value as seen in that function.
func headerConsumer(r *RT, entry *ssa.Function) (*ssa.Function, ssa.Value) {
	var headers ssa.Value
	for _, c := range ssax.Calls(entry) {
		if c.Static != nil && c.Static.Pkg == r.Pkg && returnsHeaderMap(c.Static) {
			for _, u := range *c.Instr.Value().Referrers() {
				if e, ok := u.(*ssa.Extract); ok && e.Index == 0 {
					headers = e
				}
			}
		}
	}
	if headers == nil {
		return entry, nil
	}
	// is the map ranged over here?
	ranged := func(f *ssa.Function, m ssa.Value) bool {
		found := false
		ssax.Instrs(f, func(in ssa.Instruction) {
			if rg, ok := in.(*ssa.Range); ok && ssax.Strip(rg.X) == ssax.Strip(m) {
				found = true
			}
		})
		return found
	}
	if ranged(entry, headers) {
		return entry, headers
	}
	for _, c := range ssax.Calls(entry) {
		g := c.Static
		if g == nil || g.Pkg != r.Pkg || len(g.Blocks) == 0 {
			continue
		}
		visitor := false // forEach(headers, func(k, v) {…}): the consumer is the caller's closure
		for _, a := range c.Common.Args {
			if _, isMC := ssax.Strip(a).(*ssa.MakeClosure); isMC {
				visitor = true
			}
		}
		for i, a := range c.Common.Args {
			if !visitor && ssax.Strip(a) == headers && i < len(g.Params) && ranged(g, g.Params[i]) {
				return g, g.Params[i]
			}
		}
	}
	return entry, headers
}

func forInstrs(fns []*ssa.Function, f func(ssa.Instruction)) {
	for _, g := range fns {
		ssax.Instrs(g, f)
	}
}

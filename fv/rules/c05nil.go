package rules

import (
	"go/token"
	"go/types"
	"sort"

	"fv/internal/core"
	"fv/internal/ssax"

	"golang.org/x/tools/go/ssa"
)

// c05NilResults — C05.R8: a function of package frugal that can return a nil
// pointer/interface result together with a nil error (e.g. fHTTPTransport.Request
// when the peer answers a two-way request with an empty frame) obliges each of
// its callers to test the result before using it; otherwise a byte sequence
// chosen by the peer ends in a nil dereference.
func c05NilResults(ctx *core.Ctx, r *RT) {
	ctx.Rule("C05.R8", "nil-result discipline: a value returned as (nil, nil error) by some implementation is used by a caller only under a non-nil test", 1)
	nillable := func(t types.Type) bool {
		switch t.Underlying().(type) {
		case *types.Pointer, *types.Interface:
			return true
		}
		return false
	}
	isNil := func(v ssa.Value) bool {
		c, ok := ssax.Strip(ResolveLocal(v)).(*ssa.Const)
		return ok && c.IsNil()
	}
	type prod struct {
		fn  *ssa.Function
		idx int
	}
	producers := map[prod]token.Pos{}
	for _, fn := range r.Fns {
		res := fn.Signature.Results()
		if res.Len() < 2 || !isErrorType(res.At(res.Len()-1).Type()) {
			continue
		}
		for ret, vs := range ReturnedValues(fn) {
			if !isNil(vs[len(vs)-1]) {
				continue
			}
			for i := 0; i < len(vs)-1; i++ {
				if nillable(res.At(i).Type()) && isNil(vs[i]) {
					if old, seen := producers[prod{fn, i}]; !seen || ret.Pos() < old {
						producers[prod{fn, i}] = ret.Pos()
					}
				}
			}
		}
	}
	// propagate: a caller that returns the value unchecked (with the callee's error) is a producer too
	type site struct {
		fn   *ssa.Function
		call ssax.Call
		idx  int
		from *ssa.Function
	}
	var sites []site
	collect := func() {
		sites = sites[:0]
		for _, fn := range r.Fns {
			for _, c := range ssax.Calls(fn) {
				for _, t := range r.Resolve(c) {
					for p := range producers {
						if p.fn == t {
							sites = append(sites, site{fn, c, p.idx, t})
						}
					}
				}
			}
		}
	}
	nonNilAt := func(v ssa.Value, in ssa.Instruction) bool {
		for cur := in.Block(); cur != nil; cur = cur.Idom() {
			if len(cur.Preds) != 1 {
				continue
			}
			p := cur.Preds[0]
			iff, ok := p.Instrs[len(p.Instrs)-1].(*ssa.If)
			if !ok || p.Succs[0] == p.Succs[1] {
				continue
			}
			onTrue := p.Succs[0] == cur
			cond := iff.Cond
			for {
				u, isU := cond.(*ssa.UnOp)
				if !isU || u.Op != token.NOT {
					break
				}
				cond, onTrue = u.X, !onTrue
			}
			bo, ok := cond.(*ssa.BinOp)
			if !ok {
				continue
			}
			var other ssa.Value
			switch {
			case ssax.Strip(bo.X) == ssax.Strip(v):
				other = bo.Y
			case ssax.Strip(bo.Y) == ssax.Strip(v):
				other = bo.X
			default:
				continue
			}
			if !isNil(other) {
				continue
			}
			if (bo.Op == token.NEQ && onTrue) || (bo.Op == token.EQL && !onTrue) {
				return true
			}
		}
		return false
	}
	// calleeTests: the use hands the value to a function of the package that
	// tests the corresponding parameter against nil before every use of it
	// (the guard moved into the callee).
	calleeTests := func(use ssa.Instruction, v ssa.Value) bool {
		c, ok := use.(*ssa.Call)
		if !ok {
			return false
		}
		g := c.Call.StaticCallee()
		if g == nil || g.Pkg != r.Pkg || len(g.Blocks) == 0 {
			return false
		}
		found := false
		for i, a := range c.Call.Args {
			if ssax.Strip(a) != ssax.Strip(v) {
				continue
			}
			if i >= len(g.Params) || g.Params[i].Referrers() == nil {
				return false
			}
			found = true
			for _, w := range *g.Params[i].Referrers() {
				if _, isDbg := w.(*ssa.DebugRef); isDbg {
					continue
				}
				if bo, ok := w.(*ssa.BinOp); ok && (bo.Op == token.EQL || bo.Op == token.NEQ) {
					continue
				}
				if !nonNilAt(g.Params[i], w) {
					return false
				}
			}
		}
		return found
	}
	for round := 0; round < 4; round++ {
		collect()
		grew := false
		for _, s := range sites {
			v, ok := s.call.Instr.(ssa.Value)
			if !ok || v.Referrers() == nil {
				continue
			}
			for _, u := range *v.Referrers() {
				e, ok := u.(*ssa.Extract)
				if !ok || e.Index != s.idx || e.Referrers() == nil {
					continue
				}
				for _, w := range *e.Referrers() {
					if ret, ok := w.(*ssa.Return); ok && !nonNilAt(e, ret) {
						for j, rv := range ret.Results {
							if rv == ssa.Value(e) {
								if _, seen := producers[prod{s.fn, j}]; !seen {
									producers[prod{s.fn, j}] = ret.Pos()
									grew = true
								}
							}
						}
					}
				}
			}
		}
		if !grew {
			break
		}
	}
	collect()
	sort.Slice(sites, func(i, j int) bool {
		if sites[i].call.Instr.Pos() != sites[j].call.Instr.Pos() {
			return sites[i].call.Instr.Pos() < sites[j].call.Instr.Pos()
		}
		return sites[i].from.String() < sites[j].from.String()
	})
	done := map[string]bool{}
	for _, s := range sites {
		desc := ssax.Name(s.fn) + " › result of " + s.call.ShortName() + " (may be nil with a nil error: " + ssax.Name(s.from) + ")"
		if done[desc] {
			continue
		}
		done[desc] = true
		v, ok := s.call.Instr.(ssa.Value)
		if !ok || v.Referrers() == nil {
			ctx.Discharge("C05.R8", desc, r.IPos(s.call.Instr), "result not used (go/defer)")
			continue
		}
		bad := ""
		nuse := 0
		for _, u := range *v.Referrers() {
			e, ok := u.(*ssa.Extract)
			if !ok || e.Index != s.idx || e.Referrers() == nil {
				continue
			}
			for _, w := range *e.Referrers() {
				if _, isDbg := w.(*ssa.DebugRef); isDbg {
					continue
				}
				if bo, ok := w.(*ssa.BinOp); ok && (bo.Op == token.EQL || bo.Op == token.NEQ) {
					continue
				}
				if _, ok := w.(*ssa.Return); ok {
					continue // propagated: the caller is itself in the producer set
				}
				nuse++
				if !nonNilAt(e, w) && !calleeTests(w, e) {
					bad = r.IPos(w) + ": " + w.String()
				}
			}
		}
		ctx.Check(bad == "", "C05.R8", desc, r.IPos(s.call.Instr),
			sprintf("%d uses, each dominated by a non-nil test (or the value is only returned/compared)", nuse),
			"the result is used without a nil test at "+bad+" although "+ssax.Name(s.from)+" returns (nil, nil) at "+r.Pos(producers[prod{s.from, s.idx}])+": a reply chosen by the peer ends in a nil dereference (panic)")
	}
	if len(producers) == 0 {
		ctx.Discharge("C05.R8", "no function returns (nil, nil)", "", "no producer in package frugal")
	}
}

func isErrorType(t types.Type) bool {
	return types.Identical(t, types.Universe.Lookup("error").Type())
}

// c05ServerLoopErrors — C05.R9: in a per-connection server loop (a cycle
// around FProcessor.Process) the error of Process is looked at on every way
// back to the next Process: there is no path from the call to the call again
// that does not test that very error value against nil. (An `if err, ok :=
// err.(T); …; else if err != nil` chain tests the *shadowed* variable and lets
// every error of another type through unnoticed.)
func c05ServerLoopErrors(ctx *core.Ctx, r *RT) {
	ctx.Rule("C05.R9", "connection loops look at every error: no way from FProcessor.Process back to the next Process without a nil test of that call's error", 1)
	n := 0
	for _, fn := range r.Fns {
		for _, c := range ssax.Calls(fn) {
			if c.Method == nil || c.Method.Name() != "Process" || !ssax.TypeNamed(c.Common.Value.Type(), "", "FProcessor") {
				continue
			}
			in := c.Instr.(ssa.Instruction)
			if !inCycle(in) {
				continue
			}
			v, ok := in.(ssa.Value)
			if !ok {
				continue
			}
			n++
			isCall := func(i ssa.Instruction) bool { return i == in }
			// blocks that end in a nil test of v
			tested := func(i ssa.Instruction) bool {
				iff, ok := i.(*ssa.If)
				if !ok {
					return false
				}
				bo, ok := iff.Cond.(*ssa.BinOp)
				if !ok || (bo.Op != token.NEQ && bo.Op != token.EQL) {
					return false
				}
				isNilC := func(x ssa.Value) bool { c, ok := x.(*ssa.Const); return ok && c.IsNil() }
				return (bo.X == v && isNilC(bo.Y)) || (bo.Y == v && isNilC(bo.X))
			}
			bad := ssax.PathFrom(fn, in, isCall, tested)
			if bad == nil {
				ctx.Discharge("C05.R9", ssax.Name(fn)+" › every error of Process is tested before the next request", r.IPos(in), "each way round the loop passes `err != nil` on the call's own error")
			} else {
				ctx.Violate("C05.R9", ssax.Name(fn)+" › every error of Process is tested before the next request", r.IPos(in),
					"the loop can reach the next Process without having tested this call's error against nil (e.g. the test looks at a variable shadowed by a failed type assertion): an error that is not of the asserted type — a malformed header — is neither reported nor ends the connection, and the rest of the malformed frame is parsed as new requests",
					ssax.PathString(r.V.Fset, bad)...)
			}
		}
	}
	if n == 0 {
		ctx.Unresolved("C05.R9", "per-connection server loop", "no loop around FProcessor.Process found")
	}
}

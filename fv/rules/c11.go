package rules

import (
	"go/token"
	"go/types"
	"sort"
	"strings"

	"fv/internal/bounds"
	"fv/internal/core"
	"fv/internal/ssax"

	"golang.org/x/tools/go/ssa"
)

// sccs computes the recursive strongly connected components of the call graph restricted to fns.
func sccs(fns []*ssa.Function, res func(ssax.Call) []*ssa.Function) [][]*ssa.Function {
	idx := map[*ssa.Function]int{}
	low := map[*ssa.Function]int{}
	on := map[*ssa.Function]bool{}
	in := map[*ssa.Function]bool{}
	for _, f := range fns {
		in[f] = true
	}
	var stack []*ssa.Function
	var out [][]*ssa.Function
	n := 0
	var strong func(f *ssa.Function)
	strong = func(f *ssa.Function) {
		n++
		idx[f], low[f] = n, n
		stack = append(stack, f)
		on[f] = true
		for _, c := range ssax.Calls(f) {
			for _, t := range res(c) {
				if !in[t] {
					continue
				}
				if idx[t] == 0 {
					strong(t)
					if low[t] < low[f] {
						low[f] = low[t]
					}
				} else if on[t] && idx[t] < low[f] {
					low[f] = idx[t]
				}
			}
		}
		if low[f] == idx[f] {
			var comp []*ssa.Function
			for {
				t := stack[len(stack)-1]
				stack = stack[:len(stack)-1]
				on[t] = false
				comp = append(comp, t)
				if t == f {
					break
				}
			}
			self := false
			if len(comp) == 1 {
				for _, c := range ssax.Calls(f) {
					for _, t := range res(c) {
						if t == f {
							self = true
						}
					}
				}
			}
			if len(comp) > 1 || self {
				sort.Slice(comp, func(i, j int) bool { return comp[i].String() < comp[j].String() })
				out = append(out, comp)
			}
		}
	}
	for _, f := range fns {
		if idx[f] == 0 {
			strong(f)
		}
	}
	return out
}

// derivation of a value from the parameters of its function.
type deriv struct {
	fromParam bool
	descents  int
	index     []string // name-index (map lookup by computed key) steps, by field name
}

func better(a, b deriv) deriv {
	// prefer derivations from params, without index steps, with more descents
	score := func(d deriv) int {
		s := 0
		if d.fromParam {
			s += 100
		}
		if len(d.index) == 0 {
			s += 50
		}
		if d.descents > 0 {
			s += 10
		}
		return s
	}
	if score(b) > score(a) {
		return b
	}
	return a
}

func derive(v ssa.Value, inSCC map[*ssa.Function]bool, seen map[ssa.Value]bool, depth int) deriv {
	if v == nil || seen[v] || depth > 40 {
		return deriv{}
	}
	seen[v] = true
	defer delete(seen, v)
	switch x := v.(type) {
	case *ssa.Parameter:
		return deriv{fromParam: true}
	case *ssa.FreeVar:
		if b := ssax.FreeVarBinding(x); b != nil {
			return deriv{fromParam: true} // captured from the enclosing invocation
		}
	case *ssa.UnOp:
		if x.Op == token.MUL {
			switch a := x.X.(type) {
			case *ssa.FieldAddr:
				d := derive(a.X, inSCC, seen, depth+1)
				d.descents++
				return d
			case *ssa.IndexAddr:
				d := derive(a.X, inSCC, seen, depth+1)
				d.descents++
				return d
			case *ssa.Alloc:
				// local variable: union over stores
				best := deriv{}
				for _, u := range *a.Referrers() {
					if st, ok := u.(*ssa.Store); ok && st.Addr == ssa.Value(a) {
						best = better(best, derive(st.Val, inSCC, seen, depth+1))
					}
				}
				return best
			}
		}
		return derive(x.X, inSCC, seen, depth+1)
	case *ssa.Alloc:
		best := deriv{}
		for _, u := range *x.Referrers() {
			if st, ok := u.(*ssa.Store); ok && st.Addr == ssa.Value(x) {
				best = better(best, derive(st.Val, inSCC, seen, depth+1))
			}
		}
		return best
	case *ssa.FieldAddr:
		d := derive(x.X, inSCC, seen, depth+1)
		d.descents++
		return d
	case *ssa.IndexAddr:
		d := derive(x.X, inSCC, seen, depth+1)
		d.descents++
		return d
	case *ssa.Field:
		d := derive(x.X, inSCC, seen, depth+1)
		d.descents++
		return d
	case *ssa.Index:
		d := derive(x.X, inSCC, seen, depth+1)
		d.descents++
		return d
	case *ssa.Extract:
		if nx, ok := x.Tuple.(*ssa.Next); ok {
			if rg, ok := nx.Iter.(*ssa.Range); ok {
				d := derive(rg.X, inSCC, seen, depth+1)
				d.descents++
				return d
			}
		}
		return derive(x.Tuple, inSCC, seen, depth+1)
	case *ssa.Lookup:
		if _, isMap := x.X.Type().Underlying().(*types.Map); isMap {
			d := derive(x.X, inSCC, seen, depth+1)
			name := mapFieldName(x.X)
			d.index = append(append([]string{}, d.index...), name)
			return d
		}
		d := derive(x.X, inSCC, seen, depth+1)
		d.descents++
		return d
	case *ssa.Phi:
		best := deriv{}
		for _, e := range x.Edges {
			best = better(best, derive(e, inSCC, seen, depth+1))
		}
		return best
	case *ssa.MakeInterface:
		return derive(x.X, inSCC, seen, depth+1)
	case *ssa.ChangeType:
		return derive(x.X, inSCC, seen, depth+1)
	case *ssa.ChangeInterface:
		return derive(x.X, inSCC, seen, depth+1)
	case *ssa.TypeAssert:
		return derive(x.X, inSCC, seen, depth+1)
	case *ssa.Slice:
		return derive(x.X, inSCC, seen, depth+1)
	case *ssa.Call:
		c, _ := ssax.AsCall(x)
		if c.Static != nil && inSCC[c.Static] {
			return deriv{}
		}
		// a value computed from other values: the best derivation among the
		// arguments, keeping every name-index step met on the way
		best := deriv{}
		var idx []string
		for _, a := range c.Args() {
			d := derive(a, inSCC, seen, depth+1)
			idx = append(idx, d.index...)
			best = better(best, d)
		}
		// name-index steps hidden inside the callee (e.g. UnderlyingType looks typedefs up):
		// the callee is a separate SCC and is classified on its own.
		best.index = idx
		return best
	}
	return deriv{}
}

// mapFieldName names the struct field a map value was loaded from (through phis).
func mapFieldName(v ssa.Value) string {
	if n := fieldNameOfValue(v); n != "" {
		return n
	}
	if ph, ok := v.(*ssa.Phi); ok {
		for _, e := range ph.Edges {
			if n := mapFieldName(e); n != "" {
				return n
			}
		}
	}
	return ssax.AddrKey(v)
}

// visitedGuard: is the recursive call dominated by the "not seen yet" edge of a
// membership test on a collection that is extended before the call?
func visitedGuard(fn *ssa.Function, call ssa.Instruction) (string, bool) {
	for cur := call.Block(); cur != nil; cur = cur.Idom() {
		if len(cur.Preds) != 1 {
			continue
		}
		p := cur.Preds[0]
		iff, ok := p.Instrs[len(p.Instrs)-1].(*ssa.If)
		if !ok {
			continue
		}
		takenTrue := p.Succs[0] == cur
		cond := iff.Cond
		if u, ok := cond.(*ssa.UnOp); ok && u.Op == token.NOT {
			cond = u.X
			takenTrue = !takenTrue
		}
		// (a) _, ok := m[k]  — we are on the !ok edge
		if ex, ok := cond.(*ssa.Extract); ok && ex.Index == 1 {
			if lk, ok := ex.Tuple.(*ssa.Lookup); ok && lk.CommaOk && !takenTrue {
				// the map is extended before the call
				mkey := ssax.AddrKey(lk.X)
				ext := false
				ssax.Instrs(fn, func(in ssa.Instruction) {
					if mu, ok := in.(*ssa.MapUpdate); ok && ssax.AddrKey(mu.Map) == mkey && ssax.Dominates(in, call) {
						ext = true
					}
				})
				if ext {
					return "membership test on map " + mkey + " (extended before the call)", true
				}
			}
		}
		// (b) m[k] (bool-valued set) — we are on the false edge
		if lk, ok := cond.(*ssa.Lookup); ok && !takenTrue {
			mkey := ssax.AddrKey(lk.X)
			ext := false
			ssax.Instrs(fn, func(in ssa.Instruction) {
				if mu, ok := in.(*ssa.MapUpdate); ok && ssax.AddrKey(mu.Map) == mkey && ssax.Dominates(in, call) {
					ext = true
				}
			})
			if ext {
				return "membership test on set " + mkey + " (extended before the call)", true
			}
		}
		// (d) set.enter(k) — a helper of the package that tests and inserts in one step
		// (a visited set behind a named map type): we are on its true edge
		if c, ok := cond.(*ssa.Call); ok && takenTrue {
			if h := c.Call.StaticCallee(); h != nil && isTestAndInsert(h) {
				return "test-and-insert helper " + h.Name() + " (the element is inserted on the edge taken)", true
			}
		}
		// (c) contains(slice, x) — false edge, slice appended before the call
		if c, ok := cond.(*ssa.Call); ok && !takenTrue {
			cc, _ := ssax.AsCall(c)
			if cc.Static != nil && len(cc.Common.Args) == 2 {
				if _, isSl := cc.Common.Args[0].Type().Underlying().(*types.Slice); isSl && cc.Static.Signature.Results().Len() == 1 {
					ext := false
					ssax.Instrs(fn, func(in ssa.Instruction) {
						if ac, ok := ssax.AsCall(in); ok && ac.FullName() == "builtin.append" && ssax.Strip(ac.Common.Args[0]) == ssax.Strip(cc.Common.Args[0]) && ssax.Dominates(in, call) {
							ext = true
						}
					})
					if ext {
						return "membership test " + cc.Static.Name() + "(visited, x) (visited extended before the call)", true
					}
				}
			}
		}
	}
	return "", false
}

// isTestAndInsert: h(set, key) bool on a map-typed first parameter that looks the
// key up and, where it was absent, inserts it and returns true.
func isTestAndInsert(h *ssa.Function) bool {
	if len(h.Params) < 2 || len(h.Blocks) == 0 || h.Signature.Results().Len() != 1 {
		return false
	}
	if _, isMap := h.Params[0].Type().Underlying().(*types.Map); !isMap {
		return false
	}
	if b, ok := h.Signature.Results().At(0).Type().Underlying().(*types.Basic); !ok || b.Kind() != types.Bool {
		return false
	}
	look, ins := false, false
	ssax.Instrs(h, func(in ssa.Instruction) {
		switch x := in.(type) {
		case *ssa.Lookup:
			if ssax.Strip(x.X) == ssa.Value(h.Params[0]) {
				look = true
			}
		case *ssa.MapUpdate:
			if ssax.Strip(x.Map) == ssa.Value(h.Params[0]) {
				ins = true
			}
		}
	})
	return look && ins
}

// isRemover: h(set, key) on a map-typed first parameter whose every path deletes the key.
func isRemover(h *ssa.Function) bool {
	if len(h.Params) < 2 || len(h.Blocks) == 0 {
		return false
	}
	if _, isMap := h.Params[0].Type().Underlying().(*types.Map); !isMap {
		return false
	}
	isDel := func(x ssa.Instruction) bool {
		c, ok := ssax.AsCall(x)
		return ok && c.FullName() == "builtin.delete" && ssax.Strip(c.Common.Args[0]) == ssa.Value(h.Params[0])
	}
	return len(ssax.CallsTo(h, "builtin.delete")) > 0 && ssax.PathFrom(h, nil, ssax.IsReturn, isDel) == nil
}

// C11 — the compiler is total.
func C11(ctx *core.Ctx) {
	ctx.Explanation = "Decides three structural conditions of compiler totality for all inputs: (R1) panics are contained — Compile and Audit are called from main only inside the function whose deferred closure recovers, no compiler package starts goroutines, and nothing outside main exits the process; " +
		"(R2) every recursion in the hand-written compiler code is classified: structural (a recursive call descends into a component of its argument), visited-guarded (a membership test on a collection extended before the call dominates it), or through a name index whose acyclicity is established by a validation pass that itself is a visited-guarded search over the same index, applied to every declaration and turned into an error before any generator runs; anything else is reported; " +
		"(R3) identifier-casing helpers index only elements proved to exist (linear prover). Not decided: well-formedness of emitted Java/Dart/Python/HTML, type-checking of emitted Go for all programs, declaration/reference name agreement of generated Go, 'promptly'."
	cc := LoadCC(ctx)
	if !cc.OK() {
		return
	}
	ctx.Rule("C11.R1", "panic containment: Compile/Audit run under main's deferred recover; no goroutines in compiler packages; no process exit outside main", 4)
	ctx.Rule("C11.R2", "recursion classification: structural / visited-guarded / validated-acyclic, else unguarded", 30)
	c11SyntacticKind(ctx, cc)
	c11PartialKey(ctx, cc)
	c11TypePredicates(ctx, cc)
	c11GoTypedefDecl(ctx, cc)
	c11SwitchExhaustive(ctx, cc)
	c11KeyValue(ctx, cc)
	c11GoNames(ctx, cc)
	c11ValidationComplete(ctx, cc)
	c11ResolvedOnly(ctx, cc)
	c11GeneratorIndexes(ctx, cc)
	c11ParentDirPaths(ctx, cc)
	c11InheritedMembers(ctx, cc)
	c11ModelReadOnly(ctx, cc)
	c11ExitStatus(ctx, cc)
	c11BothElementTypes(ctx, cc)
	c11PerFileInField(ctx, cc)
	ctx.Rule("C11.R18", "an emitted file holds this run's text only: a file opened with O_CREATE for writing is opened with O_TRUNC (a shorter descriptor written over a longer one of an earlier run is not well-formed)", 1)
	if entry := cc.FnOpt("compiler", "Compile"); entry != nil {
		truncateOnCreate(ctx, cc, ssax.Cone([]*ssa.Function{entry}, cc.Resolver(), true), entry, "C11.R18")
	} else {
		ctx.Unresolved("C11.R18", "compiler.Compile", "entry point not found")
	}
	ctx.Rule("C11.R6", "alias agreement: every switch of a generator (or the parser) over the IDL type name handles `byte` and `i8` alike, so that no valid spelling falls into a panicking default", 20)
	aliasAgreement(ctx, cc, "C11.R6", map[string]bool{"golang": true, "java": true, "dartlang": true, "python": true, "parser": true, "html": true, "json": true, "generator": true}, "valid IDL using that spelling is generated differently or rejected with a generator panic")
	ctx.Rule("C11.R5", "a visited-guarded search whose hit edge reports a cycle uses path discipline: the element added before the recursive call is removed again on every exit (otherwise a shared sub-structure is reported as a cycle)", 1)
	ctx.Rule("C11.R3", "identifier-casing helpers index only elements proved to exist", 3)
	res := cc.Resolver()

	// ---- R1 -------------------------------------------------------------------------
	var mainPkg *ssa.Package
	for p, sp := range cc.Pkgs {
		if sp.Pkg.Name() == "main" && !strings.Contains(p, "/scripts/") {
			mainPkg = sp
		}
	}
	if mainPkg == nil {
		ctx.Unresolved("C11.R1", "main package", "CLI main package not found")
		return
	}
	compile := cc.Fn("C11.R1", "compiler", "Compile")
	audit := cc.Fn("C11.R1", "parser", "(*Auditor).Audit")
	for _, target := range []*ssa.Function{compile, audit} {
		if target == nil {
			continue
		}
		n := 0
		for _, fn := range cc.Fns {
			if fn.Pkg != mainPkg {
				continue
			}
			for _, c := range ssax.Calls(fn) {
				if c.Static != target {
					continue
				}
				n++
				// a deferred closure calling recover() dominates the call — in this function,
				// or (the call moved into a helper such as processFile) at every call site
				// of this function in package main
				underRecover := func(g *ssa.Function, at ssa.Instruction) bool {
					found := false
					ssax.Instrs(g, func(in ssa.Instruction) {
						d, isD := in.(*ssa.Defer)
						if !isD {
							return
						}
						for _, cl := range funcValues(d.Call.Value) {
							if len(ssax.CallsTo(cl, "builtin.recover")) > 0 && ssax.Dominates(in, at) {
								found = true
							}
						}
					})
					return found
				}
				ok := underRecover(fn, c.Instr.(ssa.Instruction))
				if !ok {
					sites, all := 0, true
					for _, g := range cc.Fns {
						if g.Pkg != mainPkg {
							continue
						}
						for _, c2 := range ssax.Calls(g) {
							if c2.Static == fn {
								sites++
								if !underRecover(g, c2.Instr.(ssa.Instruction)) {
									all = false
								}
							}
						}
					}
					ok = sites > 0 && all
				}
				ctx.Check(ok, "C11.R1", QName(fn)+" › "+QName(target)+" runs under a deferred recover", cc.IPos(c.Instr), "defer func(){ recover() }() dominates the call", "a panic in the compiler escapes to the runtime: the user sees a Go stack trace instead of a diagnostic")
			}
		}
		if n == 0 {
			ctx.Violate("C11.R1", "main › calls "+QName(target), "", "the CLI no longer calls "+QName(target))
		}
	}
	ngo, nexit := 0, 0
	for _, fn := range cc.Fns {
		if fn.Pkg == mainPkg || strings.Contains(fn.Pkg.Pkg.Path(), "/scripts/") {
			continue
		}
		ssax.Instrs(fn, func(in ssa.Instruction) {
			if _, ok := in.(*ssa.Go); ok {
				ngo++
				ctx.Violate("C11.R1", QName(fn)+" › go statement", cc.IPos(in), "a goroutine in a compiler package: a panic there is not caught by main's recover and kills the process")
			}
			if c, ok := ssax.AsCall(in); ok {
				full := c.FullName()
				if full == "os.Exit" || strings.HasPrefix(full, "log.Fatal") || strings.HasPrefix(full, "log.Panic") {
					nexit++
					ctx.Violate("C11.R1", QName(fn)+" › "+full, cc.IPos(in), "process exit / fatal log outside main")
				}
			}
		})
	}
	if ngo == 0 {
		ctx.Discharge("C11.R1", "compiler packages › no goroutines", "", sprintf("%d functions scanned", len(cc.Fns)))
	}
	if nexit == 0 {
		ctx.Discharge("C11.R1", "compiler packages › no process exit outside main", "", sprintf("%d functions scanned", len(cc.Fns)))
	}

	// ---- R2 -------------------------------------------------------------------------
	var fns []*ssa.Function
	for _, f := range cc.Fns {
		pos := cc.V.Fset.Position(f.Pos())
		if strings.HasSuffix(pos.Filename, "grammar.peg.go") {
			continue // generated PEG engine: bounded by input length, not part of this rule
		}
		fns = append(fns, f)
	}
	comps := sccs(fns, res)
	ctx.Stat("c11_recursive_sccs", len(comps))
	guardedFns := map[*ssa.Function]bool{} // functions whose every recursive call is visited-guarded
	type pending struct {
		fn    *ssa.Function
		call  ssax.Call
		index []string
		name  string
	}
	var pend []pending
	type flatEdge struct {
		from, to *ssa.Function
		call     ssax.Call
		name     string
	}
	for _, comp := range comps {
		inSCC := map[*ssa.Function]bool{}
		for _, f := range comp {
			inSCC[f] = true
		}
		var flat []flatEdge
		var pendHere []pending
		for _, fn := range comp {
			allGuarded := true
			anyGuard := false
			n := 0
			for _, c := range ssax.Calls(fn) {
				isRec := false
				for _, t := range res(c) {
					if inSCC[t] {
						isRec = true
					}
				}
				if !isRec {
					continue
				}
				n++
				construct := QName(fn) + sprintf(" › recursive call #%d to %s", n, c.ShortName())
				if how, ok := visitedGuard(fn, c.Instr.(ssa.Instruction)); ok {
					ctx.Discharge("C11.R2", construct, cc.IPos(c.Instr), "visited-guarded: "+how)
					anyGuard = true
					continue
				}
				best := deriv{}
				for _, a := range c.Args() {
					// only value-carrying arguments (not the receiver-only / accumulators)
					d := derive(a, inSCC, map[ssa.Value]bool{}, 0)
					if d.fromParam && d.descents > 0 {
						if best.descents == 0 || len(d.index) < len(best.index) {
							best = d
						}
					}
				}
				switch {
				case best.descents > 0 && len(best.index) == 0:
					ctx.Discharge("C11.R2", construct, cc.IPos(c.Instr), "structural: an argument descends into a component of the caller's parameter")
				case best.descents > 0 && len(best.index) > 0:
					allGuarded = false
					pendHere = append(pendHere, pending{fn, c, best.index, construct})
				default:
					allGuarded = false
					for _, t := range res(c) {
						if inSCC[t] {
							flat = append(flat, flatEdge{fn, t, c, construct})
						}
					}
				}
			}
			// a terminating search with a visited set: every recursive call is guarded or structural, at least one guarded
			if allGuarded && anyGuard && n > 0 {
				guardedFns[fn] = true
			}
		}
		// non-descending edges are fine as long as they do not form a cycle by themselves:
		// every cycle of the SCC then contains a descending or guarded step
		adj := map[*ssa.Function][]*ssa.Function{}
		for _, e := range flat {
			adj[e.from] = append(adj[e.from], e.to)
		}
		onCycle := func(e flatEdge) bool {
			// is e.from reachable from e.to through flat edges?
			seen := map[*ssa.Function]bool{}
			stack := []*ssa.Function{e.to}
			for len(stack) > 0 {
				x := stack[len(stack)-1]
				stack = stack[:len(stack)-1]
				if x == e.from {
					return true
				}
				if seen[x] {
					continue
				}
				seen[x] = true
				stack = append(stack, adj[x]...)
			}
			return false
		}
		// a step through a name index needs the index to be acyclic only if some
		// cycle through it has no visited-guarded step (the guard may sit in
		// another function of the cycle, e.g. at the head of the recursion)
		for _, pd := range pendHere {
			for _, t := range res(pd.call) {
				if inSCC[t] {
					adj[pd.fn] = append(adj[pd.fn], t)
				}
			}
		}
		for _, pd := range pendHere {
			cyc := false
			for _, t := range res(pd.call) {
				if inSCC[t] && onCycle(flatEdge{from: pd.fn, to: t}) {
					cyc = true
				}
			}
			if cyc {
				pend = append(pend, pd)
			} else {
				ctx.Discharge("C11.R2", pd.name, cc.IPos(pd.call.Instr), "step through the name index "+strings.Join(pd.index, ",")+"; every cycle through it contains a visited-guarded step")
			}
		}
		// (flat steps are judged on the flat edges alone: a cycle that needs an index step is that step's subject)
		adj = map[*ssa.Function][]*ssa.Function{}
		for _, e := range flat {
			adj[e.from] = append(adj[e.from], e.to)
		}
		for _, e := range flat {
			if onCycle(e) {
				ctx.Violate("C11.R2", e.name, cc.IPos(e.call.Instr), "recursion with no argument that descends into a component of a parameter and no visited-set guard on some cycle: cannot establish termination (stack overflow is not recoverable)")
			} else {
				ctx.Discharge("C11.R2", e.name, cc.IPos(e.call.Instr), "non-descending step; every cycle through it contains a descending or guarded step")
			}
		}
	}
	// ---- R5 path discipline of cycle searches --------------------------------------------
	for fn := range guardedFns {
		ssax.Instrs(fn, func(in ssa.Instruction) {
			iff, ok := in.(*ssa.If)
			if !ok {
				return
			}
			// the visited set behind a named type: `if !path.enter(k) { return true }` …
			// `defer path.leave(k)`
			{
				cond, neg := iff.Cond, false
				if u, isU := cond.(*ssa.UnOp); isU && u.Op == token.NOT {
					cond, neg = u.X, true
				}
				if call, isCall := cond.(*ssa.Call); isCall {
					if h := call.Call.StaticCallee(); h != nil && isTestAndInsert(h) && len(call.Call.Args) >= 2 {
						if _, isParam := ssax.Strip(call.Call.Args[0]).(*ssa.Parameter); isParam {
							hit := iff.Block().Succs[1] // enter(...) == false: already on the path
							if neg {
								hit = iff.Block().Succs[0]
							}
							reports := false
							for ret, vs := range ReturnedValues(fn) {
								if ret.Block() != hit {
									continue
								}
								for _, v := range vs {
									if c, isC := ssax.Strip(v).(*ssa.Const); isC && c.Value != nil && c.Value.String() == "true" {
										reports = true
									}
								}
							}
							if reports {
								mkey := ssax.AddrKey(call.Call.Args[0])
								isDel := func(x ssa.Instruction) bool {
									c, isC := ssax.AsCall(x)
									if !isC || c.Static == nil || !isRemover(c.Static) || len(c.Common.Args) < 2 {
										return false
									}
									return ssax.AddrKey(c.Common.Args[0]) == mkey && ssax.AddrKey(c.Common.Args[1]) == ssax.AddrKey(call.Call.Args[1])
								}
								bad := ssax.PathFrom(fn, call, ssax.IsReturn, func(x ssa.Instruction) bool { return isDel(x) || x.Block() == hit })
								construct := QName(fn) + " › cycle search over " + mkey + " removes the element on every exit"
								if bad == nil {
									ctx.Discharge("C11.R5", construct, cc.IPos(call), "the remover helper (deferred or explicit) precedes every return after "+h.Name())
								} else {
									ctx.Violate("C11.R5", construct, cc.IPos(call), "the set of elements on the current path is never shrunk: a declaration that mentions the same alias twice (a DAG, e.g. map<Id, Id>) is reported as a cycle and valid IDL is rejected", ssax.PathString(cc.V.Fset, bad)...)
								}
								return
							}
						}
					}
				}
			}
			lk, ok := iff.Cond.(*ssa.Lookup)
			if !ok {
				if ex, isEx := iff.Cond.(*ssa.Extract); isEx && ex.Index == 1 {
					lk, ok = ex.Tuple.(*ssa.Lookup)
				}
				if !ok {
					return
				}
			}
			if _, isMap := lk.X.Type().Underlying().(*types.Map); !isMap {
				return
			}
			// only maps shared across the recursion (parameters / fields), not fresh locals
			if _, isParam := ssax.Strip(lk.X).(*ssa.Parameter); !isParam {
				return
			}
			// hit edge reports a cycle: returns the constant true or a non-nil error
			hit := iff.Block().Succs[0]
			reports := false
			for ret, vs := range ReturnedValues(fn) {
				if ret.Block() != hit {
					continue
				}
				for _, v := range vs {
					if c, isC := ssax.Strip(v).(*ssa.Const); isC && c.Value != nil && c.Value.String() == "true" {
						reports = true
					}
				}
				if !nilErrorReturn(ret) && fn.Signature.Results().Len() > 0 {
					if _, isErr := fn.Signature.Results().At(fn.Signature.Results().Len() - 1).Type().Underlying().(*types.Interface); isErr {
						reports = true
					}
				}
			}
			if !reports {
				return
			}
			mkey := ssax.AddrKey(lk.X)
			// the element is added …
			var add *ssa.MapUpdate
			ssax.Instrs(fn, func(x ssa.Instruction) {
				if mu, isMU := x.(*ssa.MapUpdate); isMU && ssax.AddrKey(mu.Map) == mkey && ssax.AddrKey(mu.Key) == ssax.AddrKey(lk.Index) {
					add = mu
				}
			})
			if add == nil {
				return
			}
			// … and removed again on every exit: a deferred delete after the add, or a delete on every path to a return
			isDel := func(x ssa.Instruction) bool {
				c, isC := ssax.AsCall(x)
				if !isC || c.FullName() != "builtin.delete" {
					return false
				}
				return ssax.AddrKey(c.Common.Args[0]) == mkey && ssax.AddrKey(c.Common.Args[1]) == ssax.AddrKey(lk.Index)
			}
			bad := ssax.PathFrom(fn, add, ssax.IsReturn, isDel)
			construct := QName(fn) + " › cycle search over " + mkey + " removes the element on every exit"
			if bad == nil {
				ctx.Discharge("C11.R5", construct, cc.IPos(add), "delete("+mkey+", key) (deferred or explicit) precedes every return after the insertion")
			} else {
				ctx.Violate("C11.R5", construct, cc.IPos(add), "the set of elements on the current path is never shrunk: a declaration that mentions the same alias twice (a DAG, e.g. map<Id, Id>) is reported as a cycle and valid IDL is rejected", ssax.PathString(cc.V.Fset, bad)...)
			}
		})
	}

	// name-index recursions: need a validation pass over the same index
	validate := cc.FnOpt("parser", "(*Frugal).validate")
	for _, pd := range pend {
		ok, how := false, ""
		detail := "recursion follows the name index " + strings.Join(pd.index, ",") + " with no visited set, and no validation pass establishes that the index is acyclic: a self-referential declaration overflows the stack"
		if validate != nil {
			cone := ssax.Cone([]*ssa.Function{validate}, res, false)
			for _, v := range cone {
				if !guardedFns[v] {
					continue
				}
				// V looks the same index up
				uses := false
				ssax.Instrs(v, func(in ssa.Instruction) {
					if lk, isL := in.(*ssa.Lookup); isL {
						for _, ix := range pd.index {
							if fieldNameOfValue(lk.X) == ix {
								uses = true
							}
						}
					}
				})
				if !uses {
					continue
				}
				// V's positive result is turned into an error for every declaration: its caller calls it on every
				// iteration of a loop over a slice field, and returns a non-nil error on the true edge
				for _, caller := range cone {
					for _, c := range ssax.Calls(caller) {
						if c.Static != v || caller == v {
							continue
						}
						okErr := false
						if cv := c.Instr.Value(); cv != nil {
							for _, u := range *cv.Referrers() {
								if iff, isIf := u.(*ssa.If); isIf {
									tb := iff.Block().Succs[0]
									for ret := range ReturnedValues(caller) {
										if ret.Block() == tb && !nilErrorReturn(ret) {
											okErr = true
										}
									}
								}
							}
						}
						// executed for every element: from the loop body entry, no path reaches the next iteration without the call
						okAll := false
						ci := c.Instr.(ssa.Instruction)
						if inCycle(ci) {
							var next *ssa.BasicBlock
							// loop header: a block on the cycle that dominates the call block and has a back edge
							for b := ci.Block(); b != nil; b = b.Idom() {
								for _, p := range b.Preds {
									if b.Dominates(p) && (p == ci.Block() || blockReaches(ci.Block(), p) || p == ci.Block()) {
										next = b
									}
								}
								if next != nil {
									break
								}
							}
							if next != nil {
								// body entry: successor of header inside the cycle
								okAll = true
								for _, s := range next.Succs {
									if !blockReaches(s, next) && s != next {
										continue
									}
									if len(s.Instrs) == 0 {
										continue
									}
									isCall := func(in ssa.Instruction) bool { return in == ci }
									isHeader := func(in ssa.Instruction) bool { return in.Block() == next && in == next.Instrs[0] }
									first := s.Instrs[0]
									if isCall(first) {
										continue
									}
									if p := ssax.PathFrom(caller, first, isHeader, isCall); p != nil {
										okAll = false
									}
								}
							}
						}
						if okErr && okAll {
							ok = true
							how = "validated-acyclic: " + QName(v) + " (visited-guarded search over " + strings.Join(pd.index, ",") + ") runs for every declaration in " + QName(caller) + " and a positive result is returned as an error by validation"
						} else if okErr && !okAll {
							detail = "the cycle search " + QName(v) + " is not applied to every declaration in " + QName(caller) + " (some are skipped): a self-referential declaration that is skipped reaches the generators and overflows the stack"
						}
					}
				}
			}
		}
		// validation precedes every successful return of the parser entry
		if ok {
			if pf := cc.FnOpt("parser", "parseFrugal"); pf != nil && validate != nil {
				var vcall ssa.Instruction
				// the validation call, or a call of a helper that validates on every successful path
				isValidate := func(in ssa.Instruction) bool {
					c, ok := ssax.AsCall(in)
					return ok && c.Static == validate
				}
				w := liftedWeight(pf, isValidate, 2)
				ssax.Instrs(pf, func(in ssa.Instruction) {
					if lo, _ := w(in); lo >= 1 {
						vcall = in
					}
				})
				for ret, vs := range ReturnedValues(pf) {
					if !nilErrorReturn(ret) {
						continue
					}
					// returning a freshly parsed model (not the cached one, which was validated when it was put in the cache)
					if _, isLookup := ssax.Strip(vs[0]).(*ssa.Extract); isLookup {
						continue
					}
					if vcall == nil || !ssax.Dominates(vcall, ret) {
						ok = false
						detail = "the parser can return a model without running validation"
					}
				}
			}
		}
		ctx.Check(ok, "C11.R2", pd.name, cc.IPos(pd.call.Instr), how, detail)
	}

	// ---- R3 -------------------------------------------------------------------------
	cfg := &bounds.Config{IntBits: IntBits(), AssumeLenI32: true, ASCIIStrings: true}
	ctx.Assume("the string argument of an identifier-casing helper is a non-empty ASCII identifier (grammar rule Identifier)")
	pr := bounds.New(cfg)
	for _, fn := range cc.Fns {
		if strings.HasSuffix(cc.V.Fset.Position(fn.Pos()).Filename, "grammar.peg.go") {
			continue
		}
		sig := fn.Signature
		if sig.Recv() != nil || sig.Params().Len() == 0 || sig.Results().Len() != 1 {
			continue
		}
		isStr := func(t types.Type) bool {
			b, ok := t.Underlying().(*types.Basic)
			return ok && b.Kind() == types.String
		}
		if !isStr(sig.Params().At(0).Type()) || !isStr(sig.Results().At(0).Type()) {
			continue
		}
		// helper of interest: indexes some element with a constant index
		has := false
		ssax.Instrs(fn, func(in ssa.Instruction) {
			switch x := in.(type) {
			case *ssa.IndexAddr:
				if _, ok := x.Index.(*ssa.Const); ok {
					if _, isAlloc := x.X.(*ssa.Alloc); !isAlloc {
						has = true
					}
				}
			case *ssa.Lookup:
				if _, ok := x.Index.(*ssa.Const); ok && isStr(x.X.Type()) {
					has = true
				}
			}
		})
		if !has {
			continue
		}
		if fn.Object() != nil && !fn.Object().Exported() {
			// unexported helpers are only handed identifiers produced by the grammar
			pr.Pre[fn] = []bounds.Pre{{A: "len:0", K: 1}}
		}
		pr.InferInvariants(fn)
		for _, o := range pr.Check(fn) {
			if o.Kind != "index" {
				continue
			}
			construct := QName(fn) + " › " + o.Desc
			if o.Proved {
				ctx.Discharge("C11.R3", construct, cc.IPos(o.Instr), "entailed by the dominating checks and the non-empty-identifier precondition")
			} else {
				ctx.Violate("C11.R3", construct, cc.IPos(o.Instr), "an identifier shape (empty word: leading, trailing or doubled underscore; empty name) makes this index panic — cannot prove "+o.Need)
			}
		}
	}
}

package rules

import (
	"go/token"
	"go/types"
	"sort"
	"strings"

	"fv/internal/core"
	"fv/internal/ssax"

	"golang.org/x/tools/go/ssa"
)

type colour int

const (
	cNone colour = iota
	cOld
	cNew
	cMixed
)

func (c colour) String() string { return [...]string{"-", "OLD", "NEW", "OLD+NEW"}[c] }

func joinC(a, b colour) colour {
	if a == cNone {
		return b
	}
	if b == cNone || a == b {
		return a
	}
	return cMixed
}

type colours struct {
	cc     *CC
	cone   map[*ssa.Function]bool
	res    func(ssax.Call) []*ssa.Function
	param  map[*ssa.Parameter]colour
	memo   map[ssa.Value]colour
	active map[ssa.Value]bool
	seeds  map[ssa.Value]colour
}

func (k *colours) of(v ssa.Value) colour {
	if v == nil {
		return cNone
	}
	if c, ok := k.seeds[v]; ok {
		return c
	}
	if c, ok := k.memo[v]; ok {
		return c
	}
	if k.active[v] {
		return cNone
	}
	k.active[v] = true
	c := k.compute(v)
	delete(k.active, v)
	k.memo[v] = c
	return c
}

func (k *colours) compute(v ssa.Value) colour {
	switch x := v.(type) {
	case *ssa.Parameter:
		return k.param[x]
	case *ssa.UnOp:
		if x.Op != token.MUL {
			return k.of(x.X)
		}
		switch a := x.X.(type) {
		case *ssa.FieldAddr:
			if ssax.TypeNamed(a.X.Type(), "", "Auditor") {
				switch fieldNameOfAddr(a) {
				case "oldFrugal":
					return cOld
				case "newFrugal":
					return cNew
				}
			}
			return k.of(a.X)
		case *ssa.IndexAddr:
			return k.of(a.X)
		case *ssa.Alloc:
			c := cNone
			for _, u := range *a.Referrers() {
				if st, ok := u.(*ssa.Store); ok && st.Addr == ssa.Value(a) {
					c = joinC(c, k.of(st.Val))
				}
			}
			return c
		}
		return k.of(x.X)
	case *ssa.Field:
		return k.of(x.X)
	case *ssa.Index:
		return k.of(x.X)
	case *ssa.Lookup:
		return k.of(x.X)
	case *ssa.Extract:
		if nx, ok := x.Tuple.(*ssa.Next); ok {
			if rg, ok := nx.Iter.(*ssa.Range); ok {
				return k.of(rg.X)
			}
		}
		return k.of(x.Tuple)
	case *ssa.Phi:
		c := cNone
		for _, e := range x.Edges {
			c = joinC(c, k.of(e))
		}
		return c
	case *ssa.MakeMap:
		c := cNone
		for _, u := range *x.Referrers() {
			if mu, ok := u.(*ssa.MapUpdate); ok && mu.Map == ssa.Value(x) {
				c = joinC(c, k.of(mu.Value))
			}
		}
		return c
	case *ssa.MakeInterface:
		return k.of(x.X)
	case *ssa.ChangeType:
		return k.of(x.X)
	case *ssa.Slice:
		return k.of(x.X)
	case *ssa.TypeAssert:
		return k.of(x.X)
	case *ssa.Call:
		c, _ := ssax.AsCall(x)
		// method on a coloured Frugal receiver: result has the receiver's colour
		if c.Static != nil && c.Static.Signature.Recv() != nil && ssax.TypeNamed(c.Static.Signature.Recv().Type(), "", "Frugal") {
			return k.of(c.Common.Args[0])
		}
		// colour-preserving helper: result derives from its (single) coloured argument
		col := cNone
		for _, a := range c.Args() {
			col = joinC(col, k.of(a))
		}
		if c.Static != nil && (c.Static.Pkg == nil || !k.cone[c.Static]) {
			// external function (DeepEqual, Sprintf …): result carries no model colour
			if c.Static.Signature.Results().Len() == 1 {
				if b, ok := c.Static.Signature.Results().At(0).Type().Underlying().(*types.Basic); ok && (b.Info()&types.IsBoolean != 0 || b.Info()&types.IsString != 0) {
					return cNone
				}
			}
		}
		return col
	}
	return cNone
}

// attr describes "field f of a coloured model value".
func attrOf(k *colours, v ssa.Value) (string, colour, bool) {
	v = ssax.Strip(v)
	if u, ok := v.(*ssa.UnOp); ok && u.Op == token.MUL {
		if fa, ok := u.X.(*ssa.FieldAddr); ok {
			c := k.of(fa.X)
			if c != cNone {
				return fieldNameOfAddr(fa), c, true
			}
		}
	}
	if f, ok := v.(*ssa.Field); ok {
		c := k.of(f.X)
		if c != cNone {
			return fieldNameOfValue(f), c, true
		}
	}
	return "", cNone, false
}

// C18 — the audit flags every breaking change and nothing else.
func C18(ctx *core.Ctx) {
	ctx.Explanation = "Decides old/new side consistency and exhaustiveness of the IDL audit for all program pairs with a two-colour dataflow (OLD/NEW seeded at the two ParseFrugal results by the parameter they were parsed from, propagated interprocedurally through fields, ranges, maps built from coloured values, lookups and helper calls): " +
		"every same-attribute comparison has one OLD and one NEW operand; the paired parameters of every checker receive (OLD, NEW) at every call site and none is bi-coloured; methods of the old/new model receive only values of their own colour; a presence test looks a key of one colour up in a map of the other; every error-producing test inside a hit or miss region of a loop is evaluated on every path through that region (no error check is skipped because an unrelated warning fired); " +
		"every wire-relevant declaration kind of the model is passed old-and-new to a checker from Audit; checkType recurses into every *Type field and is called with warn=false from every wire context; Audit fails iff errors were logged; the CLI passes the -audit file as old and the argument as new. Not decided: completeness of the breaking-change catalogue, message wording."
	cc := LoadCC(ctx)
	if !cc.OK() {
		return
	}
	ctx.Rule("C18.R1", "side consistency (two-colour dataflow): comparisons, paired parameters, model methods, presence tests", 25)
	ctx.Rule("C18.R9", "every item of a compared list is looked up on the other side: the presence test of a removal/addition loop is reached on every trip", 6)
	ctx.Rule("C18.R8", "an error-producing comparison of an OLD with a NEW attribute is not additionally conditioned on one program alone", 3)
	ctx.Rule("C18.R2", "every error-producing test in a hit/miss region is evaluated on every path through the region", 8)
	ctx.Rule("C18.R3", "declaration-kind exhaustiveness; checkType recursion and warn flags", 10)
	ctx.Rule("C18.R4", "Audit fails iff errors were logged (an error once logged stays logged: every store to the flag behind ErrorsLogged() stores true, LogError stores it on every path); CLI passes (audit file, argument) as (old, new)", 2)
	res := cc.Resolver()
	audit := cc.Fn("C18.R1", "parser", "(*Auditor).Audit")
	if audit == nil {
		return
	}
	pp := cc.Pkg("parser")
	coneList := ssax.Cone([]*ssa.Function{audit}, res, false)
	k := &colours{cc: cc, cone: map[*ssa.Function]bool{}, res: res, param: map[*ssa.Parameter]colour{}, memo: map[ssa.Value]colour{}, active: map[ssa.Value]bool{}, seeds: map[ssa.Value]colour{}}
	var auditFns []*ssa.Function
	for _, f := range coneList {
		if f.Pkg == pp && f.Signature.Recv() != nil && ssax.TypeNamed(f.Signature.Recv().Type(), "", "Auditor") {
			k.cone[f] = true
			auditFns = append(auditFns, f)
		}
	}
	// plain helpers of the audit file (makeFieldsMap, normalizeScopePrefix)
	for _, f := range coneList {
		if f.Pkg == pp && strings.HasSuffix(cc.V.Fset.Position(f.Pos()).Filename, "audit.go") {
			k.cone[f] = true
		}
	}
	// seeds: ParseFrugal(param) results in Audit
	oldP, newP := audit.Params[1], audit.Params[2]
	nseed := 0
	for _, c := range ssax.Calls(audit) {
		if c.Static == nil || c.Static.Name() != "ParseFrugal" {
			continue
		}
		var col colour
		switch ssax.Strip(c.Common.Args[0]) {
		case ssa.Value(oldP):
			col = cOld
		case ssa.Value(newP):
			col = cNew
		}
		if col == cNone {
			continue
		}
		for _, u := range *c.Instr.Value().Referrers() {
			if e, ok := u.(*ssa.Extract); ok && e.Index == 0 {
				k.seeds[e] = col
				nseed++
			}
		}
	}
	if nseed != 2 {
		ctx.Unresolved("C18.R1", "seeds", "Audit does not parse its two file parameters with ParseFrugal")
		return
	}
	// the stored models must agree with the field names' roles
	ssax.Instrs(audit, func(in ssa.Instruction) {
		if st, ok := in.(*ssa.Store); ok {
			switch fieldNameOfAddr(st.Addr) {
			case "oldFrugal":
				ctx.Check(k.of(st.Val) == cOld, "C18.R1", "Audit › a.oldFrugal holds the model parsed from the old file", cc.IPos(in), "OLD", "a.oldFrugal is assigned the "+k.of(st.Val).String()+" model: typedef resolution of old types uses the wrong program")
			case "newFrugal":
				ctx.Check(k.of(st.Val) == cNew, "C18.R1", "Audit › a.newFrugal holds the model parsed from the new file", cc.IPos(in), "NEW", "a.newFrugal is assigned the "+k.of(st.Val).String()+" model")
			}
		}
	})
	// ---- R6: an audit judges the two files it was given --------------------------------
	// The models behind a.oldFrugal / a.newFrugal are the ones parsed by this
	// call: Audit never reads those fields before it has stored them (a model
	// kept from an earlier Audit of the same Auditor is another file's).
	ctx.Rule("C18.R6", "every Audit call compares the models parsed from its own two files: the auditor's model fields are not read before this call stored them", 2)
	// the comparison part of Audit may be a method of its own (compare(old, new)):
	// the driver is Audit plus the Auditor methods it hands BOTH models to
	drivers := []*ssa.Function{audit}
	driverCall := map[*ssa.Function]ssa.Instruction{}
	for _, c := range ssax.Calls(audit) {
		h := c.Static
		if h == nil || h == audit || h.Signature.Recv() == nil || !ssax.TypeNamed(h.Signature.Recv().Type(), "", "Auditor") || len(h.Blocks) == 0 {
			continue
		}
		nFr := 0
		for _, a := range c.Common.Args[1:] {
			if ssax.TypeNamed(a.Type(), "", "Frugal") {
				nFr++
			}
		}
		if nFr >= 2 {
			drivers = append(drivers, h)
			driverCall[h] = c.Instr.(ssa.Instruction)
		}
	}
	for _, field := range []string{"oldFrugal", "newFrugal"} {
		var stores, loads []ssa.Instruction
		for _, d := range drivers {
			ssax.Instrs(d, func(in ssa.Instruction) {
				switch x := in.(type) {
				case *ssa.Store:
					if fieldNameOfAddr(x.Addr) == field {
						stores = append(stores, in)
					}
				case *ssa.UnOp:
					if x.Op == token.MUL && fieldNameOfAddr(x.X) == field {
						if fa, ok := x.X.(*ssa.FieldAddr); ok && ssax.TypeNamed(fa.X.Type(), "", "Auditor") {
							loads = append(loads, in)
						}
					}
				}
			})
		}
		bad := ""
		for _, ld := range loads {
			dom := false
			for _, st := range stores {
				if st.Parent() == ld.Parent() && ssax.Dominates(st, ld) {
					dom = true
				}
				// a load in the helper after a store in Audit that precedes the helper's call
				if call, isHelper := driverCall[ld.Parent()]; isHelper && st.Parent() == audit && ssax.Dominates(st, call) {
					dom = true
				}
			}
			if !dom {
				bad = cc.IPos(ld)
			}
		}
		ctx.Check(bad == "" && len(stores) > 0, "C18.R6", "Audit › a."+field+" is this call's model wherever it is read", cc.FPos(audit), sprintf("%d store(s), %d read(s) all after a store", len(stores), len(loads)),
			"Audit reads a."+field+" at "+bad+" before this call has stored it (or never stores it): from the second Audit on one Auditor the comparison uses the model of an earlier call's file — a breaking change is passed, or identical files are reported as breaking")
	}

	// ---- R5: comparisons look at whole declared values ----------------------------------
	// A same-attribute comparison whose two sides are the same model method is
	// only as strong as that method: one that returns a *part* of a declared
	// name (the text after the include qualifier, a lower-cased spelling …)
	// makes declarations equal that differ in the rest.
	ctx.Rule("C18.R5", "compatibility comparisons use whole declared values: where both sides of an old/new comparison are the same model method, the method is not a projection that drops part of the declaration", 1)
	{
		lossy := func(m *ssa.Function) string {
			why := ""
			for _, c := range ssax.Calls(m) {
				switch c.FullName() {
				case "strings.Split", "strings.SplitN", "strings.Index", "strings.LastIndex", "strings.TrimPrefix", "strings.TrimSuffix", "strings.ToLower", "strings.ToUpper", "strings.Title", "strings.Fields", "strings.Cut", "strings.TrimLeft", "strings.TrimRight", "path/filepath.Base", "path.Base":
					why = c.FullName()
				}
			}
			ssax.Instrs(m, func(in ssa.Instruction) {
				if sl, ok := in.(*ssa.Slice); ok {
					if b, isB := sl.X.Type().Underlying().(*types.Basic); isB && b.Kind() == types.String {
						why = "a substring"
					}
				}
			})
			return why
		}
		nCmp, nBad := 0, 0
		for _, f := range auditFns {
			ssax.Instrs(f, func(in ssa.Instruction) {
				bo, ok := in.(*ssa.BinOp)
				if !ok || (bo.Op != token.EQL && bo.Op != token.NEQ) {
					return
				}
				cx, okx := ssax.Strip(bo.X).(*ssa.Call)
				cy, oky := ssax.Strip(bo.Y).(*ssa.Call)
				if !okx || !oky {
					return
				}
				mx, my := cx.Call.StaticCallee(), cy.Call.StaticCallee()
				if mx == nil || mx != my || mx.Pkg != pp || mx.Signature.Recv() == nil || len(mx.Blocks) == 0 {
					return
				}
				nCmp++
				if why := lossy(mx); why != "" {
					nBad++
					ctx.Violate("C18.R5", QName(f)+" › comparison of "+mx.Name()+"() on both sides", cc.IPos(in),
						"both sides of the comparison are "+QName(mx)+", which returns only a part of the declaration ("+why+"): two declarations that differ in the dropped part — a parent service of the same name from another include, a differently qualified type — compare equal and the breaking change passes the audit")
				}
			})
		}
		if nBad == 0 {
			ctx.Discharge("C18.R5", "audit › no comparison through a projecting accessor", "", sprintf("%d method-vs-method comparison(s) examined in %d audit function(s)", nCmp, len(auditFns)))
		}
	}

	// ---- R7: prefix normalisation replaces whole {variable} tokens ------------------------
	// Renaming a prefix variable is compatible, changing a static token is not:
	// the normaliser may blank `{name}` tokens, never the bare name (which also
	// occurs inside static tokens: `user.{user}`).
	ctx.Rule("C18.R7", "scope prefixes are normalised token-wise: no replacement of a bare variable name inside the prefix text", 1)
	{
		nRep, bad := 0, ""
		for f := range k.cone {
			for _, c := range ssax.Calls(f) {
				full := c.FullName()
				if full != "strings.Replace" && full != "strings.ReplaceAll" {
					continue
				}
				nRep++
				old := ssax.Strip(c.Common.Args[1])
				// a bare element of a Variables list: a load of an element of the slice, with no "{" glued on
				if ld, isLd := old.(*ssa.UnOp); isLd && ld.Op == token.MUL {
					if ia, isIA := ld.X.(*ssa.IndexAddr); isIA {
						if src, isSrc := ssax.Strip(ia.X).(*ssa.UnOp); isSrc && fieldNameOfAddr(src.X) == "Variables" {
							bad = cc.IPos(c.Instr)
						}
					}
				}
			}
		}
		ctx.Check(bad == "", "C18.R7", "audit › no bare variable name is replaced in a prefix", "compiler/parser/audit.go", sprintf("%d strings.Replace call(s) in the audit cone", nRep),
			"the audit blanks the bare name of a prefix variable in the prefix text (at "+bad+"): the name also matches inside static tokens, so `v1.user.{user}` → `v1.account.{account}` compares equal (a changed prefix passes) and `v1.users.{user}` → `v1.users.{id}` compares different (a pure rename is reported)")
	}

	// parameter colours to a fixpoint
	for iter := 0; iter < 12; iter++ {
		changed := false
		k.memo = map[ssa.Value]colour{}
		for f := range k.cone {
			for _, c := range ssax.Calls(f) {
				for _, t := range res(c) {
					if !k.cone[t] {
						continue
					}
					for i, a := range c.Args() {
						if i >= len(t.Params) {
							continue
						}
						nc := joinC(k.param[t.Params[i]], k.of(a))
						if nc != k.param[t.Params[i]] {
							k.param[t.Params[i]] = nc
							changed = true
						}
					}
				}
			}
		}
		if !changed {
			break
		}
	}
	k.memo = map[ssa.Value]colour{}

	var fns []*ssa.Function
	for f := range k.cone {
		fns = append(fns, f)
	}
	sort.Slice(fns, func(i, j int) bool { return fns[i].String() < fns[j].String() })

	// ---- R1 (b) paired parameters ------------------------------------------------------
	for _, f := range fns {
		// polymorphic unary helpers (one model-typed parameter) may be used for both sides
		var coloured []*ssa.Parameter
		for _, p := range f.Params {
			if k.param[p] != cNone {
				coloured = append(coloured, p)
			}
		}
		if len(coloured) < 2 {
			continue
		}
		// a helper whose model-typed parameters all have different types (resolve(program, type))
		// is polymorphic in the side like a unary one — provided each call hands it one side only
		paired := false
		for i := 0; i < len(coloured); i++ {
			for j := i + 1; j < len(coloured); j++ {
				if types.Identical(coloured[i].Type(), coloured[j].Type()) {
					paired = true
				}
			}
		}
		if !paired {
			for caller := range k.cone {
				for _, c := range ssax.Calls(caller) {
					hit := false
					for _, t := range res(c) {
						if t == f {
							hit = true
						}
					}
					if !hit {
						continue
					}
					side := cNone
					okSite := true
					for i, a := range c.Args() {
						if i >= len(f.Params) || k.param[f.Params[i]] == cNone {
							continue
						}
						ca := k.of(a)
						if ca == cNone {
							continue
						}
						if ca == cMixed || (side != cNone && ca != side) {
							okSite = false
						}
						side = ca
					}
					ctx.Check(okSite, "C18.R1", QName(caller)+sprintf(" › call of %s hands over one side only", f.Name()), cc.IPos(c.Instr), "all model arguments of the call are "+side.String(),
						"the call mixes an OLD and a NEW argument: a type of one program is resolved through the other program")
				}
			}
			continue
		}
		for _, p := range coloured {
			ctx.Check(k.param[p] != cMixed, "C18.R1", QName(f)+" › parameter "+p.Name()+" has one side", cc.FPos(f), k.param[p].String()+" at every call site",
				"parameter "+p.Name()+" receives OLD at one call site and NEW at another: somewhere the old and new arguments are swapped or the same side is passed twice")
		}
		// pairs of identically typed parameters must carry different sides
		for i := 0; i < len(coloured); i++ {
			for j := i + 1; j < len(coloured); j++ {
				a, b := coloured[i], coloured[j]
				if !types.Identical(a.Type(), b.Type()) {
					continue
				}
				// only model values pair up as (old, new); two scalars derived from one side
				// (the bounds of the old field ids, say) are not a comparison of two programs
				if bt, isBasic := a.Type().Underlying().(*types.Basic); isBasic && bt.Kind() != types.String {
					continue
				}
				ca, cb := k.param[a], k.param[b]
				if ca == cMixed || cb == cMixed {
					continue
				}
				ctx.Check(ca != cb, "C18.R1", QName(f)+" › parameters ("+a.Name()+", "+b.Name()+") are (old, new)", cc.FPos(f), ca.String()+", "+cb.String(),
					"both parameters receive the "+ca.String()+" side: the comparison compares a program with itself")
			}
		}
	}
	// ---- R1 (a) comparisons, (c) model methods, (d) presence tests ---------------------------
	for _, f := range fns {
		n := map[string]int{}
		ssax.Instrs(f, func(in ssa.Instruction) {
			switch x := in.(type) {
			case *ssa.BinOp:
				if x.Op != token.EQL && x.Op != token.NEQ {
					return
				}
				fa, ca, oka := attrOf(k, x.X)
				fb, cb, okb := attrOf(k, x.Y)
				if !oka || !okb || fa != fb {
					return
				}
				n[fa]++
				ctx.Check(ca != cb && ca != cMixed && cb != cMixed, "C18.R1", QName(f)+sprintf(" › comparison of .%s #%d has one OLD and one NEW operand", fa, n[fa]), cc.IPos(in), ca.String()+" vs "+cb.String(),
					"both operands of the ."+fa+" comparison come from the "+ca.String()+" side (copy-paste): this change is never detected")
			case *ssa.Call:
				c, _ := ssax.AsCall(x)
				if c.FullName() == "reflect.DeepEqual" {
					fa, ca, oka := attrOf(k, c.Common.Args[0])
					fb, cb, okb := attrOf(k, c.Common.Args[1])
					if oka && okb && fa == fb {
						n[fa]++
						ctx.Check(ca != cb && ca != cMixed && cb != cMixed, "C18.R1", QName(f)+sprintf(" › DeepEqual of .%s #%d has one OLD and one NEW operand", fa, n[fa]), cc.IPos(in), ca.String()+" vs "+cb.String(),
							"both operands of DeepEqual(."+fa+") come from the same side")
					}
				}
				if c.Static != nil && c.Static.Signature.Recv() != nil && ssax.TypeNamed(c.Static.Signature.Recv().Type(), "", "Frugal") {
					rc := k.of(c.Common.Args[0])
					if rc == cNone {
						return
					}
					for _, a := range c.Common.Args[1:] {
						ac := k.of(a)
						if ac == cNone {
							continue
						}
						n["m:"+c.Static.Name()]++
						ctx.Check(ac == rc, "C18.R1", QName(f)+sprintf(" › %s model method %s #%d gets an argument of its own side", rc, c.Static.Name(), n["m:"+c.Static.Name()]), cc.IPos(in), rc.String()+" receiver, "+ac.String()+" argument",
							"a "+ac.String()+" value is resolved through the "+rc.String()+" program ("+c.Static.Name()+"): typedefs are looked up in the wrong program, so a re-pointed typedef is missed or an unchanged type is reported")
					}
				}
			case *ssa.Lookup:
				if !x.CommaOk {
					return
				}
				mc := k.of(x.X)
				kc := k.of(x.Index)
				// identity keys are declared attributes (Name, ID, …) as written, not normalised text
				if kcall, isCall := CallValue(x.Index); isCall && mc != cNone {
					if b, isB := x.Index.Type().Underlying().(*types.Basic); isB && b.Kind() == types.String {
						n["lkid"]++
						ctx.Violate("C18.R1", QName(f)+sprintf(" › presence test (computed key #%d) uses the declared identity as key", n["lkid"]), cc.IPos(in),
							"the lookup key is computed by "+kcall.ShortName()+" instead of being the declared name: declarations whose names differ only in what that function erases are conflated, so a rename that breaks the wire (topic suffix / method name) is not reported as removed")
					}
				}
				if mc == cNone || kc == cNone {
					return
				}
				n["lk"]++
				if inCycle(x) {
					// R9: the presence test is made for EVERY item of the list being walked
					n["trip"]++
					ctx.Check(everyTrip(x), "C18.R9", QName(f)+sprintf(" › presence test #%d is made for every item of the loop", n["trip"]), cc.IPos(in), "no path round the loop avoids the lookup",
						"some items of the "+kc.String()+" list are skipped before they are looked up in the "+mc.String()+" map (a shortcut such as 'the name still exists'): a removal or renumbering hidden behind that shortcut — an enum variant whose number disappears while its name survives — is never reported")
				}
				ctx.Check(mc != kc && mc != cMixed && kc != cMixed, "C18.R1", QName(f)+sprintf(" › presence test #%d looks a key of one side up in the other side's map", n["lk"]), cc.IPos(in), kc.String()+" key in "+mc.String()+" map",
					"a "+kc.String()+" key is looked up in a map built from the "+mc.String()+" side: removals/additions are never detected")
			}
		})
	}

	// ---- R1 (e) symmetric guards of paired checks ---------------------------------------------------
	// A call that compares an OLD with a NEW value may be skipped because one of
	// them is absent only if the other one's absence is tested too: a guard on
	// one side alone hides every change in which that side is absent.
	for _, f := range fns {
		nc := 0
		for _, c := range ssax.Calls(f) {
			paired := false
			var hasOld, hasNew bool
			for _, t := range res(c) {
				if k.cone[t] {
					paired = true
				}
			}
			for _, a := range c.Args() {
				switch k.of(a) {
				case cOld:
					hasOld = true
				case cNew:
					hasNew = true
				}
			}
			if !paired || !hasOld || !hasNew {
				continue
			}
			nc++
			nilGuard := map[colour]string{}
			in := c.Instr.(ssa.Instruction)
			for cur := in.Block(); cur != nil; cur = cur.Idom() {
				if len(cur.Preds) != 1 {
					continue
				}
				p := cur.Preds[0]
				iff, ok := p.Instrs[len(p.Instrs)-1].(*ssa.If)
				if !ok || p.Succs[0] == p.Succs[1] {
					continue
				}
				bo, ok := iff.Cond.(*ssa.BinOp)
				if !ok || (bo.Op != token.EQL && bo.Op != token.NEQ) {
					continue
				}
				var other ssa.Value
				if cst, isC := bo.Y.(*ssa.Const); isC && cst.IsNil() {
					other = bo.X
				} else if cst, isC := bo.X.(*ssa.Const); isC && cst.IsNil() {
					other = bo.Y
				}
				if other == nil {
					continue
				}
				if col := k.of(other); col == cOld || col == cNew {
					nilGuard[col] = cc.IPos(iff)
				}
			}
			okSym := (nilGuard[cOld] == "") == (nilGuard[cNew] == "")
			side, at := "OLD", nilGuard[cOld]
			if nilGuard[cOld] == "" {
				side, at = "NEW", nilGuard[cNew]
			}
			ctx.Check(okSym, "C18.R1", QName(f)+sprintf(" › paired check #%d (%s) is not guarded by the absence of one side only", nc, c.ShortName()), cc.IPos(in), "no one-sided nil guard",
				"the comparison is skipped when the "+side+" value is nil ("+at+") whatever the other side is: a change from/to an absent value (e.g. a void method gaining a return type) is never reported")
		}
	}

	// ---- R8: an error-producing paired comparison is not muted by one side ----------------------
	// "old.attr differs from new.attr ⇒ error" must fire for every old value and
	// every new value. A further condition that looks at ONE program only
	// (old.Modifier != Optional && …) exempts a whole class of declarations from
	// the comparison: the change passes the audit for exactly those.
	{
		var sideOf func(v ssa.Value, d int) (colour, bool)
		sideOf = func(v ssa.Value, d int) (colour, bool) { // colour, isPresenceTest
			if d > 6 {
				return cNone, false
			}
			switch x := v.(type) {
			case *ssa.BinOp:
				a, pa := sideOf(x.X, d+1)
				b, pb := sideOf(x.Y, d+1)
				return joinC(a, b), pa || pb
			case *ssa.UnOp:
				if x.Op == token.NOT {
					return sideOf(x.X, d+1)
				}
			case *ssa.Phi:
				c, pr := cNone, false
				for _, e := range x.Edges {
					ce, pe := sideOf(e, d+1)
					c, pr = joinC(c, ce), pr || pe
				}
				return c, pr
			case *ssa.Const:
				return cNone, false
			case *ssa.Extract:
				if lk, ok := x.Tuple.(*ssa.Lookup); ok && lk.CommaOk && x.Index == 1 {
					return k.of(lk.X), true
				}
			}
			return k.of(v), false
		}
		hasLogErr := func(b *ssa.BasicBlock) bool {
			if len(b.Preds) != 1 {
				return false
			}
			for _, x := range b.Instrs {
				if c, ok := ssax.AsCall(x); ok && c.Method != nil && c.Method.Name() == "LogError" {
					return true
				}
			}
			return false
		}
		nPaired := 0
		for _, f := range fns {
			np := 0
			for _, b := range f.Blocks {
				t, ok := b.Instrs[len(b.Instrs)-1].(*ssa.If)
				if !ok {
					continue
				}
				side, _ := sideOf(t.Cond, 0)
				if side != cMixed || !(hasLogErr(b.Succs[0]) || hasLogErr(b.Succs[1])) {
					continue
				}
				np++
				nPaired++
				guard, gside := "", cNone
				for cur := b; cur != nil && guard == ""; cur = cur.Idom() {
					if len(cur.Preds) != 1 {
						continue
					}
					p := cur.Preds[0]
					g, ok := p.Instrs[len(p.Instrs)-1].(*ssa.If)
					if !ok || g == t || p.Succs[0] == p.Succs[1] {
						continue
					}
					gs, presence := sideOf(g.Cond, 0)
					if presence {
						break // the hit/miss test of the pairing itself: above it the two sides are not paired yet
					}
					if gs == cOld || gs == cNew {
						// "was absent before" (empty name / nil) is the audit's own notion of an
						// allowed addition — `old.Extends != "" && old.Extends != new.Extends` —
						// and nil guards of calls are judged by R1(e); every other one-sided
						// condition exempts declarations that do exist on both sides
						if bo, isB := g.Cond.(*ssa.BinOp); isB && (bo.Op == token.EQL || bo.Op == token.NEQ) {
							isAbsent := func(v ssa.Value) bool {
								c, ok := v.(*ssa.Const)
								if !ok {
									return false
								}
								if c.IsNil() {
									return true
								}
								b, isBasic := c.Type().Underlying().(*types.Basic)
								return isBasic && b.Info()&types.IsString != 0 && c.Value != nil && c.Value.ExactString() == `""`
							}
							if isAbsent(bo.X) || isAbsent(bo.Y) {
								continue
							}
						}
						guard, gside = cc.IPos(g), gs
					}
				}
				ctx.Check(guard == "", "C18.R8", QName(f)+sprintf(" › error-producing old/new comparison #%d is not conditioned on one side alone", np), cc.IPos(t), "no dominating condition between the pairing and the comparison reads only one program",
					"the comparison that reports this breaking change is evaluated only when a condition on the "+gside.String()+" program alone holds ("+guard+"): for every declaration that condition excludes (a field that was optional, say) the change — optional → required — passes the audit unreported")
			}
		}
		ctx.Check(nPaired >= 2, "C18.R8", "audit › error-producing old/new comparisons examined", "", sprintf("%d comparison(s)", nPaired), "no error-producing paired comparison found")
	}

	// ---- R2 ----------------------------------------------------------------------------------
	isLogErr := func(in ssa.Instruction) bool {
		c, ok := ssax.AsCall(in)
		if !ok {
			return false
		}
		if c.Method != nil && c.Method.Name() == "LogError" {
			return true
		}
		// logMismatch variable in checkType: dynamic call of a bound method value
		return false
	}
	for _, f := range fns {
		ssax.Instrs(f, func(in ssa.Instruction) {
			lk, ok := in.(*ssa.Lookup)
			if !ok || !lk.CommaOk || k.of(lk.X) == cNone {
				return
			}
			var iff *ssa.If
			for _, u := range *lk.Referrers() {
				if e, ok := u.(*ssa.Extract); ok && e.Index == 1 {
					for _, u2 := range *e.Referrers() {
						if i, ok := u2.(*ssa.If); ok {
							iff = i
						}
					}
				}
			}
			if iff == nil {
				return
			}
			for ri, region := range iff.Block().Succs {
				name := []string{"hit", "miss"}[ri]
				// error tests in the region: Ifs (dominated by region) with a successor block (single pred) containing LogError
				var tests []*ssa.If
				for _, b := range f.Blocks {
					if !(b == region || region.Dominates(b)) {
						continue
					}
					t, ok := b.Instrs[len(b.Instrs)-1].(*ssa.If)
					if !ok {
						continue
					}
					for _, s := range b.Succs {
						if len(s.Preds) != 1 {
							continue
						}
						for _, x := range s.Instrs {
							if isLogErr(x) {
								tests = append(tests, t)
							}
						}
					}
				}
				// region exit: the loop continuation = first block outside the region reachable from it
				for ti, t := range tests {
					// every path from the region entry to leaving the region passes t
					leaves := func(x ssa.Instruction) bool {
						b := x.Block()
						return !(b == region || region.Dominates(b)) && ssax.Idx(x) == 0
					}
					// a compound condition A && B is one test: walk up short-circuit predecessors
					chain := map[ssa.Instruction]bool{t: true}
					cur := t
					for i := 0; i < 6; i++ {
						b := cur.Block()
						if len(b.Preds) != 1 {
							break
						}
						pi, ok := b.Preds[0].Instrs[len(b.Preds[0].Instrs)-1].(*ssa.If)
						if !ok {
							break
						}
						// the other successor of the predecessor If must be a successor of the current test (same join)
						other := pi.Block().Succs[0]
						if other == b {
							other = pi.Block().Succs[1]
						}
						if other != cur.Block().Succs[0] && other != cur.Block().Succs[1] {
							break
						}
						// and the predecessor block must be pure condition evaluation (no calls with effects)
						chain[pi] = true
						cur = pi
					}
					isT := func(x ssa.Instruction) bool { return chain[x] }
					var bad []*ssa.BasicBlock
					if len(region.Instrs) > 0 && !isT(region.Instrs[0]) {
						// start before the first instruction of the region: emulate by checking the first instr
						first := region.Instrs[0]
						if leaves(first) {
							continue
						}
						bad = ssax.PathFrom(f, first, leaves, isT)
					}
					construct := QName(f) + sprintf(" › %s region of presence test at %s: error test #%d is on every path", name, shortLookup(lk), ti+1)
					if bad == nil {
						ctx.Discharge("C18.R2", construct, cc.IPos(t), "must-pass-through within the region")
					} else {
						ctx.Violate("C18.R2", construct, cc.IPos(t), "an error-producing check can be skipped on a path through the "+name+" region (e.g. it sits in the else-branch of an unrelated warning): the breaking change it detects passes the audit when the other condition holds", ssax.PathString(cc.V.Fset, bad)...)
					}
				}
			}
		})
	}

	// R2 in helpers: a loop-free helper of the audit that is called from a hit/miss
	// region (the per-declaration part of a checker, extracted) must not let the
	// outcome of one check suppress an error-producing test: no way from its
	// entry to a return passes a Log call but not the test.
	{
		isLog := func(in ssa.Instruction) bool {
			c, ok := ssax.AsCall(in)
			return ok && c.Method != nil && (c.Method.Name() == "LogError" || c.Method.Name() == "LogWarning")
		}
		inFns := map[*ssa.Function]bool{}
		for _, f := range fns {
			inFns[f] = true
		}
		done := map[*ssa.Function]bool{}
		for _, f := range fns {
			for _, c := range ssax.Calls(f) {
				g := c.Static
				if g == nil || !inFns[g] || done[g] || g == f || len(g.Blocks) == 0 {
					continue
				}
				acyclic := true
				for _, b := range g.Blocks {
					for _, sc := range b.Succs {
						if sc.Dominates(b) {
							acyclic = false
						}
					}
				}
				if !acyclic {
					continue
				}
				done[g] = true
				ti := 0
				for _, b := range g.Blocks {
					t, ok := b.Instrs[len(b.Instrs)-1].(*ssa.If)
					if !ok {
						continue
					}
					isErrTest := false
					own := map[*ssa.BasicBlock]bool{}
					for _, sc := range b.Succs {
						if len(sc.Preds) != 1 {
							continue
						}
						for _, x := range sc.Instrs {
							if isLogErr(x) {
								isErrTest = true
								own[sc] = true
							}
						}
					}
					if !isErrTest {
						continue
					}
					ti++
					// a compound condition A && B is one test: walk up the short-circuit predecessors
					chain := map[ssa.Instruction]bool{t: true}
					cur := ssa.Instruction(t)
					for i := 0; i < 6; i++ {
						cb := cur.Block()
						if len(cb.Preds) != 1 {
							break
						}
						pi, ok := cb.Preds[0].Instrs[len(cb.Preds[0].Instrs)-1].(*ssa.If)
						if !ok {
							break
						}
						other := pi.Block().Succs[0]
						if other == cb {
							other = pi.Block().Succs[1]
						}
						if other != cb.Succs[0] && other != cb.Succs[1] {
							break
						}
						chain[pi] = true
						cur = pi
					}
					isT := func(x ssa.Instruction) bool { return chain[x] }
					var bad ssa.Instruction
					ssax.Instrs(g, func(l ssa.Instruction) {
						if bad != nil || !isLog(l) || own[l.Block()] {
							return
						}
						isL := func(x ssa.Instruction) bool { return x == l }
						first := g.Blocks[0].Instrs[0]
						reach := first == l || (!isT(first) && ssax.PathFrom(g, first, isL, isT) != nil)
						if reach && ssax.PathFrom(g, l, ssax.IsReturn, isT) != nil {
							bad = l
						}
					})
					construct := QName(g) + sprintf(" › error test #%d is not suppressed by another check's outcome", ti)
					if bad == nil {
						ctx.Discharge("C18.R2", construct, cc.IPos(t), "no path reports something else and skips the test")
					} else {
						ctx.Violate("C18.R2", construct, cc.IPos(t), "a path through "+g.Name()+" logs another finding ("+cc.IPos(bad)+") and returns without evaluating this error-producing test (exclusive switch / else-if): the breaking change it detects passes the audit whenever the other condition holds")
					}
				}
			}
		}
	}

	// ---- R4: the verdict is sticky ------------------------------------------------------------
	// Audit fails iff the logger says an error was logged. For every implementation of the
	// logger in the package: LogError makes ErrorsLogged() true and nothing makes it false
	// again — every store to a boolean field that ErrorsLogged returns stores the constant
	// true (a flag assigned `label == errorLabel` forgets an error when a warning follows).
	{
		pp := cc.Pkg("parser")
		n := 0
		seenStore := map[ssa.Instruction]bool{}
		for _, el := range cc.Fns {
			if el.Pkg != pp || el.Name() != "ErrorsLogged" || el.Signature.Recv() == nil || len(el.Blocks) == 0 {
				continue
			}
			// the flag: a bool field of the receiver returned by ErrorsLogged
			flag := ""
			for _, vs := range ReturnedValues(el) {
				if len(vs) == 1 {
					if f := fieldNameOfValue(vs[0]); f != "" {
						flag = f
					}
				}
			}
			if flag == "" {
				continue // a counting / derived implementation (e.g. len(errors) > 0): nothing to forget
			}
			recvT := el.Signature.Recv().Type()
			var logErr *ssa.Function
			for _, fn := range cc.Fns {
				if fn.Pkg != pp || fn.Signature.Recv() == nil || !types.Identical(fn.Signature.Recv().Type(), recvT) && !sameNamed(fn.Signature.Recv().Type(), recvT) {
					continue
				}
				if fn.Name() == "LogError" {
					logErr = fn
				}
				for _, g := range localCone(fn, 1) {
					if g != fn && (g.Signature.Recv() == nil || !sameNamed(g.Signature.Recv().Type(), recvT)) {
						continue
					}
					ssax.Instrs(g, func(in ssa.Instruction) {
						st, ok := in.(*ssa.Store)
						if !ok || fieldNameOfAddr(st.Addr) != flag || seenStore[in] {
							return
						}
						seenStore[in] = true
						n++
						k, isK := ssax.Strip(st.Val).(*ssa.Const)
						isTrue := isK && k.Value != nil && k.Value.String() == "true"
						ctx.Check(isTrue, "C18.R4", QName(g)+sprintf(" › store #%d to %s keeps an earlier error", n, flag), cc.IPos(in), "stores the constant true",
							"the flag is assigned a computed value: a message logged after a breaking change (a warning, say) clears it, Audit returns nil and the CLI exits 0 although a breaking change was reported")
					})
				}
			}
			if logErr != nil {
				sets := func(in ssa.Instruction) bool {
					if st, ok := in.(*ssa.Store); ok && fieldNameOfAddr(st.Addr) == flag {
						return true
					}
					if c, ok := in.(*ssa.Call); ok {
						if g := c.Call.StaticCallee(); g != nil && g.Pkg == pp {
							hit := false
							ssax.Instrs(g, func(x ssa.Instruction) {
								if st, ok := x.(*ssa.Store); ok && fieldNameOfAddr(st.Addr) == flag {
									hit = true
								}
							})
							return hit
						}
					}
					return false
				}
				first := logErr.Blocks[0].Instrs[0]
				ok := sets(first) || ssax.PathFrom(logErr, first, ssax.IsReturn, sets) == nil
				ctx.Check(ok, "C18.R4", QName(logErr)+" › records the error on every path", cc.FPos(logErr), "the flag is stored on every path through LogError", "LogError can return without recording that an error was logged: Audit passes a breaking change")
			}
		}
		if n == 0 {
			ctx.Discharge("C18.R4", "parser › no boolean error flag", "", "no logger of the package keeps its verdict in a boolean field")
		}
	}

	// ---- R3 ----------------------------------------------------------------------------------
	wire := []string{"Scopes", "Enums", "Structs", "Exceptions", "Unions", "Services", "Namespaces", "Constants"}
	for _, fld := range wire {
		ok := false
		for _, d := range drivers {
			for _, c := range ssax.Calls(d) {
				if c.Static == nil || !k.cone[c.Static] || len(c.Common.Args) < 3 {
					continue
				}
				a1, a2 := c.Common.Args[1], c.Common.Args[2]
				if fieldNameOfValue(a1) == fld && fieldNameOfValue(a2) == fld && k.of(a1) == cOld && k.of(a2) == cNew {
					ok = true
				}
			}
		}
		ctx.Check(ok, "C18.R3", "Audit › "+fld+" of both programs are compared (old, new)", cc.FPos(audit), "check…(oldFrugal."+fld+", newFrugal."+fld+")", "declaration kind "+fld+" is not audited (or audited with the sides swapped): breaking changes in it pass")
	}
	if ct := cc.Fn("C18.R3", "parser", "(*Auditor).checkType"); ct != nil {
		// recursion into every *Type field of Type
		var typeFields []string
		if tn, ok := pp.Pkg.Scope().Lookup("Type").(*types.TypeName); ok {
			st := tn.Type().Underlying().(*types.Struct)
			for i := 0; i < st.NumFields(); i++ {
				if ssax.TypeNamed(st.Field(i).Type(), "", "Type") {
					typeFields = append(typeFields, st.Field(i).Name())
				}
			}
		}
		for _, tf := range typeFields {
			ok := false
			for _, c := range ssax.Calls(ct) {
				if c.Static == ct && fieldNameOfValue(c.Common.Args[1]) == tf && fieldNameOfValue(c.Common.Args[2]) == tf && k.of(c.Common.Args[1]) == cOld && k.of(c.Common.Args[2]) == cNew {
					// the components come from the resolved (underlying) types and warn is passed through
					resolved := func(v ssa.Value) bool {
						u, isU := ssax.Strip(v).(*ssa.UnOp)
						if !isU {
							return false
						}
						fa, isFA := u.X.(*ssa.FieldAddr)
						if !isFA {
							return false
						}
						rc, isC := CallValue(fa.X)
						return isC && rc.ShortName() == "UnderlyingType"
					}
					if IsParam(c.Common.Args[3], ct, 3) && resolved(c.Common.Args[1]) && resolved(c.Common.Args[2]) {
						ok = true
					}
				}
			}
			ctx.Check(ok, "C18.R3", "checkType › recurses into ."+tf+" of both resolved types", cc.FPos(ct), "checkType(old."+tf+", new."+tf+", warn, …)", "nested "+tf+" of container types is not compared on the resolved types (a typedef'd container has no key/value type of its own): a retyped element/key behind a typedef passes the audit, and writing a typedef out is reported as a change")
		}
		// warn flag per caller
		for _, f := range fns {
			for _, c := range ssax.Calls(f) {
				if c.Static != ct || f == ct {
					continue
				}
				w, isC := ssax.Strip(c.Common.Args[3]).(*ssa.Const)
				wantWarn := strings.Contains(f.Name(), "Constant")
				ok := isC && w.Value != nil && (w.Value.String() == "true") == wantWarn
				ctx.Check(ok, "C18.R3", QName(f)+sprintf(" › checkType #%d severity", callOrdinal(f, c)), cc.IPos(c.Instr), sprintf("warn=%v", wantWarn), "a type change in a wire context is only a warning (or a constant's type change is an error)")
			}
		}
	}

	// ---- R4 ----------------------------------------------------------------------------------
	okRet := false
	for _, c := range ssax.Calls(audit) {
		if c.Method != nil && c.Method.Name() == "ErrorsLogged" {
			for _, u := range *c.Instr.Value().Referrers() {
				if iff, ok := u.(*ssa.If); ok {
					tb, fb := iff.Block().Succs[0], iff.Block().Succs[1]
					tErr, fNil := false, false
					for ret := range ReturnedValues(audit) {
						if ret.Block() == tb && !nilErrorReturn(ret) {
							tErr = true
						}
						if ret.Block() == fb && nilErrorReturn(ret) {
							fNil = true
						}
					}
					okRet = tErr && fNil
				}
			}
		}
	}
	ctx.Check(okRet, "C18.R4", "Audit › fails iff errors were logged", cc.FPos(audit), "ErrorsLogged() ⇒ error, else nil", "the audit result no longer follows the logged errors")
	// CLI
	for _, fn := range cc.Fns {
		if fn.Pkg.Pkg.Name() != "main" || strings.Contains(fn.Pkg.Pkg.Path(), "/scripts/") {
			continue
		}
		for _, c := range ssax.Calls(fn) {
			if c.Static != audit {
				continue
			}
			a1, a2 := c.Common.Args[1], c.Common.Args[2]
			// a1 is the variable bound to the flag named "audit"; a2 is options.File
			okOld := flagVar(cc, a1) == "audit"
			okNew := fieldNameOfValue(a2) == "File"
			ctx.Check(okOld && okNew, "C18.R4", "main › Audit(old = -audit file, new = argument)", cc.IPos(c.Instr), "Audit(audit, options.File)", "the CLI passes the files in the wrong roles: removals are reported as additions and vice versa")
		}
	}
}

func shortLookup(lk *ssa.Lookup) string {
	return ssax.AddrKey(lk.X) + "[" + ssax.AddrKey(lk.Index) + "]"
}

// flagVar: if v is a load of a variable whose address is the Destination of a
// cli flag literal, return that flag's Name.
func flagVar(cc *CC, v ssa.Value) string {
	v = ssax.Strip(v)
	u, ok := v.(*ssa.UnOp)
	if !ok {
		return ""
	}
	var cell ssa.Value = u.X
	if fv, ok := cell.(*ssa.FreeVar); ok {
		cell = ssax.FreeVarBinding(fv)
	}
	if cell == nil {
		return ""
	}
	var refs []ssa.Instruction
	if g, ok := cell.(*ssa.Global); ok {
		for _, fn := range cc.Fns {
			if fn.Pkg != g.Pkg {
				continue
			}
			ssax.Instrs(fn, func(in ssa.Instruction) {
				if st, ok := in.(*ssa.Store); ok && st.Val == cell {
					refs = append(refs, in)
				}
			})
		}
	} else if cell.Referrers() != nil {
		refs = *cell.Referrers()
	}
	// find a struct literal {Name: "...", Destination: cell}
	name := ""
	for _, r := range refs {
		st, ok := r.(*ssa.Store)
		if !ok || st.Val != cell {
			continue
		}
		fa, ok := st.Addr.(*ssa.FieldAddr)
		if !ok || fieldNameOfAddr(fa) != "Destination" {
			continue
		}
		for _, r2 := range *fa.X.Referrers() {
			if fa2, ok := r2.(*ssa.FieldAddr); ok && fieldNameOfAddr(fa2) == "Name" {
				for _, r3 := range *fa2.Referrers() {
					if st2, ok := r3.(*ssa.Store); ok {
						if s, ok := ConstString(st2.Val); ok {
							name = s
						}
					}
				}
			}
		}
	}
	return name
}

// sameNamed: the two receiver types are the same named type up to pointer-ness.
func sameNamed(a, b types.Type) bool {
	d := func(t types.Type) types.Type {
		if p, ok := t.(*types.Pointer); ok {
			return p.Elem()
		}
		return t
	}
	return types.Identical(d(a), d(b))
}

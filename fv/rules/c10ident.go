package rules

import (
	"go/token"
	"go/types"
	"sort"

	"fv/internal/core"
	"fv/internal/ssax"

	"golang.org/x/tools/go/ssa"
)

// c10IdentifierForms — C10.R20. A constant value may be an identifier:
// `OTHER`, `Color.GREEN`, `inc.OTHER`, `inc.Color.GREEN`. Two functions of the
// model split such an identifier on "." and branch on the number of pieces:
// the RESOLVER (ContextFromIdentifier, used by every generator) and the
// VALIDATOR (validateConstant, which rejects the program before any generator
// runs). Valid IDL is exactly what the resolver can resolve; so for every
// piece count, every declaration list the resolver consults (this file's
// Constants/Enums, the include's Constants/Enums) must also be consulted by the
// validator in its branch for that count — otherwise the validator rejects a
// form the language (and the resolver) knows, e.g. a constant whose value is a
// value of an enum of the same file.
func c10IdentifierForms(ctx *core.Ctx, cc *CC) {
	ctx.Rule("C10.R20", "the constant validator accepts every identifier form the resolver resolves: per number of '.'-separated pieces it consults at least the declaration lists the resolver consults", 3)
	pp := cc.Pkg("parser")
	if pp == nil {
		ctx.Unresolved("C10.R20", "package parser", "not loaded")
		return
	}
	var resolver, validator *ssa.Function
	for _, fn := range cc.Fns {
		if fn.Pkg != pp || fn.Signature.Recv() == nil || !ssax.TypeNamed(fn.Signature.Recv().Type(), "parser", "Frugal") || fn.Signature.Params().Len() != 1 || fn.Signature.Results().Len() != 1 {
			continue
		}
		p, r := fn.Signature.Params().At(0).Type(), fn.Signature.Results().At(0).Type()
		if n, ok := p.(*types.Named); ok && n.Obj().Name() == "Identifier" && ssax.TypeNamed(r, "parser", "IdentifierContext") {
			resolver = fn
		}
		if ssax.TypeNamed(p, "parser", "Constant") && isErrorType(r) {
			validator = fn
		}
	}
	if resolver == nil || validator == nil {
		ctx.Unresolved("C10.R20", "resolver/validator", "the identifier resolver (func(Identifier) *IdentifierContext) or the constant validator (func(*Constant) error) was not found")
		return
	}
	forms := func(fn *ssa.Function) map[int64]map[string]bool {
		out := map[int64]map[string]bool{}
		for _, b := range fn.Blocks {
			iff, ok := b.Instrs[len(b.Instrs)-1].(*ssa.If)
			if !ok {
				continue
			}
			bo, ok := iff.Cond.(*ssa.BinOp)
			if !ok || bo.Op != token.EQL {
				continue
			}
			k, isK := ssax.ConstInt(bo.Y)
			lc, isC := ssax.Strip(bo.X).(*ssa.Call)
			if !isK || !isC {
				continue
			}
			if bi, ok := lc.Call.Value.(*ssa.Builtin); !ok || bi.Name() != "len" {
				continue
			}
			if _, isSl := lc.Call.Args[0].Type().Underlying().(*types.Slice); !isSl {
				continue
			}
			region := b.Succs[0]
			if len(region.Preds) != 1 {
				continue
			}
			set := out[k]
			if set == nil {
				set = map[string]bool{}
				out[k] = set
			}
			for _, rb := range fn.Blocks {
				if rb != region && !region.Dominates(rb) {
					continue
				}
				for _, in := range rb.Instrs {
					fa, ok := in.(*ssa.FieldAddr)
					if !ok || !ssax.TypeNamed(fa.X.Type(), "parser", "Frugal") || !isDeclList(fa) {
						continue
					}
					// the list is identified by what it holds (*Constant, *Enum …), so a name
					// index over the same declarations (constantIndex) is the same list
					name := fieldNameOfAddr(fa)
					if st, ok := fa.X.Type().Underlying().(*types.Pointer).Elem().Underlying().(*types.Struct); ok {
						var el types.Type
						switch t := st.Field(fa.Field).Type().Underlying().(type) {
						case *types.Slice:
							el = t.Elem()
						case *types.Map:
							el = t.Elem()
						}
						if p, ok := el.(*types.Pointer); ok {
							if n, ok := p.Elem().(*types.Named); ok {
								name = n.Obj().Name() + " declarations"
							}
						}
					}
					base := ssax.Strip(fa.X)
					self, inc := false, false
					var classify func(v ssa.Value, d int)
					classify = func(v ssa.Value, d int) {
						if d > 4 {
							return
						}
						v = ssax.Strip(v)
						if len(fn.Params) > 0 && v == ssa.Value(fn.Params[0]) {
							self = true
							return
						}
						if fromParsedIncludes(v, 0) {
							inc = true
						}
						if ph, ok := v.(*ssa.Phi); ok {
							for _, e := range ph.Edges {
								classify(e, d+1)
							}
						}
					}
					classify(base, 0)
					if self {
						set["this file's "+name] = true
					}
					if inc {
						set["the include's "+name] = true
					}
				}
			}
		}
		return out
	}
	rf, vf := forms(resolver), forms(validator)
	var ks []int64
	for k := range rf {
		ks = append(ks, k)
	}
	sort.Slice(ks, func(i, j int) bool { return ks[i] < ks[j] })
	n := 0
	for _, k := range ks {
		var lists []string
		for l := range rf[k] {
			lists = append(lists, l)
		}
		sort.Strings(lists)
		for _, l := range lists {
			n++
			ctx.Check(vf[k][l], "C10.R20", QName(validator)+sprintf(" › identifiers of %d piece(s): %s is consulted", k, l), cc.FPos(validator), "the validator's branch for this form reads the same declaration list as "+resolver.Name(),
				sprintf("%s resolves a %d-piece identifier through %s, but %s never looks there: a constant (or default) written in that form — valid IDL, e.g. `const Color c = Color.GREEN` or `inc.Color.GREEN` — is rejected before generation (\"Include Color not found\" / \"Invalid constant name\")", resolver.Name(), k, l, validator.Name()))
		}
	}
	if n == 0 {
		ctx.Unresolved("C10.R20", "identifier forms", "no len(pieces) == k branch reading a declaration list found in "+resolver.Name())
	}
}

var _ = core.Ctx{}

package rules

import (
	"go/token"
	"strings"

	"fv/internal/core"
	"fv/internal/ssax"

	"golang.org/x/tools/go/ssa"
)

// errorResult returns the error-typed result value of a call (the call itself
// or the Extract of its last tuple component), or nil.
func errorResult(c *ssa.Call) ssa.Value {
	res := c.Call.Signature().Results()
	if res.Len() == 0 || !isErrorType(res.At(res.Len()-1).Type()) {
		return nil
	}
	if res.Len() == 1 {
		return c
	}
	if c.Referrers() == nil {
		return nil
	}
	for _, u := range *c.Referrers() {
		if e, ok := u.(*ssa.Extract); ok && e.Index == res.Len()-1 {
			return e
		}
	}
	return nil
}

// errorFate describes what a function does with the error value e of one of
// its calls: "returned" (on the non-nil edge a return hands out e itself or
// fmt.Errorf("…%w…", e)), "flattened" (a return on the non-nil edge hands out
// a different error), "dropped" (never tested), "other".
func errorFate(fn *ssa.Function, e ssa.Value) (string, ssa.Instruction) {
	if e == nil || e.Referrers() == nil {
		return "dropped", nil
	}
	tested := false
	fate := "other"
	var at ssa.Instruction
	for _, u := range *e.Referrers() {
		bo, ok := u.(*ssa.BinOp)
		if !ok || (bo.Op != token.NEQ && bo.Op != token.EQL) || bo.Referrers() == nil {
			continue
		}
		for _, w := range *bo.Referrers() {
			iff, ok := w.(*ssa.If)
			if !ok {
				continue
			}
			tested = true
			errSucc := iff.Block().Succs[0]
			if bo.Op == token.EQL {
				errSucc = iff.Block().Succs[1]
			}
			// returns dominated by the error edge
			for ret, vs := range ReturnedValues(fn) {
				if !(len(errSucc.Preds) == 1 && errSucc.Dominates(ret.Block())) || len(vs) == 0 {
					continue
				}
				last := ssax.Strip(vs[len(vs)-1])
				switch {
				case last == e:
					if fate != "flattened" {
						fate, at = "returned", ret
					}
				case wrapsWithW(last, e):
					if fate != "flattened" {
						fate, at = "returned", ret
					}
				default:
					if c, isC := last.(*ssa.Const); isC && c.IsNil() {
						continue
					}
					fate, at = "flattened", ret
				}
			}
		}
	}
	if !tested {
		// used some other way (passed on, stored)?
		for _, u := range *e.Referrers() {
			if _, isD := u.(*ssa.DebugRef); !isD {
				return "other", u
			}
		}
		return "dropped", nil
	}
	return fate, at
}

func wrapsWithW(v, e ssa.Value) bool {
	c, ok := CallValue(v)
	if !ok || c.FullName() != "fmt.Errorf" {
		return false
	}
	f, isK := ConstString(c.Args()[0])
	if !isK || !strings.Contains(f, "%w") {
		return false
	}
	for _, a := range VarargValues(c.Args()[1]) {
		if mi, isMI := a.(*ssa.MakeInterface); isMI {
			a = ssax.Strip(mi.X)
		}
		if a == e {
			return true
		}
	}
	return false
}

// c12EncoderErrors — C12.R6: the size limit of a request is enforced by the
// bounded buffer *during* encoding (a buffering protocol may only hit it in
// Flush), so every encoding step's error must reach the caller.
func c12EncoderErrors(ctx *core.Ctx, r *RT) {
	ctx.Rule("C12.R6", "limit errors surface: in the client's encoder every protocol/body/flush step's error is tested and returned unchanged", 5)
	pm := r.Fn("C12.R6", "(FStandardClient).prepareMessage")
	if pm == nil {
		return
	}
	ssax.Instrs(pm, func(in ssa.Instruction) {
		c, ok := in.(*ssa.Call)
		if !ok {
			return
		}
		ac, _ := ssax.AsCall(c)
		if _, op := protoOp(ac); op == "" {
			return
		}
		res := c.Call.Signature().Results()
		if res.Len() == 0 || !isErrorType(res.At(res.Len()-1).Type()) {
			return
		}
		_, op := protoOp(ac)
		fate, _ := errorFate(pm, errorResult(c))
		ctx.Check(fate == "returned", "C12.R6", ssax.Name(pm)+" › error of "+op+" is returned", r.IPos(in), "if err != nil { return nil, err }",
			"the error of "+op+" is "+fate+": a message that exceeds the size limit only when the protocol flushes its buffered bytes is reported as sent (an empty frame goes out, Oneway/Publish succeed silently, Call fails with the wrong error) instead of REQUEST_TOO_LARGE")
	})
}

// c13HTTPErrorIdentity — C13.R6: on the HTTP path a timeout is recognised by
// Request from the *error value* of the round trip / body read; makeRequest
// must hand those errors out unchanged (or wrapped with %w).
func c13HTTPErrorIdentity(ctx *core.Ctx, r *RT) {
	ctx.Rule("C13.R6", "timeout-capable errors keep their identity: errors of the HTTP round trip and of reading the response body are returned unchanged (or %w-wrapped) up to the classification in Request", 2)
	mr := r.Fn("C13.R6", "(*fHTTPTransport).makeRequest")
	if mr == nil {
		return
	}
	n := 0
	ssax.Instrs(mr, func(in ssa.Instruction) {
		c, ok := in.(*ssa.Call)
		if !ok {
			return
		}
		ac, _ := ssax.AsCall(c)
		full := ac.FullName()
		src := ""
		switch {
		case full == "(*net/http.Client).Do":
			src = "the round trip"
		case full == "(*bytes.Buffer).ReadFrom" || full == "io.ReadAll" || full == "io/ioutil.ReadAll" || full == "io.Copy" || full == "io.ReadFull":
			src = "reading the response body"
		default:
			return
		}
		n++
		fate, at := errorFate(mr, errorResult(c))
		pos := r.IPos(in)
		if at != nil && fate != "returned" {
			pos = r.IPos(at)
		}
		ctx.Check(fate == "returned", "C13.R6", ssax.Name(mr)+" › error of "+src+" ("+ac.ShortName()+") keeps its identity", pos, "returned unchanged",
			"the error of "+src+" is "+fate+": a deadline that fires there no longer reaches Request as a timeout-capable error, so the call is reported with an unknown transport error instead of TIMED_OUT")
	})
	if n == 0 {
		ctx.Unresolved("C13.R6", ssax.Name(mr), "no HTTP round trip / body read found")
	}
}

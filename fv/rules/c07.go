package rules

import (
	"go/token"
	"go/types"
	"sort"
	"strings"

	"fv/internal/core"
	"fv/internal/ssax"

	"golang.org/x/tools/go/ssa"
)

// fieldStores lists every store to field `field` of struct type `typ`.
type fieldStore struct {
	fn    *ssa.Function
	in    *ssa.Store
	fresh bool
}

func fieldStores(r *RT, typ, field string) []fieldStore {
	var out []fieldStore
	for _, fa := range r.FieldAccesses(typ, field) {
		addr, ok := fa.Val.(*ssa.FieldAddr)
		if !ok {
			continue
		}
		for _, u := range *addr.Referrers() {
			if st, ok := u.(*ssa.Store); ok && st.Addr == ssa.Value(addr) {
				out = append(out, fieldStore{fa.Fn, st, FreshBase(fa.Base)})
			}
		}
	}
	return out
}

// C07 — pub/sub delivery and isolation of bad messages.
func C07(ctx *core.Ctx) {
	ctx.Explanation = "Decides the structural conditions of subscriber robustness for all message sequences: subscriber receive loops can only be left through a lifecycle signal (never because of a message's content); a goroutine started by Subscribe reads only receiver fields that are stable after the spawn (assigned only by constructors or by the spawner before the go statement) or reads them under the lock every writer holds; " +
		"every worker loop selects on a quit/stop channel that Unsubscribe closes exactly once on its success path after which the broker subscription is cancelled; every subscriber transport instance gets freshly made channels (nothing shared between instances); the STOMP acknowledgement is sent only after the callback returned nil. " +
		"Not decided: exactly-once and ordering (broker and client libraries), payload equality, the generated recv callbacks (generator rules)."
	r := LoadRT(ctx, "", "")
	if !r.OK() {
		return
	}
	ctx.Rule("C07.R1", "subscriber loops survive bad messages: every exit is a lifecycle exit", 3)
	ctx.Rule("C07.R2", "spawned-goroutine field discipline: goroutines started by Subscribe read only stable fields or read under the writers' lock", 2)
	ctx.Rule("C07.R3", "unsubscribe reaches workers: the loop's quit channel is closed exactly once on Unsubscribe's success path and the broker subscription is cancelled", 4)
	ctx.Rule("C07.R4", "ack discipline: a message is acknowledged only on the nil-error edge of the callback", 1)
	ctx.Rule("C07.R11", "a STOMP subscriber acknowledges off its consuming goroutine (a synchronous Conn.Ack deadlocks with go-stomp's read loop under back-pressure)", 1)
	ctx.Rule("C07.R15", "Unsubscribe can be repeated after a failure: once the quit channel is closed every return clears the subscribed flag (no second close)", 2)
	ctx.Rule("C07.R16", "a delivery goroutine works on the subscription it was started for: its loop re-reads no receiver field that Subscribe stores", 2)
	ctx.Rule("C07.R14", "a subscriber transport that can be subscribed again arms a fresh quit channel in Subscribe (Unsubscribe closes the previous one)", 2)
	c07SubjectAgreement(ctx, r)
	c07SubscriptionIdentity(ctx, r)
	ctx.Rule("C07.R6", "fresh channels per subscriber transport instance", 4)
	ctx.Rule("C07.R7", "no drop between broker and workers: the subscription handler hands each message to the work queue with a plain (back-pressure) send", 1)
	c07PerMessage(ctx, r)
	ctx.Rule("C07.R8", "publish side: every published message is encoded into a buffer of its own and exactly those bytes go to the publisher transport under the caller's topic", 2)
	if pm, pub := r.Fn("C07.R8", "(FStandardClient).prepareMessage"), r.Fn("C07.R8", "(*FStandardClient).Publish"); pm != nil && pub != nil {
		var buffer ssa.Value
		for _, c := range ssax.Calls(pm) {
			if c.Static != nil && ssax.Name(c.Static) == "(*FProtocolFactory).GetProtocol" {
				buffer = c.Common.Args[1]
			}
		}
		fresh := false
		if buffer != nil {
			if bc, isC := CallValue(buffer); isC && bc.Static != nil && strings.HasPrefix(bc.Static.Name(), "NewTMemoryOutputBuffer") {
				fresh = true
			}
		}
		ctx.Check(fresh, "C07.R8", ssax.Name(pm)+" › output buffer is allocated per message", fnPos(r, pm), "NewTMemoryOutputBuffer(...) in this call",
			"messages are encoded into a buffer that outlives the call: the returned bytes alias it, so a concurrent or following publish overwrites a message still being handed to the broker — one event is lost and another delivered twice")
		okPub := false
		for _, c := range ssax.Calls(pub) {
			if c.Method != nil && c.Method.Name() == "Publish" && ssax.TypeNamed(c.Common.Value.Type(), "", "FPublisherTransport") {
				args := c.Common.Args
				if len(args) == 2 && IsParam(args[0], pub, 3) {
					if tup, ok := ExtractOf(args[1], 0); ok {
						if pc, ok := CallValue(tup); ok && pc.Static == pm {
							okPub = true
						}
					}
				}
			}
		}
		ctx.Check(okPub, "C07.R8", ssax.Name(pub)+" › publishes prepareMessage's bytes under the topic parameter", fnPos(r, pub), "publisher.Publish(topic, payload)", "what is published is not the encoded message, or not under the caller's topic")
	}
	for h := range msgHandlers(r) {
		owner := h // a handler written as a closure belongs to the method that builds it
		for owner.Parent() != nil {
			owner = owner.Parent()
		}
		if owner.Signature.Recv() == nil {
			continue
		}
		it := ssax.Iface(r.Pkg, "FSubscriberTransport")
		if it == nil || !types.Implements(owner.Signature.Recv().Type(), it) {
			continue
		}
		n := 0
		for _, ss := range SendSites(h) {
			if !isMsgChan(ss.Chan.Type()) {
				continue
			}
			n++
			ctx.Check(!ss.InSelect, "C07.R7", ssax.Name(h)+" › enqueue is a plain send", r.IPos(ss.Instr), "blocking send (NATS back-pressure)", "the handler drops (or times out) a message when the work queue is full: a published message never reaches the subscriber's handler")
		}
		if n == 0 {
			ctx.Violate("C07.R7", ssax.Name(h)+" › enqueues the message", fnPos(r, h), "the subscription handler does not hand the message to the work queue")
		}
		// every path through the handler enqueues
		bad := ssax.PathFrom(h, nil, ssax.IsReturn, func(in ssa.Instruction) bool {
			for _, ss := range SendSites(h) {
				if ss.Instr == in {
					return true
				}
			}
			return false
		})
		ctx.Check(bad == nil, "C07.R7", ssax.Name(h)+" › every message is enqueued", fnPos(r, h), "no path returns without the send", "the handler can return without enqueueing the message")
	}

	subs := r.Impl("FSubscriberTransport", "Subscribe")
	loopsAll := receiveLoops(r)
	sp := spawned(r)
	for _, sub := range subs {
		recvT := sub.Signature.Recv().Type()
		tn := ""
		if p, ok := recvT.(*types.Pointer); ok {
			if n, ok := p.Elem().(*types.Named); ok {
				tn = n.Obj().Name()
			}
		}
		// goroutines spawned by Subscribe (directly)
		var workers []*ssa.Function
		for _, c := range ssax.Calls(sub) {
			if _, ok := c.Instr.(*ssa.Go); ok {
				workers = append(workers, r.Resolve(c)...)
			}
		}
		var unsub *ssa.Function
		for _, u := range r.Impl("FSubscriberTransport", "Unsubscribe") {
			if types.Identical(u.Signature.Recv().Type(), recvT) {
				unsub = u
			}
		}
		for _, w := range workers {
			isLoop := false
			for _, l := range loopsAll {
				if l == w {
					isLoop = true
				}
			}
			if !isLoop {
				continue
			}
			wn := ssax.Name(w)
			// ---- R1 ---------------------------------------------------------------
			ssax.Instrs(w, func(in ssa.Instruction) {
				ret, ok := in.(*ssa.Return)
				if !ok || in.Block().Comment == "recover" {
					return
				}
				how, ok := lifecycleDominated(w, in.Block())
				ctx.Check(ok, "C07.R1", wn+sprintf(" › exit #%d is a lifecycle exit", retOrdinal(w, ret)), r.IPos(in), how,
					"the subscriber loop can end because of a message's content: one malformed message stops delivery of every later message")
			})
			// ---- R2 ---------------------------------------------------------------
			var spawnI ssa.Instruction
			for _, c := range ssax.Calls(sub) {
				if g, ok := c.Instr.(*ssa.Go); ok {
					for _, t := range r.Resolve(c) {
						if t == w {
							spawnI = g
						}
					}
				}
			}
			locks := ssax.LockSets(w, nil)
			seenF := map[string]bool{}
			ssax.Instrs(w, func(in ssa.Instruction) {
				fa, ok := in.(*ssa.FieldAddr)
				if !ok || len(w.Params) == 0 || ssax.Strip(fa.X) != ssa.Value(w.Params[0]) {
					return
				}
				st := fa.X.Type().Underlying().(*types.Pointer).Elem().Underlying().(*types.Struct)
				fname := st.Field(fa.Field).Name()
				if ssax.TypeNamed(st.Field(fa.Field).Type(), "sync", "RWMutex") || ssax.TypeNamed(st.Field(fa.Field).Type(), "sync", "Mutex") {
					return
				}
				if seenF[fname] {
					return
				}
				seenF[fname] = true
				stable := true
				why := ""
				var writerLocks []ssax.LockSet
				for _, fs := range fieldStores(r, tn, fname) {
					if fs.fresh {
						continue
					}
					if fs.fn == sub && spawnI != nil && ssax.Dominates(fs.in, spawnI) {
						continue
					}
					stable = false
					why = "assigned in " + ssax.Name(fs.fn)
					writerLocks = append(writerLocks, ssax.LockSets(fs.fn, nil)[fs.in])
				}
				if stable {
					ctx.Discharge("C07.R2", wn+" › reads field "+fname, r.IPos(in), "stable: assigned only by constructors or by Subscribe before the go statement")
					return
				}
				// read under a lock all writers hold?
				okLock := false
				for k := range locks[in] {
					all := true
					f := k[strings.LastIndex(k, ".")+1:]
					for _, wl := range writerLocks {
						if !wl.Holds(f, true) {
							all = false
						}
					}
					if all {
						okLock = true
					}
				}
				ctx.Check(okLock, "C07.R2", wn+" › reads field "+fname, r.IPos(in), "read under the lock held by every writer",
					"the goroutine reads receiver field "+fname+" ("+why+") without the lock its writers hold: after Unsubscribe/re-Subscribe it can observe a nil or foreign value (nil callback ⇒ panic, wrong subscription ⇒ foreign messages)")
			})
			if len(seenF) == 0 {
				ctx.Discharge("C07.R2", wn+" › reads no receiver field", fnPos(r, w), "everything the goroutine uses is handed to it at the go statement")
			}
			// ---- R16: the loop belongs to ONE subscription ---------------------------
			// Subscribe may run again (after Unsubscribe) while this goroutine is still
			// inside a handler. Every field Subscribe stores describes the latest
			// subscription; a goroutine that re-reads one on each trip round its loop
			// works, from then on, on the NEW subscription's channel/topic/stop signal
			// with the OLD handler (both select cases ready ⇒ a message of the new
			// topic goes to the unsubscribed handler). What the loop uses must have
			// been handed in or copied before the loop.
			if sst := namedStruct(r, tn); sst != nil && spawnI != nil {
				rearmed := map[string]bool{}
				subCone := map[*ssa.Function]bool{}
				for _, g := range localCone(sub, 2) {
					subCone[g] = true
				}
				for i := 0; i < sst.NumFields(); i++ {
					fname := sst.Field(i).Name()
					for _, fs := range fieldStores(r, tn, fname) {
						if !fs.fresh && subCone[fs.fn] {
							rearmed[fname] = true
						}
					}
				}
				type rd struct {
					in    ssa.Instruction
					fn    *ssa.Function
					field string
				}
				var reads []rd
				scan := func(g *ssa.Function, recv ssa.Value, all bool) {
					lk := ssax.LockSets(g, nil)
					ssax.Instrs(g, func(in ssa.Instruction) {
						fa, ok := in.(*ssa.FieldAddr)
						if !ok || ssax.Strip(fa.X) != recv {
							return
						}
						fname := fa.X.Type().Underlying().(*types.Pointer).Elem().Underlying().(*types.Struct).Field(fa.Field).Name()
						if !rearmed[fname] || (!all && !inCycle(in)) {
							return
						}
						isRead := false
						for _, u := range *fa.Referrers() {
							if un, ok := u.(*ssa.UnOp); ok && un.Op == token.MUL {
								isRead = true
							}
						}
						if !isRead || len(lk[in]) > 0 && g == w && func() bool {
							// read under the lock every Subscribe-side writer holds
							for _, fs := range fieldStores(r, tn, fname) {
								if fs.fresh || !subCone[fs.fn] {
									continue
								}
								wl := ssax.LockSets(fs.fn, nil)[fs.in]
								held := false
								for k := range lk[in] {
									if wl.Holds(k[strings.LastIndex(k, ".")+1:], true) {
										held = true
									}
								}
								if !held {
									return false
								}
							}
							return true
						}() {
							return
						}
						reads = append(reads, rd{in, g, fname})
					})
				}
				if len(w.Params) > 0 {
					scan(w, ssa.Value(w.Params[0]), false)
					for _, c := range ssax.Calls(w) {
						h := c.Static
						if h == nil || h.Pkg != w.Pkg || len(h.Blocks) == 0 || h == w || !inCycle(c.Instr.(ssa.Instruction)) || h.Signature.Recv() == nil || len(c.Common.Args) == 0 {
							continue
						}
						if ssax.Strip(c.Common.Args[0]) == ssa.Value(w.Params[0]) && len(h.Params) > 0 {
							scan(h, ssa.Value(h.Params[0]), true)
						}
					}
				}
				if len(reads) == 0 {
					ctx.Discharge("C07.R16", wn+" › the loop re-reads no field Subscribe stores", fnPos(r, w), sprintf("fields stored by Subscribe: %v; all uses inside the loop are parameters or copies taken before it", sortedKeys(rearmed)))
				}
				seenR := map[string]bool{}
				for _, x := range reads {
					if seenR[x.field] {
						continue
					}
					seenR[x.field] = true
					ctx.Violate("C07.R16", wn+" › the loop re-reads field "+x.field, r.IPos(x.in),
						"the delivery goroutine reads receiver field "+x.field+" on every trip round its loop (in "+ssax.Name(x.fn)+"), and Subscribe stores that field: after Unsubscribe + Subscribe on the same transport a goroutine still busy in the old handler continues on the NEW subscription's "+x.field+" — a message of the new topic is handed to the handler that was unsubscribed (or the old goroutine no longer sees its own stop signal)")
				}
			}
			// ---- R3 ---------------------------------------------------------------
			var quitField string
			for _, rs := range RecvSites(w) {
				if isSignalChan(rs.Chan.Type()) && rs.InSelect {
					v := ssax.Strip(rs.Chan)
					quitField = fieldNameOfValue(v)
					if quitField == "" {
						// local copy taken before the loop / parameter
						if u, ok := v.(*ssa.UnOp); ok {
							quitField = fieldNameOfAddr(u.X)
						}
					}
				}
			}
			if quitField == "" && spawnI != nil {
				// the quit channel is handed to the worker at the go statement: the field
				// Subscribe stores that very channel in is what Unsubscribe must close
				for _, rs := range RecvSites(w) {
					if !isSignalChan(rs.Chan.Type()) || !rs.InSelect {
						continue
					}
					par, isPar := ssax.Strip(rs.Chan).(*ssa.Parameter)
					if !isPar {
						continue
					}
					goI := spawnI.(*ssa.Go)
					for i, q := range w.Params {
						if q != par || i >= len(goI.Call.Args) {
							continue
						}
						arg := ssax.Strip(goI.Call.Args[i])
						if u, ok := arg.(*ssa.UnOp); ok && u.Op == token.MUL {
							// go m.worker(…, m.stopC, …): the field is read at the go statement
							if f := fieldNameOfAddr(u.X); f != "" {
								quitField = f
							}
						}
						ssax.Instrs(sub, func(in ssa.Instruction) {
							if st, ok := in.(*ssa.Store); ok && ssax.Strip(st.Val) == arg {
								if f := fieldNameOfAddr(st.Addr); f != "" {
									quitField = f
								}
							}
						})
					}
				}
			}
			if quitField != "" && spawnI != nil {
				// ---- R14: a subscription's quit channel is its own ----------------------
				// Unsubscribe closes it; a transport that lets itself be subscribed again
				// must arm a new one in Subscribe, before the workers start — otherwise the
				// second subscription's workers stop at once (Subscribe returns nil,
				// IsSubscribed is true, and no handler is ever invoked).
				armed := false
				ssax.Instrs(sub, func(in ssa.Instruction) {
					st, ok := in.(*ssa.Store)
					if !ok || fieldNameOfAddr(st.Addr) != quitField {
						return
					}
					if mk, isMk := ssax.Strip(st.Val).(*ssa.MakeChan); isMk && mk.Parent() == sub && ssax.Dominates(in, spawnI) {
						armed = true
					}
				})
				ctx.Check(armed, "C07.R14", ssax.Name(sub)+" › arms the quit channel ("+quitField+") of the subscription it starts", r.IPos(spawnI), quitField+" = make(chan …) in Subscribe, before the workers are started",
					"Unsubscribe closes "+quitField+" and nothing makes a new one: after Subscribe, Unsubscribe, Subscribe on the same transport the workers of the second subscription see the closed channel and return at once — Subscribe reports success, IsSubscribed is true, and the handler is never invoked for any message of the topic")
			}
			if quitField == "" {
				ctx.Violate("C07.R3", wn+" › selects on a quit channel", fnPos(r, w), "the worker loop has no quit/stop channel case: Unsubscribe cannot stop it")
			} else if unsub != nil {
				isClose := func(in ssa.Instruction) bool {
					c, ok := ssax.AsCall(in)
					return ok && c.FullName() == "builtin.close" && fieldNameOfAddr(c.Common.Args[0]) == quitField
				}
				// success = return nil reached with isSubscribed true (not the early "already unsubscribed" return)
				mn, mx := 3, -1
				for ret := range ReturnedValues(unsub) {
					if !nilErrorReturn(ret) {
						continue
					}
					isThis := func(x *ssa.Return) bool { return x == ret }
					a, b := ssax.CountOnPathsTo(unsub, nil, isClose, isThis)
					// the early-return path (not subscribed) legitimately closes nothing: recognise it by the isSubscribed test
					if a == 0 && b == 0 && dominatedByFieldTest(ret.Block(), "isSubscribed") {
						continue
					}
					if a < mn {
						mn = a
					}
					if b > mx {
						mx = b
					}
				}
				ctx.Check(mn == 1 && mx == 1, "C07.R3", ssax.Name(unsub)+" › closes the workers' quit channel ("+quitField+") exactly once", fnPos(r, unsub), "close("+quitField+") once on the success path",
					sprintf("Unsubscribe closes the quit channel %d..%d times on a successful path: workers keep delivering after Unsubscribe returned, or a double close panics", mn, mx))
				// ---- R15: a closed quit channel is never left behind an open guard ---------
				// Unsubscribe is guarded by the subscribed flag; once it has closed the quit
				// channel every way out must clear that flag — a return that leaves the flag
				// set (the broker call failed) makes the next Unsubscribe close the channel
				// again: `panic: close of closed channel`.
				{
					flag := ""
					if len(unsub.Blocks) > 0 {
						ssax.Instrs(unsub, func(in ssa.Instruction) {
							if flag != "" {
								return
							}
							if iff, isIf := in.(*ssa.If); isIf {
								var walk func(v ssa.Value, d int)
								walk = func(v ssa.Value, d int) {
									if d > 3 || flag != "" {
										return
									}
									if ld, isLd := v.(*ssa.UnOp); isLd && ld.Op == token.MUL {
										if b, isB := ld.Type().Underlying().(*types.Basic); isB && b.Kind() == types.Bool {
											flag = fieldNameOfAddr(ld.X)
											return
										}
									}
									if x, isI := v.(ssa.Instruction); isI {
										for _, op := range x.Operands(nil) {
											if *op != nil {
												walk(*op, d+1)
											}
										}
									}
								}
								walk(iff.Cond, 0)
							}
						})
					}
					if flag != "" {
						clears := func(in ssa.Instruction) bool {
							st, ok := in.(*ssa.Store)
							if !ok || fieldNameOfAddr(st.Addr) != flag {
								return false
							}
							k, isK := st.Val.(*ssa.Const)
							return isK && k.Value != nil && k.Value.String() == "false"
						}
						bad := ""
						ssax.Instrs(unsub, func(in ssa.Instruction) {
							if isClose(in) {
								cleared := false // already cleared on the way to the close?
								ssax.Instrs(unsub, func(c2 ssa.Instruction) {
									if clears(c2) && ssax.Dominates(c2, in) {
										cleared = true
									}
								})
								if p := ssax.PathFrom(unsub, in, ssax.IsReturn, clears); p != nil && !cleared {
									bad = r.IPos(in)
								}
							}
						})
						ctx.Check(bad == "", "C07.R15", ssax.Name(unsub)+" › after close("+quitField+") every return clears "+flag, fnPos(r, unsub), "the flag is cleared on every path from the close to a return",
							"Unsubscribe closes "+quitField+" at "+bad+" and can then return with "+flag+" still set (the broker call failed): the next Unsubscribe passes the guard and closes the channel a second time — panic: close of closed channel — in the application's goroutine")
					}
				}
				cancel := false
				for _, c := range ssax.Calls(unsub) {
					if c.ShortName() == "Unsubscribe" && c.Static != nil && c.Static.Pkg != r.Pkg {
						cancel = true
					}
				}
				ctx.Check(cancel, "C07.R3", ssax.Name(unsub)+" › cancels the broker subscription", fnPos(r, unsub), "sub.Unsubscribe()", "the broker subscription is not cancelled")
			}
			// ---- R11: the consumer never acknowledges synchronously --------------------
			// go-stomp forwards inbound messages and drains the connection's write channel on one
			// goroutine: an Ack issued on the goroutine that drains the subscription channel waits
			// for that goroutine while it waits for the subscriber — under a burst both stop.
			{
				syncAck := ""
				for _, g := range localCone(w, 3) { // localCone follows synchronous calls only (not `go`)
					for _, c := range ssax.CallsTo(g, "(*github.com/go-stomp/stomp.Conn).Ack") {
						if _, isGo := c.Instr.(*ssa.Go); !isGo {
							syncAck = r.IPos(c.Instr) + " (in " + ssax.Name(g) + ")"
						}
					}
				}
				ctx.Check(syncAck == "", "C07.R11", wn+" › acknowledgements leave the consuming goroutine", fnPos(r, w), "Conn.Ack is reached only through a go statement",
					"the subscription's consumer goroutine calls Conn.Ack itself at "+syncAck+": with the subscription buffer full and the connection's write channel full of acks, go-stomp's read loop and this goroutine wait for each other — the subscriber (and everything sharing the connection) stops after a burst and later messages are never delivered")
			}
			// ---- R4 ---------------------------------------------------------------
			for _, w := range localCone(w, 1) { // the loop, or the per-message helper its body was moved into
				if w.Object() != nil && w.Object().Exported() {
					continue
				}
				for _, c := range ssax.Calls(w) {
					isAck := false
					for _, t := range r.Resolve(c) {
						if len(ssax.CallsTo(t, "(*github.com/go-stomp/stomp.Conn).Ack")) > 0 {
							isAck = true
						}
					}
					if !isAck {
						continue
					}
					// dominated by the nil edge of the callback's error
					ok := false
					for _, cb := range ssax.Calls(w) {
						if cb.Static != nil || cb.Method != nil {
							continue
						}
						if !ssax.TypeNamed(cb.Common.Value.Type(), "", "FAsyncCallback") {
							continue
						}
						if nb := errNilSuccessor(cb.Instr.Value()); nb != nil && len(nb.Preds) == 1 {
							// the nil *edge*: its target has no other way in (an ack in a block
							// that the error branch can also fall into is not "after success")
							if nb == c.Instr.Block() || nb.Dominates(c.Instr.Block()) {
								ok = true
							}
						}
					}
					ctx.Check(ok, "C07.R4", wn+" › ack only after the callback succeeded", r.IPos(c.Instr), "ack dominated by the err == nil edge of the callback", "a message is acknowledged although its callback failed (or before it ran): the broker will not redeliver it")
				}
			}
		}
		_ = sp
		// ---- R6 -------------------------------------------------------------------
		if tn != "" {
			for _, fn := range r.Fns {
				ssax.Instrs(fn, func(in ssa.Instruction) {
					al, ok := in.(*ssa.Alloc)
					if !ok || !ssax.TypeNamed(al.Type(), "", tn) {
						return
					}
					st := al.Type().Underlying().(*types.Pointer).Elem().Underlying().(*types.Struct)
					for i := 0; i < st.NumFields(); i++ {
						if _, isCh := st.Field(i).Type().Underlying().(*types.Chan); !isCh {
							continue
						}
						fname := st.Field(i).Name()
						var init ssa.Value
						for _, u := range *al.Referrers() {
							if fa, ok := u.(*ssa.FieldAddr); ok && fa.Field == i {
								for _, s := range *fa.Referrers() {
									if sto, ok := s.(*ssa.Store); ok && sto.Addr == ssa.Value(fa) {
										init = ssax.Strip(sto.Val)
									}
								}
							}
						}
						if init == nil {
							continue // made later (e.g. in Subscribe)
						}
						_, isMake := init.(*ssa.MakeChan)
						ctx.Check(isMake, "C07.R6", ssax.Name(fn)+" › new "+tn+"."+fname+" is a fresh channel", r.IPos(al), "make(chan …) for this instance",
							"a subscriber transport instance is built with a channel taken from elsewhere ("+ssax.AddrKey(init)+"): transports of one factory share work/quit channels — messages of one topic reach another topic's handler and one Unsubscribe stops the others")
					}
				})
			}
		}
	}
	_ = token.ADD
}

// dominatedByFieldTest: block b is reached only through an If testing the named field.
func dominatedByFieldTest(b *ssa.BasicBlock, field string) bool {
	for cur := b; cur != nil; cur = cur.Idom() {
		if len(cur.Preds) != 1 {
			continue
		}
		p := cur.Preds[0]
		iff, ok := p.Instrs[len(p.Instrs)-1].(*ssa.If)
		if !ok {
			continue
		}
		c := iff.Cond
		if u, ok := c.(*ssa.UnOp); ok && u.Op == token.NOT {
			c = u.X
		}
		if fieldNameOfValue(c) == field {
			return true
		}
	}
	return false
}

// namedStruct: the struct type behind the named type tn of the runtime package.
func namedStruct(r *RT, tn string) *types.Struct {
	if tn == "" {
		return nil
	}
	obj := r.Pkg.Pkg.Scope().Lookup(tn)
	if obj == nil {
		return nil
	}
	st, _ := obj.Type().Underlying().(*types.Struct)
	return st
}

func sortedKeys(m map[string]bool) []string {
	var out []string
	for k := range m {
		out = append(out, k)
	}
	sort.Strings(out)
	return out
}

package rules

import (
	"go/types"

	"fv/internal/core"
	"fv/internal/ssax"

	"golang.org/x/tools/go/ssa"
)

// c04StreamAndLoop — C04.S9/S10.
//
// S9: the stream decoders read their fixed-size blocks with io.ReadFull; a
// bare Read on the reader may return fewer bytes (sockets, HTTP bodies), the
// rest of the buffer stays zero and the unread tail is taken for payload.
//
// S10: the encoder's loop over the header map writes every pair on every trip
// (the size was computed over all pairs): no trip reaches the next iteration
// without the name/value copies.
func c04StreamAndLoop(ctx *core.Ctx, r *RT, enc *ssa.Function) {
	ctx.Rule("C04.S9", "stream decoder: blocks are read with io.ReadFull, never with a single Read", 1)
	ctx.Rule("C04.S10", "encoder loop: every header pair is written on every trip of the loop over the map", 1)
	n := 0
	for _, name := range []string{"(*v0ProtocolMarshaler).unmarshalHeaders", "readHeader", "(*v0ProtocolMarshaler).unmarshalHeadersFromFrame"} {
		fn := r.FnOpt(name)
		if fn == nil {
			continue
		}
		bad := ""
		reads := 0
		for _, g := range localCone(fn, 2) { // the read may sit in an extracted helper
			for _, c := range ssax.Calls(g) {
				if c.FullName() == "io.ReadFull" || c.FullName() == "io.ReadAtLeast" {
					reads++
					continue
				}
				if c.Method != nil && c.Method.Name() == "Read" {
					// an interface Read on a parameter of reader type
					if _, isIface := c.Common.Value.Type().Underlying().(*types.Interface); isIface {
						bad = r.IPos(c.Instr)
					}
				}
			}
		}
		if reads == 0 && bad == "" {
			continue
		}
		n++
		ctx.Check(bad == "", "C04.S9", ssax.Name(fn)+" › reads through io.ReadFull only", fnPos(r, fn), sprintf("%d io.ReadFull call(s), no bare Read", reads),
			"a block is filled with a single Read at "+bad+": on a short read (socket, HTTP body) the missing bytes stay zero, the header map is truncated or rejected and the unread tail of the headers is taken for the payload")
	}
	if n == 0 {
		ctx.Unresolved("C04.S9", "stream decoders", "no stream read found in the header decoders")
	}
	if enc == nil {
		return
	}
	// S10: range over the parameter map; from the body entry no way back to Next without both copies
	var nx *ssa.Next
	ssax.Instrs(enc, func(in ssa.Instruction) {
		if rg, ok := in.(*ssa.Range); ok && len(enc.Params) > 1 && ssax.Strip(rg.X) == ssa.Value(enc.Params[1]) {
			for _, u := range *rg.Referrers() {
				if x, ok := u.(*ssa.Next); ok {
					nx = x
				}
			}
		}
	})
	if nx == nil {
		ctx.Unresolved("C04.S10", ssax.Name(enc), "no range over the header map")
		return
	}
	var first ssa.Instruction
	for _, u := range *nx.Referrers() {
		if e, ok := u.(*ssa.Extract); ok && e.Index == 0 {
			for _, w := range *e.Referrers() {
				if iff, ok := w.(*ssa.If); ok && len(iff.Block().Succs[0].Instrs) > 0 {
					first = iff.Block().Succs[0].Instrs[0]
				}
			}
		}
	}
	// the copies of this pair: calls to builtin copy whose source is the range key / value
	isCopyOf := func(idx int) ssax.Pred {
		return func(in ssa.Instruction) bool {
			c, ok := ssax.AsCall(in)
			if !ok || c.FullName() != "builtin.copy" && c.FullName() != "copy" || len(c.Args()) < 2 {
				return false
			}
			e, ok := ssax.Strip(c.Args()[1]).(*ssa.Extract)
			return ok && e.Tuple == ssa.Value(nx) && e.Index == idx
		}
	}
	// … or a helper that is handed the name / value and copies it on every path
	direct := isCopyOf
	isCopyOf = func(idx int) ssax.Pred {
		d := direct(idx)
		return func(in ssa.Instruction) bool {
			if d(in) {
				return true
			}
			c, ok := in.(*ssa.Call)
			if !ok {
				return false
			}
			g := c.Call.StaticCallee()
			if g == nil || g.Pkg != enc.Pkg || len(g.Blocks) == 0 || !codecHelper(g) {
				return false
			}
			for i, a := range c.Call.Args {
				e, isE := ssax.Strip(a).(*ssa.Extract)
				if !isE || e.Tuple != ssa.Value(nx) || e.Index != idx || i >= len(g.Params) {
					continue
				}
				q := g.Params[i]
				copies := func(in2 ssa.Instruction) bool {
					c2, ok := ssax.AsCall(in2)
					return ok && c2.FullName() == "builtin.copy" && ssax.Strip(c2.Args()[1]) == ssa.Value(q)
				}
				if ssax.PathFrom(g, nil, ssax.IsReturn, copies) == nil {
					return true
				}
			}
			return false
		}
	}
	back := func(in ssa.Instruction) bool { return in == ssa.Instruction(nx) || ssax.IsReturn(in) }
	ok := first != nil
	why := ""
	for idx, what := range map[int]string{1: "name", 2: "value"} {
		p := isCopyOf(idx)
		if first == nil {
			break
		}
		if !p(first) && ssax.PathFrom(enc, first, back, p) != nil {
			ok, why = false, "a trip can reach the next pair without copying the "+what
		}
	}
	ctx.Check(ok, "C04.S10", ssax.Name(enc)+" › every pair is written on every trip", fnPos(r, enc), "copy(name) and copy(value) on every path through the loop body",
		"the encoder skips some pairs ("+why+") although the size was computed over all of them: the block ends in zero bytes that decode as an extra empty pair or make the peer reject the frame, and the skipped header is lost")
}

// c04ReaderOnlyRead — C04.S11: what the decoder yields is a function of the
// bytes it reads. In the header decoders (and their helpers) a parameter of
// reader type is only read from or handed on: it is never type-asserted to
// something that exposes other properties of the transport (RemainingBytes,
// Len, Flush …) — a rejection that depends on such a property makes the same
// bytes decode on one transport and fail on another.
func c04ReaderOnlyRead(ctx *core.Ctx, r *RT) {
	ctx.Rule("C04.S11", "the decoders depend on their reader only through reading: a reader parameter is never type-asserted to an interface or type that exposes other properties of the transport", 1)
	n := 0
	seen := map[*ssa.Function]bool{}
	for _, name := range []string{"(*v0ProtocolMarshaler).unmarshalHeaders", "readHeader", "(*v0ProtocolMarshaler).unmarshalHeadersFromFrame", "(*FProtocol).ReadRequestHeader", "(*FProtocol).ReadResponseHeader"} {
		fn := r.FnOpt(name)
		if fn == nil {
			continue
		}
		for _, g := range localCone(fn, 2) {
			if seen[g] {
				continue
			}
			seen[g] = true
			for _, c := range ssax.Calls(g) {
				if c.ShortName() == "RemainingBytes" {
					ctx.Check(false, "C04.S11", ssax.Name(g)+" › no RemainingBytes() in the decoders", r.IPos(c.Instr), "",
						"the decoder consults RemainingBytes() of the transport: buffered, compressed and framed transports report different values for the same stream, so whether a written header map is read back depends on the transport and not on the bytes")
				}
			}
			for _, p := range g.Params {
				it, isIface := p.Type().Underlying().(*types.Interface)
				if !isIface || !hasMethod(it, "Read") {
					continue
				}
				n++
				bad := ""
				var walk func(v ssa.Value, d int)
				walk = func(v ssa.Value, d int) {
					if v.Referrers() == nil || d > 4 {
						return
					}
					for _, u := range *v.Referrers() {
						switch x := u.(type) {
						case *ssa.ChangeInterface:
							walk(x, d+1)
						case *ssa.MakeInterface:
							walk(x, d+1)
						case *ssa.Phi:
							walk(x, d+1)
						case *ssa.TypeAssert:
							if ai, ok := x.AssertedType.Underlying().(*types.Interface); ok {
								for i := 0; i < ai.NumMethods(); i++ {
									switch ai.Method(i).Name() {
									case "Read", "ReadByte", "ReadAt", "ReadFrom", "WriteTo", "Close":
									default:
										bad = r.IPos(x) + ": asserted to an interface with " + ai.Method(i).Name() + "()"
									}
								}
							} else {
								bad = r.IPos(x) + ": asserted to " + x.AssertedType.String()
							}
						}
					}
				}
				walk(p, 0)
				ctx.Check(bad == "", "C04.S11", ssax.Name(g)+" › reader parameter "+p.Name()+" is only read", fnPos(r, g), "no type assertion beyond reading",
					"the decoder inspects the transport behind its reader ("+bad+"): whether a block of headers decodes then depends on the transport (buffered, compressed and framed transports report different values) and not on the bytes written, so a written header map is not read back from every stream")
			}
		}
	}
	if n == 0 {
		ctx.Unresolved("C04.S11", "stream decoders", "no header decoder with a reader parameter found")
	}
}

func hasMethod(it *types.Interface, name string) bool {
	for i := 0; i < it.NumMethods(); i++ {
		if it.Method(i).Name() == name {
			return true
		}
	}
	return false
}

// c04DecoderPurity — C04.S13/S14.
//
// S13: the header block is a sequence of length-prefixed *byte strings* — any
// byte content reads back. No branch of a function that decodes pairs depends
// on the content of a decoded name or value (a UTF-8 check, a character test):
// only lengths, positions and read errors decide a rejection.
//
// S14: what a decoder returns is the map of this block alone: every map a
// header decoder returns is made by that call (or returned by another decoder
// of the package) — never a package-level or cached map, which the callers
// that merge into the decoded map (addHeadersToFrame) would fill for everybody.
func c04DecoderPurity(ctx *core.Ctx, r *RT) {
	ctx.Rule("C04.S13", "any byte content reads back: no branch of a pair decoder depends on the content of a decoded header name or value", 1)
	ctx.Rule("C04.S14", "every header decoder returns a map made by that call (or by another decoder it calls)", 3)
	var decoders []*ssa.Function
	for _, fn := range r.Fns {
		if fn.Pkg == r.Pkg && returnsHeaderMap(fn) && fn.Signature.Results().At(0).Type().String() == "map[string]string" && fn.Parent() == nil {
			decoders = append(decoders, fn)
		}
	}
	isDecoder := map[*ssa.Function]bool{}
	for _, d := range decoders {
		isDecoder[d] = true
	}
	fromDecoders := func(c ssax.Call) bool {
		ts := r.Resolve(c)
		if c.Static != nil {
			ts = []*ssa.Function{c.Static}
		}
		if len(ts) == 0 {
			return false
		}
		for _, t := range ts {
			if !isDecoder[t] {
				return false
			}
		}
		return true
	}
	n13 := 0
	for _, fn := range decoders {
		// S14
		bad := ""
		for ret, vs := range ReturnedValues(fn) {
			v := ssax.Strip(vs[0])
			if k, isK := v.(*ssa.Const); isK && k.IsNil() {
				continue
			}
			switch x := v.(type) {
			case *ssa.MakeMap:
				if x.Parent() == fn {
					continue
				}
			case *ssa.Extract:
				if c, ok := CallValue(x.Tuple); ok && fromDecoders(c) {
					continue
				}
			case *ssa.Phi:
				okAll := true
				for _, e := range x.Edges {
					e = ssax.Strip(e)
					if k, isK := e.(*ssa.Const); isK && k.IsNil() {
						continue
					}
					if mm, isMM := e.(*ssa.MakeMap); isMM && mm.Parent() == fn {
						continue
					}
					if ex, isEx := e.(*ssa.Extract); isEx {
						if c, ok := CallValue(ex.Tuple); ok && fromDecoders(c) {
							continue
						}
					}
					okAll = false
				}
				if okAll {
					continue
				}
			}
			bad = r.IPos(ret) + ": returns " + v.String()
		}
		ctx.Check(bad == "", "C04.S14", ssax.Name(fn)+" › returns a map of its own", fnPos(r, fn), "make(map) in the decoder, or the result of another decoder",
			"the decoder hands out a map it did not make for this call ("+bad+"): the callers that add to a decoded map (addHeadersToFrame merges the new headers into it) fill the shared map, and every later decode of such a block returns headers that were never on the wire")
		// S13 — the conversions may sit in an extracted helper (readString): the cone of
		// the decoder is examined, and what such a helper returns is content in its caller
		cone := localCone(fn, 2)
		contentOf := map[*ssa.Function][]ssa.Value{}
		returnsContent := map[*ssa.Function]bool{}
		total := 0
		for round := 0; round < 2; round++ {
			for _, g := range cone {
				var content []ssa.Value
				ssax.Instrs(g, func(in ssa.Instruction) {
					if cv, ok := in.(*ssa.Convert); ok {
						if b, isB := cv.Type().Underlying().(*types.Basic); isB && b.Kind() == types.String {
							if _, fromSlice := cv.X.Type().Underlying().(*types.Slice); fromSlice {
								content = append(content, cv)
							}
						}
					}
					if call, ok := in.(*ssa.Call); ok {
						if h := call.Call.StaticCallee(); h != nil && returnsContent[h] {
							// only the string result(s) are content — not the offset or the error
							// handed back next to them
							if _, isTuple := call.Type().(*types.Tuple); isTuple {
								for _, u := range *call.Referrers() {
									if ex, ok := u.(*ssa.Extract); ok {
										if b, isB := ex.Type().Underlying().(*types.Basic); isB && b.Kind() == types.String {
											content = append(content, ex)
										}
									}
								}
							} else {
								content = append(content, call)
							}
						}
					}
				})
				contentOf[g] = content
				if g != fn {
					for _, vs := range ReturnedValues(g) {
						for _, v := range vs {
							if b, isB := v.Type().Underlying().(*types.Basic); !isB || b.Kind() != types.String {
								continue
							}
							for _, cv := range content {
								if dependsOn(v, cv, 0) {
									returnsContent[g] = true
								}
							}
						}
					}
				}
			}
		}
		badC := ""
		for _, g := range cone {
			total += len(contentOf[g])
			for _, b := range g.Blocks {
				if len(b.Instrs) == 0 {
					continue
				}
				iff, ok := b.Instrs[len(b.Instrs)-1].(*ssa.If)
				if !ok {
					continue
				}
				for _, cv := range contentOf[g] {
					if dependsOn(iff.Cond, cv, 0) {
						badC = r.IPos(iff)
					}
				}
			}
		}
		if total == 0 {
			continue
		}
		n13++
		content := make([]ssa.Value, total)
		ctx.Check(badC == "", "C04.S13", ssax.Name(fn)+" › no branch on the content of a decoded string", fnPos(r, fn), sprintf("%d decoded string(s), no condition depends on them", len(content)),
			"a branch at "+badC+" depends on the bytes of a decoded header name or value (e.g. a UTF-8 validity test): a header map with such content, which the writer encodes without complaint, is rejected on reading — what was written does not read back")
	}
	if n13 == 0 {
		ctx.Unresolved("C04.S13", "pair decoder", "no decoder converting bytes to header strings found")
	}
}

package rules

import (
	"go/token"

	"fv/internal/core"
	"fv/internal/ssax"

	"golang.org/x/tools/go/ssa"
)

// opIDOnlyOnFresh — the request op id of a context is written while the context
// is being built (NewFContext, Clone, ReadRequestHeader) and never afterwards:
// Register reads it when a request starts and the deferred Unregister reads it
// again when the request ends. Code that stamps a new op id on a context it was
// handed (a "hardening" for context reuse in prepareMessage, say) changes the
// key between the two: the first of two overlapping calls on one context then
// unregisters the second one's channel and leaves its own behind — the second
// call's response is dropped as "unregistered context".
//
// registryOnlyAtConstruction — likewise the registry of a transport is the one
// it was constructed with: a store to the registry field of a live transport
// (in Open, say) orphans every request registered before it.
func opIDOnlyOnFresh(ctx *core.Ctx, r *RT, rule, opid string) {
	ctx.Rule(rule, "the request op id is written only while a context is being built: every assignment of _opid to request headers targets an object allocated by the assigning function", 3)
	n := 0
	fresh := func(v ssa.Value) bool {
		v = ssax.Strip(v)
		if mi, ok := v.(*ssa.MakeInterface); ok {
			v = ssax.Strip(mi.X)
		}
		return FreshBase(v)
	}
	for _, fn := range r.Fns {
		ord := 0
		for _, c := range ssax.Calls(fn) {
			name := c.ShortName()
			if name != "AddRequestHeader" && name != "setRequestOpID" {
				continue
			}
			var recv ssa.Value
			args := c.Common.Args
			if c.Method != nil {
				recv = c.Common.Value
			} else if len(args) > 0 {
				recv = args[0]
				args = args[1:]
			}
			if name == "AddRequestHeader" {
				if len(args) == 0 {
					continue
				}
				k, ok := ssax.Strip(args[0]).(*ssa.Const)
				if !ok || k.Value == nil || k.Value.ExactString() != `"`+opid+`"` {
					continue
				}
			}
			if fn.Name() == "setRequestOpID" {
				continue // the helper itself: judged at its call sites
			}
			n++
			ord++
			ctx.Check(recv != nil && fresh(recv), rule, ssax.Name(fn)+sprintf(" › op-id assignment #%d is made to a context under construction", ord), r.IPos(c.Instr), "the receiver is an allocation of this function",
				"a context that was handed in gets a new request op id: a request registered under the old id is unregistered under the new one — with two overlapping calls on one context the first to finish removes the other's registration and the other's response is dropped")
		}
		ssax.Instrs(fn, func(in ssa.Instruction) {
			mu, ok := in.(*ssa.MapUpdate)
			if !ok {
				return
			}
			k, ok := ssax.Strip(mu.Key).(*ssa.Const)
			if !ok || k.Value == nil || k.Value.ExactString() != `"`+opid+`"` {
				return
			}
			ld, ok := ssax.Strip(mu.Map).(*ssa.UnOp)
			if !ok || ld.Op != token.MUL || fieldNameOfAddr(ld.X) != "requestHeaders" {
				return
			}
			fa, ok := ld.X.(*ssa.FieldAddr)
			if !ok {
				return
			}
			n++
			ord++
			ctx.Check(FreshBase(fa.X), rule, ssax.Name(fn)+sprintf(" › op-id assignment #%d is made to a context under construction", ord), r.IPos(in), "the context is an allocation of this function",
				"the request op id of an existing context is overwritten")
		})
	}
	if n == 0 {
		ctx.Unresolved(rule, "op-id assignments", "no assignment of the request op id found")
	}
}

func registryOnlyAtConstruction(ctx *core.Ctx, r *RT, rule string) {
	ctx.Rule(rule, "a transport keeps the registry it was constructed with: the registry field is stored only into an object under construction", 2)
	n := 0
	for _, fn := range r.Fns {
		ord := 0
		ssax.Instrs(fn, func(in ssa.Instruction) {
			st, ok := in.(*ssa.Store)
			if !ok {
				return
			}
			fa, ok := st.Addr.(*ssa.FieldAddr)
			if !ok || !ssax.TypeNamed(st.Val.Type(), "", "fRegistry") {
				return
			}
			n++
			ord++
			ctx.Check(FreshBase(fa.X), rule, ssax.Name(fn)+sprintf(" › registry store #%d initialises a new transport", ord), r.IPos(in), "the transport is an allocation of this function",
				"the registry of a live transport is replaced ("+ssax.Name(fn)+"): requests registered before the replacement are looked up in the new, empty registry — their responses are dropped as unregistered and the callers wait for their timeouts")
		})
	}
	if n == 0 {
		ctx.Unresolved(rule, "registry stores", "no store of an fRegistry into a transport found")
	}
}

var _ = core.Ctx{}

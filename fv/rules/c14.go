package rules

import (
	"go/types"
	"strings"

	"fv/internal/core"
	"fv/internal/ssax"

	"golang.org/x/tools/go/ssa"
)

// heldAtEntry computes, for unexported functions of the package, whether a
// lock with the given field name is held at every call site (so the callee
// may assume it), iterating to a fixpoint.
func heldAtEntry(r *RT, field string) map[*ssa.Function]bool {
	held := map[*ssa.Function]bool{}
	// optimistic start for unexported functions that have at least one in-package caller
	callers := map[*ssa.Function][]ssax.Call{}
	callerFn := map[ssa.CallInstruction]*ssa.Function{}
	for _, fn := range r.Fns {
		for _, c := range ssax.Calls(fn) {
			if c.Static != nil && c.Static.Pkg == r.Pkg {
				callers[c.Static] = append(callers[c.Static], c)
				callerFn[c.Instr] = fn
			}
		}
	}
	for fn, cs := range callers {
		if fn.Object() != nil && !fn.Object().Exported() && len(cs) > 0 {
			held[fn] = true
		}
	}
	for iter := 0; iter < 10; iter++ {
		changed := false
		for fn := range held {
			if !held[fn] {
				continue
			}
			for _, c := range callers[fn] {
				cf := callerFn[c.Instr]
				entry := ssax.LockSet{}
				if held[cf] {
					entry["·."+field] = 'W'
				}
				ls := ssax.LockSets(cf, entry)[c.Instr.(ssa.Instruction)]
				if _, isGo := c.Instr.(*ssa.Go); isGo || !ls.Holds(field, true) {
					held[fn] = false
					changed = true
				}
			}
		}
		if !changed {
			break
		}
	}
	return held
}

// C14 — the server answers every two-way request exactly once with a well-formed reply.
// nilToNil: an error filter returns nil (or the error itself) on the edge where
// its error parameter is nil.
func nilToNil(g *ssa.Function) bool {
	for _, p := range g.Params {
		if !isErrorType(p.Type()) {
			continue
		}
		succ := errNilSuccessor(p)
		if succ == nil {
			continue
		}
		for ret, vs := range ReturnedValues(g) {
			if ret.Block() != succ && !succ.Dominates(ret.Block()) {
				continue
			}
			if nilErrorReturn(ret) || (len(vs) == 1 && ssax.Strip(vs[0]) == ssa.Value(p)) {
				return true
			}
		}
	}
	return false
}

func C14(ctx *core.Ctx) {
	ctx.Explanation = "Decides the runtime-side structure behind 'exactly one well-formed reply': every write/flush on the output protocol in the processor runtime happens with the processor's write mutex held (helpers are only called with it held), the mutex is released on every exit and never re-acquired by a callee; " +
		"the unknown-method branch consumes the arguments (Skip + ReadMessageEnd) and then writes exactly one EXCEPTION/UNKNOWN_METHOD message (response header ≺ message begin ≺ body ≺ message end ≺ flush) carrying the request's context; SendReply/sendError write their message in that order exactly once; " +
		"NATS and HTTP servers build their input/output buffers per message; Process returns nil after a handler error so the connection loop continues. The generated per-method processors are checked by C03/C14 rules over generated code (GEN). Not decided: runtime interleavings, replies parsing back on a client."
	r := LoadRT(ctx, "", "")
	if !r.OK() {
		return
	}
	fullReads(ctx, r, "C14.R16")
	ctx.Rule("C14.R1", "write mutex: every output-protocol write/flush of the processor runtime happens with writeMu held; released on all exits; not re-acquired by a callee", 14)
	ctx.Rule("C14.R3", "exactly one reply: unknown-method branch consumes the arguments then writes exactly one EXCEPTION(UNKNOWN_METHOD) message in protocol order; SendReply/sendError write one message in order", 3)
	ctx.Rule("C14.R5", "per-message buffers: NATS processFrame and the HTTP handler allocate the protocols' transports per invocation", 4)
	ctx.Rule("C14.R6", "the connection continues: FBaseProcessor.Process returns nil after a handler error; the simple server's accept loop exits only on error", 2)

	held := heldAtEntry(r, "writeMu")
	// ---- R1 ---------------------------------------------------------------------
	var procFns []*ssa.Function
	for _, fn := range r.Fns {
		if fn.Signature.Recv() == nil {
			continue
		}
		rt := fn.Signature.Recv().Type()
		if ssax.TypeNamed(rt, "", "FBaseProcessor") || ssax.TypeNamed(rt, "", "FBaseProcessorFunction") {
			procFns = append(procFns, fn)
		}
	}
	// writing helpers of the processor runtime that are plain functions: unexported, handed
	// the output protocol, and called from the processor methods only (e.g. a shared writeMessage)
	{
		isProc := map[*ssa.Function]bool{}
		for _, f := range procFns {
			isProc[f] = true
		}
		for round := 0; round < 2; round++ {
			for _, fn := range r.Fns {
				if isProc[fn] || fn.Signature.Recv() != nil || fn.Object() == nil || fn.Object().Exported() || fn.Parent() != nil {
					continue
				}
				hasProto := false
				for _, p := range fn.Params {
					if ssax.TypeNamed(p.Type(), "", "FProtocol") {
						hasProto = true
					}
				}
				if !hasProto {
					continue
				}
				callers, all := 0, true
				for _, g := range r.Fns {
					for _, c := range ssax.Calls(g) {
						if c.Static == fn {
							callers++
							if !isProc[g] {
								all = false
							}
						}
					}
				}
				if callers > 0 && all {
					isProc[fn] = true
					procFns = append(procFns, fn)
				}
			}
		}
	}
	for _, fn := range procFns {
		entry := ssax.LockSet{}
		if held[fn] {
			entry["·.writeMu"] = 'W'
		}
		locks := ssax.LockSets(fn, entry)
		// output protocol = the *FProtocol parameter named like the second protocol or the only one after fctx
		outs := map[ssa.Value]bool{}
		var protos []*ssa.Parameter
		for _, p := range fn.Params {
			if ssax.TypeNamed(p.Type(), "", "FProtocol") {
				protos = append(protos, p)
			}
		}
		if len(protos) == 0 {
			continue
		}
		outs[protos[len(protos)-1]] = true // (iprot, oprot) or (oprot)
		n := 0
		ssax.Instrs(fn, func(in ssa.Instruction) {
			c, ok := ssax.AsCall(in)
			if !ok {
				return
			}
			p, op := protoOp(c)
			if p == nil || !outs[p] {
				return
			}
			if !(strings.HasPrefix(op, "Write") || op == "Flush" || op == "body.Write") {
				return
			}
			n++
			how := "writeMu held"
			if held[fn] {
				how = "helper only called with writeMu held (all call sites checked)"
			}
			ctx.Check(locks[in].Holds("writeMu", true), "C14.R1", ssax.Name(fn)+" › "+op+sprintf(" #%d", n)+" on the output protocol", r.IPos(in), how,
				"a write on the shared output protocol without the processor's write mutex: replies of concurrently processed requests interleave and corrupt each other")
		})
	}
	lockBalance(ctx, r, "C14.R1", "FBaseProcessor", "FBaseProcessorFunction")
	ctx.Rule("C14.R7", "an oversize reply is answered with RESPONSE_TOO_LARGE, never dropped: the NATS server's reply buffer is bounded by the payload size the broker accepts", 1)
	natsReplyBufferLimit(ctx, r, "C14.R7")
	noDoubleAcquire(ctx, r, "C14.R1", "FBaseProcessor", "FBaseProcessorFunction")

	// ---- R3 ---------------------------------------------------------------------
	proc := r.Fn("C14.R3", "(*FBaseProcessor).Process")
	if proc != nil {
		pn := ssax.Name(proc)
		iprot, oprot := proc.Params[1], proc.Params[2]
		// the processMap lookup and its miss edge
		var lk *ssa.Lookup
		ssax.Instrs(proc, func(in ssa.Instruction) {
			if l, ok := in.(*ssa.Lookup); ok && l.CommaOk && fieldNameOfAddr(l.X) == "processMap" {
				lk = l
			}
		})
		if lk == nil {
			ctx.Unresolved("C14.R3", "processMap lookup", "Process does not look the method up in processMap")
		} else {
			// C03.R5-like: key is the name read by ReadMessageBegin on iprot
			var miss *ssa.BasicBlock
			for _, u := range *lk.Referrers() {
				if e, ok := u.(*ssa.Extract); ok && e.Index == 1 {
					for _, u2 := range *e.Referrers() {
						if iff, ok := u2.(*ssa.If); ok {
							miss = iff.Block().Succs[1]
						}
					}
				}
			}
			if miss == nil || len(miss.Instrs) == 0 {
				ctx.Violate("C14.R3", pn+" › unknown-method branch", r.IPos(lk), "no miss branch")
			} else {
				from := miss.Instrs[0]
				// fctx = extract0(ReadRequestHeader(iprot))
				var fctx ssa.Value
				for _, c := range ssax.Calls(proc) {
					if p, op := protoOp(c); op == "ReadRequestHeader" && p == ssa.Value(iprot) {
						for _, u := range *c.Instr.Value().Referrers() {
							if e, ok := u.(*ssa.Extract); ok && e.Index == 0 {
								fctx = e
							}
						}
					}
				}
				// the same objects as seen from an extracted helper
				iprotA, oprotA := valueAliases(iprot), valueAliases(oprot)
				fctxA := map[ssa.Value]bool{}
				if fctx != nil {
					fctxA = valueAliases(fctx)
				}
				isSkip := func(in ssa.Instruction) bool {
					c, ok := ssax.AsCall(in)
					if !ok {
						return false
					}
					p, op := protoOp(c)
					if op != "Skip" || !iprotA[p] {
						return false
					}
					k, isC := ssax.ConstInt(c.Common.Args[len(c.Common.Args)-1])
					return isC && k == 12 // thrift.STRUCT
				}
				isHdr := func(in ssa.Instruction) bool {
					c, ok := ssax.AsCall(in)
					if !ok {
						return false
					}
					p, op := protoOp(c)
					return op == "WriteResponseHeader" && oprotA[p] && fctx != nil && fctxA[ssax.Strip(c.Common.Args[1])]
				}
				isBegin := func(in ssa.Instruction) bool {
					c, ok := ssax.AsCall(in)
					if !ok {
						return false
					}
					p, op := protoOp(c)
					if op != "WriteMessageBegin" || !oprotA[p] {
						return false
					}
					// (ctx, name, EXCEPTION=3, seq)
					k, isC := ssax.ConstInt(argThrough(proc, c.Common.Args[2]))
					return isC && k == 3
				}
				isBody := func(in ssa.Instruction) bool {
					c, ok := ssax.AsCall(in)
					if !ok {
						return false
					}
					p, op := protoOp(c)
					if op != "body.Write" || !oprotA[p] {
						return false
					}
					// receiver is NewTApplicationException(UNKNOWN_METHOD, …)
					recv := argThrough(proc, c.Args()[0])
					k, isEx := ExceptionKind(recv, "thrift.NewTApplicationException")
					return isEx && k == constInt(r, "APPLICATION_EXCEPTION_UNKNOWN_METHOD")
				}
				steps := []seqStep{
					{"Skip(STRUCT) of the arguments", isSkip},
					{"ReadMessageEnd", protoStep(iprot, "ReadMessageEnd")},
					{"WriteResponseHeader(request's fctx)", isHdr},
					{"WriteMessageBegin(EXCEPTION)", isBegin},
					{"TApplicationException(UNKNOWN_METHOD).Write", isBody},
					{"WriteMessageEnd", protoStep(oprot, "WriteMessageEnd")},
					{"Flush", protoStep(oprot, "Flush")},
				}
				checkSequence(ctx, r, "C14.R3", pn+" › unknown-method reply", proc, from, steps, successReturn)
			}
			// R6: hit edge returns nil whatever the processor function returned
			okNil := true
			n := 0
			for ret := range ReturnedValues(proc) {
				var hit *ssa.BasicBlock
				for _, u := range *lk.Referrers() {
					if e, ok := u.(*ssa.Extract); ok && e.Index == 1 {
						for _, u2 := range *e.Referrers() {
							if iff, ok := u2.(*ssa.If); ok {
								hit = iff.Block().Succs[0]
							}
						}
					}
				}
				if hit != nil && (hit == ret.Block() || hit.Dominates(ret.Block())) {
					n++
					if !nilErrorReturn(ret) {
						okNil = false
					}
				}
			}
			ctx.Check(okNil && n > 0, "C14.R6", pn+" › returns nil after the processor function ran", fnPos(r, proc), "every return on the known-method edge returns nil", "a handler error is propagated out of Process: the server loop closes the connection for a request that was already answered")
		}
	}
	// SendReply / sendError message order
	if sr := r.Fn("C14.R3", "(*FBaseProcessorFunction).SendReply"); sr != nil {
		var op *ssa.Parameter
		for _, p := range sr.Params {
			if ssax.TypeNamed(p.Type(), "", "FProtocol") {
				op = p
			}
		}
		fctx := sr.Params[1]
		opA, fctxA := valueAliases(op), valueAliases(fctx) // the same objects as seen from extracted helpers
		isHdr := func(in ssa.Instruction) bool {
			c, ok := ssax.AsCall(in)
			if !ok {
				return false
			}
			p, o := protoOp(c)
			return o == "WriteResponseHeader" && opA[p] && fctxA[ssax.Strip(c.Common.Args[1])]
		}
		isBegin := func(in ssa.Instruction) bool {
			c, ok := ssax.AsCall(in)
			if !ok {
				return false
			}
			p, o := protoOp(c)
			if o != "WriteMessageBegin" || !opA[p] {
				return false
			}
			k, isC := ssax.ConstInt(argThrough(sr, c.Common.Args[2]))
			return isC && k == 2 // REPLY
		}
		steps := []seqStep{{"WriteResponseHeader(fctx)", isHdr}, {"WriteMessageBegin(REPLY)", isBegin}, {"result.Write", protoStep(op, "body.Write")},
			{"WriteMessageEnd", protoStep(op, "WriteMessageEnd")}, {"Flush", protoStep(op, "Flush")}}
		// success = return nil not through trapError: the final return nil
		trap := r.roleTrapError()
		goal := func(ret *ssa.Return) bool {
			if nilErrorReturn(ret) {
				v := ssax.Strip(ResolveLocal(ret.Results[0]))
				_, isConst := v.(*ssa.Const)
				return isConst
			}
			// `return trapError(…, writeReply(…))`: the error filter is handed the
			// untested result of the writing helper and maps nil to nil
			c, ok := ssax.Strip(ResolveLocal(ret.Results[0])).(*ssa.Call)
			if !ok || trap == nil || c.Call.StaticCallee() != trap || !nilToNil(trap) {
				return false
			}
			for _, a := range c.Call.Args {
				if w, isCall := ssax.Strip(a).(*ssa.Call); isCall && isErrorType(w.Type()) {
					tested := false
					for _, u := range *w.Referrers() {
						if _, isB := u.(*ssa.BinOp); isB {
							tested = true
						}
					}
					if g := w.Call.StaticCallee(); g != nil && g.Pkg == r.Pkg && !tested {
						return true
					}
				}
			}
			return false
		}
		// what the error filter writes (the too-large reply) is C12's subject
		checkSequence(ctx, r, "C14.R3", ssax.Name(sr)+" › reply message", sr, nil, steps, goal, trap)
	}
	if se := r.roleSendError(); se != nil {
		var op *ssa.Parameter
		var fctx *ssa.Parameter
		for _, p := range se.Params {
			if ssax.TypeNamed(p.Type(), "", "FProtocol") {
				op = p
			}
			if ssax.TypeNamed(p.Type(), "", "FContext") {
				fctx = p
			}
		}
		opA := valueAliases(op) // the same objects as seen from an extracted writing helper
		fctxA := map[ssa.Value]bool{}
		if fctx != nil {
			fctxA = valueAliases(fctx)
		}
		isHdr := func(in ssa.Instruction) bool {
			c, ok := ssax.AsCall(in)
			if !ok {
				return false
			}
			p, o := protoOp(c)
			return o == "WriteResponseHeader" && opA[p] && fctx != nil && fctxA[ssax.Strip(c.Common.Args[1])]
		}
		isBegin := func(in ssa.Instruction) bool {
			c, ok := ssax.AsCall(in)
			if !ok {
				return false
			}
			p, o := protoOp(c)
			if o != "WriteMessageBegin" || !opA[p] {
				return false
			}
			k, isC := ssax.ConstInt(argThrough(se, c.Common.Args[2]))
			return isC && k == 3
		}
		steps := []seqStep{{"WriteResponseHeader(fctx)", isHdr}, {"WriteMessageBegin(EXCEPTION)", isBegin}, {"exception.Write", protoStep(op, "body.Write")},
			{"WriteMessageEnd", protoStep(op, "WriteMessageEnd")}, {"Flush", protoStep(op, "Flush")}}
		checkSequence(ctx, r, "C14.R3", ssax.Name(se)+" › exception message", se, nil, steps, func(*ssa.Return) bool { return true })
	}

	if cc := LoadCC(ctx); cc.OK() {
		c14WireNames(ctx, cc)
	}
	ctx.Rule("C14.R8", "a truncated request does not desynchronise the connection: the simple server's framed reader counts every byte it consumes, so the next request is decoded from its own frame", 1)
	if rd := r.FnOpt("(*TFramedTransport).Read"); rd != nil {
		framedReadAccounting(ctx, r, rd, "C14.R8")
	}
	// ---- R5 ---------------------------------------------------------------------
	perMessageTransports(ctx, r, "C14.R5")
	ctx.Rule("C14.R10", "the EXCEPTION reply carries the handler's own exception: kind and message go from SendError to the constructed TApplicationException unchanged", 2)
	errorKindFidelity(ctx, r, "C14.R10")
	ctx.Rule("C14.R11", "every accepted connection / received message is served by a goroutine of its own with its own value: goroutines started in a loop capture per-iteration variables only", 1)
	c03LoopCapture(ctx, r, "C14.R11")
	ctx.Rule("C14.R12", "every request frame on a connection is answered: the buffering frame decoder of a serving loop is built once per connection, not per request (read-ahead of a pipelined request would be discarded with it)", 1)
	decoderPerLoop(ctx, r, "C14.R12")
	// handler closures run concurrently, once per message: they must not write storage captured from the enclosing function
	hs := httpHandlers(r)
	for h := range msgHandlers(r) {
		hs = append(hs, h)
	}
	for _, h := range hs {
		if h.Parent() == nil {
			continue
		}
		bad := sharedMutableCaptures(h)
		ctx.Check(len(bad) == 0, "C14.R5", ssax.Name(h)+" › handler closure writes no captured buffer", fnPos(r, h), "no slice/map/buffer captured from the enclosing function is written",
			sprintf("the per-request handler writes storage captured from its enclosing function (%v): concurrent requests share it and corrupt each other's replies", bad))
	}
	// ---- R6 accept loop -----------------------------------------------------------
	if acc := r.Fn("C14.R6", "(*FSimpleServer).accept"); acc != nil {
		// every return is dominated by a test of the error returned by Process (err != nil or EOF type test)
		ok := true
		var procCall ssa.Value
		for _, c := range ssax.Calls(acc) {
			if c.Method != nil && c.Method.Name() == "Process" {
				procCall = c.Instr.Value()
			}
		}
		if procCall == nil || !inCycle(procCall.(ssa.Instruction)) {
			ok = false
		} else {
			for ret := range ReturnedValues(acc) {
				if !procCall.(ssa.Instruction).Block().Dominates(ret.Block()) {
					ok = false
				}
				// a return reached with err == nil would end the connection after a good request
				if nilErrorReturn(ret) {
					// must be the EOF branch: dominated by a typeassert on the error
					hasTA := false
					for b := ret.Block(); b != nil; b = b.Idom() {
						for _, in := range b.Instrs {
							if ta, isTA := in.(*ssa.TypeAssert); isTA && ssax.Strip(ta.X) == procCall {
								hasTA = true
							}
						}
					}
					if !hasTA && !underEOFTest(ret.Block()) { // … or by a predicate of the package that makes that test
						ok = false
					}
				}
			}
		}
		ctx.Check(ok, "C14.R6", ssax.Name(acc)+" › loop ends only on a transport/processing error", fnPos(r, acc), "Process is called in a loop; returns are on error edges (EOF ⇒ nil)", "the per-connection loop can end after a successfully processed request")
	}
	_ = types.Typ
}

// perMessageTransports: every server-side message handler (a function that
// calls FProcessor.Process outside a loop of its own) builds its protocols on
// transports allocated for that message.
func perMessageTransports(ctx *core.Ctx, r *RT, rule string) {
	for _, fn := range r.Fns {
		for _, c := range ssax.Calls(fn) {
			if c.Static == nil || ssax.Name(c.Static) != "(*FProtocolFactory).GetProtocol" {
				continue
			}
			// only server-side per-message sites: functions that call FProcessor.Process
			isServer := false
			for _, c2 := range ssax.Calls(fn) {
				if c2.Method != nil && c2.Method.Name() == "Process" && ssax.TypeNamed(c2.Common.Value.Type(), "", "FProcessor") {
					isServer = true
				}
			}
			if !isServer || inCycle(c.Instr.(ssa.Instruction)) {
				continue
			}
			// connection-oriented server (accept) builds its protocols once per connection: that is its design
			tr := ssax.Strip(c.Common.Args[1])
			fresh := false
			detail := "a server handler builds its protocol on a transport that outlives the invocation (field/global): concurrent or successive messages share a buffer"
			switch x := tr.(type) {
			case *ssa.Alloc:
				fresh = true
				// … a wrapper literal around a buffer: the buffer must be this invocation's too
				for _, u := range *x.Referrers() {
					fa, isFA := u.(*ssa.FieldAddr)
					if !isFA || fa.Referrers() == nil {
						continue
					}
					for _, w := range *fa.Referrers() {
						st, isSt := w.(*ssa.Store)
						if !isSt || st.Addr != ssa.Value(fa) {
							continue
						}
						if _, isPtr := st.Val.Type().Underlying().(*types.Pointer); !isPtr {
							continue
						}
						v := ssax.Strip(st.Val)
						if ta, isTA := v.(*ssa.TypeAssert); isTA {
							v = ssax.Strip(ta.X)
						}
						switch y := v.(type) {
						case *ssa.Alloc:
						case *ssa.Call:
							if cy, _ := ssax.AsCall(y); !(cy.Static != nil && strings.HasPrefix(cy.Static.Name(), "New")) && cy.FullName() != "bytes.NewBuffer" && cy.FullName() != "bytes.NewBufferString" {
								fresh = false
								detail = "the buffer inside the transport comes from " + cy.FullName() + " (a pool or a shared holder), not from this invocation: whatever an earlier request left in it — a reply that was rejected as too large, a reply of a failed request — is sent out in front of this request's reply, so the caller receives another caller's op id, headers and result"
							}
						default:
							fresh = false
							detail = "the buffer inside the transport (" + v.String() + ") is not allocated by this invocation: concurrent or successive requests share it"
						}
					}
				}
			case *ssa.Call:
				cc, _ := ssax.AsCall(x)
				fresh = cc.Static != nil && strings.HasPrefix(cc.Static.Name(), "New")
				if cc.FullName() == "github.com/apache/thrift/lib/go/thrift.NewStreamTransportR" {
					fresh = true
				}
			case *ssa.Parameter:
				fresh = true // per-connection transport handed in by the accept loop
				// … but not a buffer its caller allocates once and hands to every iteration of its message loop
				for pi, q := range fn.Params {
					if q != x {
						continue
					}
					for _, caller := range r.Fns {
						for _, c3 := range ssax.Calls(caller) {
							if c3.Static != fn || pi >= len(c3.Common.Args) || !inCycle(c3.Instr.(ssa.Instruction)) {
								continue
							}
							if def, isIn := ssax.Strip(c3.Common.Args[pi]).(ssa.Instruction); isIn && def.Parent() == caller && !inCycle(def) {
								fresh = false
								detail = "the transport is allocated once by " + ssax.Name(caller) + " and handed to every iteration of its message loop: what one message leaves behind in it (unread input after a request that was not fully consumed, an unpublished reply) is seen by the next message on that worker"
							}
						}
					}
				}
			}
			ctx.Check(fresh, rule, ssax.Name(fn)+sprintf(" › protocol transport #%d is per invocation", callOrdinal(fn, c)), r.IPos(c.Instr),
				"transport allocated in this invocation", detail)
		}
	}
}

// c14WireNames — C14.R9. The generated processor registers a method under
// LowercaseFirstLetter(name), the generated client sends and checks that
// spelling, and every reply — REPLY or EXCEPTION — must carry it: the client
// rejects anything else with "wrong method name". In the Go generator, the
// method-name argument (%q) of every emitted SendError / SendReply /
// Client_().Call / Oneway / AddToProcessorMap is derived from
// parser.LowercaseFirstLetter, never the raw method.Name.
func c14WireNames(ctx *core.Ctx, cc *CC) {
	ctx.Rule("C14.R9", "one wire name per method: every emitted reply, request and registration of the Go generator names the method through LowercaseFirstLetter", 6)
	gp := cc.Pkg("golang")
	if gp == nil {
		ctx.Unresolved("C14.R9", "golang generator", "package not loaded")
		return
	}
	markers := []string{"p.SendError(", "p.SendReply(", "Client_().Call(", "Client_().Oneway(", "AddToProcessorMap("}
	lowered := func(fn *ssa.Function, v ssa.Value) bool {
		ok := false
		ssax.Instrs(fn, func(in ssa.Instruction) {
			if c, isC := ssax.AsCall(in); isC && c.ShortName() == "LowercaseFirstLetter" {
				if cv, isV := in.(ssa.Value); isV && dependsOn(v, cv, 0) {
					ok = true
				}
			}
		})
		return ok
	}
	n := 0
	for _, fn := range cc.Fns {
		if fn.Pkg != gp {
			continue
		}
		for _, c := range ssax.Calls(fn) {
			if c.FullName() != "fmt.Sprintf" || len(c.Args()) < 2 {
				continue
			}
			format, isS := ConstString(c.Args()[0])
			if !isS {
				continue
			}
			hit := ""
			for _, m := range markers {
				if strings.Contains(format, m) {
					hit = m
				}
			}
			if hit == "" || !strings.Contains(format, "%q") {
				continue
			}
			// which variadic element feeds the first %q after the marker
			idx := 0
			pos := strings.Index(format, hit)
			for i := 0; i+1 < len(format); i++ {
				if format[i] != '%' {
					continue
				}
				if format[i+1] == '%' {
					i++
					continue
				}
				if i > pos && format[i+1] == 'q' {
					break
				}
				idx++
				i++
			}
			// the variadic slice: stores into the backing array
			var elem ssa.Value
			if sl, isSl := ssax.Strip(c.Args()[1]).(*ssa.Slice); isSl {
				if al, isAl := sl.X.(*ssa.Alloc); isAl {
					for _, u := range *al.Referrers() {
						ia, isIA := u.(*ssa.IndexAddr)
						if !isIA {
							continue
						}
						if k, isK := ssax.ConstInt(ia.Index); isK && int(k) == idx {
							for _, u2 := range *ia.Referrers() {
								if st, isSt := u2.(*ssa.Store); isSt && st.Addr == ssa.Value(ia) {
									elem = st.Val
								}
							}
						}
					}
				}
			}
			if elem == nil {
				continue
			}
			n++
			ok := lowered(fn, elem)
			if !ok {
				// a helper handed the lowered name by every caller
				if q, isP := ssax.Unbox(ssax.Strip(elem)).(*ssa.Parameter); isP {
					all, any := true, false
					for _, caller := range cc.Fns {
						for _, c2 := range ssax.Calls(caller) {
							if c2.Static != fn {
								continue
							}
							for i, gp2 := range fn.Params {
								if gp2 == q && i < len(c2.Common.Args) {
									any = true
									if !lowered(caller, c2.Common.Args[i]) {
										all = false
									}
								}
							}
						}
					}
					ok = any && all
				}
			}
			ctx.Check(ok, "C14.R9", QName(fn)+sprintf(" › %s… #%d names the method by its wire name", strings.TrimSuffix(hit, "("), n), cc.IPos(c.Instr), "the %q argument derives from parser.LowercaseFirstLetter",
				"the method name emitted here is not the lower-cased wire name (e.g. the raw method.Name): for a method whose IDL name starts with an upper-case letter this message is written under another name than the one the request, the registration and the other replies use, and the client rejects it with 'wrong method name'")
		}
	}
}

// errorKindFidelity — the exception a handler (or the middleware chain) ends
// with reaches the wire with its own type id and message: on the way from
// SendError to thrift.NewTApplicationException the `kind` and `message`
// parameters are handed on as they are — never replaced by a value computed
// from them (a "normalised" kind turns an application-defined or frugal
// specific exception type into another one at the caller).
func errorKindFidelity(ctx *core.Ctx, r *RT, rule string) {
	n := 0
	seen := map[*ssa.Function]bool{}
	var visit func(fn *ssa.Function, idx int, what string)
	visit = func(fn *ssa.Function, idx int, what string) {
		// callers of fn: the argument for parameter idx
		for _, caller := range r.Fns {
			for _, c := range ssax.Calls(caller) {
				if c.Static != fn || idx >= len(c.Common.Args) {
					continue
				}
				arg := ssax.Strip(c.Common.Args[idx])
				n++
				ok := true
				var from *ssa.Parameter
				for _, p := range caller.Params {
					if types.Identical(p.Type(), arg.Type()) && ssa.Value(p) != arg && dependsOn(arg, p, 0) {
						if call, isCall := arg.(*ssa.Call); isCall {
							// a helper of the package that returns its argument on every path is the identity
							h := call.Call.StaticCallee()
							ident := h != nil && h.Pkg == r.Pkg && len(h.Blocks) > 0
							if ident {
								for _, rv := range ReturnedValues(h) {
									if _, isPar := ssax.Strip(rv[0]).(*ssa.Parameter); !isPar {
										ident = false
									}
								}
							}
							if ident || h == nil || h.Pkg != r.Pkg {
								continue
							}
						}
						ok, from = false, p
					}
				}
				detail := ""
				if from != nil {
					detail = "the " + what + " handed to " + ssax.Name(fn) + " is " + arg.String() + ", computed from this function's parameter " + from.Name() + " instead of the parameter itself: the exception the caller decodes has another type id / message than the one the handler or middleware produced"
				}
				ctx.Check(ok, rule, ssax.Name(caller)+sprintf(" › hands the exception %s on unchanged (call #%d of %s)", what, n, fn.Name()), r.IPos(c.Instr), "the argument is the parameter itself, a constant, or a value of the error being reported", detail)
				if p, isPar := arg.(*ssa.Parameter); isPar && !seen[caller] {
					seen[caller] = true
					for j, q := range caller.Params {
						if q == p {
							visit(caller, j, what)
						}
					}
				}
			}
		}
	}
	for _, fn := range r.Fns {
		for _, c := range ssax.Calls(fn) {
			if !strings.HasSuffix(c.FullName(), "thrift.NewTApplicationException") || len(c.Common.Args) != 2 {
				continue
			}
			for ai, what := range []string{"kind", "message"} {
				p, isPar := ssax.Strip(c.Common.Args[ai]).(*ssa.Parameter)
				if !isPar {
					// computed right at the constructor from a parameter?
					arg := ssax.Strip(c.Common.Args[ai])
					if ai != 0 {
						continue // a message composed on the spot is that function's own message
					}
					for _, q := range fn.Params {
						if types.Identical(q.Type(), arg.Type()) && dependsOn(arg, q, 0) {
							if _, isCall := arg.(*ssa.Call); !isCall {
								n++
								ctx.Check(false, rule, ssax.Name(fn)+" › builds the exception from its "+what+" parameter unchanged", r.IPos(c.Instr), "",
									"the exception "+what+" is "+arg.String()+", computed from parameter "+q.Name()+": the caller decodes another type id / message than the one reported")
							}
						}
					}
					continue
				}
				seen[fn] = true
				for j, q := range fn.Params {
					if q == p {
						visit(fn, j, what)
					}
				}
			}
		}
	}
	if n == 0 {
		ctx.Unresolved(rule, "exception construction", "no NewTApplicationException fed by a parameter found")
	}
}

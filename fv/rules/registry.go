package rules

import "fv/internal/core"

// Registry maps property ids to their checks.
var Registry = map[string]func(*core.Ctx){
	"C01": C01,
	"C02": C02,
	"C03": C03,
	"C04": C04,
	"C05": C05,
	"C06": C06,
	"C07": C07,
	"C08": C08,
	"C09": C09,
	"C10": C10,
	"C11": C11,
	"C12": C12,
	"C13": C13,
	"C14": C14,
	"C15": C15,
	"C16": C16,
	"C17": C17,
	"C18": C18,
	"C19": C19,
	"C20": C20,
}

package rules

import (
	"go/types"
	"strings"

	"fv/internal/core"
	"fv/internal/ssax"

	"golang.org/x/tools/go/ssa"
)

// inCycle reports whether instruction in can reach itself again (it lies on a
// CFG cycle): used to tell the frame-consuming loop body from terminal paths.
func inCycle(in ssa.Instruction) bool {
	b := in.Block()
	seen := map[*ssa.BasicBlock]bool{}
	var stack []*ssa.BasicBlock
	stack = append(stack, b.Succs...)
	for len(stack) > 0 {
		x := stack[len(stack)-1]
		stack = stack[:len(stack)-1]
		if x == b {
			return true
		}
		if seen[x] {
			continue
		}
		seen[x] = true
		stack = append(stack, x.Succs...)
	}
	return false
}

// pureExternal: calls leaving the package that neither block nor call back.
func pureExternal(full string) bool {
	for _, p := range []string{"fmt.", "strconv.", "errors.", "strings.", "bytes.", "(*github.com/sirupsen/logrus.", "(github.com/sirupsen/logrus.", "github.com/sirupsen/logrus.",
		"builtin.", "(*sync.RWMutex).", "(*sync.Mutex).", "github.com/apache/thrift/lib/go/thrift.New", "encoding/binary.", "(encoding/binary.", "(error).Error", "(*sync/atomic.", "sync/atomic."} {
		if strings.HasPrefix(full, p) {
			return true
		}
	}
	return false
}

// msgHandlers finds functions converted to nats.MsgHandler (bound methods or
// closures passed to Subscribe/QueueSubscribe).
func msgHandlers(r *RT) map[*ssa.Function]ssax.Call {
	out := map[*ssa.Function]ssax.Call{}
	for _, fn := range r.Fns {
		for _, c := range ssax.Calls(fn) {
			if !strings.HasPrefix(c.FullName(), "(*github.com/nats-io/nats.go.Conn).") {
				continue
			}
			for _, a := range c.Common.Args {
				if !ssax.TypeNamed(a.Type(), "nats.go", "MsgHandler") {
					continue
				}
				for _, h := range funcValues(a) {
					out[h] = c
				}
			}
		}
	}
	return out
}

// funcValues resolves a function-typed value to the functions it may denote
// (closures, bound methods, function constants; through phis and locals).
func funcValues(v ssa.Value) []*ssa.Function {
	var out []*ssa.Function
	seen := map[ssa.Value]bool{}
	var walk func(v ssa.Value)
	walk = func(v ssa.Value) {
		if v == nil || seen[v] {
			return
		}
		seen[v] = true
		switch x := v.(type) {
		case *ssa.Function:
			out = append(out, x)
		case *ssa.MakeClosure:
			f := x.Fn.(*ssa.Function)
			// bound-method wrapper: resolve to the method itself
			if f.Synthetic != "" && strings.Contains(f.Synthetic, "bound method") {
				if o, ok := f.Object().(*types.Func); ok {
					if m := f.Prog.FuncValue(o); m != nil {
						out = append(out, m)
						return
					}
				}
			}
			out = append(out, f)
		case *ssa.ChangeType:
			walk(x.X)
		case *ssa.MakeInterface:
			walk(x.X)
		case *ssa.Phi:
			for _, e := range x.Edges {
				walk(e)
			}
		case *ssa.UnOp:
			// load of a local: follow stores
			if a, ok := x.X.(*ssa.Alloc); ok {
				for _, u := range *a.Referrers() {
					if st, ok := u.(*ssa.Store); ok && st.Addr == a {
						walk(st.Val)
					}
				}
			}
		}
	}
	walk(v)
	return out
}

// C06 — the inbound path never stalls.
func C06(ctx *core.Ctx) {
	ctx.Explanation = "Decides, for all inbound frame sequences and schedules, the structural condition that nothing on the frame-delivery path can wait for a caller: " +
		"in the cone of the NATS reply callback, fRegistry.Execute/dispatch, ExecuteFrame and the frame-consuming cycle of every reader loop there is no blocking channel operation, Sleep or Wait (a send is allowed only as a select communication with a default); " +
		"the registry mutex is held only over non-blocking package-internal code and a whitelist of pure library calls; every registered result channel is buffered so a non-blocking delivery to a caller that has not reached its select yet is not lost. " +
		"Not decided: latency/fairness, the scheduler, blocking inside third-party libraries (nats, thrift, logrus are summarised as non-blocking on the peer)."
	r := LoadRT(ctx, "", "")
	if !r.OK() {
		return
	}
	fullReads(ctx, r, "C06.R11")
	opIDOnlyOnFresh(ctx, r, "C06.R12", constString(r, "opIDHeader"))
	registryOnlyAtConstruction(ctx, r, "C06.R13")
	ctx.Rule("C06.R1", "non-blocking delivery cone: no blocking channel op / Sleep / Wait reachable from the inbound entry points; sends only inside select-with-default", 8)
	ctx.Rule("C06.R2", "bounded lock hold: every critical section of the registry mutex contains no blocking op, no call that can reach one in package frugal, and only whitelisted pure external calls", 3)
	ctx.Rule("C06.R3", "every result channel handed to fRegistry.Register has constant capacity ≥ 1", 2)
	ctx.Rule("C06.R4", "lock balance: every function acquiring the registry mutex releases it on every exit", 3)
	ctx.Rule("C06.R6", "abandoned or refused requests do not disturb others: registration pairing in every Request (a failed Register is neither used nor undone; Unregister of the same context on every exit)", 4)
	for _, req := range r.Impl("FTransport", "Request") {
		c01Request(ctx, r, req, "C06.R6", "")
	}
	ctx.Rule("C06.R5", "the reader keeps reading: a frame the registry cannot deliver is discarded without an error wherever a reader loop ends on an error of Execute", 2)
	{
		regImpl := map[*ssa.Function]string{}
		for _, m := range []string{"Register", "Unregister", "Execute", "dispatch"} {
			for _, f := range r.Impl("fRegistry", m) {
				regImpl[f] = m
			}
		}
		n := 0
		for f, role := range regImpl {
			if role == "dispatch" {
				n++
				undeliverableNotError(ctx, r, "C06.R5", f, regImpl)
			}
		}
		if n == 0 {
			ctx.Unresolved("C06.R5", "fRegistry.dispatch", "no delivery function found")
		}
	}
	lockBalance(ctx, r, "C06.R4", "fRegistryImpl")
	// a read lock is not reentrant either: a second RLock queues behind a writer that waits for the first
	noDoubleAcquire(ctx, r, "C06.R4", "fRegistryImpl")
	ctx.Assume("(*nats.Conn).Publish/PublishRequest, logrus logging and thrift constructors do not wait for the peer")

	bi := ssax.ComputeBlocking(r.Fns, r.Resolve)

	// entries
	var entries []*ssa.Function
	entryWhy := map[*ssa.Function]string{}
	for h := range msgHandlers(r) {
		// only handlers of FTransport implementations are on the client's inbound path
		if h.Signature.Recv() != nil {
			rt := h.Signature.Recv().Type()
			if it := ssax.Iface(r.Pkg, "FTransport"); it != nil && (types.Implements(rt, it)) {
				entries = append(entries, h)
				entryWhy[h] = "nats.MsgHandler of an FTransport"
			}
		}
	}
	for _, m := range []string{"Execute", "dispatch"} {
		for _, f := range r.Impl("fRegistry", m) {
			entries = append(entries, f)
			entryWhy[f] = "fRegistry." + m
		}
	}
	if f := r.Fn("C06.R1", "(*fBaseTransport).ExecuteFrame"); f != nil {
		entries = append(entries, f)
		entryWhy[f] = "frame entry of the base transport"
	}
	// reader loops: functions with a CFG cycle containing a call that reaches fRegistry.Execute
	isExec := func(c ssax.Call) bool {
		if c.Method != nil && c.Method.Name() == "Execute" && ssax.TypeNamed(c.Method.Type().(*types.Signature).Recv().Type(), "", "fRegistry") {
			return true
		}
		return c.Static != nil && ssax.Name(c.Static) == "(*fBaseTransport).ExecuteFrame"
	}
	var loops []*ssa.Function
	for _, fn := range r.Fns {
		if cycleReaches(fn, isExec) {
			loops = append(loops, fn)
		}
	}
	if len(loops) == 0 {
		ctx.Unresolved("C06.R1", "reader loop", "no function consumes frames in a loop calling fRegistry.Execute")
	}
	cone := ssax.Cone(entries, r.Resolve, false)
	ctx.Stat("c06_cone_functions", len(cone))
	checkFn := func(fn *ssa.Function, onlyCycle bool, why string) {
		n := 0
		ssax.Instrs(fn, func(in ssa.Instruction) {
			if onlyCycle && !inCycle(in) {
				return
			}
			if desc, ok := ssax.Blocking(in); ok {
				n++
				ctx.Violate("C06.R1", ssax.Name(fn)+" › "+desc, r.IPos(in),
					"blocking operation on the inbound delivery path ("+why+"): an undeliverable frame stalls the reader and every other in-flight request")
			}
			if sel, ok := in.(*ssa.Select); ok && !sel.Blocking {
				for _, st := range sel.States {
					if st.Dir == types.SendOnly {
						ctx.Discharge("C06.R1", ssax.Name(fn)+" › non-blocking send on "+ssax.AddrKey(st.Chan), r.IPos(in), "send is a select communication with a default")
					}
				}
			}
		})
		if n == 0 {
			ctx.Discharge("C06.R1", ssax.Name(fn)+" › no blocking operation", fnPos(r, fn), why)
		}
	}
	for _, fn := range cone {
		why := entryWhy[fn]
		if why == "" {
			why = "reachable from an inbound entry point"
		}
		checkFn(fn, false, why)
	}
	for _, lp := range loops {
		checkFn(lp, true, "frame-consuming cycle of a reader loop")
		// callees on the cycle
		for _, c := range ssax.Calls(lp) {
			if !inCycle(c.Instr.(ssa.Instruction)) {
				continue
			}
			if _, isGo := c.Instr.(*ssa.Go); isGo {
				continue
			}
			for _, cal := range r.Resolve(c) {
				for _, fn := range ssax.Cone([]*ssa.Function{cal}, r.Resolve, false) {
					checkFn(fn, false, "called from the frame-consuming cycle of "+ssax.Name(lp))
				}
			}
		}
	}

	ctx.Rule("C06.R7", "responses that arrive together are all delivered: the buffering frame decoder of a reader loop is built once per loop, not per frame", 1)
	decoderPerLoop(ctx, r, "C06.R7")
	c06Owners(ctx, r)
	// ---- R2 -----------------------------------------------------------------
	reg := r.Named("fRegistryImpl")
	if reg != nil {
		for _, fn := range r.Fns {
			locks := ssax.LockSets(fn, nil)
			usesRegMu := false
			for _, c := range ssax.Calls(fn) {
				if k, op := ssax.LockOp(c); op != "" {
					if len(c.Common.Args) > 0 {
						if fa, ok := ssax.Strip(c.Common.Args[0]).(*ssa.FieldAddr); ok && ssax.TypeNamed(fa.X.Type().Underlying().(*types.Pointer).Elem(), "", "fRegistryImpl") {
							usesRegMu = true
							_ = k
						}
					}
				}
			}
			if !usesRegMu {
				continue
			}
			bad := 0
			ssax.Instrs(fn, func(in ssa.Instruction) {
				ls := locks[in]
				if len(ls) == 0 {
					return
				}
				if desc, ok := ssax.Blocking(in); ok {
					bad++
					ctx.Violate("C06.R2", ssax.Name(fn)+" › "+desc+" under "+strings.Join(ls.Keys(), ","), r.IPos(in),
						"blocking operation while the registry mutex is held: Register/Unregister/dispatch of every other request wait behind it")
					return
				}
				c, ok := ssax.AsCall(in)
				if !ok {
					return
				}
				if _, isDefer := in.(*ssa.Defer); isDefer {
					return
				}
				if _, isGo := in.(*ssa.Go); isGo {
					return
				}
				for _, cal := range r.Resolve(c) {
					if bi.Reach[cal] != nil {
						bad++
						ctx.Violate("C06.R2", ssax.Name(fn)+" › call "+ssax.Name(cal)+" under "+strings.Join(ls.Keys(), ","), r.IPos(in),
							"call that can block while the registry mutex is held: "+bi.Chain(cal))
					}
				}
				if c.Static != nil && c.Static.Pkg == r.Pkg {
					return
				}
				if c.Static != nil && c.Static.Parent() != nil {
					return
				}
				full := c.FullName()
				if full == "" || !pureExternal(full) {
					if len(r.Resolve(c)) > 0 {
						return // package-internal interface call, covered above
					}
					bad++
					ctx.Violate("C06.R2", ssax.Name(fn)+" › external call "+full+" under "+strings.Join(ls.Keys(), ","), r.IPos(in),
						"call leaving the package (not in the pure whitelist) while the registry mutex is held")
				}
			})
			if bad == 0 {
				ctx.Discharge("C06.R2", ssax.Name(fn)+" › critical sections of the registry mutex", fnPos(r, fn), "only map operations, whitelisted pure calls and non-blocking package code under the lock")
			}
		}
	}

	// ---- R3 -----------------------------------------------------------------
	for _, fn := range r.Fns {
		for _, c := range ssax.Calls(fn) {
			if c.Method != nil && c.Method.Name() == "Register" && ssax.TypeNamed(c.Method.Type().(*types.Signature).Recv().Type(), "", "fRegistry") {
				ch, isMake := ssax.Strip(c.Args()[2]).(*ssa.MakeChan)
				ok := false
				if isMake {
					if n, k := ssax.ConstInt(ch.Size); k && n >= 1 {
						ok = true
					}
				}
				ctx.Check(ok, "C06.R3", ssax.Name(fn)+" › capacity of the registered result channel", r.IPos(c.Instr),
					"make(chan []byte, n≥1)", "result channel is unbuffered or of unknown capacity: with non-blocking delivery a response arriving before the caller selects is dropped; with blocking delivery the reader stalls")
			}
		}
	}
}

// c06Owners — C06.R8/R9: who may remove a registration, and who may tear the
// transport down.
//
// R8: a registration belongs to the Request that made it; only Unregister (the
// owner's deferred clean-up) deletes from the registry's channel map. The
// inbound path looks registrations up by op id; a delete from there removes
// whatever is registered under that id *now* — after a caller reused its
// context, somebody else's in-flight request.
//
// R9: the connection is shared by all in-flight requests; only the reader loop
// (a failure of the stream) and Close end it. The sending side of one request —
// the goroutine Request/Oneway spawn, and everything it calls — never calls
// the transport's close: a write or flush that fails because *that* request's
// context is done must not cost the others their responses.
func c06Owners(ctx *core.Ctx, r *RT) {
	ctx.Rule("C06.R8", "only Unregister removes a registration: no other function deletes from the registry's channel map", 1)
	n := 0
	for _, fn := range r.Fns {
		for _, c := range ssax.Calls(fn) {
			if c.FullName() != "builtin.delete" || len(c.Common.Args) < 1 {
				continue
			}
			m, ok := c.Common.Args[0].Type().Underlying().(*types.Map)
			if !ok {
				continue
			}
			if ch, isCh := m.Elem().Underlying().(*types.Chan); !isCh || ch.Elem().String() != "[]byte" {
				continue
			}
			n++
			ctx.Check(fn.Name() == "Unregister", "C06.R8", ssax.Name(fn)+sprintf(" › delete from the result-channel map (#%d)", n), r.IPos(c.Instr), "in Unregister",
				"a registration is removed by "+ssax.Name(fn)+", not by the Request that owns it: the removal is keyed by op id at a time the owner does not control — after a duplicate or late response it can delete the registration of a newer request that reuses the context, whose response is then dropped as unregistered and whose caller times out")
		}
	}
	if n == 0 {
		ctx.Unresolved("C06.R8", "registry", "no delete from a map of result channels found")
	}

	ctx.Rule("C06.R9", "one request cannot end the shared connection: the sender spawned by Request/Oneway never reaches the transport's close", 1)
	nS := 0
	for _, m := range []string{"Request", "Oneway"} {
		for _, fn := range r.Impl("FTransport", m) {
			for _, g := range localCone(fn, 2) {
				for _, c := range ssax.Calls(g) {
					goI, isGo := c.Instr.(*ssa.Go)
					if !isGo {
						continue
					}
					_ = goI
					for _, t := range r.Resolve(c) {
						nS++
						bad := ""
						for _, h := range localCone(t, 3) {
							for _, c2 := range ssax.Calls(h) {
								if c2.Static != nil && c2.Static.Pkg == r.Pkg && (c2.Static.Name() == "close" || c2.Static.Name() == "Close") && c2.Static.Signature.Recv() != nil &&
									fn.Signature.Recv() != nil && sameNamed(c2.Static.Signature.Recv().Type(), fn.Signature.Recv().Type()) {
									bad = r.IPos(c2.Instr) + " (" + ssax.Name(h) + ")"
								}
							}
						}
						ctx.Check(bad == "", "C06.R9", ssax.Name(fn)+" › sender "+ssax.Name(t)+" does not close the transport", r.IPos(c.Instr), "no call of the transport's close in the sender's cone",
							"the goroutine that writes one request calls the transport's close at "+bad+": a write or flush that fails only because this request's context is done (timed out, already answered) tears down the connection every other in-flight request is waiting on — their responses are never read although the peer sends them")
					}
				}
			}
		}
	}
	if nS == 0 {
		ctx.Discharge("C06.R9", "runtime › no sender goroutine in Request/Oneway", "", "nothing to check")
	}
}

package rules

import (
	"bytes"
	"go/ast"
	"go/parser"
	"go/printer"
	"go/token"
	"os"
	"path/filepath"
	"sort"
	"strings"

	"fv/internal/bounds"
	"fv/internal/core"
	"fv/internal/lin"
	"fv/internal/peg"
	"fv/internal/ssax"

	"golang.org/x/tools/go/ssa"
)

type pegFacts struct {
	g          *peg.Grammar
	nullMemo   map[*peg.Expr]int
	identCont  func(r rune) bool
	identStart func(r rune) bool
}

func (pf *pegFacts) nullable(e *peg.Expr) bool {
	if v, ok := pf.nullMemo[e]; ok {
		return v == 1
	}
	pf.nullMemo[e] = 0 // assume not nullable while computing (least fixpoint)
	r := false
	switch e.Kind {
	case peg.Seq:
		r = true
		for _, k := range e.Kids {
			if !pf.nullable(k) {
				r = false
			}
		}
	case peg.Choice:
		for _, k := range e.Kids {
			if pf.nullable(k) {
				r = true
			}
		}
	case peg.Lit:
		r = e.Val == ""
	case peg.Opt, peg.Star, peg.And, peg.Not:
		r = true
	case peg.Plus, peg.Label, peg.Action:
		r = pf.nullable(e.Kids[0])
	case peg.Ref:
		if rl := pf.g.ByName[e.Val]; rl != nil {
			r = pf.nullable(rl.Expr)
		}
	}
	if r {
		pf.nullMemo[e] = 1
	}
	return r
}

// isIdentGuard: e is a negative look-ahead over (at least) the identifier-continuation characters.
func (pf *pegFacts) isIdentGuard(e *peg.Expr) bool {
	if e.Kind != peg.Not {
		return false
	}
	k := e.Kids[0]
	for i := 0; i < 4 && k.Kind == peg.Ref; i++ {
		rl := pf.g.ByName[k.Val]
		if rl == nil {
			return false
		}
		k = rl.Expr
	}
	covers := func(in func(rune) bool) bool {
		for r := rune(0); r < 128; r++ {
			if pf.identCont(r) && !in(r) {
				return false
			}
		}
		return true
	}
	switch k.Kind {
	case peg.Class:
		return covers(peg.ClassSet(k.Val))
	case peg.Choice:
		// union of classes / refs to classes
		var sets []func(rune) bool
		for _, a := range k.Kids {
			x := a
			for i := 0; i < 4 && x.Kind == peg.Ref; i++ {
				if rl := pf.g.ByName[x.Val]; rl != nil {
					x = rl.Expr
				}
			}
			if x.Kind == peg.Class {
				sets = append(sets, peg.ClassSet(x.Val))
			} else if x.Kind == peg.Lit && len(x.Val) == 1 {
				c := rune(x.Val[0])
				sets = append(sets, func(r rune) bool { return r == c })
			}
		}
		return covers(func(r rune) bool {
			for _, s := range sets {
				if s(r) {
					return true
				}
			}
			return false
		})
	}
	return false
}

type bareLit struct {
	lit  *peg.Expr
	rule string
}

// bare returns the literals E can match exactly (everything else empty), unguarded ones only.
func (pf *pegFacts) bare(e *peg.Expr, rule string, seen map[string]bool) []bareLit {
	switch e.Kind {
	case peg.Lit:
		if e.Val != "" {
			return []bareLit{{e, rule}}
		}
	case peg.Seq:
		var out []bareLit
		for i, k := range e.Kids {
			others := true
			for j, o := range e.Kids {
				if j != i && !pf.nullable(o) {
					others = false
				}
			}
			if !others {
				continue
			}
			// when element i matched exactly K and the next element is an identifier guard,
			// K cannot be the beginning of a longer identifier: guarded
			if i+1 < len(e.Kids) && pf.isIdentGuard(e.Kids[i+1]) {
				continue
			}
			out = append(out, pf.bare(k, rule, seen)...)
		}
		return out
	case peg.Choice:
		var out []bareLit
		for _, k := range e.Kids {
			out = append(out, pf.bare(k, rule, seen)...)
		}
		return out
	case peg.Label, peg.Action, peg.Opt, peg.Star, peg.Plus:
		return pf.bare(e.Kids[0], rule, seen)
	case peg.Ref:
		if seen[e.Val] {
			return nil
		}
		rl := pf.g.ByName[e.Val]
		if rl == nil {
			return nil
		}
		seen[e.Val] = true
		defer delete(seen, e.Val)
		return pf.bare(rl.Expr, rl.Name, seen)
	}
	return nil
}

func unwrap(e *peg.Expr) *peg.Expr {
	for e.Kind == peg.Label || e.Kind == peg.Action {
		e = e.Kids[0]
	}
	return e
}

// startsWithIdentifier: can E begin by matching rule Identifier?
func (pf *pegFacts) startsWithIdentifier(e *peg.Expr, seen map[string]bool) bool {
	switch e.Kind {
	case peg.Ref:
		if e.Val == "Identifier" {
			return true
		}
		if seen[e.Val] {
			return false
		}
		rl := pf.g.ByName[e.Val]
		if rl == nil {
			return false
		}
		seen[e.Val] = true
		defer delete(seen, e.Val)
		return pf.startsWithIdentifier(rl.Expr, seen)
	case peg.Seq:
		for _, k := range e.Kids {
			if pf.startsWithIdentifier(k, seen) {
				return true
			}
			if !pf.nullable(k) {
				return false
			}
		}
	case peg.Choice:
		for _, k := range e.Kids {
			if pf.startsWithIdentifier(k, seen) {
				return true
			}
		}
	case peg.Label, peg.Action, peg.Opt, peg.Star, peg.Plus:
		return pf.startsWithIdentifier(e.Kids[0], seen)
	}
	return false
}

type hazard struct {
	lit   string
	rule  string
	where string
}

func (pf *pegFacts) hazards() []hazard {
	var out []hazard
	seenH := map[string]bool{}
	isIdentWord := func(s string) bool {
		if s == "" || !pf.identStart(rune(s[0])) {
			return false
		}
		for _, r := range s {
			if !pf.identCont(r) && !pf.identStart(r) {
				return false
			}
		}
		return true
	}
	add := func(b bareLit, where string) {
		if !isIdentWord(b.lit.Val) {
			return
		}
		k := b.rule + "/" + b.lit.Val
		if seenH[k] {
			return
		}
		seenH[k] = true
		out = append(out, hazard{b.lit.Val, b.rule, where})
	}
	var walk func(e *peg.Expr, rule string)
	walk = func(e *peg.Expr, rule string) {
		switch e.Kind {
		case peg.Choice:
			for i, a := range e.Kids {
				later := false
				for _, b := range e.Kids[i+1:] {
					if pf.startsWithIdentifier(b, map[string]bool{}) {
						later = true
					}
				}
				if later {
					for _, b := range pf.bare(a, rule, map[string]bool{}) {
						add(b, "ordered choice in "+rule+": a later alternative can match an Identifier")
					}
				}
			}
		case peg.Seq:
			for i, k := range e.Kids {
				u := unwrap(k)
				if u.Kind != peg.Opt && u.Kind != peg.Star {
					continue
				}
				rest := &peg.Expr{Kind: peg.Seq, Kids: e.Kids[i+1:]}
				if len(rest.Kids) > 0 && pf.startsWithIdentifier(rest, map[string]bool{}) {
					for _, b := range pf.bare(u.Kids[0], rule, map[string]bool{}) {
						add(b, "optional group in "+rule+" followed by something that can match an Identifier")
					}
				}
			}
		}
		if e.Kind != peg.Not && e.Kind != peg.And {
			for _, k := range e.Kids {
				walk(k, rule)
			}
		}
	}
	for _, r := range pf.g.Rules {
		walk(r.Expr, r.Name)
	}
	sort.Slice(out, func(i, j int) bool { return out[i].rule+out[i].lit < out[j].rule+out[j].lit })
	return out
}

func normGo(code string) (string, error) {
	fset := token.NewFileSet()
	f, err := parser.ParseFile(fset, "a.go", "package p\nfunc _() (interface{}, error) {\n"+code+"\n}", 0)
	if err != nil {
		return "", err
	}
	var b bytes.Buffer
	printer.Fprint(&b, fset, f.Decls[0].(*ast.FuncDecl).Body)
	return b.String(), nil
}

// C10 — the parser accepts all Thrift and represents it exactly.
func C10(ctx *core.Ctx) {
	ctx.Explanation = "Decides two structural conditions of the IDL parser for all programs: (R2) the compiled parser corresponds to the grammar source — the rule table in grammar.peg.go and grammar.peg are read into one expression IR and must agree rule by rule (names, order, sequences, choices, literals, character classes, labels, predicates), every action's Go code equals the generated on-function body and its parameters are the labels in scope; " +
		"(R1) no keyword literal can swallow the beginning of an identifier: a literal that ends in an identifier character, can be the only thing its choice-alternative / optional group consumes, and sits where an Identifier is also a viable parse (a later alternative of the same ordered choice, or what follows the optional group) must be immediately followed by a negative look-ahead over the identifier-continuation characters (derived from rule Identifier). (R4) the enum action keeps its running counter strictly above the value of every element numbered so far, so an implicit number never repeats an earlier one. Not decided: model equality for all programs, Thrift's exact previous+1 rule after a smaller explicit value, other value semantics of actions, the prefix-variable regular expressions."
	gdir := filepath.Join(ctx.RepoDir, "compiler/parser")
	src, err1 := os.ReadFile(filepath.Join(gdir, "grammar.peg"))
	gen, err2 := os.ReadFile(filepath.Join(gdir, "grammar.peg.go"))
	if err1 != nil || err2 != nil {
		ctx.LoadError("cannot read grammar.peg / grammar.peg.go")
		return
	}
	ctx.Rule("C10.R1", "keyword delimitation: hazardous keyword literals are followed by a negative look-ahead over identifier characters", 14)
	ctx.Rule("C10.R2", "source/compiled correspondence of rules, expressions and action code", 100)
	ctx.Rule("C10.R6", "string literals: an action that decodes quoted text with strconv.Unquote does so on every path (both quote styles process escape sequences)", 1)
	ctx.Rule("C10.R4", "enum numbering: the running counter exceeds every value numbered so far", 1)
	c10EnumNumbering(ctx)
	c10Literals(ctx)
	if cc := LoadCC(ctx); cc.OK() {
		ctx.Rule("C10.R7", "integer literals are decoded in base 10 (the grammar matches decimal digits only)", 1)
		var pfns []*ssa.Function
		for _, fn := range cc.Fns {
			if fn.Pkg == cc.Pkg("parser") {
				pfns = append(pfns, fn)
			}
		}
		radixAgreement(ctx, pfns, cc.IPos, QName, "C10.R7", "base 0 re-reads a literal with a leading zero as octal (010 = 8) and rejects 08/09: field ids, enum values and constants differ from what the IDL declares")
		c10ParseCache(ctx, cc)
		c10IndexComplete(ctx, cc)
		c10ForcedModifiers(ctx, cc)
		c10IncludeDir(ctx, cc)
		c10JSONAnnotations(ctx, cc)
		c10Regexps(ctx, cc)
		c10SeenSets(ctx, cc)
		c10EnumMarker(ctx, cc, "C10.R15")
		c10ResolvedFile(ctx, cc, "C10.R18")
		globalNodeMutation(ctx, cc, "C10.R19")
		c10IdentifierForms(ctx, cc)
		c10SeenItemsAreSkipped(ctx, cc)
		c08NoBlanketRemoval(ctx, cc, "C10.R23")
	}
	gs, err := peg.ParseSource(string(src))
	if err != nil {
		ctx.LoadError("grammar.peg: " + err.Error())
		return
	}
	gc, funcs, err := peg.ParseCompiled("grammar.peg.go", gen)
	if err != nil {
		ctx.LoadError("grammar.peg.go: " + err.Error())
		return
	}
	c10LanguageKept(ctx, gs)
	ctx.Stat("c10_rules_source", len(gs.Rules))
	ctx.Stat("c10_rules_compiled", len(gc.Rules))
	ctx.Configs = append(ctx.Configs, "PEG:grammar.peg+grammar.peg.go")

	// ---- R2 -------------------------------------------------------------------------------
	ctx.Check(len(gs.Rules) == len(gc.Rules), "C10.R2", "grammar › same number of rules", "compiler/parser/grammar.peg", sprintf("%d rules", len(gs.Rules)), sprintf("grammar.peg has %d rules, the compiled table %d: the parser in use is not the grammar in the repository", len(gs.Rules), len(gc.Rules)))
	for i, r := range gs.Rules {
		pos := sprintf("compiler/parser/grammar.peg:%d", r.Line)
		if i >= len(gc.Rules) {
			ctx.Violate("C10.R2", "rule "+r.Name+" › present in the compiled table", pos, "missing from grammar.peg.go")
			continue
		}
		c := gc.Rules[i]
		ctx.Check(c.Name == r.Name && c.Expr.String() == r.Expr.String(), "C10.R2", "rule "+r.Name+" › expression agrees with the compiled table", pos, r.Expr.String(),
			"grammar.peg says "+r.Name+" <- "+r.Expr.String()+" but grammar.peg.go has "+c.Name+" <- "+c.Expr.String()+": the compiled parser does not implement the grammar source")
		// actions
		var sa, ca []*peg.Expr
		var collect func(e *peg.Expr, out *[]*peg.Expr)
		collect = func(e *peg.Expr, out *[]*peg.Expr) {
			if e.Kind == peg.Action {
				*out = append(*out, e)
			}
			for _, k := range e.Kids {
				collect(k, out)
			}
		}
		collect(r.Expr, &sa)
		collect(c.Expr, &ca)
		for j, a := range sa {
			if j >= len(ca) {
				break
			}
			on := strings.Replace(ca[j].Code, "callon", "on", 1)
			fd := funcs[on]
			construct := "rule " + r.Name + sprintf(" › action #%d code agrees with %s", j+1, on)
			if fd == nil {
				ctx.Violate("C10.R2", construct, pos, "generated action function "+on+" not found")
				continue
			}
			want, err := normGo(a.Code)
			if err != nil {
				ctx.Undecided("C10.R2", construct, pos, "cannot parse action code of grammar.peg: "+err.Error())
				continue
			}
			var b bytes.Buffer
			printer.Fprint(&b, peg.CompiledFset, fd.Body)
			got, _ := normGoBody(b.String())
			ctx.Check(squash(got) == squash(want), "C10.R2", construct, pos, "identical after formatting",
				"the action code in grammar.peg differs from the generated function "+on+": the parser in use builds the model differently from what the grammar source says")
		}
	}
	// preamble functions / variables
	if gs.Init != "" {
		fset := token.NewFileSet()
		pf, err := parser.ParseFile(fset, "init.go", gs.Init, 0)
		if err == nil {
			genFile, _ := parser.ParseFile(token.NewFileSet(), "grammar.peg.go", gen, 0)
			genDecl := map[string]string{}
			for _, d := range genFile.Decls {
				for name, txt := range declTexts(d) {
					genDecl[name] = txt
				}
			}
			for _, d := range pf.Decls {
				for name, txt := range declTexts(d) {
					ctx.Check(squash(genDecl[name]) == squash(txt), "C10.R2", "preamble › "+name+" agrees with grammar.peg.go", "compiler/parser/grammar.peg", "identical after formatting", "preamble declaration "+name+" differs between grammar.peg and grammar.peg.go")
				}
			}
		} else {
			ctx.Undecided("C10.R2", "preamble", "compiler/parser/grammar.peg", "cannot parse the grammar preamble: "+err.Error())
		}
	}

	// ---- R1 on both views ---------------------------------------------------------------------
	for _, view := range []struct {
		name string
		g    *peg.Grammar
	}{{"grammar.peg", gs}, {"grammar.peg.go", gc}} {
		pf := &pegFacts{g: view.g, nullMemo: map[*peg.Expr]int{}}
		id := view.g.ByName["Identifier"]
		if id == nil {
			ctx.Unresolved("C10.R1", "Identifier", "rule Identifier not found in "+view.name)
			continue
		}
		// identifier start / continuation sets from the rule: (start)+ (cont)*
		starts, conts := identSets(pf, id.Expr)
		pf.identStart, pf.identCont = starts, func(r rune) bool { return conts(r) || starts(r) }
		hz := pf.hazards()
		// every keyword-like literal reachable as bare success that IS guarded is a discharged instance
		guarded := guardedKeywords(pf)
		for _, k := range guarded {
			ctx.Discharge("C10.R1", "keyword "+strconvQuote(k.lit)+" in "+k.rule+" is delimited", "compiler/parser/"+view.name, "followed by a negative look-ahead over identifier characters ("+view.name+")")
		}
		for _, h := range hz {
			ctx.Violate("C10.R1", "keyword "+strconvQuote(h.lit)+" in "+h.rule+" is delimited", "compiler/parser/"+view.name,
				"literal "+strconvQuote(h.lit)+" is not followed by a negative look-ahead over identifier characters ("+h.where+"): an identifier that merely starts with "+h.lit+" (e.g. "+h.lit+"Thing) is cut after the keyword — valid Thrift is rejected or silently parsed as a modifier/type plus a different name")
		}
	}
}

func strconvQuote(s string) string { return `"` + s + `"` }

func normGoBody(body string) (string, error) {
	// body is "{ ... }" already printed
	fset := token.NewFileSet()
	f, err := parser.ParseFile(fset, "a.go", "package p\nfunc _() (interface{}, error) "+body, 0)
	if err != nil {
		return body, err
	}
	var b bytes.Buffer
	printer.Fprint(&b, fset, f.Decls[0].(*ast.FuncDecl).Body)
	return b.String(), nil
}

func declTexts(d ast.Decl) map[string]string {
	out := map[string]string{}
	pr := func(n ast.Node) string {
		var b bytes.Buffer
		printer.Fprint(&b, token.NewFileSet(), n)
		return b.String()
	}
	switch x := d.(type) {
	case *ast.FuncDecl:
		if x.Recv == nil {
			x2 := *x
			x2.Doc = nil
			out["func "+x.Name.Name] = pr(&x2)
		}
	case *ast.GenDecl:
		if x.Tok == token.IMPORT {
			return out
		}
		for _, s := range x.Specs {
			switch sp := s.(type) {
			case *ast.ValueSpec:
				sp2 := *sp
				sp2.Doc, sp2.Comment = nil, nil
				for _, n := range sp.Names {
					out["var "+n.Name] = pr(&sp2)
				}
			case *ast.TypeSpec:
				sp2 := *sp
				sp2.Doc, sp2.Comment = nil, nil
				out["type "+sp.Name.Name] = pr(&sp2)
			}
		}
	}
	return out
}

// identSets derives the start and continuation character predicates from
// Identifier <- (start)+ (cont)*.
func identSets(pf *pegFacts, e *peg.Expr) (func(rune) bool, func(rune) bool) {
	e = unwrap(e)
	classOf := func(x *peg.Expr) func(rune) bool {
		var sets []func(rune) bool
		var walk func(y *peg.Expr, depth int)
		walk = func(y *peg.Expr, depth int) {
			if depth > 6 {
				return
			}
			switch y.Kind {
			case peg.Class:
				sets = append(sets, peg.ClassSet(y.Val))
			case peg.Lit:
				if len(y.Val) == 1 {
					c := rune(y.Val[0])
					sets = append(sets, func(r rune) bool { return r == c })
				}
			case peg.Ref:
				if rl := pf.g.ByName[y.Val]; rl != nil {
					walk(rl.Expr, depth+1)
				}
			default:
				for _, k := range y.Kids {
					walk(k, depth+1)
				}
			}
		}
		walk(x, 0)
		return func(r rune) bool {
			for _, s := range sets {
				if s(r) {
					return true
				}
			}
			return false
		}
	}
	if e.Kind == peg.Seq && len(e.Kids) >= 2 {
		return classOf(e.Kids[0]), classOf(e.Kids[1])
	}
	all := classOf(e)
	return all, all
}

type kwSite struct{ lit, rule string }

// guardedKeywords lists identifier-like literals that are directly followed by an identifier guard.
func guardedKeywords(pf *pegFacts) []kwSite {
	var out []kwSite
	var walk func(e *peg.Expr, rule string)
	walk = func(e *peg.Expr, rule string) {
		if e.Kind == peg.Seq {
			for i, k := range e.Kids {
				u := unwrap(k)
				if i+1 < len(e.Kids) && pf.isIdentGuard(e.Kids[i+1]) {
					var lits []*peg.Expr
					if u.Kind == peg.Lit {
						lits = []*peg.Expr{u}
					} else if u.Kind == peg.Choice {
						for _, a := range u.Kids {
							if unwrap(a).Kind == peg.Lit {
								lits = append(lits, unwrap(a))
							}
						}
					}
					for _, l := range lits {
						out = append(out, kwSite{l.Val, rule})
					}
				}
			}
		}
		for _, k := range e.Kids {
			walk(k, rule)
		}
	}
	for _, r := range pf.g.Rules {
		walk(r.Expr, r.Name)
	}
	return out
}

// squash removes layout differences (blank lines, indentation).
func squash(s string) string {
	var out []string
	for _, l := range strings.Split(s, "\n") {
		l = strings.TrimSpace(l)
		if l != "" {
			out = append(out, l)
		}
	}
	return strings.Join(out, "\n")
}

// c10EnumNumbering: in the action that numbers enum values from a running
// counter, the counter after each iteration is strictly greater than the
// value of the element just processed (implicit numbers never collide with
// an earlier value) — a necessary condition of Thrift's implicit numbering.
func c10EnumNumbering(ctx *core.Ctx) {
	cc := LoadCC(ctx)
	if !cc.OK() {
		return
	}
	pp := cc.Pkg("parser")
	found := 0
	for _, fn := range cc.Fns {
		if fn.Pkg != pp {
			continue
		}
		// stores to EnumValue.Value from a loop-carried integer phi
		var counter *ssa.Phi
		var stores []*ssa.Store
		ssax.Instrs(fn, func(in ssa.Instruction) {
			st, ok := in.(*ssa.Store)
			if !ok {
				return
			}
			fa, ok := st.Addr.(*ssa.FieldAddr)
			if !ok || fieldNameOfAddr(fa) != "Value" || !ssax.TypeNamed(fa.X.Type(), "", "EnumValue") {
				return
			}
			if ph, ok := st.Val.(*ssa.Phi); ok && inCycle(st) {
				counter = ph
				stores = append(stores, st)
			}
		})
		if counter == nil {
			continue
		}
		found++
		fname := QName(fn)
		cfg := &bounds.Config{IntBits: IntBits(), AssumeLenI32: true, Ideal: true}
		ctx.Assume("enum numbering is decided over the mathematical integers (explicit enum values below 2^63-1)")
		pr := bounds.New(cfg)
		hdr := counter.Block()
		for i, ev := range counter.Edges {
			pb := hdr.Preds[i]
			if !hdr.Dominates(pb) {
				continue
			}
			// the last load of .Value of the same element in the iteration that dominates the back edge
			var last *ssa.UnOp
			for _, b := range fn.Blocks {
				for _, in := range b.Instrs {
					u, ok := in.(*ssa.UnOp)
					if !ok || u.Op != token.MUL {
						continue
					}
					fa, ok := u.X.(*ssa.FieldAddr)
					if !ok || fieldNameOfAddr(fa) != "Value" || !ssax.TypeNamed(fa.X.Type(), "", "EnumValue") {
						continue
					}
					if !(b == pb || b.Dominates(pb)) || !inCycle(u) {
						continue
					}
					// no store to Value after it on the way to the back edge
					later := false
					for _, st := range stores {
						if ssax.Dominates(u, st) || blockReaches(u.Block(), st.Block()) && !st.Block().Dominates(u.Block()) && st.Block() != u.Block() {
							if ssax.PathFrom(fn, u, func(x ssa.Instruction) bool { return x == ssa.Instruction(st) }, func(x ssa.Instruction) bool { return x.Block() == hdr && ssax.Idx(x) == 0 }) != nil {
								later = true
							}
						}
					}
					if !later {
						last = u
					}
				}
			}
			construct := fname + " › counter exceeds the value just numbered at the end of every iteration"
			if last == nil {
				ctx.Undecided("C10.R4", construct, cc.FPos(fn), "cannot find the final read of the element's value in the iteration")
				continue
			}
			// a merge φ is decided edge by edge (facts of each incoming edge apply to its own value)
			ok := true
			if mp, isPhi := ev.(*ssa.Phi); isPhi && mp.Block() != hdr {
				for j, mv := range mp.Edges {
					mb := mp.Block().Preds[j]
					env := pr.EnvAt(mb.Instrs[len(mb.Instrs)-1])
					if iff, isIf := mb.Instrs[len(mb.Instrs)-1].(*ssa.If); isIf && mb.Succs[0] != mb.Succs[1] {
						env.AddCond(iff.Cond, mb.Succs[0] == mp.Block())
					}
					if !env.Prove(lin.GT(env.Term(mv), env.Term(last), "")) {
						ok = false
					}
				}
			} else {
				env := pr.EnvAt(pb.Instrs[len(pb.Instrs)-1])
				ok = env.Prove(lin.GT(env.Term(ev), env.Term(last), ""))
			}
			ctx.Check(ok, "C10.R4", construct, cc.IPos(last), "next > value of the element, on every path of the loop body (linear prover)",
				"after numbering an element the running counter can be ≤ that element's value: the next implicit enum member gets a number already in use (e.g. `A = 0, B` gives B = 0)")
		}
	}
	found += c10EnumNumberingInMemory(ctx, cc, pp)
	if found == 0 {
		ctx.Unresolved("C10.R4", "enum numbering action", "no parser function numbers EnumValue.Value from a running counter")
	}
}

// c10Literals: contradiction rule over the parser's actions — a function that
// returns strconv.Unquote(text) on one path and a value that did not go
// through Unquote on another treats the two quote styles differently.
func c10Literals(ctx *core.Ctx) {
	cc := LoadCC(ctx)
	if !cc.OK() {
		return
	}
	pp := cc.Pkg("parser")
	found := 0
	for _, fn := range cc.Fns {
		if fn.Pkg != pp || fn.Signature.Results().Len() != 2 {
			continue
		}
		uses := false
		for _, c := range ssax.Calls(fn) {
			if c.FullName() == "strconv.Unquote" {
				uses = true
			}
		}
		if !uses {
			continue
		}
		found++
		bad := ""
		n := 0
		for ret, vs := range ReturnedValues(fn) {
			n++
			v := ssax.Strip(vs[0])
			if mi, ok := v.(*ssa.MakeInterface); ok {
				v = ssax.Strip(mi.X)
			}
			if c, ok := v.(*ssa.Const); ok && c.IsNil() {
				continue
			}
			if tup, ok := ExtractOf(v, 0); ok {
				if pc, ok := CallValue(tup); ok && pc.FullName() == "strconv.Unquote" {
					continue
				}
			}
			bad = cc.V.Pos(ret.Pos())
		}
		ctx.Check(bad == "", "C10.R6", QName(fn)+" › every returned literal went through strconv.Unquote", cc.FPos(fn), sprintf("%d returns, all Unquote results", n),
			"the action returns text that was not unquoted at "+bad+": escape sequences (\\n, \\t, \\\\, \\x..) in one quote style are kept verbatim while the other style decodes them — the model does not contain the declared string")
	}
	if found == 0 {
		ctx.Unresolved("C10.R6", "literal action", "no parser action decodes quoted text with strconv.Unquote")
	}
}

package rules

import (
	"go/token"
	"go/types"
	"strings"

	"fv/internal/bounds"
	"fv/internal/core"
	"fv/internal/lin"
	"fv/internal/ssax"

	"golang.org/x/tools/go/ssa"
)

// flatInstr is an instruction executed by fn: one of its own (Call == nil) or
// one of a helper of the same package called from fn (one level), identified
// by the call. The layout rules of C04 read their events (length prefixes,
// payload copies, slices) from this flattened view, so that the per-string
// half of the codec may live in an extracted helper.
type flatInstr struct {
	In   ssa.Instruction
	Call *ssa.Call
}

// at is the instruction of fn where the event happens (the call for a lifted one).
func (f flatInstr) at() ssa.Instruction {
	if f.Call != nil {
		return f.Call
	}
	return f.In
}

// flatten lists fn's instructions in block order, splicing in the body of
// every statically called helper of the same package for which expand holds.
func flatten(fn *ssa.Function, expand func(*ssa.Function) bool) []flatInstr {
	var out []flatInstr
	ssax.Instrs(fn, func(in ssa.Instruction) {
		if c, ok := in.(*ssa.Call); ok {
			if g := c.Call.StaticCallee(); g != nil && g.Pkg == fn.Pkg && g != fn && len(g.Blocks) > 0 && expand(g) {
				ssax.Instrs(g, func(in2 ssa.Instruction) { out = append(out, flatInstr{in2, c}) })
				return
			}
		}
		out = append(out, flatInstr{in, nil})
	})
	return out
}

// up maps a value seen at f to the caller's value when it is a parameter of the helper.
func (f flatInstr) up(v ssa.Value) ssa.Value {
	v = ssax.Strip(v)
	if f.Call == nil {
		return v
	}
	if p, ok := v.(*ssa.Parameter); ok {
		g := f.Call.Call.StaticCallee()
		for i, q := range g.Params {
			if q == p && i < len(f.Call.Call.Args) {
				return ssax.Strip(f.Call.Call.Args[i])
			}
		}
	}
	return v
}

// term expresses an integer value seen at f in the vocabulary of env (an
// environment of the caller).
func (f flatInstr) term(env *bounds.Env, v ssa.Value) (lin.Term, bool) {
	if f.Call == nil {
		return env.Term(v), true
	}
	return env.CalleeTerm(f.Call, v, false)
}

// down resolves a value of fn that is result #idx of a helper call to the
// value the helper returns on its (unique) successful return.
func down(v ssa.Value) (call *ssa.Call, inner ssa.Value, ok bool) {
	ex, isEx := ssax.Strip(v).(*ssa.Extract)
	var idx int
	if isEx {
		call, _ = ex.Tuple.(*ssa.Call)
		idx = ex.Index
	} else {
		call, _ = ssax.Strip(v).(*ssa.Call)
	}
	if call == nil {
		return nil, nil, false
	}
	g := call.Call.StaticCallee()
	if g == nil || len(g.Blocks) == 0 {
		return nil, nil, false
	}
	var found ssa.Value
	n := 0
	for ret, vs := range ReturnedValues(g) {
		if g.Signature.Results().Len() > 1 && rejectReturn(ret) {
			continue
		}
		if idx < len(vs) {
			found = ssax.Strip(vs[idx])
			n++
		}
	}
	if n != 1 {
		return nil, nil, false
	}
	return call, found, true
}

// cycleReaches: fn has a CFG cycle containing a call that satisfies P, either
// directly or inside a helper of the same package called (not spawned) from
// the cycle, two levels deep — a loop whose body was extracted is still the
// loop.
func cycleReaches(fn *ssa.Function, P func(ssax.Call) bool) bool {
	var has func(g *ssa.Function, depth int) bool
	has = func(g *ssa.Function, depth int) bool {
		for _, c := range ssax.Calls(g) {
			if _, isGo := c.Instr.(*ssa.Go); isGo {
				continue
			}
			if P(c) {
				return true
			}
			if h := c.Static; h != nil && h.Pkg == fn.Pkg && len(h.Blocks) > 0 && depth > 0 && h != g && has(h, depth-1) {
				return true
			}
		}
		return false
	}
	for _, c := range ssax.Calls(fn) {
		if _, isGo := c.Instr.(*ssa.Go); isGo {
			continue
		}
		if !inCycle(c.Instr.(ssa.Instruction)) {
			continue
		}
		if P(c) {
			return true
		}
		if h := c.Static; h != nil && h.Pkg == fn.Pkg && len(h.Blocks) > 0 && h != fn && has(h, 1) {
			return true
		}
	}
	return false
}

var fromCycleCache = map[*ssa.Package]map[*ssa.Function]bool{}

// onCycle: the instruction is executed repeatedly by a loop — it lies on a
// cycle of its function, or its function is a helper called (statically, not
// spawned, up to two levels) from a cycle of another function of the package.
func (r *RT) onCycle(in ssa.Instruction) bool {
	if inCycle(in) {
		return true
	}
	m, ok := fromCycleCache[r.Pkg]
	if !ok {
		m = map[*ssa.Function]bool{}
		var mark func(g *ssa.Function, depth int)
		mark = func(g *ssa.Function, depth int) {
			if m[g] && depth == 0 {
				return
			}
			m[g] = true
			if depth <= 0 {
				return
			}
			for _, c := range ssax.Calls(g) {
				if _, isGo := c.Instr.(*ssa.Go); isGo {
					continue
				}
				if h := c.Static; h != nil && h.Pkg == r.Pkg && len(h.Blocks) > 0 && h != g {
					mark(h, depth-1)
				}
			}
		}
		for _, fn := range r.Fns {
			for _, c := range ssax.Calls(fn) {
				if _, isGo := c.Instr.(*ssa.Go); isGo {
					continue
				}
				if h := c.Static; h != nil && h.Pkg == r.Pkg && len(h.Blocks) > 0 && h != fn && inCycle(c.Instr.(ssa.Instruction)) {
					mark(h, 1)
				}
			}
		}
		fromCycleCache[r.Pkg] = m
	}
	return m[in.Parent()]
}

// argThrough: a value seen inside a helper of the anchored function's cone
// that is a parameter of that helper stands for the argument it is handed —
// when the cone calls the helper from exactly one place (writeMessage(…,
// thrift.REPLY, result) from SendReply). Anything else is returned unchanged.
func argThrough(anchor *ssa.Function, v ssa.Value) ssa.Value {
	sv := ssax.Strip(v)
	q, ok := sv.(*ssa.Parameter)
	if !ok || q.Parent() == anchor {
		return v
	}
	g := q.Parent()
	idx := -1
	for i, gp := range g.Params {
		if gp == q {
			idx = i
		}
	}
	var found ssa.Value
	n := 0
	// the anchor's own call first (its error path may reach the same helper with other arguments)
	for _, scope := range [][]*ssa.Function{{anchor}, localCone(anchor, 2)} {
		found, n = nil, 0
		for _, f := range scope {
			for _, c := range ssax.Calls(f) {
				if c.Static == g && idx >= 0 && idx < len(c.Common.Args) {
					found = c.Common.Args[idx]
					n++
				}
			}
		}
		if n == 1 {
			break
		}
	}
	if n != 1 {
		return v
	}
	return argThrough(anchor, found)
}

// decoderPerLoop: the stateful frame decoder (a buffering TFramedTransport
// around the connection) lives as long as the read loop — it is built once,
// outside the frame-consuming cycle. A decoder built per frame throws away
// what its reader buffered beyond the current frame: when two responses
// arrive in one read, the second is lost (its caller times out) or the stream
// loses frame alignment.
func decoderPerLoop(ctx *core.Ctx, r *RT, rule string) {
	// a frame-consuming step: the registry's Execute on the client side, the
	// processor's Process on the server side (one framed request per call)
	isExec := func(c ssax.Call) bool {
		return c.Method != nil && (c.Method.Name() == "Execute" || (c.Method.Name() == "Process" && ssax.TypeNamed(c.Common.Value.Type(), "", "FProcessor")))
	}
	n := 0
	for _, fn := range r.Fns {
		if !cycleReaches(fn, isExec) {
			continue
		}
		for _, g := range localCone(fn, 2) {
			for _, c := range ssax.Calls(g) {
				if c.Static == nil || !strings.HasPrefix(c.Static.Name(), "NewTFramedTransport") {
					continue
				}
				n++
				in := c.Instr.(ssa.Instruction)
				perFrame := inCycle(in) || (g != fn && r.onCycle(in))
				ctx.Check(!perFrame, rule, ssax.Name(fn)+sprintf(" › frame decoder #%d is built once per read loop", n), r.IPos(in), "NewTFramedTransport outside the frame-consuming cycle",
					"the buffering frame decoder is rebuilt for every frame ("+ssax.Name(g)+"): bytes it read ahead — the next response when two arrive in one read — are discarded with it, so that response is never delivered and its caller times out, or the stream loses frame alignment")
			}
		}
	}
	// … and not less often: a decoder kept in a field survives the loop
	for _, fn := range r.Fns {
		if !cycleReaches(fn, isExec) {
			continue
		}
		for _, g := range localCone(fn, 2) {
			seenField := map[string]bool{}
			for _, c := range ssax.Calls(g) {
				for _, a := range c.Args() {
					if _, isPtr := a.Type().(*types.Pointer); !isPtr || !ssax.TypeNamed(a.Type(), "", "TFramedTransport") {
						continue
					}
					ld, isLd := ssax.Strip(a).(*ssa.UnOp)
					if !isLd || ld.Op != token.MUL {
						continue
					}
					f := fieldNameOfAddr(ld.X)
					if f == "" || seenField[f] {
						continue
					}
					if c.Static != nil && c.Static.Signature.Recv() != nil && ssax.TypeNamed(c.Static.Signature.Recv().Type(), "", "TFramedTransport") && c.Static.Pkg == r.Pkg && g.Signature.Recv() != nil && ssax.TypeNamed(g.Signature.Recv().Type(), "", "TFramedTransport") {
						continue // the decoder's own methods
					}
					// whose field? only an object that outlives the loop function counts: the
					// loop's own receiver/parameters (or a global) — not a reader object the
					// loop builds for itself and hands to its helpers
					root := ssax.Strip(ld.X)
					for {
						switch y := root.(type) {
						case *ssa.FieldAddr:
							root = ssax.Strip(y.X)
							continue
						case *ssa.UnOp:
							if y.Op == token.MUL {
								root = ssax.Strip(y.X)
								continue
							}
						}
						break
					}
					if pr, isPar := root.(*ssa.Parameter); isPar && g != fn {
						long := false
						for _, c2 := range ssax.Calls(fn) {
							if c2.Static != g {
								continue
							}
							for i, q := range g.Params {
								if q != pr || i >= len(c2.Common.Args) {
									continue
								}
								ar := ssax.Strip(c2.Common.Args[i])
								for {
									switch y := ar.(type) {
									case *ssa.FieldAddr:
										ar = ssax.Strip(y.X)
										continue
									case *ssa.UnOp:
										if y.Op == token.MUL {
											ar = ssax.Strip(y.X)
											continue
										}
									}
									break
								}
								switch ar.(type) {
								case *ssa.Parameter, *ssa.Global, *ssa.FreeVar:
									long = true
								}
							}
						}
						if !long {
							continue
						}
					} else if _, isAlloc := root.(*ssa.Alloc); isAlloc {
						continue
					} else if _, isCall := root.(*ssa.Call); isCall {
						continue
					}
					seenField[f] = true
					n++
					ctx.Check(false, rule, ssax.Name(fn)+" › frame decoder lives as long as its read loop (field "+f+")", r.IPos(c.Instr), "",
						"the reader loop decodes with a TFramedTransport kept in field "+f+": its bytes-remaining counter and read-ahead buffer survive the loop, so after a connection cut inside a frame and a re-open the first bytes of the new connection are taken for the rest of the old frame — valid responses are swallowed and the reader stalls")
				}
			}
		}
	}
	if n == 0 {
		ctx.Discharge(rule, "reader loops › no framing decoder", "", "no reader loop builds a TFramedTransport")
	}
}

// sharedBufferBytes: Bytes() of a bytes.Buffer / TMemoryBuffer hands out the
// buffer's backing array. Taken from a buffer that is a *field* of a
// long-lived object (a transport, a client), the slice outlives the critical
// section that filled it: the next call re-fills the same array while the
// first caller's bytes are still on their way to the peer, so a request goes
// out with another request's frame (and its caller completes with the answer
// to that one). Every Bytes() in the runtime is taken from a buffer allocated
// by the function that hands the bytes on — the one exception is the Bytes
// method of a type that *is* the buffer (a wrapper returning its own storage).
func sharedBufferBytes(ctx *core.Ctx, r *RT, rule string) {
	n := 0
	for _, fn := range r.Fns {
		for _, c := range ssax.Calls(fn) {
			if c.ShortName() != "Bytes" || len(c.Args()) == 0 {
				continue
			}
			recv := c.Args()[0]
			rt := recv.Type()
			if !(ssax.TypeNamed(rt, "bytes", "Buffer") || ssax.TypeNamed(rt, "thrift", "TMemoryBuffer") || ssax.TypeNamed(rt, "", "TMemoryOutputBuffer")) {
				continue
			}
			n++
			// where does the buffer come from?
			v := ssax.Strip(recv)
			fromField := false
			if u, ok := v.(*ssa.UnOp); ok {
				if _, isFA := u.X.(*ssa.FieldAddr); isFA {
					fromField = true
				}
			}
			if fa, ok := v.(*ssa.FieldAddr); ok {
				// &x.buf: the embedded buffer of x
				fromField = true
				// … unless this is the buffer type's own Bytes method returning its own storage
				if fn.Name() == "Bytes" && fn.Signature.Recv() != nil && len(fn.Params) > 0 && ssax.Strip(fa.X) == ssa.Value(fn.Params[0]) {
					fromField = false
				}
			}
			if u, ok := v.(*ssa.UnOp); ok && fn.Name() == "Bytes" && fn.Signature.Recv() != nil && len(fn.Params) > 0 {
				if fa, isFA := u.X.(*ssa.FieldAddr); isFA && ssax.Strip(fa.X) == ssa.Value(fn.Params[0]) {
					fromField = false
				}
			}
			if fromField && fn.Name() == "Bytes" && fn.Signature.Recv() != nil && len(fn.Params) > 0 {
				// the storage accessor of a wrapper: whatever the nesting, the buffer belongs to the receiver
				root := v
				for i := 0; i < 6; i++ {
					switch x := root.(type) {
					case *ssa.UnOp:
						root = ssax.Strip(x.X)
						continue
					case *ssa.FieldAddr:
						root = ssax.Strip(x.X)
						continue
					}
					break
				}
				if root == ssa.Value(fn.Params[0]) {
					fromField = false
				}
			}
			ctx.Check(!fromField, rule, ssax.Name(fn)+sprintf(" › Bytes() #%d is taken from a buffer of this call", callOrdinal(fn, c)), r.IPos(c.Instr), "the buffer is a local allocation (or the buffer type's own storage accessor)",
				"the bytes handed on alias a buffer kept in a field of a long-lived object ("+ssax.AddrKey(recv)+"): the next call on the same object re-fills that storage while these bytes are still being transmitted — two calls in flight exchange frames, and a caller completes with the response to another call")
		}
	}
	if n == 0 {
		ctx.Discharge(rule, "runtime › no Bytes() call", "", "nothing to check")
	}
}

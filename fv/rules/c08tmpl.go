package rules

import (
	"regexp"

	"fv/internal/core"
	"fv/internal/ssax"

	"golang.org/x/tools/go/ssa"
)

// c08TemplateHazard — C08.R6: ScopePrefix.Template replaces the prefix
// variables by a placeholder chosen by the generator. When a placeholder
// itself matches the variable pattern (Python's "{}" matches {\w*}), only a
// single-pass replacement (ReplaceAll*) is correct: an implementation that
// searches again after each substitution finds the placeholder it has just
// inserted and leaves later variables unreplaced.
func c08TemplateHazard(ctx *core.Ctx, cc *CC) {
	ctx.Rule("C08.R6", "placeholder re-match hazard: if a generator's placeholder matches the prefix-variable pattern, Template substitutes in a single pass", 1)
	tm := cc.Fn("C08.R6", "parser", "(*ScopePrefix).Template")
	if tm == nil {
		return
	}
	// the variable pattern: regexp.MustCompile(const) stored to the global the function reads
	var pattern string
	pp := cc.Pkg("parser")
	if init := pp.Func("init"); init != nil {
		ssax.Instrs(init, func(in ssa.Instruction) {
			st, ok := in.(*ssa.Store)
			if !ok {
				return
			}
			g, ok := st.Addr.(*ssa.Global)
			if !ok || g.Name() != "prefixVariable" {
				return
			}
			if c, ok := CallValue(st.Val); ok && c.FullName() == "regexp.MustCompile" {
				pattern, _ = ConstString(c.Args()[0])
			}
		})
	}
	re, err := regexp.Compile(pattern)
	if pattern == "" || err != nil {
		ctx.Unresolved("C08.R6", "parser.prefixVariable", "the prefix-variable pattern is not a constant regular expression")
		return
	}
	// placeholders passed by the generators
	var hazardous []string
	n := 0
	for _, fn := range cc.Fns {
		for _, c := range ssax.Calls(fn) {
			if c.Static != tm {
				continue
			}
			n++
			ph, isK := ConstString(c.Args()[1])
			if !isK {
				ctx.Undecided("C08.R6", QName(fn)+" › placeholder passed to Template", cc.IPos(c.Instr), "placeholder is not a constant")
				continue
			}
			if re.MatchString(ph) {
				hazardous = append(hazardous, QName(fn)+" passes "+strconvQuote(ph))
			}
		}
	}
	if n == 0 {
		ctx.Unresolved("C08.R6", QName(tm), "no generator calls Template")
		return
	}
	// single pass: the result is a ReplaceAll* of the receiver's String on the pattern, and the function has no loop
	single := false
	for _, vs := range ReturnedValues(tm) {
		if c, ok := CallValue(vs[0]); ok {
			switch c.FullName() {
			case "(*regexp.Regexp).ReplaceAllString", "(*regexp.Regexp).ReplaceAllLiteralString":
				single = true
			}
		}
	}
	for _, b := range tm.Blocks {
		for _, s := range b.Succs {
			if s.Index <= b.Index && (s == b || blockReaches(s, b)) {
				single = false
			}
		}
	}
	ctx.Check(len(hazardous) == 0 || single, "C08.R6", QName(tm)+" › single-pass substitution where a placeholder matches the variable pattern", cc.FPos(tm),
		sprintf("%d call site(s); pattern %s; hazardous placeholders: %v; single pass: %v", n, pattern, hazardous, single),
		sprintf("%v and that placeholder matches the variable pattern %s, but Template does not substitute in one pass: from the second variable on, the placeholder just inserted is found again and later variables stay in the topic — that language's topic differs from the others' (or the generated format call fails)", hazardous, pattern))
}

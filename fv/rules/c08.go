package rules

import (
	"go/ast"
	"go/constant"
	"go/token"
	"go/types"
	"regexp"
	"sort"
	"strconv"
	"strings"

	"fv/internal/core"

	"golang.org/x/tools/go/packages"
)

// ---- symbolic template evaluation (A9) -------------------------------------------

const (
	atomOpen  = "«"
	atomClose = "»"
)

func atom(name string) string { return atomOpen + name + atomClose }

type tmplEval struct {
	pkg   *packages.Package
	fn    *ast.FuncDecl
	depth int
}

// assignments to obj inside fn: returns the defining expression if the
// variable is assigned exactly once (definition) and never modified.
func (ev *tmplEval) singleDef(obj types.Object) (ast.Expr, bool) {
	var def ast.Expr
	n := 0
	ast.Inspect(ev.fn, func(x ast.Node) bool {
		switch s := x.(type) {
		case *ast.ValueSpec:
			for i, name := range s.Names {
				if ev.pkg.TypesInfo.Defs[name] == obj {
					n++
					if i < len(s.Values) {
						def = s.Values[i]
					}
				}
			}
		case *ast.AssignStmt:
			for i, lhs := range s.Lhs {
				id, ok := lhs.(*ast.Ident)
				if !ok {
					continue
				}
				o := ev.pkg.TypesInfo.Defs[id]
				if o == nil {
					o = ev.pkg.TypesInfo.Uses[id]
				}
				if o != obj {
					continue
				}
				n++
				if s.Tok == token.DEFINE || s.Tok == token.ASSIGN {
					if len(s.Rhs) == len(s.Lhs) {
						def = s.Rhs[i]
					}
				} else {
					n++ // += etc: modified
				}
			}
		case *ast.IncDecStmt:
			if id, ok := s.X.(*ast.Ident); ok && ev.pkg.TypesInfo.Uses[id] == obj {
				n += 2
			}
		}
		return true
	})
	return def, n == 1 && def != nil
}

// packageVarInit: the initialiser expression of a package-level variable of the evaluated package.
func (ev *tmplEval) packageVarInit(v *types.Var) ast.Expr {
	for _, f := range ev.pkg.Syntax {
		for _, d := range f.Decls {
			gd, ok := d.(*ast.GenDecl)
			if !ok || gd.Tok != token.VAR {
				continue
			}
			for _, sp := range gd.Specs {
				vs, ok := sp.(*ast.ValueSpec)
				if !ok {
					continue
				}
				for i, n := range vs.Names {
					if ev.pkg.TypesInfo.Defs[n] == types.Object(v) && i < len(vs.Values) {
						return vs.Values[i]
					}
				}
			}
		}
	}
	return nil
}

func isNamedPtr(t types.Type, pkgName, name string) bool {
	if p, ok := t.(*types.Pointer); ok {
		t = p.Elem()
	}
	n, ok := t.(*types.Named)
	return ok && n.Obj().Name() == name && n.Obj().Pkg() != nil && n.Obj().Pkg().Name() == pkgName
}

// localComposite: e is a local variable defined once by a composite literal
// (T{…} or &T{…}), or such a literal itself.
func (ev *tmplEval) localComposite(e ast.Expr) *ast.CompositeLit {
	for i := 0; i < 4; i++ {
		switch x := e.(type) {
		case *ast.ParenExpr:
			e = x.X
			continue
		case *ast.UnaryExpr:
			if x.Op == token.AND {
				e = x.X
				continue
			}
		case *ast.CompositeLit:
			return x
		case *ast.Ident:
			if v, ok := ev.pkg.TypesInfo.Uses[x].(*types.Var); ok && v.Parent() != v.Pkg().Scope() {
				if def, ok := ev.singleDef(v); ok {
					e = def
					continue
				}
			}
		}
		return nil
	}
	return nil
}

func compositeField(lit *ast.CompositeLit, name string) ast.Expr {
	for _, el := range lit.Elts {
		if kv, ok := el.(*ast.KeyValueExpr); ok {
			if id, ok := kv.Key.(*ast.Ident); ok && id.Name == name {
				return kv.Value
			}
		}
	}
	return nil
}

// eval returns the symbolic string of e: literal text with «atoms».
func (ev *tmplEval) eval(e ast.Expr) string {
	ev.depth++
	defer func() { ev.depth-- }()
	if ev.depth > 30 {
		return atom("?deep")
	}
	info := ev.pkg.TypesInfo
	if tv, ok := info.Types[e]; ok && tv.Value != nil && tv.Value.Kind() == constant.String {
		return constant.StringVal(tv.Value)
	}
	switch x := e.(type) {
	case *ast.ParenExpr:
		return ev.eval(x.X)
	case *ast.BasicLit:
		if x.Kind == token.STRING {
			s, _ := strconv.Unquote(x.Value)
			return s
		}
	case *ast.BinaryExpr:
		if x.Op == token.ADD {
			return ev.eval(x.X) + ev.eval(x.Y)
		}
	case *ast.Ident:
		obj := info.Uses[x]
		if v, ok := obj.(*types.Var); ok {
			if v.Parent() == v.Pkg().Scope() {
				// a package-level variable is initialised at program start, before Compile
				// copies the options into package globals: text that reads an option there
				// is frozen at the option's default
				if init := ev.packageVarInit(v); init != nil {
					t := ev.eval(init)
					if strings.Contains(t, atom("Delim")) {
						return atom("?option read at program start in package variable " + v.Name())
					}
					if !strings.Contains(t, atomOpen+"?") {
						return t
					}
				}
				return atom("?package variable " + v.Name() + " (initialised before Compile sets the options)")
			}
			if def, ok := ev.singleDef(v); ok {
				return ev.eval(def)
			}
			return atom("?var " + v.Name())
		}
	case *ast.IndexExpr:
		// an element of a local list (vars[i]): as opaque as the loop variable of a range over it
		if id, ok := x.X.(*ast.Ident); ok {
			if v, ok := info.Uses[id].(*types.Var); ok && v.Parent() != v.Pkg().Scope() {
				return atom("?var " + v.Name() + "[]")
			}
		}
	case *ast.SelectorExpr:
		if obj, ok := info.Uses[x.Sel].(*types.Var); ok {
			if obj.Pkg() != nil && obj.Pkg().Name() == "globals" && obj.Name() == "TopicDelimiter" {
				return atom("Delim")
			}
			if obj.IsField() {
				bt := info.Types[x.X].Type
				switch {
				case isNamedPtr(bt, "parser", "Scope") && obj.Name() == "Name":
					return atom("Scope")
				case isNamedPtr(bt, "parser", "Operation") && obj.Name() == "Name":
					return atom("Op")
				case isNamedPtr(bt, "parser", "ScopePrefix") && obj.Name() == "String":
					// a prefix object built locally (&parser.ScopePrefix{String: f(prefix), …})
					// carries whatever its String field was given
					if lit := ev.localComposite(x.X); lit != nil {
						if fe := compositeField(lit, "String"); fe != nil {
							if t := ev.eval(fe); t != atom("PrefixString") {
								return atom("?prefix text rewritten before it is emitted: " + strings.NewReplacer(atomOpen, "", atomClose, "").Replace(t))
							}
						}
					}
					return atom("PrefixString")
				}
				return atom("?field " + obj.Name())
			}
			if obj.Parent() == obj.Pkg().Scope() {
				return atom("?package variable " + obj.Pkg().Name() + "." + obj.Name())
			}
		}
	case *ast.CallExpr:
		name := calleeName(info, x)
		switch name {
		case "fmt.Sprintf":
			if len(x.Args) == 0 {
				break
			}
			f := ev.eval(x.Args[0])
			if strings.Contains(f, atomOpen+"?") {
				return atom("?format")
			}
			var args []string
			for _, a := range x.Args[1:] {
				args = append(args, ev.eval(a))
			}
			return sprintfSym(f, args)
		case "strings.Title":
			in := ev.eval(x.Args[0])
			if in == atom("Scope") {
				return atom("Title(Scope)")
			}
			return atom("?Title(" + in + ")")
		case "(*parser.ScopePrefix).Template":
			if sel, ok := x.Fun.(*ast.SelectorExpr); ok {
				if lit := ev.localComposite(sel.X); lit != nil {
					if fe := compositeField(lit, "String"); fe != nil {
						if t := ev.eval(fe); t != atom("PrefixString") {
							return atom("?template of a prefix text rewritten before it is emitted: " + strings.NewReplacer(atomOpen, "", atomClose, "").Replace(t))
						}
					}
				}
			}
			return atom("PrefixTemplate(" + ev.eval(x.Args[0]) + ")")
		}
		// helper of the same package returning string: kept as an atom, analysed on its own
		if id, ok := x.Fun.(*ast.Ident); ok {
			if f, ok := info.Uses[id].(*types.Func); ok && f.Pkg() == ev.pkg.Types {
				return atom("call " + f.Name())
			}
		}
		return atom("?call " + name)
	}
	return atom("?expr")
}

func calleeName(info *types.Info, c *ast.CallExpr) string {
	switch f := c.Fun.(type) {
	case *ast.SelectorExpr:
		if fn, ok := info.Uses[f.Sel].(*types.Func); ok {
			if sig, ok := fn.Type().(*types.Signature); ok && sig.Recv() != nil {
				t := sig.Recv().Type()
				ptr := ""
				if p, ok := t.(*types.Pointer); ok {
					t, ptr = p.Elem(), "*"
				}
				if n, ok := t.(*types.Named); ok {
					return "(" + ptr + n.Obj().Pkg().Name() + "." + n.Obj().Name() + ")." + fn.Name()
				}
			}
			if fn.Pkg() != nil {
				return fn.Pkg().Name() + "." + fn.Name()
			}
		}
	case *ast.Ident:
		if fn, ok := info.Uses[f].(*types.Func); ok && fn.Pkg() != nil {
			return fn.Pkg().Name() + "." + fn.Name()
		}
	}
	return "?"
}

// sprintfSym substitutes %s/%v/%q/%d verbs of a generation-time Sprintf.
func sprintfSym(f string, args []string) string {
	var b strings.Builder
	ai := 0
	for i := 0; i < len(f); i++ {
		// an atom stands for text produced at generation time (e.g. the prefix
		// template, whose own %s are filled by this very call): it stays whole
		if strings.HasPrefix(f[i:], atomOpen) {
			if j := strings.Index(f[i:], atomClose); j >= 0 {
				b.WriteString(f[i : i+j+len(atomClose)])
				i += j + len(atomClose) - 1
				continue
			}
		}
		if f[i] != '%' || i+1 >= len(f) {
			b.WriteByte(f[i])
			continue
		}
		i++
		switch f[i] {
		case '%':
			b.WriteByte('%')
		case 's', 'v', 'd':
			if ai < len(args) {
				b.WriteString(args[ai])
			} else {
				b.WriteString(atom("?missing arg"))
			}
			ai++
		case 'q':
			if ai < len(args) {
				b.WriteString(`"` + args[ai] + `"`)
			}
			ai++
		default:
			b.WriteString(atom("?verb"))
		}
	}
	return b.String()
}

// ---- emitted-line model ------------------------------------------------------------------

type emitted struct {
	pkg  *packages.Package
	fn   *ast.FuncDecl
	pos  token.Pos
	text string // symbolic text of one appended chunk
}

// collectEmitted evaluates every string expression appended/assigned/returned in the functions of pkg.
func collectEmitted(pkg *packages.Package) []emitted {
	var out []emitted
	for _, f := range pkg.Syntax {
		for _, d := range f.Decls {
			fd, ok := d.(*ast.FuncDecl)
			if !ok || fd.Body == nil {
				continue
			}
			ev := &tmplEval{pkg: pkg, fn: fd}
			add := func(e ast.Expr) {
				if tv, ok := pkg.TypesInfo.Types[e]; !ok || tv.Type == nil {
					return
				} else if b, ok := tv.Type.Underlying().(*types.Basic); !ok || b.Info()&types.IsString == 0 {
					return
				}
				out = append(out, emitted{pkg, fd, e.Pos(), ev.eval(e)})
			}
			ast.Inspect(fd.Body, func(n ast.Node) bool {
				switch s := n.(type) {
				case *ast.AssignStmt:
					for _, r := range s.Rhs {
						add(r)
					}
				case *ast.ReturnStmt:
					for _, r := range s.Results {
						add(r)
					}
				}
				return true
			})
		}
	}
	return out
}

var identRe = regexp.MustCompile(`^[A-Za-z_][A-Za-z0-9_.]*$`)

// tokenise splits symbolic text into literal chunks and atoms.
func tokenise(s string) []string {
	var out []string
	for len(s) > 0 {
		i := strings.Index(s, atomOpen)
		if i < 0 {
			out = append(out, s)
			break
		}
		if i > 0 {
			out = append(out, s[:i])
		}
		j := strings.Index(s[i:], atomClose)
		if j < 0 {
			out = append(out, s[i:])
			break
		}
		out = append(out, s[i:i+j+len(atomClose)])
		s = s[i+j+len(atomClose):]
	}
	return out
}

// splitArgs splits "a, b, c" at top-level commas.
func splitArgs(s string) []string {
	var out []string
	for _, p := range strings.Split(s, ",") {
		out = append(out, strings.TrimSpace(p))
	}
	return out
}

// topicTokens interprets the emitted topic assignment of a language and
// returns the token list (atoms, "id:<name>", "lit:<text>").
func topicTokens(lang, line string) ([]string, string) {
	var format string
	var args []string
	switch lang {
	case "go":
		m := regexp.MustCompile(`topic := fmt\.Sprintf\("(.*)", (.*)\)\s*$`).FindStringSubmatch(strings.TrimRight(line, "\n"))
		if m == nil {
			return nil, "not of the form topic := fmt.Sprintf(\"…\", args)"
		}
		format, args = m[1], splitArgs(m[2])
	case "java":
		m := regexp.MustCompile(`String topic = String\.format\("(.*)", (.*)\);\s*$`).FindStringSubmatch(strings.TrimRight(line, "\n"))
		if m == nil {
			return nil, "not of the form String topic = String.format(\"…\", args);"
		}
		format, args = m[1], splitArgs(m[2])
	case "python":
		m := regexp.MustCompile(`topic = '(.*)'\.format\((.*)\)\s*$`).FindStringSubmatch(strings.TrimRight(line, "\n"))
		if m == nil {
			return nil, "not of the form topic = '…'.format(args)"
		}
		format, args = strings.ReplaceAll(m[1], "{}", "%s"), splitArgs(m[2])
	case "dart":
		m := regexp.MustCompile(`var topic = '(.*)';\s*$`).FindStringSubmatch(strings.TrimRight(line, "\n"))
		if m == nil {
			return nil, "not of the form var topic = '…';"
		}
		// interpolation: ${x} and $x
		var toks []string
		s := m[1]
		re := regexp.MustCompile(`\$\{([A-Za-z_][A-Za-z0-9_]*)\}|\$([A-Za-z_][A-Za-z0-9_]*)`)
		for len(s) > 0 {
			loc := re.FindStringSubmatchIndex(s)
			if loc == nil {
				toks = append(toks, tokeniseLits(s)...)
				break
			}
			if loc[0] > 0 {
				toks = append(toks, tokeniseLits(s[:loc[0]])...)
			}
			name := ""
			if loc[2] >= 0 {
				name = s[loc[2]:loc[3]]
			} else {
				name = s[loc[4]:loc[5]]
			}
			toks = append(toks, "id:"+name)
			s = s[loc[1]:]
		}
		return toks, ""
	}
	var toks []string
	ai := 0
	for _, part := range strings.SplitAfter(format, "%s") {
		lit := strings.TrimSuffix(part, "%s")
		if lit != "" {
			toks = append(toks, tokeniseLits(lit)...)
		}
		if strings.HasSuffix(part, "%s") {
			if ai >= len(args) {
				return nil, "more placeholders than arguments"
			}
			toks = append(toks, "id:"+args[ai])
			ai++
		}
	}
	if ai != len(args) {
		return nil, "more arguments than placeholders"
	}
	return toks, ""
}

func tokeniseLits(s string) []string {
	var out []string
	for _, t := range tokenise(s) {
		if strings.HasPrefix(t, atomOpen) {
			out = append(out, t)
		} else {
			out = append(out, "lit:"+t)
		}
	}
	return out
}

// C08 — publisher and subscriber agree on the topic in every language.
func C08(ctx *core.Ctx) {
	ctx.Explanation = "Decides symbolically, for all scopes, operations, prefixes and delimiters, that every topic expression the Go, Java, Dart and Python generators emit is the same function of (prefix, scope, delimiter, operation): the string-building expressions of the generators are evaluated to symbolic text (literals, «Title(Scope)», «Delim» = a read of globals.TopicDelimiter inside the generating function, «Op», «PrefixString», «PrefixTemplate») and the emitted topic assignment is read by a small interpreter of each target's format idiom (fmt.Sprintf, String.format, str.format, Dart interpolation), resolving emitted identifiers (prefix, op, DELIMITER/delimiter/_DELIMITER) through the definitions emitted by the same generator. " +
		"Required: token list = [prefix, Title(Scope), Delim, Op] at all nine sites; op is the operation name; prefix comes from the language's prefix helper, whose every non-empty template is the prefix text immediately followed by «Delim» and whose variables are substituted in declaration order. Anything the evaluator cannot interpret is undecided (fails). Not decided: concrete strings for concrete inputs (they follow from the symbolic equality), the PEG prefix action."
	cc := LoadCC(ctx)
	if !cc.OK() {
		return
	}
	c08VariablesKeepOrder(ctx, cc)
	c08NoBlanketRemoval(ctx, cc, "C08.R12")
	ctx.Rule("C08.R1", "same-language agreement and shape: each emitted topic is [prefix, Title(Scope), Delim, Op]", 9)
	ctx.Rule("C08.R2", "emitted identifiers resolve: op = operation name, prefix = the prefix helper of the scope, delimiter constant = «Delim» evaluated at generation time", 20)
	ctx.Rule("C08.R3", "prefix helpers: every non-empty template is prefix text followed by «Delim», empty prefix gives the empty string", 4)
	c08ListOrder(ctx, cc)
	c08OptionPlumbing(ctx, cc)
	c08TemplateHazard(ctx, cc)
	ctx.Rule("C08.R4", "prefix variables are substituted in declaration order", 4)

	langs := []struct{ lang, pkg string }{{"go", "golang"}, {"java", "java"}, {"dart", "dartlang"}, {"python", "python"}}
	want := []string{"id:prefix", atom("Title(Scope)"), atom("Delim"), "id:op"}
	for _, l := range langs {
		var pkg *packages.Package
		for _, p := range cc.V.Pkgs {
			if p.Name == l.pkg {
				pkg = p
			}
		}
		if pkg == nil {
			ctx.Unresolved("C08.R1", l.pkg, "generator package not loaded")
			continue
		}
		ems := collectEmitted(pkg)
		// indentation variables (indent, tabs …) are irrelevant to the line structure
		indentRe := regexp.MustCompile(atomOpen + `\?var [A-Za-z_]\w*` + atomClose)
		for i := range ems {
			ems[i].text = indentRe.ReplaceAllString(ems[i].text, "")
		}
		ctx.Stat("c08_emitted_chunks_"+l.lang, len(ems))
		// no emitted text bakes the delimiter option in at program start
		frozen := 0
		for _, e := range ems {
			if strings.Contains(e.text, atomOpen+"?option read at program start") {
				frozen++
				ctx.Violate("C08.R2", l.pkg+"."+e.fn.Name.Name+sprintf(" › emitted text #%d reads the delimiter option when it is set", frozen), cc.V.Pos(e.pos),
					"the emitted text comes from a package-level variable whose initialiser reads globals.TopicDelimiter: it is evaluated at program start, before Compile stores the -delim option, so this part of the output always uses the default delimiter while the rest follows the option — publisher and subscriber (or two languages) disagree for a non-default delimiter")
			}
		}
		if frozen == 0 {
			ctx.Discharge("C08.R2", l.pkg+" › no emitted text reads the delimiter at program start", "", sprintf("%d emitted chunks evaluated", len(ems)))
		}
		// definitions of emitted identifiers, per generating function and package-wide
		defRe := map[string]*regexp.Regexp{
			"go":     regexp.MustCompile(`(?m)^\s*([A-Za-z_]\w*) := (.*)$`),
			"java":   regexp.MustCompile(`(?m)^\s*(?:private static final |final )?String ([A-Za-z_]\w*) = (.*);$`),
			"dart":   regexp.MustCompile(`(?m)^\s*(?:const String|var) ([A-Za-z_]\w*) = (.*);$`),
			"python": regexp.MustCompile(`(?m)^\s*([A-Za-z_]\w*) = (.*)$`),
		}[l.lang]
		type def struct {
			fn  *ast.FuncDecl
			rhs string
			pos token.Pos
		}
		defs := map[string][]def{}
		for _, e := range ems {
			for _, m := range defRe.FindAllStringSubmatch(strings.TrimRight(e.text, "\n"), -1) {
				defs[m[1]] = append(defs[m[1]], def{e.fn, m[2], e.pos})
			}
		}
		// the prefix helper by role: the one function of the package whose call
		// every emitted `prefix = …` definition consists of
		helperName := "generatePrefixStringTemplate"
		{
			names := map[string]bool{}
			for _, d := range defs["prefix"] {
				v := strings.Trim(strings.TrimSpace(d.rhs), `'`)
				if strings.HasPrefix(v, atomOpen+"call ") && strings.HasSuffix(v, atomClose) && strings.Count(v, atomOpen) == 1 {
					names[strings.TrimSuffix(strings.TrimPrefix(v, atomOpen+"call "), atomClose)] = true
				}
			}
			if len(names) == 1 {
				for n := range names {
					for _, f := range pkg.Syntax {
						for _, d := range f.Decls {
							if fd, ok := d.(*ast.FuncDecl); ok && fd.Name.Name == n && fd.Recv == nil {
								helperName = n
							}
						}
					}
				}
			}
		}
		nsite := map[string]int{}
		for _, e := range ems {
			if !regexp.MustCompile(`(^|[\s])topic :?= `).MatchString(e.text) {
				continue
			}
			// only the chunk that assigns the topic
			line := e.text
			if i := strings.Index(line, "topic"); i >= 0 {
				// keep the declaration keyword in front of it
				j := strings.LastIndexAny(line[:i], "\n\t")
				line = line[j+1:]
			}
			fname := e.fn.Name.Name
			nsite[fname]++
			site := l.pkg + "." + fname + sprintf(" › topic #%d", nsite[fname])
			pos := cc.V.Pos(e.pos)
			toks, errS := topicTokens(l.lang, line)
			if errS != "" {
				ctx.Undecided("C08.R1", site, pos, "cannot interpret the emitted topic assignment ("+errS+"): "+line)
				continue
			}
			// resolve the delimiter identifier
			var norm []string
			for _, t := range toks {
				if t == "id:DELIMITER" || t == "id:delimiter" || t == "id:self._DELIMITER" {
					name := strings.TrimPrefix(strings.TrimPrefix(t, "id:"), "self.")
					ds := defs[name]
					ok := len(ds) > 0
					for _, d := range ds {
						v := strings.Trim(strings.TrimSpace(d.rhs), `"'`)
						if v != atom("Delim") {
							ok = false
							ctx.Violate("C08.R2", l.pkg+"."+d.fn.Name.Name+" › emitted constant "+name, cc.V.Pos(d.pos),
								"the emitted delimiter constant is "+d.rhs+" — not the -delim option read while generating: publisher/subscriber of this language disagree with the other languages for a non-default delimiter")
						} else {
							ctx.Discharge("C08.R2", l.pkg+"."+d.fn.Name.Name+" › emitted constant "+name, cc.V.Pos(d.pos), name+" = «Delim» read at generation time")
						}
					}
					if ok {
						norm = append(norm, atom("Delim"))
					} else {
						norm = append(norm, t)
					}
					continue
				}
				norm = append(norm, t)
			}
			ok := len(norm) == len(want)
			if ok {
				for i := range want {
					if norm[i] != want[i] {
						ok = false
					}
				}
			}
			ctx.Check(ok, "C08.R1", site, pos, "tokens "+strings.Join(norm, " "),
				"the emitted topic is "+strings.Join(norm, " ")+" but must be prefix «Title(Scope)» «Delim» op: this site disagrees with the other publishers/subscribers (different scope-name transform, literal separator instead of the delimiter option, or different order)")
			// op and prefix definitions in the same generating function
			for _, id := range []string{"op", "prefix"} {
				var founds []*def
				for i := range defs[id] {
					if defs[id][i].fn == e.fn {
						founds = append(founds, &defs[id][i])
					}
				}
				if len(founds) > 1 {
					founds = founds[len(founds)-1:]
				}
				if len(founds) == 0 {
					// the topic line is emitted by a helper: the identifiers are defined by each function that calls it
					var callers []*ast.FuncDecl
					for _, f := range pkg.Syntax {
						for _, d := range f.Decls {
							fd, ok := d.(*ast.FuncDecl)
							if !ok || fd == e.fn || fd.Body == nil {
								continue
							}
							calls := false
							ast.Inspect(fd.Body, func(n ast.Node) bool {
								if ce, ok := n.(*ast.CallExpr); ok {
									switch fx := ce.Fun.(type) {
									case *ast.Ident:
										calls = calls || fx.Name == e.fn.Name.Name
									case *ast.SelectorExpr:
										calls = calls || fx.Sel.Name == e.fn.Name.Name
									}
								}
								return true
							})
							if calls {
								callers = append(callers, fd)
							}
						}
					}
					complete := len(callers) > 0
					for _, cf := range callers {
						var fd *def
						for i := range defs[id] {
							if defs[id][i].fn == cf {
								fd = &defs[id][i]
							}
						}
						if fd == nil {
							complete = false
						} else {
							founds = append(founds, fd)
						}
					}
					if !complete {
						ctx.Violate("C08.R2", site+" › "+id+" is defined by the same generator function", pos, "emitted identifier "+id+" has no emitted definition in "+fname+" (nor in every function that calls it)")
						continue
					}
				}
				for _, found := range founds {
					rhs := strings.TrimSpace(found.rhs)
					switch id {
					case "op":
						v := strings.Trim(rhs, `"'`)
						ctx.Check(v == atom("Op"), "C08.R2", site+" › op is the operation name", cc.V.Pos(found.pos), "op = «Op»", "op is emitted as "+rhs+", not the operation's name")
					case "prefix":
						v := strings.Trim(rhs, `'`)
						ctx.Check(v == atom("call "+helperName), "C08.R2", site+" › prefix comes from the prefix helper", cc.V.Pos(found.pos), "prefix = "+helperName+"(scope)", "prefix is emitted as "+rhs+", not through the language's prefix helper")
					}
				}
			}
		}
		// ---- R3/R4 helper ---------------------------------------------------------------
		var helper *ast.FuncDecl
		for _, f := range pkg.Syntax {
			for _, d := range f.Decls {
				if fd, ok := d.(*ast.FuncDecl); ok && fd.Name.Name == helperName {
					helper = fd
				}
			}
		}
		if helper == nil {
			ctx.Unresolved("C08.R3", l.pkg+"."+helperName, "prefix helper not found")
			continue
		}
		hpos := cc.V.Pos(helper.Pos())
		var texts []string
		for _, e := range ems {
			if e.fn == helper {
				texts = append(texts, e.text)
			}
		}
		sort.Strings(texts)
		bad := ""
		nPrefix := 0
		for _, t := range texts {
			toks := tokenise(t)
			for i, tk := range toks {
				if strings.HasPrefix(tk, atomOpen+"?") && !strings.HasPrefix(tk, atomOpen+"?var") {
					// unknown pieces other than the accumulators themselves
					if !strings.Contains(tk, "?format") {
						bad = "cannot interpret " + tk
					}
				}
				if tk == atom("PrefixString") || strings.HasPrefix(tk, atomOpen+"PrefixTemplate(") {
					nPrefix++
					// the next token must be «Delim» (possibly in the following chunk: template += Template(); template += Delim)
					if i+1 < len(toks) {
						if toks[i+1] != atom("Delim") {
							bad = "prefix text is followed by " + toks[i+1] + " instead of the delimiter option"
						}
					} else {
						// chunk ends with the prefix: some other chunk of the helper must start with «Delim»
						cont := false
						for _, t2 := range texts {
							if strings.HasPrefix(t2, atom("Delim")) {
								cont = true
							}
						}
						if !cont {
							bad = "prefix text is not followed by the delimiter option"
						}
					}
				}
			}
			// a literal separator right before/after a delimiter atom is suspicious only if it is a topic character;
			// literal '.' may appear in ".format(" / "String.format(" syntax, so check adjacency to the prefix atoms only
		}
		if nPrefix == 0 && bad == "" {
			bad = "helper emits no prefix text"
		}
		ctx.Check(bad == "", "C08.R3", l.pkg+"."+helperName+" › prefix text is followed by «Delim» in every template", hpos, sprintf("%d template chunk(s)", len(texts)), "prefix helper: "+bad+" — the topic this language builds is not the IDL's prefix text followed by the -delim option, so it disagrees with the other languages")
		// empty prefix ⇒ empty string literal
		emptyOK := false
		for _, t := range texts {
			if t == `""` || t == `''` || t == "" {
				emptyOK = true
			}
		}
		ctx.Check(emptyOK, "C08.R3", l.pkg+"."+helperName+" › empty prefix gives the empty string", hpos, "returns the empty string literal", "a scope without prefix does not get an empty prefix")
		// R4: variables in declaration order: a range over scope.Prefix.Variables (slice, ascending) feeds the argument list
		okOrder := false
		// the helper itself or a function of the package it calls (the list
		// building may be shared); a range, or an ascending index loop
		scan := []*ast.FuncDecl{helper}
		ast.Inspect(helper, func(n ast.Node) bool {
			if ce, ok := n.(*ast.CallExpr); ok {
				if id, ok := ce.Fun.(*ast.Ident); ok {
					for _, f := range pkg.Syntax {
						for _, d := range f.Decls {
							if fd, ok := d.(*ast.FuncDecl); ok && fd.Recv == nil && fd.Name.Name == id.Name && fd != helper {
								scan = append(scan, fd)
							}
						}
					}
				}
			}
			return true
		})
		for _, fd := range scan {
			// locals holding the variable list
			isVars := func(e ast.Expr) bool {
				sel, ok := e.(*ast.SelectorExpr)
				return ok && sel.Sel.Name == "Variables"
			}
			alias := map[string]bool{}
			ast.Inspect(fd, func(n ast.Node) bool {
				if as, ok := n.(*ast.AssignStmt); ok && len(as.Lhs) == 1 && len(as.Rhs) == 1 && isVars(as.Rhs[0]) {
					if id, ok := as.Lhs[0].(*ast.Ident); ok {
						alias[id.Name] = true
					}
				}
				return true
			})
			isList := func(e ast.Expr) bool {
				if id, ok := e.(*ast.Ident); ok && alias[id.Name] {
					return true
				}
				return isVars(e)
			}
			ast.Inspect(fd, func(n ast.Node) bool {
				switch st := n.(type) {
				case *ast.RangeStmt:
					if isList(st.X) {
						okOrder = true
					}
				case *ast.ForStmt:
					inc, isInc := st.Post.(*ast.IncDecStmt)
					if !isInc || inc.Tok != token.INC {
						return true
					}
					idx, isId := inc.X.(*ast.Ident)
					init, isAs := st.Init.(*ast.AssignStmt)
					if !isId || !isAs || len(init.Rhs) != 1 {
						return true
					}
					if lit, isLit := init.Rhs[0].(*ast.BasicLit); !isLit || lit.Value != "0" {
						return true
					}
					ast.Inspect(st.Body, func(m ast.Node) bool {
						if ix, ok := m.(*ast.IndexExpr); ok && isList(ix.X) {
							if id, ok := ix.Index.(*ast.Ident); ok && id.Name == idx.Name {
								okOrder = true
							}
						}
						return true
					})
				}
				return true
			})
		}
		ctx.Check(okOrder, "C08.R4", l.pkg+"."+helperName+" › variables substituted in declaration order", hpos, "range over scope.Prefix.Variables", "prefix variables are not taken in declaration order")
	}
}

package rules

import (
	"go/token"
	"go/types"
	"strings"

	"fv/internal/core"
	"fv/internal/ssax"

	"golang.org/x/tools/go/ssa"
)

// C03 — generated client and server are wired faithfully.
func C03(ctx *core.Ctx) {
	ctx.Explanation = "Decides the wiring that must agree for a call to reach its handler and its outcome to come back: runtime side, the client writes request header ≺ message begin (CALL/ONEWAY) ≺ args ≺ message end ≺ flush exactly once and hands exactly those bytes to the transport; processReply reads response header ≺ message begin, rejects a wrong method name and a non-REPLY/EXCEPTION type before reading the result, reads exception|result then message end; the processor dispatches on the name returned by ReadMessageBegin of the same message after the request header; the framed transport's remaining-frame counter decreases by the number of bytes actually read; " +
		"generator side (Go), the per-exception code of client and processor is emitted for every method except on the oneway path, so every declared exception is checked by the client and mapped by the processor. Not decided: value equality of arguments/results, 'exactly once' at runtime, the other target languages' wiring, golden-file contents."
	r := LoadRT(ctx, "", "")
	if !r.OK() {
		return
	}
	fullReads(ctx, r, "C03.R19")
	ctx.Rule("C03.R3", "exception wiring in the Go generator: the per-exception code is emitted on every non-oneway path of the client-method and processor generators", 2)
	ctx.Rule("C03.R4", "message sequence mirror between client writer/reader and processor reader", 7)
	ctx.Rule("C03.R5", "dispatch key: processMap is indexed with the name returned by ReadMessageBegin of the same message", 1)
	ctx.Rule("C03.R7", "frame accounting: the framed transport's remaining-frame counter decreases by the bytes actually read", 2)
	ctx.Rule("C03.R9", "invocation handlers keep no state across invocations: a closure of type InvocationHandler neither writes through a captured slice/map/pointer nor returns captured storage (concurrent calls of one method each get their own arguments and results)", 1)
	ctx.Rule("C03.R8", "message kinds and method name: Call uses CALL and the same method name for request and reply check; Oneway uses ONEWAY", 3)

	// ---- R4 -------------------------------------------------------------------------------
	if pm := r.Fn("C03.R4", "(FStandardClient).prepareMessage"); pm != nil {
		// oprot = GetProtocol(buffer)
		var oprot ssa.Value
		var buffer ssa.Value
		for _, c := range ssax.Calls(pm) {
			if c.Static != nil && ssax.Name(c.Static) == "(*FProtocolFactory).GetProtocol" {
				oprot = c.Instr.Value()
				buffer = c.Common.Args[1]
			}
		}
		if oprot == nil {
			ctx.Unresolved("C03.R4", "prepareMessage protocol", "no protocol is created on the output buffer")
		} else {
			steps := []seqStep{{"WriteRequestHeader", protoStep(oprot, "WriteRequestHeader")}, {"WriteMessageBegin", protoStep(oprot, "WriteMessageBegin")},
				{"args.Write", protoStep(oprot, "body.Write")}, {"WriteMessageEnd", protoStep(oprot, "WriteMessageEnd")}, {"Flush", protoStep(oprot, "Flush")}}
			checkSequence(ctx, r, "C03.R4", ssax.Name(pm)+" › request message", pm, nil, steps, successReturn)
			// returns the bytes of that buffer; method name and kind are the parameters
			okRet := false
			for _, vs := range ReturnedValues(pm) {
				if c, ok := CallValue(vs[0]); ok && c.ShortName() == "Bytes" {
					if mi := ssax.Strip(buffer); mi == ssax.Strip(c.Common.Args[0]) {
						okRet = true
					}
				}
			}
			ctx.Check(okRet, "C03.R4", ssax.Name(pm)+" › returns the encoded buffer", fnPos(r, pm), "return buffer.Bytes()", "the bytes handed to the transport are not the buffer the message was encoded into")
			// the returned bytes alias the buffer: it must be allocated by this call
			fresh := false
			if bc, isC := CallValue(buffer); isC && bc.Static != nil && strings.HasPrefix(bc.Static.Name(), "NewTMemoryOutputBuffer") {
				fresh = true
			}
			ctx.Check(fresh, "C03.R4", ssax.Name(pm)+" › output buffer is allocated per message", fnPos(r, pm), "NewTMemoryOutputBuffer(...) in this call", "the message is encoded into a buffer that outlives the call (field/shared): the bytes returned alias it, so a concurrent or following message overwrites a message that is still being transmitted — one message is lost and the next delivered twice")
			for _, c := range ssax.Calls(pm) {
				if _, op := protoOp(c); op == "WriteMessageBegin" {
					var mp, kp *ssa.Parameter
					for _, p := range pm.Params {
						if b, ok := p.Type().Underlying().(*types.Basic); ok && b.Kind() == types.String {
							mp = p
						}
						if ssax.TypeNamed(p.Type(), "thrift", "TMessageType") {
							kp = p
						}
					}
					a := c.Common.Args
					ok := len(a) >= 4 && mp != nil && kp != nil && ssax.Strip(a[len(a)-3]) == ssa.Value(mp) && ssax.Strip(a[len(a)-2]) == ssa.Value(kp)
					ctx.Check(ok, "C03.R4", ssax.Name(pm)+" › message begin carries the method name and kind it was given", r.IPos(c.Instr), "WriteMessageBegin(ctx, method, kind, 0)", "the request is labelled with a different method name or message kind than the caller asked for")
				}
			}
		}
	}
	if pr := r.Fn("C03.R4", "(FStandardClient).processReply"); pr != nil {
		var iprot ssa.Value
		for _, c := range ssax.Calls(pr) {
			if c.Static != nil && ssax.Name(c.Static) == "(*FProtocolFactory).GetProtocol" {
				iprot = c.Instr.Value()
			}
		}
		if iprot != nil {
			hdr := firstMatching(pr, protoStep(iprot, "ReadResponseHeader"))
			beg := firstMatching(pr, protoStep(iprot, "ReadMessageBegin"))
			ctx.Check(hdr != nil && beg != nil && ssax.Dominates(hdr, beg), "C03.R4", ssax.Name(pr)+" › response header ≺ message begin", fnPos(r, pr), "dominance", "the reply is decoded in a different order than the server writes it")
			// every body.Read (result or exception) is dominated by message begin; result.Read is dominated by the name check and the type checks
			var methodParam *ssa.Parameter
			var resultParam *ssa.Parameter
			for _, p := range pr.Params {
				if b, ok := p.Type().Underlying().(*types.Basic); ok && b.Kind() == types.String {
					methodParam = p
				}
				if ssax.TypeNamed(p.Type(), "thrift", "TStruct") {
					resultParam = p
				}
			}
			var nameTest, replyTest ssa.Instruction
			ssax.Instrs(pr, func(in ssa.Instruction) {
				iff, ok := in.(*ssa.If)
				if !ok {
					return
				}
				bo, ok := iff.Cond.(*ssa.BinOp)
				if !ok {
					return
				}
				if bo.Op == token.NEQ && methodParam != nil && (ssax.Strip(bo.Y) == ssa.Value(methodParam) || ssax.Strip(bo.X) == ssa.Value(methodParam)) {
					if tup, ok := ExtractOf(otherOperand(bo, methodParam), 0); ok && beg != nil && tup == beg.(ssa.Value) {
						nameTest = in
					}
				}
				if bo.Op == token.NEQ {
					if k, isK := ssax.ConstInt(bo.Y); isK && k == 2 { // thrift.REPLY
						if tup, ok := ExtractOf(bo.X, 1); ok && beg != nil && tup == beg.(ssa.Value) {
							replyTest = in
						}
					}
				}
			})
			for _, c := range ssax.Calls(pr) {
				if p, op := protoOp(c); op == "body.Read" && p == ssax.Strip(iprot) {
					isResult := resultParam != nil && ssax.Strip(c.Args()[0]) == ssa.Value(resultParam)
					if !isResult {
						continue
					}
					in := c.Instr.(ssa.Instruction)
					_, _ = nameTest, replyTest
					var nameV, typeV ssa.Value
					if beg != nil {
						for _, u := range *beg.(ssa.Value).Referrers() {
							if e, isE := u.(*ssa.Extract); isE {
								switch e.Index {
								case 0:
									nameV = e
								case 1:
									typeV = e
								}
							}
						}
					}
					okName := nameV != nil && methodParam != nil && dominatedByEquality(in, nameV, methodParam, nil)
					two := int64(2) // thrift.REPLY
					okType := typeV != nil && dominatedByEquality(in, typeV, nil, &two)
					ctx.Check(okName, "C03.R4", ssax.Name(pr)+" › result is read only for a reply to the same method", r.IPos(in), "dominated by the oMethod == method edge", "a reply labelled with a different method name is decoded as this call's result")
					ctx.Check(okType, "C03.R4", ssax.Name(pr)+" › result is read only from a REPLY message", r.IPos(in), "dominated by the mTypeID == REPLY edge", "an EXCEPTION or other message type is decoded as the result struct")
					// followed by ReadMessageEnd
					end := false
					for _, c2 := range ssax.Calls(pr) {
						if p2, op2 := protoOp(c2); op2 == "ReadMessageEnd" && p2 == ssax.Strip(iprot) && ssax.Dominates(in, c2.Instr.(ssa.Instruction)) {
							end = true
						}
					}
					ctx.Check(end, "C03.R4", ssax.Name(pr)+" › result ≺ message end", r.IPos(in), "ReadMessageEnd after result.Read", "the message end is not consumed after the result")
				}
			}
		}
	}

	// ---- R5 -------------------------------------------------------------------------------
	if proc := r.Fn("C03.R5", "(*FBaseProcessor).Process"); proc != nil {
		iprot := proc.Params[1]
		ok := false
		var hdr, beg ssa.Instruction
		hdr = firstMatching(proc, protoStep(iprot, "ReadRequestHeader"))
		beg = firstMatching(proc, protoStep(iprot, "ReadMessageBegin"))
		ssax.Instrs(proc, func(in ssa.Instruction) {
			if lk, isL := in.(*ssa.Lookup); isL && fieldNameOfValue(lk.X) == "processMap" {
				if tup, isE := ExtractOf(lk.Index, 0); isE && beg != nil && tup == beg.(ssa.Value) {
					ok = true
				}
			}
		})
		ctx.Check(ok && hdr != nil && beg != nil && ssax.Dominates(hdr, beg), "C03.R5", ssax.Name(proc)+" › dispatch on the message's own method name", fnPos(r, proc), "processMap[name of ReadMessageBegin], after ReadRequestHeader", "the processor function is chosen by something other than the method name of the message being read")
		// unknown method: the rest of the request is consumed before the exception reply is written
		var missFirst ssa.Instruction
		ssax.Instrs(proc, func(in ssa.Instruction) {
			lk, isL := in.(*ssa.Lookup)
			if !isL || !lk.CommaOk || fieldNameOfValue(lk.X) != "processMap" {
				return
			}
			for _, u := range *lk.Referrers() {
				if e, isE := u.(*ssa.Extract); isE && e.Index == 1 {
					for _, w := range *e.Referrers() {
						if iff, isIf := w.(*ssa.If); isIf && len(iff.Block().Succs[1].Instrs) > 0 {
							missFirst = iff.Block().Succs[1].Instrs[0]
						}
					}
				}
			}
		})
		if missFirst == nil {
			ctx.Unresolved("C03.R5", ssax.Name(proc)+" › unknown-method branch", "miss edge of the processMap lookup not found")
		} else {
			oprot := proc.Params[2]
			steps := []seqStep{{"Skip(args)", protoStep(iprot, "Skip")}, {"ReadMessageEnd", protoStep(iprot, "ReadMessageEnd")},
				{"WriteResponseHeader", protoStep(oprot, "WriteResponseHeader")}, {"WriteMessageBegin", protoStep(oprot, "WriteMessageBegin")},
				{"exception.Write", protoStep(oprot, "body.Write")}, {"WriteMessageEnd", protoStep(oprot, "WriteMessageEnd")}, {"Flush", protoStep(oprot, "Flush")}}
			checkSequence(ctx, r, "C03.R5", ssax.Name(proc)+" › unknown method: request drained, then exception reply", proc, missFirst, steps, successReturn)
		}
		// the processor function gets the request's fctx and both protocols
		for _, c := range ssax.Calls(proc) {
			if c.Method != nil && c.Method.Name() == "Process" && ssax.TypeNamed(c.Common.Value.Type(), "", "FProcessorFunction") {
				a := c.Common.Args
				okArgs := len(a) == 3 && ssax.Strip(a[1]) == ssa.Value(proc.Params[1]) && ssax.Strip(a[2]) == ssa.Value(proc.Params[2])
				if tup, isE := ExtractOf(a[0], 0); !isE || hdr == nil || tup != hdr.(ssa.Value) {
					okArgs = false
				}
				ctx.Check(okArgs, "C03.R5", ssax.Name(proc)+" › processor function gets the request's context and protocols", r.IPos(c.Instr), "Process(fctx of ReadRequestHeader, iprot, oprot)", "the handler side is invoked with a different context or protocol than the request's")
			}
		}
	}

	ctx.Rule("C03.R11", "a caller decodes its own reply: the frame a reader loop delivers is a buffer allocated for that frame alone (it is decoded later, on the caller's goroutine)", 1)
	frameOwnership(ctx, r, "C03.R11")
	ctx.Rule("C03.R10", "goroutines started in a loop capture per-iteration variables only (each accepted connection / message is served by its own goroutine with its own value)", 1)
	c03LoopCapture(ctx, r, "C03.R10")

	// ---- R9 -------------------------------------------------------------------------------
	if ih := r.Pkg.Type("InvocationHandler"); ih == nil {
		ctx.Unresolved("C03.R9", "InvocationHandler", "type not found")
	} else {
		want := ih.Type().Underlying()
		// state that outlives one invocation: captured variables of a closure, or
		// the receiver of a method used as a handler (bound method value)
		isRecv := func(v ssa.Value) bool {
			switch x := v.(type) {
			case *ssa.Parameter:
				return x.Parent().Signature.Recv() != nil && len(x.Parent().Params) > 0 && x.Parent().Params[0] == x
			case *ssa.Alloc:
				// the spilled copy of a value receiver
				for _, u := range *x.Referrers() {
					if st, ok := u.(*ssa.Store); ok && st.Addr == ssa.Value(x) {
						if q, isP := st.Val.(*ssa.Parameter); isP && q.Parent().Signature.Recv() != nil && q.Parent().Params[0] == q {
							return true
						}
					}
				}
			}
			return false
		}
		var cur *ssa.Function // the handler body being analysed
		var rootFree func(v ssa.Value, depth int) ssa.Value
		rootFree = func(v ssa.Value, depth int) ssa.Value {
			if depth > 8 {
				return nil
			}
			// a captured variable that is assigned once resolves to the enclosing
			// function's value (ssax.Unbox): storage of the enclosing function is captured storage
			switch sv := ssax.Strip(v).(type) {
			case *ssa.Parameter:
				if cur != nil && sv.Parent() != cur {
					return sv
				}
			case ssa.Instruction:
				if cur != nil && sv.Parent() != cur && cur.Parent() != nil {
					if val, isVal := sv.(ssa.Value); isVal {
						return val
					}
				}
			}
			if sv := ssax.Strip(v); isRecv(sv) {
				if _, isAlloc := sv.(*ssa.Alloc); !isAlloc || depth > 1 {
					return sv // through the receiver (a store to a field of the by-value copy itself is local)
				}
				return nil
			}
			switch x := ssax.Strip(v).(type) {
			case *ssa.FreeVar:
				return x
			case *ssa.IndexAddr:
				return rootFree(x.X, depth+1)
			case *ssa.FieldAddr:
				return rootFree(x.X, depth+1)
			case *ssa.UnOp:
				if x.Op == token.MUL {
					return rootFree(x.X, depth+1)
				}
			case *ssa.Slice:
				return rootFree(x.X, depth+1)
			}
			return nil
		}
		sameShape := func(fn *ssa.Function) bool {
			if fn.Parent() != nil {
				return types.Identical(fn.Signature, want)
			}
			if fn.Signature.Recv() == nil || fn.Synthetic != "" {
				return false
			}
			sig := fn.Signature
			return types.Identical(types.NewSignatureType(nil, nil, nil, sig.Params(), sig.Results(), sig.Variadic()), want)
		}
		for _, fn := range r.Fns {
			if !sameShape(fn) {
				continue
			}
			bad := ""
			cur = fn
			ssax.Instrs(fn, func(in ssa.Instruction) {
				switch x := in.(type) {
				case *ssa.Store:
					// a store *to the cell of* a captured variable, or through captured storage
					if fv := rootFree(x.Addr, 0); fv != nil {
						bad = r.IPos(in) + ": write through captured " + fv.Name()
					}
				case *ssa.MapUpdate:
					if fv := rootFree(x.Map, 0); fv != nil {
						bad = r.IPos(in) + ": map update of captured " + fv.Name()
					}
				case *ssa.Return:
					for _, rv := range x.Results {
						if fv := rootFree(rv, 0); fv != nil {
							if _, isSl := rv.Type().Underlying().(*types.Slice); isSl {
								bad = r.IPos(in) + ": returns captured slice " + fv.Name()
							}
						}
					}
				}
			})
			ctx.Check(bad == "", "C03.R9", ssax.Name(fn)+" › no state shared between invocations", fnPos(r, fn), "writes only to storage allocated by this invocation",
				"the handler closure is created once per method and invoked concurrently, but "+bad+": two overlapping invocations of one method share the storage, so a caller can receive the results (or arguments) of another call")
		}
	}

	// ---- R7 -------------------------------------------------------------------------------
	if rd := r.Fn("C03.R7", "(*TFramedTransport).Read"); rd != nil {
		n := 0
		ssax.Instrs(rd, func(in ssa.Instruction) {
			st, ok := in.(*ssa.Store)
			if !ok || fieldNameOfAddr(st.Addr) != "frameSize" {
				return
			}
			n++
			v := ssax.Strip(st.Val)
			okV := false
			how := ""
			// (a) the size returned by the frame-header reader
			if tup, isE := ExtractOf(v, 0); isE {
				if c, isC := CallValue(tup); isC && c.Static != nil && c.Static.Pkg == r.Pkg {
					okV, how = true, "new frame: size from "+c.Static.Name()
				}
			}
			// (b) old - uint32(n) with n the count returned by the underlying Read in this function
			if bo, isB := v.(*ssa.BinOp); isB && bo.Op == token.SUB && fieldNameOfValue(bo.X) == "frameSize" {
				y := ssax.Strip(bo.Y)
				if cv, isCv := y.(*ssa.Convert); isCv {
					y = ssax.Strip(cv.X)
				}
				if tup, isE := ExtractOf(y, 0); isE {
					if c, isC := CallValue(tup); isC && c.ShortName() == "Read" {
						okV, how = true, "remaining − bytes returned by "+c.FullName()
					}
				}
			}
			ctx.Check(okV, "C03.R7", ssax.Name(rd)+sprintf(" › frameSize update #%d", n), r.IPos(in), how,
				"the remaining-frame counter is not decreased by the number of bytes actually read (e.g. by the bytes requested): after a short read the frame boundary is lost — large or fragmented messages fail or desynchronise the connection")
		})
		ctx.Check(n >= 2, "C03.R7", ssax.Name(rd)+" › frame counter is maintained", fnPos(r, rd), sprintf("%d updates", n), "the framed reader no longer tracks the remaining bytes of the frame")
		framedReadAccounting(ctx, r, rd, "C03.R7")
	}

	c03ResponseOutlivesContext(ctx, r)
	c03TransmitOnce(ctx, r)
	ctx.Rule("C03.R16", "a received request is handed to the processor once: one call site per serving function reaches FProcessor.Process", 3)
	processOnce(ctx, r, "C03.R16")
	ctx.Rule("C03.R13", "the reply reaches the caller that is waiting for it: every Request registers a per-call, buffered result channel before it sends (the registry hands a reply over without blocking and drops it when nobody can take it) and removes it on every exit", 2)
	for _, req := range r.Impl("FTransport", "Request") {
		c01Request(ctx, r, req, "C03.R13", "")
	}

	// ---- R8 -------------------------------------------------------------------------------
	for _, spec := range []struct {
		fn   string
		kind int64
	}{{"Call", 1}, {"Oneway", 4}, {"Publish", 1}} {
		fn := r.Fn("C03.R8", "(*FStandardClient)."+spec.fn)
		if fn == nil {
			continue
		}
		ok := false
		var nameArg ssa.Value
		for _, c := range ssax.Calls(fn) {
			if c.Static != nil && c.Static.Name() == "prepareMessage" {
				a := c.Common.Args
				if k, isK := ssax.ConstInt(a[len(a)-1]); isK && k == spec.kind {
					ok = true
				}
				nameArg = ssax.Strip(a[3])
			}
		}
		ctx.Check(ok, "C03.R8", ssax.Name(fn)+" › message kind", fnPos(r, fn), sprintf("TMessageType %d", spec.kind), "the request is sent with the wrong message kind (a oneway sent as CALL makes the server reply; a call sent as ONEWAY gets no reply)")
		if spec.fn == "Call" {
			same := false
			for _, c := range ssax.Calls(fn) {
				if c.Static != nil && c.Static.Name() == "processReply" && nameArg != nil && ssax.Strip(c.Common.Args[3]) == nameArg {
					same = true
				}
			}
			ctx.Check(same, "C03.R8", ssax.Name(fn)+" › reply is checked against the method name that was sent", fnPos(r, fn), "same method value for prepareMessage and processReply", "the reply's method name is compared with a different name than the one sent")
		}
	}

	// ---- R3 generator side ----------------------------------------------------------------------
	cc := LoadCC(ctx)
	if cc.OK() {
		for _, name := range []string{"(*Generator).generateInternalClientMethod", "(*Generator).generateMethodProcessor"} {
			fn := cc.FnOpt("golang", name)
			if fn == nil {
				ctx.Unresolved("C03.R3", "golang."+name, "generator function not found")
				continue
			}
			// the range over method.Exceptions
			var rangeI ssa.Instruction
			ssax.Instrs(fn, func(in ssa.Instruction) {
				// slices are ranged by index: the len() of the Exceptions field marks the loop
				if c, ok := ssax.AsCall(in); ok && c.FullName() == "builtin.len" && fieldNameOfValue(c.Common.Args[0]) == "Exceptions" {
					if rangeI == nil {
						rangeI = in
					}
				}
			})
			if rangeI == nil {
				ctx.Violate("C03.R3", "golang."+name+" › emits per-exception code", cc.FPos(fn), "the generator no longer iterates over the method's declared exceptions")
				continue
			}
			// every return not preceded by the loop must be on the Oneway edge
			bad := false
			ssax.Instrs(fn, func(in ssa.Instruction) {
				ret, ok := in.(*ssa.Return)
				if !ok || in.Block().Comment == "recover" {
					return
				}
				isThis := func(x ssa.Instruction) bool { return x == ssa.Instruction(ret) }
				isLoop := func(x ssa.Instruction) bool { return x == rangeI }
				if p := ssax.PathFrom(fn, nil, isThis, isLoop); p == nil {
					return
				}
				// allowed only if dominated by the method.Oneway true edge
				okEdge := false
				for cur := in.Block(); cur != nil; cur = cur.Idom() {
					if len(cur.Preds) != 1 {
						continue
					}
					pb := cur.Preds[0]
					iff, isIf := pb.Instrs[len(pb.Instrs)-1].(*ssa.If)
					if !isIf {
						continue
					}
					cond := iff.Cond
					neg := false
					if u, isU := cond.(*ssa.UnOp); isU && u.Op == token.NOT {
						cond, neg = u.X, true
					}
					if fieldNameOfValue(cond) == "Oneway" {
						onTrue := pb.Succs[0] == cur
						if onTrue != neg {
							okEdge = true
						}
					}
				}
				if !okEdge {
					bad = true
				}
			})
			ctx.Check(!bad, "C03.R3", "golang."+name+" › per-exception code on every non-oneway path", cc.IPos(rangeI), "every return that skips the exceptions loop is on the method.Oneway edge",
				"for some methods (e.g. void ones) the generator returns before emitting the per-exception code: a declared exception raised by the handler is silently dropped by the generated client / not mapped by the generated processor")
		}
		c03ExceptionLoops(ctx, cc)
	}
}

// c03ExceptionLoops — C03.R3 for the other target languages: in every function
// of the Java, Dart and Python generators that iterates over a method's
// declared exceptions, a return that skips the loop is taken only for oneway
// methods. (Returning early for void methods drops `throws` of void methods:
// the generated client returns normally although the handler raised a
// declared exception.)
func c03ExceptionLoops(ctx *core.Ctx, cc *CC) {
	for _, fn := range cc.Fns {
		if fn.Pkg == nil {
			continue
		}
		pn := fn.Pkg.Pkg.Name()
		if pn != "java" && pn != "dartlang" && pn != "python" {
			continue
		}
		var rangeI ssa.Instruction
		ssax.Instrs(fn, func(in ssa.Instruction) {
			c, ok := ssax.AsCall(in)
			if !ok || c.FullName() != "builtin.len" || fieldNameOfValue(c.Common.Args[0]) != "Exceptions" || rangeI != nil {
				return
			}
			// of a parser.Method
			if u, isU := ssax.Strip(c.Common.Args[0]).(*ssa.UnOp); isU {
				// a per-method generator function: the method is a parameter (in a function that loops
				// over all methods, "no method at all" is a legitimate way round the loop)
				if fa, isFA := u.X.(*ssa.FieldAddr); isFA && ssax.TypeNamed(fa.X.Type(), "parser", "Method") {
					if _, isParam := ssax.Strip(fa.X).(*ssa.Parameter); isParam {
						rangeI = in
					}
				}
			}
		})
		if rangeI == nil {
			continue
		}
		bad := false
		ssax.Instrs(fn, func(in ssa.Instruction) {
			ret, ok := in.(*ssa.Return)
			if !ok || in.Block().Comment == "recover" {
				return
			}
			isThis := func(x ssa.Instruction) bool { return x == ssa.Instruction(ret) }
			isLoop := func(x ssa.Instruction) bool { return x == rangeI }
			if p := ssax.PathFrom(fn, nil, isThis, isLoop); p == nil {
				return
			}
			okEdge := false
			for cur := in.Block(); cur != nil; cur = cur.Idom() {
				if len(cur.Preds) != 1 {
					continue
				}
				pb := cur.Preds[0]
				iff, isIf := pb.Instrs[len(pb.Instrs)-1].(*ssa.If)
				if !isIf {
					continue
				}
				cond := iff.Cond
				neg := false
				if u, isU := cond.(*ssa.UnOp); isU && u.Op == token.NOT {
					cond, neg = u.X, true
				}
				if fieldNameOfValue(cond) == "Oneway" {
					if (pb.Succs[0] == cur) != neg {
						okEdge = true
					}
				}
			}
			if !okEdge {
				bad = true
			}
		})
		ctx.Check(!bad, "C03.R3", QName(fn)+" › per-exception code on every non-oneway path", cc.IPos(rangeI), "every return that skips the exceptions loop is on the method.Oneway edge",
			"for some methods (e.g. void ones) the generator returns before emitting the per-exception code: a declared exception raised by the handler is silently dropped by the generated client / not mapped by the generated processor")
	}
}

func firstMatching(fn *ssa.Function, p ssax.Pred) ssa.Instruction {
	var res ssa.Instruction
	ssax.Instrs(fn, func(in ssa.Instruction) {
		if res == nil && p(in) {
			res = in
		}
	})
	return res
}

func otherOperand(bo *ssa.BinOp, p ssa.Value) ssa.Value {
	if ssax.Strip(bo.X) == p {
		return bo.Y
	}
	return bo.X
}

// dominatedByEquality: instruction in is reached only through an edge on which
// a == b (b a value) or a == *k (k a constant) was established, whatever the
// syntactic form of the test (==, !=, switch case).
func dominatedByEquality(in ssa.Instruction, a ssa.Value, b ssa.Value, k *int64) bool {
	for cur := in.Block(); cur != nil; cur = cur.Idom() {
		if len(cur.Preds) != 1 {
			continue
		}
		p := cur.Preds[0]
		iff, ok := p.Instrs[len(p.Instrs)-1].(*ssa.If)
		if !ok {
			continue
		}
		onTrue := p.Succs[0] == cur
		if p.Succs[0] == p.Succs[1] {
			continue
		}
		cond := iff.Cond
		for {
			u, isU := cond.(*ssa.UnOp)
			if !isU || u.Op != token.NOT {
				break
			}
			cond, onTrue = u.X, !onTrue
		}
		bo, ok := cond.(*ssa.BinOp)
		if !ok || (bo.Op != token.EQL && bo.Op != token.NEQ) {
			continue
		}
		match := func(x, y ssa.Value) bool {
			if ssax.Strip(x) != ssax.Strip(a) {
				return false
			}
			if b != nil {
				return ssax.Strip(y) == ssax.Strip(b)
			}
			if c, isC := ssax.ConstInt(y); isC && k != nil {
				return c == *k
			}
			return false
		}
		if !(match(bo.X, bo.Y) || match(bo.Y, bo.X)) {
			continue
		}
		if (bo.Op == token.EQL) == onTrue {
			return true
		}
	}
	return false
}

// framedReadAccounting: every read from the underlying reader in
// TFramedTransport.Read is followed by an update of the remaining-frame
// counter on every path to a return.
func framedReadAccounting(ctx *core.Ctx, r *RT, rd *ssa.Function, rule string) {
	// every read from the underlying reader is accounted for before the function returns
	k := 0
	for _, c := range ssax.Calls(rd) {
		reads := false
		for _, a := range c.Args() {
			if fieldNameOfValue(a) == "reader" {
				reads = true
			}
		}
		if !reads {
			continue
		}
		if full := c.FullName(); !(strings.HasSuffix(full, ".Read") || full == "io.ReadFull" || full == "io.ReadAtLeast") {
			continue
		}
		k++
		isStore := func(in ssa.Instruction) bool {
			st, ok := in.(*ssa.Store)
			return ok && fieldNameOfAddr(st.Addr) == "frameSize"
		}
		bad := ssax.PathFrom(rd, c.Instr.(ssa.Instruction), ssax.IsReturn, isStore)
		if bad == nil {
			ctx.Discharge(rule, ssax.Name(rd)+sprintf(" › read #%d of the underlying stream is counted", k), r.IPos(c.Instr), "frameSize is updated on every path to a return")
		} else {
			ctx.Violate(rule, ssax.Name(rd)+sprintf(" › read #%d of the underlying stream is counted", k), r.IPos(c.Instr),
				"bytes are consumed from the underlying stream and the function can return without updating the remaining-frame counter: the next Read resumes inside the old frame's accounting, so the following request on the same connection is decoded from the wrong offset (its size prefix is taken for payload) and is never answered", ssax.PathString(r.V.Fset, bad)...)
		}
	}
}

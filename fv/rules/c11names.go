package rules

import (
	"sort"
	"strings"

	"fv/internal/core"
	"fv/internal/ssax"

	"golang.org/x/tools/go/ssa"
)

// c11GoNames — C11.R4: the Go generator refers to a user type by the name it
// declares it with. Declaration sites name a struct/enum/typedef by applying a
// naming function to the declared Name; the reference-side function
// (qualifiedTypeName) must apply one of the same naming functions to the
// type's own name (ParamName) and add nothing but the include's package.
func c11GoNames(ctx *core.Ctx, cc *CC) {
	ctx.Rule("C11.R4", "Go naming agreement: types are referenced through the naming function they are declared with, applied to the type's own name", 2)
	gp := cc.Pkg("generator/golang")
	if gp == nil {
		ctx.Unresolved("C11.R4", "golang generator", "package not loaded")
		return
	}
	isNameLoad := func(v ssa.Value, owners ...string) bool {
		u, ok := ssax.Strip(v).(*ssa.UnOp)
		if !ok {
			return false
		}
		fa, ok := u.X.(*ssa.FieldAddr)
		if !ok || fieldName(fa) != "Name" {
			return false
		}
		for _, o := range owners {
			if ssax.TypeNamed(fa.X.Type(), "", o) {
				return true
			}
		}
		return false
	}
	// declaration-side naming functions
	decl := map[*ssa.Function]int{}
	for _, fn := range cc.Fns {
		if fn.Pkg != gp {
			continue
		}
		for _, c := range ssax.Calls(fn) {
			if c.Static == nil || c.Static.Pkg != gp || len(c.Common.Args) != 1 {
				continue
			}
			if isNameLoad(c.Common.Args[0], "Struct", "Enum", "TypeDef") {
				decl[c.Static]++
			}
		}
	}
	var dn []string
	for f, n := range decl {
		dn = append(dn, sprintf("%s×%d", f.Name(), n))
	}
	sort.Strings(dn)
	ctx.Check(len(decl) == 1, "C11.R4", "golang › one naming function for declared struct/enum/typedef names", "compiler/generator/golang/generator.go", strings.Join(dn, ", "),
		"declared type names go through different naming functions ("+strings.Join(dn, ", ")+"): a reference cannot agree with all of them")
	ref := cc.Fn("C11.R4", "generator/golang", "(*Generator).qualifiedTypeName")
	if ref == nil {
		return
	}
	// X: naming(ParamName(t))
	isBare := func(v ssa.Value) (bool, string) {
		c, ok := CallValue(v)
		if !ok || c.Static == nil {
			return false, "not a call of a naming function: " + v.String()
		}
		if decl[c.Static] == 0 {
			return false, "the reference is named by " + c.Static.Name() + ", declarations by " + strings.Join(dn, ", ")
		}
		a, ok := CallValue(c.Common.Args[0])
		if !ok || a.ShortName() != "ParamName" || !IsParam(a.Args()[0], ref, 1) {
			return false, "the naming function is not applied to the type's own name (t.ParamName())"
		}
		return true, ""
	}
	var okVal func(v ssa.Value, depth int) (bool, string)
	okVal = func(v ssa.Value, depth int) (bool, string) {
		v = ssax.Strip(v)
		if depth > 6 {
			return false, "too deep"
		}
		if phi, isPhi := v.(*ssa.Phi); isPhi {
			for _, e := range phi.Edges {
				if ok, why := okVal(e, depth+1); !ok {
					return false, why
				}
			}
			return true, ""
		}
		if ok, _ := isBare(v); ok {
			return true, ""
		}
		if c, isC := CallValue(v); isC && c.FullName() == "fmt.Sprintf" {
			// "%s.%s" with (package reference, bare name)
			if f, isK := ConstString(c.Args()[0]); isK && f == "%s.%s" {
				va := VarargValues(c.Args()[1])
				if len(va) == 2 {
					x := va[1]
					if mi, isMI := x.(*ssa.MakeInterface); isMI {
						x = ssax.Strip(mi.X)
					}
					return isBare(x)
				}
			}
			return false, "qualification is not \"%s.%s\" of (package, bare name)"
		}
		_, why := isBare(v)
		return false, why
	}
	n := 0
	for ret, vs := range ReturnedValues(ref) {
		n++
		ok, why := okVal(vs[0], 0)
		ctx.Check(ok, "C11.R4", QName(ref)+sprintf(" › return #%d is [package.]naming(t.ParamName())", n), cc.IPos(ret), "same naming function as the declarations, nothing appended afterwards",
			"the Go name a type is referenced by is not computed like the name it is declared with ("+why+"): for some valid type names (New…/…Args/…Result, all-caps with underscores, included types) the generated code refers to an undeclared identifier and does not compile")
	}
}

package rules

import (
	"go/token"

	"fv/internal/core"
	"fv/internal/ssax"

	"golang.org/x/tools/go/ssa"
)

// c07PerMessage — C07.R9/R10.
//
// R9: every invocation of the subscriber's callback inside a receive loop gets
// a transport allocated in that same iteration (one message, one buffer): a
// buffer that lives across iterations carries the unread rest of a malformed
// message into every following message.
//
// R10: a subscriber starts exactly workerCount workers (for i := 0; i <
// workerCount; i++): one worker too many lets a single-worker subscriber
// handle two messages concurrently and out of publish order.
func c07PerMessage(ctx *core.Ctx, r *RT) {
	ctx.Rule("C07.R9", "one message, one buffer: the transport given to the callback in a receive loop is allocated in that iteration", 2)
	ctx.Rule("C07.R10", "worker accounting: Subscribe starts exactly workerCount workers", 1)
	for _, fn := range r.Fns {
		for _, c := range ssax.Calls(fn) {
			if c.Static != nil || c.Method != nil || !ssax.TypeNamed(c.Common.Value.Type(), "", "FAsyncCallback") {
				continue
			}
			in := c.Instr.(ssa.Instruction)
			if !inCycle(in) || len(c.Common.Args) != 1 {
				continue
			}
			loop := loopBlocks(in.Block())
			arg := ssax.Strip(c.Common.Args[0])
			if mi, ok := arg.(*ssa.MakeInterface); ok {
				arg = ssax.Strip(mi.X)
			}
			ok, why := false, "the transport is "+arg.String()
			switch x := arg.(type) {
			case *ssa.Alloc:
				if loop[x.Block()] {
					ok = true
				} else {
					why = "the transport is allocated once, outside the loop, and refilled for every message"
				}
			case *ssa.Call:
				if loop[x.Block()] && FreshBase(x) {
					ok = true
				}
			}
			ctx.Check(ok, "C07.R9", ssax.Name(fn)+" › callback gets a transport made for this message", r.IPos(in), "allocated inside the loop body",
				why+": whatever a failed callback leaves unread stays in front of the next message, so one malformed message makes every later message of that worker undecodable")
		}
	}
	// R10
	for _, fn := range r.Impl("FSubscriberTransport", "Subscribe") {
		for _, c := range ssax.Calls(fn) {
			g, isGo := c.Instr.(*ssa.Go)
			if !isGo || !inCycle(g) {
				continue
			}
			// the loop guard controlling the go statement: i < bound with i = φ(0, i+1)
			okBound, how := false, "no loop guard of the form i < workerCount with i = φ(0, i+1)"
			for _, b := range fn.Blocks {
				iff, ok := b.Instrs[len(b.Instrs)-1].(*ssa.If)
				if !ok || !b.Dominates(g.Block()) {
					continue
				}
				bo, ok := iff.Cond.(*ssa.BinOp)
				if !ok {
					continue
				}
				phi, ok := bo.X.(*ssa.Phi)
				if !ok || fieldNameOfAddr(bo.Y) != "workerCount" {
					continue
				}
				zero, inc := false, false
				for _, e := range phi.Edges {
					if z, k := ssax.ConstInt(e); k && z == 0 {
						zero = true
					} else if add, k := e.(*ssa.BinOp); k && add.Op == token.ADD && add.X == ssa.Value(phi) {
						if one, k2 := ssax.ConstInt(add.Y); k2 && one == 1 {
							inc = true
						}
					}
				}
				if bo.Op == token.LSS && zero && inc && iff.Block().Succs[0].Dominates(g.Block()) {
					okBound, how = true, "for i := 0; i < workerCount; i++"
				} else {
					how = "loop guard is `i " + bo.Op.String() + " workerCount`"
				}
			}
			ctx.Check(okBound, "C07.R10", ssax.Name(fn)+" › starts workerCount workers", r.IPos(g), how,
				"the number of workers started is not workerCount ("+how+"): with the default of one worker a second one runs, messages are handled concurrently and can finish out of publish order")
		}
	}
}

package rules

import (
	"go/token"

	"fv/internal/core"
	"fv/internal/load"
	"fv/internal/ssax"

	"golang.org/x/tools/go/ssa"
)

// CC is the compiler view: module /repo, all packages.
type CC struct {
	Ctx  *core.Ctx
	V    *load.View
	Fns  []*ssa.Function // functions of all compiler packages (root module)
	Pkgs map[string]*ssa.Package
}

var ccCache *CC

func LoadCC(ctx *core.Ctx) *CC {
	if ccCache != nil {
		return ccCache
	}
	v := load.Load(ctx, "CC", ctx.RepoDir, "", "", "./...")
	c := &CC{Ctx: ctx, V: v, Pkgs: map[string]*ssa.Package{}}
	ccCache = c
	if !v.OK() {
		return c
	}
	if len(v.Pkgs) < 10 {
		ctx.LoadError(sprintf("CC: expected the compiler's packages, got %d", len(v.Pkgs)))
	}
	for _, p := range v.Pkgs {
		sp := v.SSA[p.PkgPath]
		if sp == nil {
			continue
		}
		c.Pkgs[p.PkgPath] = sp
		c.Fns = append(c.Fns, load.SrcFuncs(sp)...)
	}
	ctx.Stat("cc_packages", len(c.Pkgs))
	ctx.Stat("cc_functions", len(c.Fns))
	return c
}

func (c *CC) OK() bool { return c.V.OK() && len(c.Fns) > 0 }

func (c *CC) Pkg(suffix string) *ssa.Package {
	for p, sp := range c.Pkgs {
		if p == suffix || len(p) > len(suffix) && p[len(p)-len(suffix)-1:] == "/"+suffix {
			return sp
		}
	}
	return nil
}

// Fn finds a function by "pkgsuffix.Name" where Name is package-relative.
func (c *CC) Fn(rule, pkgSuffix, name string) *ssa.Function {
	sp := c.Pkg(pkgSuffix)
	if sp != nil {
		for _, f := range c.Fns {
			if f.Pkg == sp && ssax.Name(f) == name {
				return f
			}
		}
	}
	c.Ctx.Unresolved(rule, pkgSuffix+"."+name, "function not found")
	return nil
}

func (c *CC) FnOpt(pkgSuffix, name string) *ssa.Function {
	sp := c.Pkg(pkgSuffix)
	if sp != nil {
		for _, f := range c.Fns {
			if f.Pkg == sp && ssax.Name(f) == name {
				return f
			}
		}
	}
	return nil
}

func (c *CC) IPos(in ssa.Instruction) string {
	if in == nil {
		return ""
	}
	if in.Pos().IsValid() {
		return c.V.Pos(in.Pos())
	}
	for _, x := range in.Block().Instrs {
		if x.Pos().IsValid() {
			return c.V.Pos(x.Pos())
		}
	}
	return c.V.Pos(in.Parent().Pos())
}

func (c *CC) FPos(fn *ssa.Function) string { return c.V.Pos(fn.Pos()) }

// QName is "pkgname.RelName".
func QName(fn *ssa.Function) string {
	if fn.Pkg == nil {
		return fn.String()
	}
	return fn.Pkg.Pkg.Name() + "." + ssax.Name(fn)
}

// resolveCC resolves a call among the compiler's functions: static callees,
// closures, and interface calls through CHA restricted to the root module.
func (c *CC) Resolver() func(ssax.Call) []*ssa.Function {
	inMod := map[*ssa.Package]bool{}
	for _, sp := range c.Pkgs {
		inMod[sp] = true
	}
	cg := c.V.CHA()
	return func(call ssax.Call) []*ssa.Function {
		if call.Static != nil {
			if inMod[call.Static.Pkg] || (call.Static.Parent() != nil && inMod[call.Static.Parent().Pkg]) {
				return []*ssa.Function{call.Static}
			}
			return nil
		}
		if mc, ok := call.Common.Value.(*ssa.MakeClosure); ok {
			return []*ssa.Function{mc.Fn.(*ssa.Function)}
		}
		if call.Method == nil {
			return nil
		}
		var out []*ssa.Function
		n := cg.Nodes[call.Instr.Parent()]
		if n == nil {
			return nil
		}
		for _, e := range n.Out {
			if e.Site == call.Instr && e.Callee.Func != nil && inMod[e.Callee.Func.Pkg] {
				out = append(out, e.Callee.Func)
			}
		}
		return out
	}
}

var _ = token.ADD

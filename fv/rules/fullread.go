package rules

import (
	"go/types"

	"fv/internal/core"
	"fv/internal/ssax"

	"golang.org/x/tools/go/ssa"
)

// fullReads — a Read that is taken to have filled its buffer must be a full
// read. Read([]byte) may return fewer bytes than asked for (a TCP segment
// boundary, the end of a bufio fill, a chunked HTTP body): code that discards
// the returned count treats the whole buffer as read, so a length prefix cut in
// two decodes stale bytes as a frame size — the reader hands garbage to the
// registry or the processor, the connection is torn down and every in-flight
// request on it is lost although the peer answered correctly. Decided for every
// call in the runtime to a method Read([]byte) (int, error): the count is used,
// or the buffer is empty (a zero-length read only advances the frame).
func fullReads(ctx *core.Ctx, r *RT, rule string) {
	ctx.Rule(rule, "no short read goes unnoticed: every Read([]byte) in the runtime has its byte count used (io.ReadFull otherwise); only a zero-length read may discard it", 2)
	for _, fn := range r.Fns {
		ord := 0
		for _, c := range ssax.Calls(fn) {
			if c.Method == nil && c.Static == nil {
				continue
			}
			name, sig := "", (*types.Signature)(nil)
			if c.Method != nil {
				name, sig = c.Method.Name(), c.Method.Type().(*types.Signature)
			} else {
				name, sig = c.Static.Name(), c.Static.Signature
			}
			if name != "Read" || sig.Params().Len() != 1 || sig.Results().Len() != 2 {
				continue
			}
			if sl, ok := sig.Params().At(0).Type().Underlying().(*types.Slice); !ok || !types.Identical(sl.Elem(), types.Typ[types.Byte]) {
				continue
			}
			if b, ok := sig.Results().At(0).Type().Underlying().(*types.Basic); !ok || b.Kind() != types.Int {
				continue
			}
			call, ok := c.Instr.(*ssa.Call)
			if !ok {
				continue
			}
			ord++
			used := false
			for _, u := range *call.Referrers() {
				if ex, ok := u.(*ssa.Extract); ok && ex.Index == 0 && len(*ex.Referrers()) > 0 {
					used = true
				}
			}
			args := c.Common.Args
			buf := args[len(args)-1]
			empty := false
			switch b := ssax.Strip(buf).(type) {
			case *ssa.Slice:
				if al, ok := ssax.Strip(b.X).(*ssa.Alloc); ok {
					if arr, ok := al.Type().Underlying().(*types.Pointer).Elem().Underlying().(*types.Array); ok && arr.Len() == 0 {
						empty = true
					}
				}
			case *ssa.Const:
				empty = b.IsNil()
			}
			how := "the returned count is used"
			if !used && empty {
				how = "zero-length buffer: nothing to fill"
			}
			ctx.Check(used || empty, rule, ssax.Name(fn)+sprintf(" › Read #%d accounts for a short read", ord), r.IPos(c.Instr), how,
				"the byte count of Read is discarded and the whole buffer is then used: when the underlying read returns fewer bytes (segment boundary, end of a buffered fill) the remaining bytes are stale — a frame-size prefix cut in two yields a garbage size, the frame reader hands a garbage frame on and the connection with all its in-flight requests is lost")
		}
	}
}

var _ = core.Ctx{}

package rules

import (
	"go/token"
	"go/types"
	"strings"

	"fv/internal/core"
	"fv/internal/ssax"

	"golang.org/x/tools/go/ssa"
)

// c10ResolvedFile — C10.R18. A qualified type name `inc.Thing` is declared in
// the included file, an unqualified one in the file itself. Functions that look
// a type up therefore first select the declaring file: a *Frugal value that is
// the receiver on one edge and f.ParsedIncludes[include] on the other (in SSA a
// φ of the two). Once that selection exists, every declaration list the lookup
// consults — Structs, Unions, Exceptions, Enums, Typedefs, … — must be read from
// the SELECTED file: a list read from the receiver instead finds (or misses) a
// declaration of the same simple name in the wrong file, so valid IDL that
// refers to an included declaration is rejected, or resolved to a stranger.
// Decided for every function of the compiler that contains such a selection.
func c10ResolvedFile(ctx *core.Ctx, cc *CC, rule string) {
	ctx.Rule(rule, "lookups use the file they selected: where a function chooses between the current file and f.ParsedIncludes[include], every declaration list it then consults is read from the chosen file", 4)
	nSel := 0
	for _, fn := range cc.Fns {
		if fn.Pkg == nil || !strings.Contains(fn.Pkg.Pkg.Path(), "/compiler") {
			continue
		}
		// selections: φ of type *parser.Frugal with one edge from a ParsedIncludes lookup
		var sels []*ssa.Phi
		ssax.Instrs(fn, func(in ssa.Instruction) {
			phi, ok := in.(*ssa.Phi)
			if !ok || !ssax.TypeNamed(phi.Type(), "parser", "Frugal") {
				return
			}
			fromInc := false
			for _, e := range phi.Edges {
				if fromParsedIncludes(e, 0) {
					fromInc = true
				}
			}
			if fromInc {
				sels = append(sels, phi)
			}
		})
		for _, phi := range sels {
			nSel++
			// the unselected alternatives (receiver, parameter, field g.Frugal …)
			var others []ssa.Value
			for _, e := range phi.Edges {
				if !fromParsedIncludes(e, 0) {
					others = append(others, ssax.Strip(e))
				}
			}
			nList := 0
			ssax.Instrs(fn, func(in ssa.Instruction) {
				fa, ok := in.(*ssa.FieldAddr)
				if !ok || !ssax.TypeNamed(fa.X.Type(), "parser", "Frugal") || !isDeclList(fa) {
					return
				}
				if !ssax.Dominates(phi, in) {
					return
				}
				base := ssax.Strip(fa.X)
				if base == ssa.Value(phi) {
					nList++
					return
				}
				wrong := false
				for _, o := range others {
					if sameValue(base, o) {
						wrong = true
					}
				}
				if wrong {
					ctx.Violate(rule, QName(fn)+" › "+fieldNameOfAddr(fa)+" is read from the selected file", cc.IPos(in),
						"the function has selected the declaring file (current file or ParsedIncludes[include]) but reads "+fieldNameOfAddr(fa)+" from the unselected one: a declaration referred to through an include (inc."+"Name) is looked up in the including file — valid IDL is rejected (\"invalid type\") or the name resolves to a same-named declaration of the wrong file")
				}
			})
			ctx.Discharge(rule, QName(fn)+sprintf(" › file selection #%d: declaration lists come from the selected file", phiOrdinal(fn, phi)), cc.IPos(phi), sprintf("%d declaration-list read(s) through the selection", nList))
		}
	}
	if nSel == 0 {
		ctx.Unresolved(rule, "file selection", "no function selects between the current file and an included one")
	}
}

func phiOrdinal(fn *ssa.Function, p *ssa.Phi) int {
	n := 0
	found := 0
	ssax.Instrs(fn, func(in ssa.Instruction) {
		if q, ok := in.(*ssa.Phi); ok && ssax.TypeNamed(q.Type(), "parser", "Frugal") {
			n++
			if q == p {
				found = n
			}
		}
	})
	return found
}

// fromParsedIncludes: v is (a comma-ok extraction of) a lookup in a
// ParsedIncludes map, possibly through φs.
func fromParsedIncludes(v ssa.Value, depth int) bool {
	if depth > 4 {
		return false
	}
	v = ssax.Strip(v)
	switch x := v.(type) {
	case *ssa.Extract:
		return fromParsedIncludes(x.Tuple, depth+1)
	case *ssa.Lookup:
		if ld, ok := ssax.Strip(x.X).(*ssa.UnOp); ok && ld.Op == token.MUL {
			return fieldNameOfAddr(ld.X) == "ParsedIncludes"
		}
	case *ssa.Phi:
		for _, e := range x.Edges {
			if fromParsedIncludes(e, depth+1) {
				return true
			}
		}
	}
	return false
}

// isDeclList: the field is one of the declaration lists / name indexes of a file.
func isDeclList(fa *ssa.FieldAddr) bool {
	st, ok := fa.X.Type().Underlying().(*types.Pointer).Elem().Underlying().(*types.Struct)
	if !ok {
		return false
	}
	f := st.Field(fa.Field)
	if f.Name() == "ParsedIncludes" || f.Name() == "Includes" {
		return false
	}
	switch t := f.Type().Underlying().(type) {
	case *types.Slice:
		_, isPtr := t.Elem().Underlying().(*types.Pointer)
		return isPtr
	case *types.Map:
		_, isPtr := t.Elem().Underlying().(*types.Pointer)
		return isPtr
	}
	return false
}

// sameValue: identical SSA values, or two loads of the same field of the same base.
func sameValue(a, b ssa.Value) bool {
	if a == b {
		return true
	}
	la, ok1 := a.(*ssa.UnOp)
	lb, ok2 := b.(*ssa.UnOp)
	if ok1 && ok2 && la.Op == token.MUL && lb.Op == token.MUL {
		fa, ok1 := la.X.(*ssa.FieldAddr)
		fb, ok2 := lb.X.(*ssa.FieldAddr)
		return ok1 && ok2 && fa.Field == fb.Field && ssax.Strip(fa.X) == ssax.Strip(fb.X)
	}
	return false
}

var _ = core.Ctx{}

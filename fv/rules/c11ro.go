package rules

import (
	"go/types"
	"strings"

	"fv/internal/core"
	"fv/internal/ssax"

	"golang.org/x/tools/go/ssa"
)

// c11ModelReadOnly — C11.R19. The model ParseFrugal returns is shared: every
// generator of a run, every file of a recursive (-r) run and every includer of
// a file read the same *Type/*Field/*TypeDef objects. Code that runs after
// parsing — the generators and the query methods they call on the model
// (UnderlyingType, IsStruct, …) — must therefore never store into a model
// object it did not allocate itself: such a store changes what the declaring
// file (generated later in the same run) or a second target language sees.
// Decided over the cone of all generator-package functions: a store to a field
// of a struct type declared in package parser is allowed only through a base
// that is a fresh allocation of the storing function (a copy under
// construction).
func c11ModelReadOnly(ctx *core.Ctx, cc *CC) {
	ctx.Rule("C11.R19", "the parsed model is read-only after parsing: generators and the model queries they call store only into objects they allocated themselves", 3)
	var entries []*ssa.Function
	for _, fn := range cc.Fns {
		if fn.Pkg != nil && strings.Contains(fn.Pkg.Pkg.Path(), "/compiler/generator") {
			entries = append(entries, fn)
		}
	}
	cone := ssax.Cone(entries, cc.Resolver(), false)
	nFns, nStores, nParserFns, nModifier := 0, 0, 0, 0
	for _, fn := range cone {
		if fn.Pkg == nil || !strings.Contains(fn.Pkg.Pkg.Path(), "/compiler") || fn.Synthetic != "" {
			continue
		}
		inParser := strings.HasSuffix(fn.Pkg.Pkg.Path(), "/compiler/parser")
		if inParser {
			// the PEG engine and its actions build the model; they are reached only
			// through ParseFrugal, never from a generator — but a generator that
			// re-parses would pull them in, so they are cut by file
			if pos := fn.Pos(); pos.IsValid() && strings.Contains(cc.V.Pos(pos), "grammar.peg.go") {
				continue
			}
			nParserFns++
		}
		nFns++
		ord := 0
		ssax.Instrs(fn, func(in ssa.Instruction) {
			st, ok := in.(*ssa.Store)
			if !ok {
				return
			}
			fa, ok := st.Addr.(*ssa.FieldAddr)
			if !ok {
				return
			}
			pt, ok := fa.X.Type().Underlying().(*types.Pointer)
			if !ok {
				return
			}
			named, ok := pt.Elem().(*types.Named)
			if !ok || named.Obj().Pkg() == nil || !strings.HasSuffix(named.Obj().Pkg().Path(), "/compiler/parser") {
				return
			}
			if _, isStruct := named.Underlying().(*types.Struct); !isStruct || !named.Obj().Exported() {
				return
			}
			if named.Obj().Name() == "Field" && fieldNameOfAddr(fa) == "Modifier" {
				// out of scope: the generators normalise the requiredness of argument,
				// exception and union fields in place (idempotent, pinned by the golden
				// files); every other model field is covered
				nModifier++
				return
			}
			nStores++
			ord++
			fname := fieldNameOfAddr(fa)
			ctx.Check(FreshBase(fa.X), "C11.R19", QName(fn)+sprintf(" › store #%d to parser.%s.%s goes into an object allocated here", ord, named.Obj().Name(), fname), cc.IPos(st), "the base is a fresh allocation of this function (a copy under construction)",
				"code that runs after parsing stores into a shared model object (parser."+named.Obj().Name()+"."+fname+"): the declaring file, generated later in the same -r run, or a second target language reads the changed object — e.g. a typedef of a container declared in an include is emitted with the includer's qualifiers inside its own package (undefined: inc), or differs from the stand-alone output")
		})
	}
	ctx.Check(nFns >= 100 && nParserFns >= 10, "C11.R19", "cone of the generator packages › functions examined", "", sprintf("%d function(s), %d of package parser, %d store(s) to model fields (+%d in-place requiredness normalisations, out of scope)", nFns, nParserFns, nStores, nModifier), "the generator cone was not found")
}

var _ = core.Ctx{}

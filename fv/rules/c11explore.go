package rules

import (
	"fmt"
	"os"
	"strings"

	"fv/internal/bounds"
	"fv/internal/core"
	"fv/internal/ssax"

	"golang.org/x/tools/go/ssa"
)

// c11GeneratorIndexes — C11.R15. A generator that indexes a slice or string
// out of range panics on a valid IDL file (recovered by main, but the
// compilation fails: "the compiler is total" is broken for that program). Every
// index expression of the generator packages is proved in range by the linear
// prover from the dominating branch conditions, the lengths of literals, the
// growth of appended slices and the summaries of strings.Split/Contains — or
// is one of the expressions confirmed by reading on the pinned tree, listed
// below with the reason it cannot fail. The table is keyed by package and
// indexed expression (not by function or line), so moving the code keeps the
// entry; a new unproven index expression is reported.
var generatorIndexConfirmed = map[string]string{
	"dartlang: index []rune(name)[0]":               "name is an identifier of the IDL (grammar rule Identifier: at least one character)",
	"java: index []rune(name)[0]":                   "name is an identifier of the IDL (grammar rule Identifier: at least one character)",
	"golang: index GetPackageComponents()[len()-1]": "strings.Split never returns an empty slice",
	"golang: index FieldsFunc()[len()-1]":           "an include name is a non-empty path whose last component is a file name (validated when the include was parsed)",
	"html: index m[i]":                              "sort.Interface contract: 0 ≤ i, j < Len()",
	"html: index m[j]":                              "sort.Interface contract: 0 ≤ i, j < Len()",
	"java: index pieces[0]":                         "generateEnumConstValue is called with the two halves of an identifier that was split at its single dot (len(pieces) == 2 tested by the caller)",
	"java: index pieces[1]":                         "generateEnumConstValue is called with the two halves of an identifier that was split at its single dot (len(pieces) == 2 tested by the caller)",
	"python: index SplitN()[1]":                     "under strings.Contains(s, \".\"): SplitN(s, \".\", 2) has two parts",
}

func c11GeneratorIndexes(ctx *core.Ctx, cc *CC) {
	ctx.Rule("C11.R15", "generators index only elements proved to exist (linear prover over all index expressions of the generator packages; the unprovable ones are a confirmed table)", 100)
	// decided over 64-bit int whatever the build configuration: a declaration list of 2^31 elements is
	// memory exhaustion, which C11 does not decide
	cfg := &bounds.Config{IntBits: 64, AssumeLenI32: true, ASCIIStrings: true}
	ctx.Assume("generator index arithmetic does not overflow (no declaration list approaches 2^31 elements)")
	pr := bounds.New(cfg)
	explore := os.Getenv("FV_EXPLORE") == "index"
	tot, listed := 0, 0
	ord := map[string]int{}
	// preconditions of unexported generator functions: kept only if entailed at every call site
	// (an index into a slice parameter is safe when every caller hands over a long enough slice)
	res := cc.Resolver()
	sites := map[*ssa.Function][]bounds.CallSite{}
	unknown := map[*ssa.Function]bool{}
	var gens []*ssa.Function
	for _, fn := range cc.Fns {
		if fn.Pkg == nil || !strings.Contains(fn.Pkg.Pkg.Path(), "/compiler/generator") {
			continue
		}
		gens = append(gens, fn)
	}
	for _, fn := range cc.Fns {
		for _, c := range ssax.Calls(fn) {
			for _, t := range res(c) {
				if t.Pkg == nil || !strings.Contains(t.Pkg.Pkg.Path(), "/compiler/generator") || t.Object() == nil || t.Object().Exported() {
					continue
				}
				if c.Static == nil {
					unknown[t] = true // reached dynamically too
					continue
				}
				sites[t] = append(sites[t], bounds.CallSite{Instr: c.Instr.(ssa.Instruction), Args: c.Args()})
			}
		}
		ssax.Instrs(fn, func(in ssa.Instruction) {
			for _, op := range in.Operands(nil) {
				if f, ok := (*op).(*ssa.Function); ok {
					if c, isCall := in.(ssa.CallInstruction); isCall && c.Common().Value == *op {
						continue
					}
					unknown[f] = true
				}
			}
		})
	}
	for f := range unknown {
		delete(sites, f)
	}
	// only functions that index a parameter need one
	for f := range sites {
		idx := false
		ssax.Instrs(f, func(in ssa.Instruction) {
			switch x := in.(type) {
			case *ssa.IndexAddr:
				if _, isP := ssax.Strip(x.X).(*ssa.Parameter); isP {
					idx = true
				}
			case *ssa.Lookup:
				if _, isP := ssax.Strip(x.X).(*ssa.Parameter); isP {
					idx = true
				}
			}
		})
		if !idx {
			delete(sites, f)
		}
	}
	pr.InferPreconditions(sites)
	for _, fn := range gens {
		pr.InferInvariants(fn)
		for _, o := range pr.Check(fn) {
			if o.Kind != "index" {
				continue
			}
			tot++
			key := fn.Pkg.Pkg.Name() + ": " + o.Desc
			ord[QName(fn)+o.Desc]++
			construct := QName(fn) + " › " + o.Desc
			if k := ord[QName(fn)+o.Desc]; k > 1 {
				construct += sprintf(" #%d", k)
			}
			switch {
			case o.Proved:
				ctx.Discharge("C11.R15", construct, cc.IPos(o.Instr), "in range: entailed by the dominating conditions")
			case generatorIndexConfirmed[key] != "":
				listed++
				ctx.Discharge("C11.R15", construct, cc.IPos(o.Instr), "confirmed by reading: "+generatorIndexConfirmed[key])
			default:
				if explore {
					fmt.Printf("EXPLORE %s %s :: %s\n", cc.IPos(o.Instr), QName(fn), o.Desc)
				}
				ctx.Violate("C11.R15", construct, cc.IPos(o.Instr), "cannot prove the index in range ("+o.Need+"): for an IDL that makes the indexed value shorter — an empty list of documentation lines, a name without the expected separator — the generator panics instead of producing output or a diagnostic")
			}
		}
	}
	ctx.Stat("c11_generator_index_expressions", tot)
	ctx.Stat("c11_generator_index_confirmed_by_table", listed)
	for s := range cfg.UsedSummaries {
		ctx.Assume(s)
	}
}

package rules

import (
	"fmt"
	"go/token"
	"go/types"
	"sort"
	"strings"

	"fv/internal/core"
	"fv/internal/ssax"

	"golang.org/x/tools/go/ssa"
)

// mapUse classifies how a loaded map value is used.
type mapUse struct {
	Instr ssa.Instruction
	Kind  string // update | delete | lookup | range | len | other
	Key   ssa.Value
	Val   ssa.Value // lookup result tuple / stored value
}

func usesOfMap(m ssa.Value) []mapUse {
	var out []mapUse
	for _, u := range ssax.UsesTransitive(m) {
		switch x := u.(type) {
		case *ssa.MapUpdate:
			if ssax.Strip(x.Map) == m {
				out = append(out, mapUse{u, "update", x.Key, x.Value})
			} else {
				out = append(out, mapUse{Instr: u, Kind: "other"})
			}
		case *ssa.Lookup:
			out = append(out, mapUse{u, "lookup", x.Index, x})
		case *ssa.Range:
			out = append(out, mapUse{Instr: u, Kind: "range"})
		case *ssa.Call:
			c, _ := ssax.AsCall(x)
			switch c.FullName() {
			case "builtin.delete":
				out = append(out, mapUse{u, "delete", x.Call.Args[1], nil})
			case "builtin.len":
				out = append(out, mapUse{Instr: u, Kind: "len"})
			default:
				// handed to a helper of the package that only ranges over it to build a copy
				if c.Static != nil {
					if pi := mapCopierParam(c.Static); pi >= 0 && pi < len(x.Call.Args) && ssax.Strip(x.Call.Args[pi]) == m {
						out = append(out, mapUse{Instr: u, Kind: "copy"})
						continue
					}
				}
				out = append(out, mapUse{Instr: u, Kind: "other"})
			}
		case *ssa.DebugRef:
		default:
			out = append(out, mapUse{Instr: u, Kind: "other"})
		}
	}
	return out
}

// C01 — under multiplexing every RPC gets exactly its own response.
func C01(ctx *core.Ctx) {
	ctx.Explanation = "Structural necessary conditions of request/response correlation, decided for all schedules from the code shape: " +
		"the op-id→channel map is touched only by Register/Unregister/delivery and only under its mutex; delivery sends the frame on the channel looked up with the frame's own op id (miss ⇒ no send); " +
		"every Request implementation registers a fresh private buffered channel, defers Unregister of the same context, registers before transmitting and receives only from that channel; " +
		"the NATS reply subject is <inbox>.<opid of the registered ctx>. Not decided: the interleavings themselves, uniqueness of op ids (C17)."
	r := LoadRT(ctx, "", "")
	if !r.OK() {
		return
	}
	fullReads(ctx, r, "C01.R15")
	opIDOnlyOnFresh(ctx, r, "C01.R16", constString(r, "opIDHeader"))
	registryOnlyAtConstruction(ctx, r, "C01.R17")
	ctx.Rule("C01.R1", "who-may-access: map writes of the registry's op-id→channel map only in fRegistry.Register/Unregister, lookups only in Register and the delivery function", 5)
	ctx.Rule("C01.R2", "guarded-by: every access to the registry map (and every use of the loaded map value) happens with the registry mutex held; writes need the exclusive lock", 5)
	ctx.Rule("C01.R3", "keyed delivery: the delivery function sends the frame parameter on the channel looked up with the op-id parameter; miss ⇒ return without send; Execute passes the op id parsed from the frame's own header; NATS 503 path passes the id from the reply subject", 6)
	ctx.Rule("C01.R4", "register/unregister pairing with a private result channel in every FTransport.Request that uses the registry", 8)
	ctx.Rule("C01.R5", "Register dominates the transmission in Request", 2)
	ctx.Rule("C01.R6", "NATS reply subject is <inbox>.<op id of the registered context>; subscription subject is <inbox>.*", 2)

	reg := r.Named("fRegistryImpl")
	if reg == nil {
		ctx.Unresolved("C01.R1", "fRegistryImpl", "registry implementation type not found")
		return
	}
	// the map field: the field of map type chan-valued
	st := reg.Underlying().(*types.Struct)
	mapField, muField := "", ""
	for i := 0; i < st.NumFields(); i++ {
		f := st.Field(i)
		if m, ok := f.Type().Underlying().(*types.Map); ok {
			if _, ok := m.Elem().Underlying().(*types.Chan); ok {
				mapField = f.Name()
			}
		}
		if ssax.TypeNamed(f.Type(), "sync", "RWMutex") || ssax.TypeNamed(f.Type(), "sync", "Mutex") {
			muField = f.Name()
		}
	}
	if mapField == "" || muField == "" {
		ctx.Unresolved("C01.R1", "fRegistryImpl fields", "op-id→channel map or mutex field not found")
		return
	}
	regImpl := map[*ssa.Function]string{}
	for _, m := range []string{"Register", "Unregister", "Execute", "dispatch"} {
		for _, f := range r.Impl("fRegistry", m) {
			regImpl[f] = m
		}
	}

	// ---- R1 + R2 ----------------------------------------------------------
	var delivery *ssa.Function
	var deliveryLookup *ssa.Lookup
	// lookup helpers: methods of the registry that return the (channel, ok) pair of a comma-ok
	// lookup keyed by their own op-id parameter; the delivery function may go through one
	lookupHelper := map[*ssa.Function]*ssa.Lookup{}
	var deliveryTuple ssa.Value // the (chan, ok) tuple the delivery function works with: the lookup itself or the helper call
	lockCache := map[*ssa.Function]map[ssa.Instruction]ssax.LockSet{}
	locksAt := func(fn *ssa.Function, in ssa.Instruction) ssax.LockSet {
		if lockCache[fn] == nil {
			lockCache[fn] = ssax.LockSets(fn, nil)
		}
		return lockCache[fn][in]
	}
	for _, fa := range r.FieldAccesses("fRegistryImpl", mapField) {
		fname := ssax.Name(fa.Fn)
		addr, isAddr := fa.Val.(*ssa.FieldAddr)
		if !isAddr {
			ctx.Violate("C01.R1", fname+" › value copy of registry struct field "+mapField, r.IPos(fa.Instr), "registry struct read by value")
			continue
		}
		fresh := FreshBase(fa.Base)
		for _, u := range *addr.Referrers() {
			switch x := u.(type) {
			case *ssa.Store:
				if x.Addr == addr {
					ctx.Check(fresh, "C01.R1", fname+" › assigns "+mapField, r.IPos(u),
						"map assigned only on a freshly allocated registry (constructor)",
						"the op-id→channel map is replaced on a shared registry: in-flight registrations are lost")
				}
			case *ssa.UnOp: // load of the map
				if fresh {
					continue
				}
				mu := ssax.AddrKey(fa.Base) + "." + muField
				ls := locksAt(fa.Fn, x)
				ctx.Check(ls.Holds(mu, false), "C01.R2", fname+" › load of "+mapField, r.IPos(u),
					"lock "+mu+" held: "+strings.Join(ls.Keys(), ","),
					"registry map read without holding "+mu)
				for _, mu2 := range usesOfMap(x) {
					ls := locksAt(fa.Fn, mu2.Instr)
					desc := fname + " › " + mu2.Kind + " on " + mapField
					write := mu2.Kind == "update" || mu2.Kind == "delete"
					held := ls.Holds(mu, write)
					need := "shared or exclusive"
					if write {
						need = "exclusive"
					}
					ctx.Check(held, "C01.R2", desc, r.IPos(mu2.Instr), need+" lock "+mu+" held",
						"map "+mu2.Kind+" without the "+need+" lock "+mu+" (held: "+strings.Join(ls.Keys(), ",")+")")
					role := regImpl[fa.Fn]
					switch mu2.Kind {
					case "update", "delete":
						want := map[string]string{"update": "Register", "delete": "Unregister"}[mu2.Kind]
						ctx.Check(role == want, "C01.R1", desc, r.IPos(mu2.Instr),
							"map "+mu2.Kind+" inside fRegistry."+want,
							"map "+mu2.Kind+" outside fRegistry."+want+": a function other than the owner changes registrations")
					case "lookup":
						lk := mu2.Instr.(*ssa.Lookup)
						isDelivery := false
						if lk.CommaOk {
							for _, ss := range SendSites(fa.Fn) {
								if t, ok := ExtractOf(ss.Chan, 0); ok && t == ssa.Value(lk) {
									isDelivery = true
								}
							}
						}
						if isDelivery {
							delivery, deliveryLookup, deliveryTuple = fa.Fn, lk, lk
						}
						// a helper of the registry itself that hands the pair back to its caller
						isHelper := false
						if lk.CommaOk && !isDelivery && fa.Fn.Signature.Recv() != nil && ssax.TypeNamed(fa.Fn.Signature.Recv().Type(), "", "fRegistryImpl") && !token.IsExported(fa.Fn.Name()) {
							rets := ReturnedValues(fa.Fn)
							isHelper = len(rets) > 0
							for _, vs := range rets {
								if len(vs) != 2 {
									isHelper = false
									continue
								}
								t0, ok0 := ExtractOf(vs[0], 0)
								t1, ok1 := ExtractOf(vs[1], 1)
								if !ok0 || !ok1 || t0 != ssa.Value(lk) || t1 != ssa.Value(lk) {
									isHelper = false
								}
							}
							if isHelper && len(fa.Fn.Params) == 2 && ssax.Strip(lk.Index) == ssa.Value(fa.Fn.Params[1]) {
								lookupHelper[fa.Fn] = lk
							} else {
								isHelper = false
							}
						}
						ctx.Check(role == "Register" || isDelivery || isHelper, "C01.R1", desc, r.IPos(mu2.Instr),
							"lookup in Register (duplicate check), in the delivery function or in a lookup helper of the registry",
							"lookup of a result channel outside Register/delivery: another function can obtain a caller's private channel")
					case "len":
						ctx.Discharge("C01.R1", desc, r.IPos(mu2.Instr), "len is read-only")
					default:
						ctx.Violate("C01.R1", desc+" ("+mu2.Instr.String()+")", r.IPos(mu2.Instr),
							"the registry map escapes or is used in an unclassified way")
					}
				}
			default:
				ctx.Violate("C01.R1", fname+" › address of "+mapField+" used by "+u.String(), r.IPos(u), "address of the registry map escapes")
			}
		}
	}

	// delivery through a lookup helper: the function that sends on the channel a helper returned;
	// the helper may be called by the registry's own Register/delivery only
	for h, hlk := range lookupHelper {
		for _, f := range r.Fns {
			for _, c := range ssax.Calls(f) {
				if c.Static != h {
					continue
				}
				sends := false
				for _, ss := range SendSites(f) {
					if t, ok := ExtractOf(ss.Chan, 0); ok && t == c.Instr.Value() {
						sends = true
					}
				}
				okCaller := regImpl[f] == "Register" || (sends && regImpl[f] != "")
				ctx.Check(okCaller, "C01.R1", ssax.Name(f)+" › uses lookup helper "+ssax.Name(h), r.IPos(c.Instr), "called by the registry's Register/delivery only",
					"a function other than the registry's own delivery obtains a caller's private channel through "+ssax.Name(h))
				if sends && delivery == nil {
					delivery, deliveryLookup, deliveryTuple = f, hlk, c.Instr.Value()
				}
			}
		}
	}

	// ---- R3 keyed delivery -------------------------------------------------
	if delivery == nil {
		ctx.Unresolved("C01.R3", "delivery function", "no function sends on a channel obtained by comma-ok lookup in the registry map")
	} else {
		dn := ssax.Name(delivery)
		lk := deliveryLookup
		var opidParam, frameParam *ssa.Parameter
		for _, p := range delivery.Params[1:] {
			if b, ok := p.Type().Underlying().(*types.Basic); ok && b.Kind() == types.Uint64 {
				opidParam = p
			}
			if _, ok := p.Type().Underlying().(*types.Slice); ok {
				frameParam = p
			}
		}
		keyOK := opidParam != nil && ssax.Strip(lk.Index) == ssa.Value(opidParam)
		if hc, isCall := deliveryTuple.(*ssa.Call); isCall {
			// through the helper: the helper keys by its parameter (checked above), delivery passes its op-id parameter
			hcc, _ := ssax.AsCall(hc)
			keyOK = opidParam != nil && len(hcc.Common.Args) == 2 && ssax.Strip(hcc.Common.Args[1]) == ssa.Value(opidParam)
		}
		ctx.Check(keyOK, "C01.R3", dn+" › lookup key", r.IPos(lk),
			"channel looked up with the op-id parameter", "delivery looks the channel up with something other than its op-id parameter")
		nsend := 0
		for _, ss := range SendSites(delivery) {
			nsend++
			t, ok := ExtractOf(ss.Chan, 0)
			ctx.Check(ok && t == deliveryTuple, "C01.R3", dn+" › send channel", r.IPos(ss.Instr),
				"send is on the channel registered under the op id", "delivery sends on a channel that is not the one registered under the frame's op id")
			ctx.Check(frameParam != nil && ssax.Strip(ss.X) == ssa.Value(frameParam), "C01.R3", dn+" › sent value", r.IPos(ss.Instr),
				"the frame parameter is what is sent", "delivery sends something other than the frame it was given")
		}
		// miss edge: from the false successor of the ok test no send is reachable
		var okVal ssa.Value
		for _, u := range *deliveryTuple.Referrers() {
			if e, ok := u.(*ssa.Extract); ok && e.Index == 1 {
				okVal = e
			}
		}
		missOK := false
		if okVal != nil {
			for _, u := range *okVal.Referrers() {
				if iff, ok := u.(*ssa.If); ok {
					miss := iff.Block().Succs[1]
					isSend := func(in ssa.Instruction) bool {
						if _, ok := in.(*ssa.Send); ok {
							return true
						}
						if s, ok := in.(*ssa.Select); ok {
							for _, st := range s.States {
								if st.Dir == types.SendOnly {
									return true
								}
							}
						}
						return false
					}
					if len(miss.Instrs) > 0 {
						first := miss.Instrs[0]
						p := ssax.PathFrom(delivery, first, isSend, nil)
						missOK = p == nil && !isSend(first)
					}
				}
			}
		}
		ctx.Check(missOK, "C01.R3", dn+" › miss branch", r.IPos(lk),
			"unknown op id: no send reachable from the miss edge", "a frame for an unknown/completed op id can still be sent to some channel")

		// Execute: op id parsed from the frame's own headers
		for f, role := range regImpl {
			if role != "Execute" {
				continue
			}
			en := ssax.Name(f)
			n := 0
			for _, c := range ssax.Calls(f) {
				targets := r.Resolve(c)
				hit := false
				for _, t := range targets {
					if t == delivery {
						hit = true
					}
				}
				if !hit {
					continue
				}
				n++
				args := c.Args()
				ok := false
				detail := "op id passed to delivery is not strconv.ParseUint(getHeadersFromFrame(frame)[opIDHeader])"
				if len(args) == 3 {
					// the op id may be parsed by a helper that is handed the frame
					opv, back := ThroughCall(r, args[1])
					if tup, ok1 := ExtractOf(opv, 0); ok1 {
						if pc, ok2 := CallValue(tup); ok2 && pc.FullName() == "strconv.ParseUint" {
							if lk, ok3 := ssax.Strip(pc.Common.Args[0]).(*ssa.Lookup); ok3 {
								key, isConst := ConstString(lk.Index)
								opidConst := constString(r, "opIDHeader")
								if htup, ok4 := ExtractOf(lk.X, 0); ok4 && isConst && key == opidConst {
									if hc, ok5 := CallValue(htup); ok5 && hc.Static != nil && len(hc.Common.Args) == 1 &&
										IsParam(back(hc.Common.Args[0]), f, 1) && returnsHeaderMap(hc.Static) {
										ok = IsParam(args[2], f, 1)
										if !ok {
											detail = "frame passed to delivery is not the frame whose headers were parsed"
										}
									}
								}
							}
						}
					}
				}
				ctx.Check(ok, "C01.R3", en+" › op id and frame passed to "+dn, r.IPos(c.Instr),
					"opid = ParseUint(headers(frame)[_opid]), frame = same frame", detail)
			}
			if n == 0 {
				ctx.Violate("C01.R3", en+" › call to "+dn, fnPos(r, f), "Execute no longer hands the frame to the delivery function")
			}
		}
		// every other delivery in the package hands over a sentinel, never a frame:
		// a frame is delivered only under the op id parsed from its own header (Execute)
		for _, f := range r.Fns {
			if regImpl[f] == "Execute" {
				continue
			}
			for _, c := range ssax.Calls(f) {
				hit := false
				for _, t := range r.Resolve(c) {
					if t == delivery {
						hit = true
					}
				}
				if !hit || len(c.Args()) < 3 {
					continue
				}
				_, isGlobalLoad := LoadedGlobal(ssax.Strip(c.Args()[2]))
				ctx.Check(isGlobalLoad, "C01.R3", ssax.Name(f)+" › direct delivery hands over a sentinel only", r.IPos(c.Instr), "package-level marker (no frame)",
					"a frame is delivered under an op id that was not parsed from the frame's own header (e.g. taken from the reply subject): a reply arriving on another request's subject, or carrying an op id that was never issued, completes that request")
			}
		}
		// NATS 503 path
		if h := r.Fn("C01.R3", "(*fNatsTransport).handler"); h != nil {
			c01Nats503(ctx, r, h, delivery)
		}
	}

	// ---- R8 undeliverable frames are not errors ---------------------------------
	ctx.Rule("C01.R8", "a frame the registry cannot deliver (unknown, completed or duplicate op id) is discarded without an error wherever a reader loop treats an error of Execute as fatal", 2)
	undeliverableNotError(ctx, r, "C01.R8", delivery, regImpl)

	ctx.Rule("C01.R9", "op-id radix: every integer text conversion of the runtime (op ids, timeouts, limits) uses the same base", 8)
	radixAgreement(ctx, r.Fns, r.IPos, ssax.Name, "C01.R9", "an op id written in decimal is read with another radix on the other side of the correlation (\"013\" as octal 11): a response completes a different in-flight request and its own request times out")

	// ---- R7 frame ownership -------------------------------------------------------
	ctx.Rule("C01.R7", "frame ownership: every frame a reader loop hands to the registry is a buffer allocated for that frame alone (the registry passes it to the caller uncopied)", 1)
	frameOwnership(ctx, r, "C01.R7")

	ctx.Rule("C01.R10", "bytes handed to the peer belong to the call: no Bytes() of a buffer kept in a field of a transport or client", 4)
	sharedBufferBytes(ctx, r, "C01.R10")
	ctx.Rule("C01.R11", "op ids identify one context: every FContext that is constructed (NewFContext, Clone, the context of a received request) draws its own op id from the atomic counter — two in-flight requests never share the key responses are routed by", 4)
	if gen, _ := opIDGenerator(r); gen != nil {
		freshOpIDs(ctx, r, gen, constString(r, "opIDHeader"), "C01.R11")
	} else {
		ctx.Unresolved("C01.R11", "op-id generator", "no single function drawing from atomic.AddUint64")
	}
	// ---- R4/R5 Request implementations --------------------------------------
	for _, req := range r.Impl("FTransport", "Request") {
		c01Request(ctx, r, req, "C01.R4", "C01.R5")
	}
	// ---- R6 ------------------------------------------------------------------
	c01NatsSubject(ctx, r)
}

func constString(r *RT, name string) string {
	if c, ok := r.Pkg.Pkg.Scope().Lookup(name).(*types.Const); ok {
		s := c.Val().ExactString()
		return strings.Trim(s, `"`)
	}
	return "\x00unresolved"
}

// returnsHeaderMap: function returning (map[string]string, error).
func returnsHeaderMap(f *ssa.Function) bool {
	res := f.Signature.Results()
	if res.Len() != 2 {
		return false
	}
	_, ok := res.At(0).Type().Underlying().(*types.Map)
	return ok
}

func c01Nats503(ctx *core.Ctx, r *RT, h *ssa.Function, delivery *ssa.Function) {
	// find calls (transitively through one helper) that reach delivery with a
	// non-frame sentinel; the op id must derive from msg.Subject's suffix.
	hn := ssax.Name(h)
	found := false
	for _, c := range ssax.Calls(h) {
		for _, t := range r.Resolve(c) {
			if t == delivery {
				found = true
				c01CheckSubjectID(ctx, r, h, c.Args()[1], hn+" › 503 op id", c.Instr)
				continue
			}
			// helper wrapper: all of its calls to delivery pass its own parameter
			for _, c2 := range ssax.Calls(t) {
				for _, t2 := range r.Resolve(c2) {
					if t2 == delivery && t.Pkg == r.Pkg && len(t.Params) == 2 {
						if b, ok := t.Params[1].Type().Underlying().(*types.Basic); ok && b.Kind() == types.Uint64 {
							found = true
							ctx.Check(IsParam(c2.Args()[1], t, 1), "C01.R3", ssax.Name(t)+" › op id forwarded", r.IPos(c2.Instr),
								"helper forwards its op-id parameter", "503 helper passes a different op id to delivery")
							sent := ssax.Strip(c2.Args()[2])
							_, isGlobalLoad := LoadedGlobal(sent)
							ctx.Check(isGlobalLoad, "C01.R3", ssax.Name(t)+" › sentinel frame", r.IPos(c2.Instr),
								"sentinel frame is the package-level marker", "503 helper delivers something other than the service-not-available marker")
							c01CheckSubjectID(ctx, r, h, c.Args()[1], hn+" › 503 op id", c.Instr)
						}
					}
				}
			}
		}
	}
	if !found {
		ctx.Note("NATS handler has no direct-dispatch (503) path")
	}
}

func LoadedGlobal(v ssa.Value) (*ssa.Global, bool) {
	u, ok := v.(*ssa.UnOp)
	if !ok || u.Op != token.MUL {
		return nil, false
	}
	g, ok := u.X.(*ssa.Global)
	return g, ok
}

// op id must be Extract0(ParseUint(slice(msg.Subject, LastIndex(subject,".")+1)))
func c01CheckSubjectID(ctx *core.Ctx, r *RT, h *ssa.Function, v ssa.Value, construct string, at ssa.Instruction) {
	ok := false
	if tup, ok1 := ExtractOf(v, 0); ok1 {
		if pc, ok2 := CallValue(tup); ok2 && pc.FullName() == "strconv.ParseUint" {
			if sl, ok3 := ssax.Strip(pc.Common.Args[0]).(*ssa.Slice); ok3 && sl.High == nil {
				if _, ok4 := LoadedFrom(sl.X, "Subject"); ok4 {
					if add, ok5 := sl.Low.(*ssa.BinOp); ok5 && add.Op == token.ADD {
						if li, ok6 := CallValue(add.X); ok6 && li.FullName() == "strings.LastIndex" {
							if one, ok7 := ssax.ConstInt(add.Y); ok7 && one == 1 {
								if sep, ok8 := ConstString(li.Common.Args[1]); ok8 && sep == "." {
									_, ok = LoadedFrom(li.Common.Args[0], "Subject")
								}
							}
						}
					}
				}
			}
		}
	}
	ctx.Check(ok, "C01.R3", construct, r.IPos(at),
		"op id = ParseUint(msg.Subject after the last '.')", "503 routing does not take the op id from the last token of the reply subject")
}

func c01Request(ctx *core.Ctx, r *RT, req *ssa.Function, R4, R5 string) {
	rn := ssax.Name(req)
	var regCalls, unregCalls []ssax.Call
	for _, c := range ssax.Calls(req) {
		if c.Method != nil && ssax.TypeNamed(c.Method.Type().(*types.Signature).Recv().Type(), "", "fRegistry") {
			switch c.Method.Name() {
			case "Register":
				regCalls = append(regCalls, c)
			case "Unregister":
				unregCalls = append(unregCalls, c)
			}
		}
	}
	if len(regCalls) == 0 {
		// no registry use: must not receive from any channel created here for results
		ctx.Discharge(R4, rn+" › no registry use", fnPos(r, req), "synchronous transport: no multiplexed result channel")
		return
	}
	ctxParam := req.Params[1]
	for _, rc := range regCalls {
		args := rc.Args() // recv, ctx, ch
		ctx.Check(ssax.Strip(args[1]) == ssa.Value(ctxParam), R4, rn+" › Register context", r.IPos(rc.Instr),
			"registers the caller's FContext", "Register is called with a context other than the caller's")
		ch, isMake := ssax.Strip(args[2]).(*ssa.MakeChan)
		capOK := false
		if isMake {
			if n, ok := ssax.ConstInt(ch.Size); ok && n >= 1 {
				capOK = true
			}
		}
		ctx.Check(isMake && capOK, R4, rn+" › result channel is fresh and buffered", r.IPos(rc.Instr),
			"make(chan []byte, n≥1) in this call", "result channel is not a per-call make(chan, ≥1): shared or unbuffered")
		if isMake {
			// escape: the channel may only go to Register and be received from
			esc := ""
			for _, u := range ssax.UsesTransitive(ch) {
				switch x := u.(type) {
				case *ssa.Select:
					for _, st := range x.States {
						if ssax.Strip(st.Chan) == ssa.Value(ch) && st.Dir != types.RecvOnly {
							esc = "sent on in select"
						}
					}
				case *ssa.UnOp:
					if x.Op != token.ARROW {
						esc = x.String()
					}
				case *ssa.DebugRef:
				case ssa.CallInstruction:
					if x != rc.Instr && !recvOnlyHelperCall(r, x, ch, 0) {
						esc = "passed to " + x.String()
					}
				case *ssa.ChangeType:
					// chan → <-chan conversion for a receive-only helper
				default:
					esc = u.String()
				}
			}
			ctx.Check(esc == "", R4, rn+" › result channel private", r.IPos(ch),
				"channel flows only into Register and receive operations of this call", "result channel escapes: "+esc)
			// results are received from this channel only: every recv whose value is returned as transport
			for _, rs := range RecvSites(req) {
				if et, ok := rs.Chan.Type().Underlying().(*types.Chan); ok {
					if sl, ok := et.Elem().Underlying().(*types.Slice); ok {
						if b, ok := sl.Elem().Underlying().(*types.Basic); ok && b.Kind() == types.Byte {
							ctx.Check(ssax.Strip(rs.Chan) == ssa.Value(ch), R4, rn+" › result received from own channel", r.IPos(rs.Instr),
								"frame bytes are received from the registered channel", "Request receives a frame from a channel other than the one it registered")
						}
					}
				}
			}
		}
		// pairing: a deferred Unregister(ctx) on every path continuing after Register
		isUnreg := func(in ssa.Instruction) bool {
			d, ok := in.(*ssa.Defer)
			if !ok {
				return false
			}
			for _, uc := range unregCalls {
				if uc.Instr == ssa.CallInstruction(d) {
					return ssax.Strip(uc.Args()[1]) == ssa.Value(ctxParam)
				}
			}
			return false
		}
		// a registration that failed (the context is in flight for another request) is neither
		// used nor undone: the error is tested, and Unregister is deferred on the success edge only
		{
			okB := errNilSuccessor(rc.Instr.Value())
			okDefer := okB != nil
			where := ""
			if okB != nil {
				for _, uc := range unregCalls {
					d, isD := uc.Instr.(*ssa.Defer)
					if !isD {
						continue
					}
					if !(len(okB.Preds) == 1 && okB.Dominates(d.Block())) {
						okDefer, where = false, r.IPos(d)
					}
				}
			}
			detail := "the error of Register is not tested"
			if okB != nil {
				detail = "Unregister is deferred at " + where + " although Register may have failed"
			}
			ctx.Check(okDefer, R4, rn+" › a failed Register is neither used nor undone", r.IPos(rc.Instr), "Register's error is tested; defer Unregister only on its nil edge",
				detail+": a request made with a context that is already in flight removes the registration of the request that owns it when it returns or times out, so that request's response is dropped and its caller times out although the peer answered")
		}
		// success continuation: if Register's error is tested, follow the nil edge
		var from ssa.Instruction = rc.Instr.(ssa.Instruction)
		if v := rc.Instr.Value(); v != nil {
			if b := errNilSuccessor(v); b != nil && len(b.Instrs) > 0 {
				// path search must start before the first instruction of b
				if isUnreg(b.Instrs[0]) {
					from = nil
				} else {
					from = b.Instrs[0]
				}
			}
		}
		var bad []*ssa.BasicBlock
		if from != nil {
			// any path to a return or a blocking wait or a transmission without passing the deferred Unregister
			bad = ssax.PathFrom(req, from, func(in ssa.Instruction) bool {
				if ssax.IsReturn(in) {
					return true
				}
				if _, ok := ssax.Blocking(in); ok {
					return true
				}
				if _, ok := in.(*ssa.Go); ok {
					return true
				}
				return false
			}, isUnreg)
		}
		if bad == nil {
			ctx.Discharge(R4, rn+" › deferred Unregister(ctx) follows Register on every path", r.IPos(rc.Instr), "defer Unregister(same ctx) precedes every return/wait/spawn after a successful Register")
		} else {
			ctx.Violate(R4, rn+" › deferred Unregister(ctx) follows Register on every path", r.IPos(rc.Instr),
				"a path after a successful Register reaches a return/wait/transmission without a deferred Unregister of the same context: the registration leaks and a late frame can be delivered to a later request reusing the id",
				ssax.PathString(r.V.Fset, bad)...)
		}
		// R5: Register dominates transmissions
		for _, c := range ssax.Calls(req) {
			if R5 == "" {
				break
			}
			isTx := false
			desc := ""
			if _, ok := c.Instr.(*ssa.Go); ok {
				isTx, desc = true, "go "+c.ShortName()
			}
			if ssax.MatchCall(c, "(*github.com/nats-io/nats.go.Conn).PublishRequest", "(*github.com/nats-io/nats.go.Conn).Publish") {
				isTx, desc = true, c.ShortName()
			}
			if !isTx {
				continue
			}
			ctx.Check(ssax.Dominates(rc.Instr.(ssa.Instruction), c.Instr.(ssa.Instruction)), R5, rn+" › Register before "+desc, r.IPos(c.Instr),
				"Register dominates the transmission", "the request can be transmitted before its result channel is registered: a fast reply is dropped as unknown")
		}
	}
}

// errNilSuccessor: for an error-typed value tested against nil in an If,
// return the successor block taken when the error is nil.
func errNilSuccessor(v ssa.Value) *ssa.BasicBlock {
	refs := v.Referrers()
	if refs == nil {
		return nil
	}
	for _, u := range *refs {
		bo, ok := u.(*ssa.BinOp)
		if !ok {
			continue
		}
		c, isC := bo.Y.(*ssa.Const)
		if !isC || !c.IsNil() {
			continue
		}
		if br := bo.Referrers(); br != nil {
			for _, i := range *br {
				if iff, ok := i.(*ssa.If); ok {
					switch bo.Op {
					case token.NEQ:
						return iff.Block().Succs[1]
					case token.EQL:
						return iff.Block().Succs[0]
					}
				}
			}
		}
	}
	return nil
}

func c01NatsSubject(ctx *core.Ctx, r *RT) {
	req := r.Fn("C01.R6", "(*fNatsTransport).Request")
	open := r.Fn("C01.R6", "(*fNatsTransport).Open")
	if req == nil || open == nil {
		return
	}
	for _, c := range ssax.CallsTo(req, "(*github.com/nats-io/nats.go.Conn).PublishRequest") {
		reply, back := ThroughCall(r, c.Common.Args[2]) // the subject may be built by a small helper
		ok := false
		if sc, ok1 := CallValue(reply); ok1 && sc.FullName() == "fmt.Sprintf" {
			if f, ok2 := ConstString(sc.Common.Args[0]); ok2 && f == "%s.%d" {
				va := VarargValues(sc.Common.Args[1])
				if len(va) == 2 {
					_, isInbox := LoadedFrom(va[0], "inbox")
					isOpid := false
					opv := va[1]
					if mi, isMI := opv.(*ssa.MakeInterface); isMI {
						opv = mi.X
					}
					if tup, ok3 := ExtractOf(back(opv), 0); ok3 {
						if gc, ok4 := CallValue(tup); ok4 && gc.ShortName() == "getOpID" && gc.Static != nil && gc.Static.Pkg == r.Pkg {
							isOpid = IsParam(gc.Common.Args[0], req, 1)
						}
					}
					ok = isInbox && isOpid
				}
			}
		}
		ctx.Check(ok, "C01.R6", "(*fNatsTransport).Request › reply subject", r.IPos(c.Instr),
			`reply = Sprintf("%s.%d", inbox, getOpID(ctx))`, "reply subject is not <inbox>.<op id of this request's context>: the 503/no-responder routing and the per-op subject break")
	}
	for _, c := range ssax.CallsTo(open, "(*github.com/nats-io/nats.go.Conn).Subscribe") {
		subj := ssax.Strip(c.Common.Args[1])
		ok := false
		if bo, ok1 := subj.(*ssa.BinOp); ok1 && bo.Op == token.ADD {
			_, isInbox := LoadedFrom(bo.X, "inbox")
			s, isC := ConstString(bo.Y)
			ok = isInbox && isC && s == ".*"
		}
		ctx.Check(ok, "C01.R6", "(*fNatsTransport).Open › subscription subject", r.IPos(c.Instr),
			`subscribes to inbox + ".*"`, "the transport does not subscribe to <inbox>.*: replies on <inbox>.<opid> are not received")
	}
}

// VarargValues recovers the elements of a variadic []any argument built as
// new [N]any; &t[i]; *addr = make any <- x; slice t[:].
func VarargValues(v ssa.Value) []ssa.Value {
	sl, ok := v.(*ssa.Slice)
	if !ok {
		return nil
	}
	al, ok := sl.X.(*ssa.Alloc)
	if !ok {
		return nil
	}
	arr, ok := al.Type().Underlying().(*types.Pointer).Elem().Underlying().(*types.Array)
	if !ok {
		return nil
	}
	out := make([]ssa.Value, arr.Len())
	for _, u := range *al.Referrers() {
		ia, ok := u.(*ssa.IndexAddr)
		if !ok {
			continue
		}
		idx, ok := ssax.ConstInt(ia.Index)
		if !ok {
			continue
		}
		for _, s := range *ia.Referrers() {
			if st, ok := s.(*ssa.Store); ok && st.Addr == ia {
				out[idx] = ssax.Strip(st.Val)
			}
		}
	}
	for _, x := range out {
		if x == nil {
			return nil
		}
	}
	return out
}

// returnsFreshSlice: every return of fn returns (as first result) nil or a
// slice made by make in fn — never a parameter, a field or a re-slice of one.
func returnsFreshSlice(fn *ssa.Function) bool {
	n := 0
	for _, vs := range ReturnedValues(fn) {
		if len(vs) == 0 {
			return false
		}
		v := ssax.Strip(vs[0])
		n++
		if c, ok := v.(*ssa.Const); ok && c.IsNil() {
			continue
		}
		if _, ok := v.(*ssa.MakeSlice); ok {
			continue
		}
		return false
	}
	return n > 0
}

// undeliverableNotError: a frame the registry cannot deliver is discarded
// without an error wherever a reader loop treats an error of Execute as fatal.
func undeliverableNotError(ctx *core.Ctx, r *RT, rule string, delivery *ssa.Function, regImpl map[*ssa.Function]string) {
	if delivery != nil {
		// reader loops for which an error of Execute ends the loop
		var fatal []string
		for _, f := range r.Fns {
			for _, c := range ssax.Calls(f) {
				isExec := false
				for _, t := range r.Resolve(c) {
					if regImpl[t] == "Execute" {
						isExec = true
					}
				}
				v, isVal := c.Instr.(ssa.Value)
				if !isExec || !isVal {
					continue
				}
				// the call sits in a loop: it can be reached again from itself
				isCall := func(in ssa.Instruction) bool { return in == c.Instr }
				if ssax.PathFrom(f, c.Instr, isCall, nil) == nil {
					continue
				}
				for _, u := range *v.Referrers() {
					bo, ok := u.(*ssa.BinOp)
					if !ok || (bo.Op != token.NEQ && bo.Op != token.EQL) || bo.Referrers() == nil {
						continue
					}
					for _, w := range *bo.Referrers() {
						iff, ok := w.(*ssa.If)
						if !ok {
							continue
						}
						errSucc := iff.Block().Succs[0]
						if bo.Op == token.EQL {
							errSucc = iff.Block().Succs[1]
						}
						if len(errSucc.Instrs) == 0 {
							continue
						}
						first := errSucc.Instrs[0]
						if ssax.IsReturn(first) || ssax.PathFrom(f, first, ssax.IsReturn, isCall) != nil {
							fatal = append(fatal, ssax.Name(f))
						}
					}
				}
			}
		}
		sort.Strings(fatal)
		dn := ssax.Name(delivery)
		i := 0
		for ret := range ReturnedValues(delivery) {
			_ = ret
			i++
		}
		nonNil := 0
		var pos token.Pos
		for ret := range ReturnedValues(delivery) {
			if !nilErrorReturn(ret) {
				nonNil++
				pos = ret.Pos()
			}
		}
		if pos == token.NoPos {
			pos = delivery.Pos()
		}
		ctx.Check(nonNil == 0 || len(fatal) == 0, rule, dn+" › returns nil on every path", r.Pos(pos),
			fmt.Sprintf("%d returns, all nil (fatal-on-error reader loops: %v)", i, fatal),
			fmt.Sprintf("the delivery function reports an undeliverable frame as an error and %v ends its loop (closing the transport) on any error of Execute: a stale or duplicated response for one request fails every other in-flight request", fatal))
		// Execute itself: a non-nil error is a header/op-id parse error or the delivery result
		for f, role := range regImpl {
			if role != "Execute" {
				continue
			}
			bad := ""
			for ret, vs := range ReturnedValues(f) {
				if nilErrorReturn(ret) || len(vs) == 0 {
					continue
				}
				parseErr := func(v ssa.Value) bool {
					if tup, ok := ExtractOf(v, 1); ok {
						if pc, ok := CallValue(tup); ok {
							if pc.FullName() == "strconv.ParseUint" || (pc.Static != nil && returnsHeaderMap(pc.Static)) {
								return true
							}
						}
					}
					if pc, ok := CallValue(v); ok {
						for _, t := range r.Resolve(pc) {
							if t == delivery {
								return true
							}
						}
					}
					return false
				}
				// the error may come out of a helper that parses the frame
				for _, o := range errorOrigins(r, vs[len(vs)-1], parseErr, 2) {
					if !parseErr(o) {
						bad = r.Pos(ret.Pos())
					}
				}
			}
			ctx.Check(bad == "" || len(fatal) == 0, rule, ssax.Name(f)+" › errors are parse errors of this frame only", fnPos(r, f),
				"non-nil results: getHeadersFromFrame / ParseUint error, or the delivery result", "Execute returns an error that is not a malformed-frame error at "+bad+"; reader loops close the transport on it")
		}
	}
}

// recvOnlyHelperCall: the call hands `ch` to a function of the package that only
// receives from the corresponding parameter (directly or through another such
// helper) — the waiting half of a Request extracted into a function.
func recvOnlyHelperCall(r *RT, call ssa.CallInstruction, ch ssa.Value, depth int) bool {
	if depth > 2 {
		return false
	}
	if _, isGo := call.(*ssa.Go); isGo {
		return false
	}
	g := call.Common().StaticCallee()
	if g == nil || g.Pkg != r.Pkg || len(g.Blocks) == 0 {
		return false
	}
	args := call.Common().Args
	ok := false
	for i, a := range args {
		av := ssax.Strip(a)
		if ct, isCT := av.(*ssa.ChangeType); isCT {
			av = ssax.Strip(ct.X)
		}
		if av != ssax.Strip(ch) || i >= len(g.Params) {
			continue
		}
		ok = true
		for _, u := range ssax.UsesTransitive(g.Params[i]) {
			switch x := u.(type) {
			case *ssa.Select:
				for _, st := range x.States {
					if ssax.Strip(st.Chan) == ssa.Value(g.Params[i]) && st.Dir != types.RecvOnly {
						return false
					}
				}
			case *ssa.UnOp:
				if x.Op != token.ARROW {
					return false
				}
			case *ssa.DebugRef, *ssa.ChangeType:
			case ssa.CallInstruction:
				if !recvOnlyHelperCall(r, x, g.Params[i], depth+1) {
					return false
				}
			default:
				return false
			}
		}
	}
	return ok
}

// frameOwnership: every frame a reader loop hands to the registry is a buffer
// allocated for that frame alone.
func frameOwnership(ctx *core.Ctx, r *RT, rule string) {
	for _, fn := range r.Fns {
		for _, c := range ssax.Calls(fn) {
			if !(c.Method != nil && c.Method.Name() == "Execute" && ssax.TypeNamed(c.Method.Type().(*types.Signature).Recv().Type(), "", "fRegistry")) {
				continue
			}
			if !r.onCycle(c.Instr.(ssa.Instruction)) {
				continue
			}
			frame := ssax.Strip(c.Args()[1])
			ok, how := false, ""
			if tup, isEx := ExtractOf(frame, 0); isEx {
				if pc, isCall := CallValue(tup); isCall && pc.Static != nil && pc.Static.Pkg == r.Pkg {
					ok = returnsFreshSlice(pc.Static)
					how = ssax.Name(pc.Static) + " returns a slice made in that call on every path"
				}
			}
			if _, isMake := frame.(*ssa.MakeSlice); isMake {
				ok, how = true, "make([]byte, …) inside the loop"
			}
			ctx.Check(ok, rule, ssax.Name(fn)+" › frame passed to Execute is freshly allocated", r.IPos(c.Instr), how,
				"the reader loop reuses frame storage across iterations while the previous frame is still owned by a caller (delivered uncopied through the result channel): a correctly correlated request decodes another request's bytes")
		}
	}

}

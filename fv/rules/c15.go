package rules

import (
	"go/constant"
	"go/token"
	"go/types"
	"strings"

	"fv/internal/core"
	"fv/internal/ssax"

	"golang.org/x/tools/go/ssa"
)

func fieldNameOfAddr(v ssa.Value) string {
	v = ssax.Strip(v)
	if u, ok := v.(*ssa.UnOp); ok && u.Op == token.MUL {
		v = u.X
	}
	if fa, ok := v.(*ssa.FieldAddr); ok {
		st := fa.X.Type().Underlying().(*types.Pointer).Elem().Underlying().(*types.Struct)
		return structFieldName(st, fa.Field)
	}
	return ""
}

// C15 — transport failure detected, reported once, recoverable.
func C15(ctx *core.Ctx) {
	ctx.Explanation = "Decides the structural conditions of the adapter transport's lifecycle for all open/fail/reopen/close histories: no blocking operation, re-acquisition or leaked hold of the lifecycle mutex; " +
		"the close token and the frame decoder are per read-loop generation (allocated by Open / by the loop, never shared across generations); every exit of the read loop either consumed the close token or went through close(cause); " +
		"the success path of close publishes the cause with exactly one non-blocking send, closes the channel, signals the monitor and clears isOpen, all under the lock after the isOpen check; Open/close report ALREADY_OPEN/NOT_OPEN; " +
		"the monitor policy clamps waits by MaxWait, stops at MaxReopenAttempts, counts attempts per outage from zero and calls exactly one callback per close. Not decided: the histories themselves, NATS transport lifecycle."
	r := LoadRT(ctx, "", "")
	if !r.OK() {
		return
	}
	c15OpenIsOneCriticalSection(ctx, r)
	c15CloseAnnouncedOnSuccessOnly(ctx, r)
	ctx.Rule("C15.R1", "lifecycle mutex: no blocking operation / blocking package call while held, released on all exits, never re-acquired by a callee", 8)
	ctx.Rule("C15.R2", "close-token and decoder are per generation: the reader loop receives the token on a channel freshly made by the Open that spawned it (the same channel close() signals on), and decodes with a framing transport it allocated itself", 2)
	ctx.Rule("C15.R3", "every return of the reader loop is preceded by consuming the close token or by close(cause)/Close()", 4)
	ctx.Rule("C15.R4", "close(): on the success path exactly one non-blocking send of cause on closeChan, then close(closeChan), monitor signal attempted, isOpen=false; Open allocates closeChan with capacity ≥ 1", 6)
	ctx.Rule("C15.R5", "error kinds: Open while open ⇒ ALREADY_OPEN; close while not open ⇒ NOT_OPEN", 2)
	ctx.Rule("C15.R6", "monitor policy: OnReopenFailed clamps by MaxWait and stops at MaxReopenAttempts; attempts are counted per outage from 0, +1 per failed Open; run() calls exactly one of the clean/unclean handlers per received cause", 5)
	ctx.Assume("Open/Close/IsOpen of the wrapped thrift.TTransport return (they are called under the lifecycle mutex by design)")

	at := r.Named("fAdapterTransport")
	if at == nil {
		ctx.Unresolved("C15.R1", "fAdapterTransport", "adapter transport type not found")
		return
	}
	bi := ssax.ComputeBlocking(r.Fns, r.Resolve)

	// ---- R1 ---------------------------------------------------------------------
	for _, fn := range r.Fns {
		uses := false
		for _, c := range ssax.Calls(fn) {
			if lockOwner(c) == "fAdapterTransport" {
				uses = true
			}
		}
		if !uses {
			continue
		}
		locks := ssax.LockSets(fn, nil)
		bad := 0
		ssax.Instrs(fn, func(in ssa.Instruction) {
			ls := locks[in]
			held := false
			for k := range ls {
				if strings.HasSuffix(k, ".mu") {
					held = true
				}
			}
			if !held {
				return
			}
			if desc, ok := ssax.Blocking(in); ok {
				bad++
				ctx.Violate("C15.R1", ssax.Name(fn)+" › "+desc+" under the lifecycle mutex", r.IPos(in),
					"a blocking operation while holding the lifecycle mutex: if it does not complete, Open/Close/IsOpen/Closed all deadlock")
				return
			}
			c, ok := ssax.AsCall(in)
			if !ok {
				return
			}
			if _, isDefer := in.(*ssa.Defer); isDefer {
				return
			}
			if _, isGo := in.(*ssa.Go); isGo {
				return
			}
			for _, cal := range r.Resolve(c) {
				if bi.Reach[cal] != nil {
					bad++
					ctx.Violate("C15.R1", ssax.Name(fn)+" › call "+ssax.Name(cal)+" under the lifecycle mutex can block", r.IPos(in), bi.Chain(cal))
				}
			}
		})
		if bad == 0 {
			ctx.Discharge("C15.R1", ssax.Name(fn)+" › critical sections of the lifecycle mutex are non-blocking", fnPos(r, fn), "only non-blocking selects, field updates and calls on the wrapped transport")
		}
	}
	lockBalance(ctx, r, "C15.R1", "fAdapterTransport")
	noDoubleAcquire(ctx, r, "C15.R1", "fAdapterTransport")

	c15ReopenableClose(ctx, r)
	c15OpenCloseAgree(ctx, r)
	c15NotificationsNotDiscarded(ctx, r)
	c15OnlyEOFIsClean(ctx, r)
	// ---- reader loop discovery ------------------------------------------------------
	open := r.Fn("C15.R2", "(*fAdapterTransport).Open")
	closeFn := r.Fn("C15.R4", "(*fAdapterTransport).close")
	if open == nil || closeFn == nil {
		return
	}
	var loop *ssa.Function
	var spawn *ssa.Go
	spawner := open // Open itself, or the unexported helper of the transport it starts the loop through
	for _, g0 := range localCone(open, 1) {
		if g0 != open && (g0.Object() == nil || g0.Object().Exported()) {
			continue
		}
		for _, c := range ssax.Calls(g0) {
			if g, ok := c.Instr.(*ssa.Go); ok {
				for _, t := range r.Resolve(c) {
					loop, spawn, spawner = t, g, g0
				}
			}
		}
	}

	if loop == nil {
		ctx.Unresolved("C15.R2", "reader loop", "Open spawns no goroutine")
		return
	}
	ln := ssax.Name(loop)
	// the channel close() signals on: the field sent on (struct{} element) in close
	sigField := ""
	for _, ss := range SendSites(closeFn) {
		if ch, ok := ss.Chan.Type().Underlying().(*types.Chan); ok {
			if s, ok := ch.Elem().Underlying().(*types.Struct); ok && s.NumFields() == 0 {
				sigField = fieldNameOfAddr(ss.Chan)
			}
		}
	}
	if sigField == "" {
		ctx.Unresolved("C15.R2", "close signal", "close() sends no token to the reader loop")
		return
	}
	// ---- R2 ---------------------------------------------------------------------
	tokenRecv := map[ssa.Instruction]int{} // select -> case index
	// the loop's own receives, and those of helpers it hands one of its parameters to
	var recvs []RecvSite
	recvs = append(recvs, RecvSites(loop)...)
	paramOf := map[ssa.Value]*ssa.Parameter{}
	for _, lp := range loop.Params {
		for a := range valueAliases(lp) {
			paramOf[a] = lp
		}
	}
	closeCone := map[*ssa.Function]bool{} // close(cause) takes its own token back on a failed close: not a poll of the loop
	for _, g := range localCone(closeFn, 2) {
		closeCone[g] = true
	}
	for _, g := range localCone(loop, 2) {
		if g == loop {
			continue
		}
		for _, rs := range RecvSites(g) {
			if lp, ok := paramOf[ssax.Strip(rs.Chan)]; ok {
				rs.Chan = lp
				recvs = append(recvs, rs)
			} else if g != closeFn && !closeCone[g] && g.Object() != nil && !g.Object().Exported() && isSignalChan(rs.Chan.Type()) && rs.NonBlocking {
				// a helper of the loop polling a signal channel it was not handed by the loop (a field)
				recvs = append(recvs, rs)
			}
		}
	}
	for _, rs := range recvs {
		ch, ok := rs.Chan.Type().Underlying().(*types.Chan)
		if !ok {
			continue
		}
		if s, ok := ch.Elem().Underlying().(*types.Struct); !ok || s.NumFields() != 0 {
			continue
		}
		tokenRecv[rs.Instr] = rs.SelIndex
		v := ssax.Strip(rs.Chan)
		okGen := false
		detail := "the reader loop waits for the close token on " + ssax.AddrKey(v) + ", which is not a channel made by the Open call that spawned this loop: a token left by an earlier generation is mistaken for a close request (failure swallowed) or the new loop never sees its own"
		if p, isParam := v.(*ssa.Parameter); isParam {
			// bound at the spawn site
			for i, lp := range loop.Params {
				if lp == p && i < len(spawn.Call.Args) {
					arg := resolveFieldLoad(spawn.Call.Args[i])
					if mc, ok := arg.(*ssa.MakeChan); ok && mc.Parent() == spawner {
						// the same channel is what close() will signal on: stored to the signal field before the spawn
						stored := false
						ssax.Instrs(spawner, func(in ssa.Instruction) {
							if st, ok := in.(*ssa.Store); ok && ssax.Strip(st.Val) == ssa.Value(mc) && fieldNameOfAddr(st.Addr) == sigField && ssax.Dominates(in, spawn) {
								stored = true
							}
						})
						if stored {
							okGen = true
						} else {
							detail = "the channel given to the reader loop is not the one stored in " + sigField + " (which close() signals on)"
						}
					}
				}
			}
		}
		ctx.Check(okGen, "C15.R2", ln+" › close token channel is per generation", r.IPos(rs.Instr),
			"token received on a parameter bound to a channel made by the spawning Open and stored in "+sigField+" before the spawn", detail)
	}
	if len(tokenRecv) == 0 {
		ctx.Violate("C15.R2", ln+" › close token channel is per generation", fnPos(r, loop), "the reader loop never checks for a close request: a requested close is reported as a failure")
	}
	// decoder per generation
	for _, c := range ssax.Calls(loop) {
		for _, a := range c.Args() {
			if !ssax.TypeNamed(a.Type(), "", "TFramedTransport") {
				continue
			}
			if _, isPtr := a.Type().(*types.Pointer); !isPtr {
				continue
			}
			v := ssax.Strip(a)
			fresh := false
			if cv, ok := CallValue(v); ok && cv.Static != nil && strings.HasPrefix(cv.Static.Name(), "NewTFramedTransport") && cv.Instr.Parent() == loop {
				fresh = true
			}
			ctx.Check(fresh, "C15.R2", ln+" › frame decoder is allocated by this loop", r.IPos(c.Instr),
				"NewTFramedTransport(...) inside the reader loop function", "the stateful frame decoder outlives the read loop (field / shared value): bytes-remaining state from a connection cut inside a frame corrupts the first frame after a reopen")
		}
	}
	// ---- R3 ---------------------------------------------------------------------
	readerExits(ctx, r, loop, "C15.R3")

	// ---- R4 ---------------------------------------------------------------------
	cn := ssax.Name(closeFn)
	causeParam := closeFn.Params[1]
	successRet := func(ret *ssa.Return) bool {
		if len(ret.Results) != 1 {
			return false
		}
		c, ok := ssax.Strip(ResolveLocal(ret.Results[0])).(*ssa.Const)
		return ok && c.IsNil()
	}
	isCauseSend := func(in ssa.Instruction) bool {
		for _, ss := range SendSites(closeFn) {
			if ss.Instr == in && fieldNameOfAddr(ss.Chan) == "closeChan" {
				return true
			}
		}
		return false
	}
	// failure path: a close that did not happen takes its stop token back — otherwise the token
	// stays pending and the reader loop takes the next genuine stream failure for a requested close
	{
		isTokenSend := func(in ssa.Instruction) bool {
			for _, ss := range SendSites(closeFn) {
				if ss.Instr == in && fieldNameOfAddr(ss.Chan) == "closeSignal" {
					return true
				}
			}
			return false
		}
		isTokenRecv := func(in ssa.Instruction) bool {
			for _, rs := range RecvSitesLifted(closeFn) {
				if rs.Instr == in && fieldNameOfAddr(rs.Chan) == "closeSignal" {
					return true
				}
			}
			return false
		}
		failRet := func(in ssa.Instruction) bool {
			ret, ok := in.(*ssa.Return)
			return ok && !successRet(ret)
		}
		var tokenSend ssa.Instruction
		ssax.Instrs(closeFn, func(in ssa.Instruction) {
			if isTokenSend(in) {
				tokenSend = in
			}
		})
		if tokenSend == nil {
			ctx.Discharge("C15.R4", cn+" › no stop token is left behind by a failed close", fnPos(r, closeFn), "close() sends no token")
		} else {
			bad := ssax.PathFrom(closeFn, tokenSend, failRet, isTokenRecv)
			if bad == nil {
				ctx.Discharge("C15.R4", cn+" › no stop token is left behind by a failed close", r.IPos(tokenSend), "every failing return after the token was sent is preceded by taking it back")
			} else {
				ctx.Violate("C15.R4", cn+" › no stop token is left behind by a failed close", r.IPos(tokenSend),
					"close() can return an error (the transport stays open) with its stop token still pending: the reader loop consumes it at the next genuine read failure, takes that failure for a requested close and exits silently — the transport stays 'open', no cause is published and the monitor never reopens",
					ssax.PathString(r.V.Fset, bad)...)
			}
		}
	}
	mn, mx := ssax.CountOnPathsTo(closeFn, nil, isCauseSend, successRet)
	ctx.Check(mn == 1 && mx == 1, "C15.R4", cn+" › exactly one cause published on the success path", fnPos(r, closeFn),
		"exactly one send on closeChan on every successful close", sprintf("a successful close publishes the cause %d..%d times (must be exactly once)", mn, mx))
	for _, ss := range SendSites(closeFn) {
		if fieldNameOfAddr(ss.Chan) == "closeChan" {
			ctx.Check(ss.NonBlocking && ssax.Strip(ss.X) == ssa.Value(causeParam), "C15.R4", cn+" › cause send is non-blocking and carries the cause", r.IPos(ss.Instr),
				"select{case closeChan <- cause: default:}", "the published value is not the close cause, or the send can block under the lifecycle mutex")
		}
	}
	isCloseChan := func(in ssa.Instruction) bool {
		c, ok := ssax.AsCall(in)
		return ok && c.FullName() == "builtin.close" && fieldNameOfAddr(c.Common.Args[0]) == "closeChan"
	}
	mn, mx = ssax.CountOnPathsToW(closeFn, nil, liftedWeight(closeFn, isCloseChan, 1), successRet)
	ctx.Check(mn == 1 && mx == 1, "C15.R4", cn+" › closeChan closed exactly once on the success path", fnPos(r, closeFn),
		"close(closeChan) exactly once", sprintf("closeChan is closed %d..%d times on a successful close (receivers of Closed() hang, or double close panics)", mn, mx))
	isMonitor := func(in ssa.Instruction) bool {
		for _, ss := range SendSites(closeFn) {
			if ss.Instr == in && fieldNameOfAddr(ss.Chan) == "monitorCloseSignal" && ss.NonBlocking && ssax.Strip(ss.X) == ssa.Value(causeParam) {
				return true
			}
		}
		return false
	}
	mn, _ = ssax.CountOnPathsTo(closeFn, nil, isMonitor, successRet)
	ctx.Check(mn >= 1, "C15.R4", cn+" › monitor notified on every successful close", fnPos(r, closeFn),
		"non-blocking send of cause on monitorCloseSignal on every success path", "a successful close can skip the monitor notification: no reopen is attempted")
	isClear := func(in ssa.Instruction) bool {
		st, ok := in.(*ssa.Store)
		if !ok || fieldNameOfAddr(st.Addr) != "isOpen" {
			return false
		}
		c, ok := st.Val.(*ssa.Const)
		return ok && c.Value != nil && c.Value.String() == "false"
	}
	mn, _ = ssax.CountOnPathsTo(closeFn, nil, isClear, successRet)
	ctx.Check(mn >= 1, "C15.R4", cn+" › isOpen cleared on every successful close", fnPos(r, closeFn),
		"isOpen = false on every success path", "a successful close can leave isOpen true: IsOpen lies and Open reports ALREADY_OPEN forever")
	// all of it after the isOpen check and under the lock
	locks := ssax.LockSets(closeFn, nil)
	ssax.Instrs(closeFn, func(in ssa.Instruction) {
		label := ""
		switch {
		case isCauseSend(in):
			label = "cause send"
		case isCloseChan(in):
			label = "close(closeChan)"
		case isClear(in):
			label = "isOpen = false"
		}
		if label != "" {
			ctx.Check(locks[in].Holds("mu", true), "C15.R4", cn+" › state change under the lifecycle mutex: "+label, r.IPos(in),
				"exclusive lock held", "lifecycle state changed without the exclusive lock: concurrent Open/Close/IsOpen observe a torn state")
		}
	})
	// Open: closeChan allocated with capacity>=1 on every success path, isOpen set
	isAlloc := func(in ssa.Instruction) bool {
		st, ok := in.(*ssa.Store)
		if !ok || fieldNameOfAddr(st.Addr) != "closeChan" {
			return false
		}
		mc, ok := ssax.Strip(st.Val).(*ssa.MakeChan)
		if !ok {
			return false
		}
		n, ok := ssax.ConstInt(mc.Size)
		return ok && n >= 1
	}
	mn, _ = ssax.CountOnPathsTo(open, nil, isAlloc, successRet)
	ctx.Check(mn >= 1, "C15.R4", ssax.Name(open)+" › fresh buffered closeChan on every successful Open", fnPos(r, open),
		"closeChan = make(chan error, n≥1)", "a successful Open can keep the previous (closed) closeChan or an unbuffered one: the next close cause is lost or close panics")

	// ---- R5 ---------------------------------------------------------------------
	checkKind := func(fn *ssa.Function, onTrue bool, constName, construct string) {
		want := constInt(r, constName)
		ok := false
		ssax.Instrs(fn, func(in ssa.Instruction) {
			iff, isIf := in.(*ssa.If)
			if !isIf {
				return
			}
			if fieldNameOfAddr(iff.Cond) != "isOpen" {
				return
			}
			b := iff.Block().Succs[1]
			if onTrue {
				b = iff.Block().Succs[0]
			}
			for ret, vs := range ReturnedValues(fn) {
				if ret.Block() == b {
					for _, v := range vs {
						if k, isEx := ExceptionKind(v, "thrift.NewTTransportException"); isEx && k == want {
							ok = true
						}
					}
				}
			}
		})
		ctx.Check(ok, "C15.R5", construct, fnPos(r, fn), "returns NewTTransportException("+constName+")", "wrong or missing error kind on the "+constName+" edge")
	}
	checkKind(open, true, "TRANSPORT_EXCEPTION_ALREADY_OPEN", ssax.Name(open)+" › already open ⇒ ALREADY_OPEN")
	checkKind(closeFn, false, "TRANSPORT_EXCEPTION_NOT_OPEN", cn+" › not open ⇒ NOT_OPEN")

	// ---- R6 ---------------------------------------------------------------------
	c15Monitor(ctx, r)
}

func shortInstr(in ssa.Instruction) string {
	s := in.String()
	if len(s) > 60 {
		s = s[:60]
	}
	return s
}

func retOrdinal(fn *ssa.Function, ret *ssa.Return) int {
	n := 0
	for _, b := range fn.Blocks {
		for _, in := range b.Instrs {
			if r, ok := in.(*ssa.Return); ok {
				if r == ret {
					return n
				}
				n++
			}
		}
	}
	return -1
}

func callOrdinal(fn *ssa.Function, c ssax.Call) int {
	n := 0
	for _, x := range ssax.Calls(fn) {
		if x.Static == c.Static && x.Method == c.Method {
			if x.Instr == c.Instr {
				return n
			}
			n++
		}
	}
	return -1
}

func c15Monitor(ctx *core.Ctx, r *RT) {
	for _, fn := range r.Impl("FTransportMonitor", "OnReopenFailed") {
		fname := ssax.Name(fn)
		attempts, _ := fn.Params[1], fn.Params[2]
		for ret, vs := range ReturnedValues(fn) {
			if len(vs) != 2 {
				continue
			}
			bc, isC := ssax.Strip(vs[0]).(*ssa.Const)
			if isC && bc.Value != nil && bc.Value.String() == "false" {
				continue
			}
			construct := fname + sprintf(" › return #%d", retOrdinal(fn, ret))
			// guarded by prevAttempts < MaxReopenAttempts
			guarded := false
			ssax.Instrs(fn, func(in ssa.Instruction) {
				iff, ok := in.(*ssa.If)
				if !ok {
					return
				}
				bo, ok := iff.Cond.(*ssa.BinOp)
				if !ok {
					return
				}
				x, y := ssax.Strip(bo.X), ssax.Strip(bo.Y)
				_, yMax := LoadedFrom(y, "MaxReopenAttempts")
				_, xMax := LoadedFrom(x, "MaxReopenAttempts")
				var okEdge *ssa.BasicBlock
				switch {
				case x == ssa.Value(attempts) && yMax && bo.Op == token.GEQ:
					okEdge = iff.Block().Succs[1]
				case x == ssa.Value(attempts) && yMax && bo.Op == token.LSS:
					okEdge = iff.Block().Succs[0]
				case y == ssa.Value(attempts) && xMax && bo.Op == token.LEQ:
					okEdge = iff.Block().Succs[1]
				case y == ssa.Value(attempts) && xMax && bo.Op == token.GTR:
					okEdge = iff.Block().Succs[0]
				}
				if okEdge != nil && (okEdge == ret.Block() || okEdge.Dominates(ret.Block())) && len(okEdge.Preds) == 1 {
					guarded = true
				}
			})
			ctx.Check(guarded, "C15.R6", construct+" reopen=true only below MaxReopenAttempts", r.IPos(ret),
				"dominated by the prevAttempts < MaxReopenAttempts edge", "the monitor can ask for another attempt although prevAttempts ≥ MaxReopenAttempts")
			// wait clamped by MaxWait
			clamped := false
			w := ssax.Strip(vs[1])
			if c, ok := w.(*ssa.Const); ok && c.Value != nil && c.Int64() == 0 {
				clamped = true
			}
			if phi, ok := w.(*ssa.Phi); ok && len(phi.Edges) == 2 {
				for i := 0; i < 2; i++ {
					capV, other := ssax.Strip(phi.Edges[i]), ssax.Strip(phi.Edges[1-i])
					if _, isMax := LoadedFrom(capV, "MaxWait"); !isMax {
						continue
					}
					capPred := phi.Block().Preds[i]
					// capPred must be the edge where other > MaxWait
					for _, b := range fn.Blocks {
						iff, ok := b.Instrs[len(b.Instrs)-1].(*ssa.If)
						if !ok {
							continue
						}
						bo, ok := iff.Cond.(*ssa.BinOp)
						if !ok {
							continue
						}
						_, yMax := LoadedFrom(bo.Y, "MaxWait")
						_, xMax := LoadedFrom(bo.X, "MaxWait")
						var overEdge *ssa.BasicBlock
						switch {
						case ssax.Strip(bo.X) == other && yMax && (bo.Op == token.GTR || bo.Op == token.GEQ):
							overEdge = b.Succs[0]
						case ssax.Strip(bo.X) == other && yMax && (bo.Op == token.LEQ || bo.Op == token.LSS):
							overEdge = b.Succs[1]
						case ssax.Strip(bo.Y) == other && xMax && (bo.Op == token.LSS || bo.Op == token.LEQ):
							overEdge = b.Succs[0]
						}
						if overEdge != nil && overEdge == capPred {
							clamped = true
						}
					}
				}
			}
			ctx.Check(clamped, "C15.R6", construct+" wait clamped by MaxWait", r.IPos(ret),
				"wait = min(next, MaxWait) (or constant 0)", "the returned wait is not clamped by MaxWait: waits can exceed the configured maximum")
		}
	}
	// attemptReopen: counter per outage
	if ar := r.Fn("C15.R6", "(*monitorRunner).attemptReopen"); ar != nil {
		an := ssax.Name(ar)
		n := 0
		// the report may sit in a helper of the runner that attemptReopen calls on a failed attempt
		for _, g := range localCone(ar, 1) {
			if g == ar || g.Object() == nil || g.Object().Exported() {
				continue
			}
			for _, c := range ssax.Calls(g) {
				if c.Method == nil || c.Method.Name() != "OnReopenFailed" {
					continue
				}
				n++
				cnt := ssax.Strip(c.Args()[1])
				ok := false
				detail := "the attempt count passed to OnReopenFailed is not a per-call counter starting at 0 and incremented once per failed Open (state shared across outages makes the monitor give up early or never)"
				// a counter kept in the runner is per outage only if attemptReopen resets it before its loop
				root := cnt
				if bo, isAdd := root.(*ssa.BinOp); isAdd && bo.Op == token.ADD {
					root = ssax.Strip(bo.X)
				}
				if q, isParam := cnt.(*ssa.Parameter); isParam {
					// handed the count by attemptReopen: judge the argument there
					for _, c2 := range ssax.Calls(ar) {
						if c2.Static != g {
							continue
						}
						for i, gp := range g.Params {
							if gp == q && i < len(c2.Common.Args) {
								ok = perCallCounter(ssax.Strip(c2.Common.Args[i]))
							}
						}
					}
				}
				if fld := fieldNameOfValue(root); fld != "" {
					ssax.Instrs(ar, func(in ssa.Instruction) {
						if st, isSt := in.(*ssa.Store); isSt && fieldNameOfAddr(st.Addr) == fld && !inCycle(in) {
							if z, isZ := ssax.ConstInt(st.Val); isZ && z == 0 {
								ok = true
							}
						}
					})
					if !ok {
						detail = "the attempt count passed to OnReopenFailed is kept in the field " + fld + " of the runner and never reset when a new outage starts: the MaxReopenAttempts budget is shared by all outages of the transport's life, so the monitor gives up early on a later outage"
					}
				}
				ctx.Check(ok, "C15.R6", an+" › attempts counted per outage", r.IPos(c.Instr), "counter reset at the start of attemptReopen", detail)
			}
		}
		for _, c := range ssax.Calls(ar) {
			if c.Method == nil || c.Method.Name() != "OnReopenFailed" {
				continue
			}
			n++
			cnt := ssax.Strip(c.Args()[1])
			ok := false
			detail := "the attempt count passed to OnReopenFailed is not a per-call counter starting at 0 and incremented once per failed Open (state shared across outages makes the monitor give up early or never)"
			if bo, isAdd := cnt.(*ssa.BinOp); isAdd && bo.Op == token.ADD {
				if one, k := ssax.ConstInt(bo.Y); k && one == 1 {
					if phi, isPhi := bo.X.(*ssa.Phi); isPhi {
						zero, back := false, false
						for _, e := range phi.Edges {
							if z, k := ssax.ConstInt(e); k && z == 0 {
								zero = true
							} else if ssax.Strip(e) == ssa.Value(bo) {
								back = true
							}
						}
						ok = zero && back && len(phi.Edges) == 2
					}
				}
			}
			ctx.Check(ok, "C15.R6", an+" › attempts counted per outage", r.IPos(c.Instr), "prevAttempts = φ(0, prevAttempts+1), incremented on the failed-Open edge", detail)
			// dominated by the failed-open edge of transport.Open()
			okEdge := false
			for _, oc := range ssax.Calls(ar) {
				if oc.Method != nil && oc.Method.Name() == "Open" {
					if v := oc.Instr.Value(); v != nil {
						// failing edge: err != nil true
						for _, u := range *v.Referrers() {
							if bo, isB := u.(*ssa.BinOp); isB && bo.Op == token.NEQ {
								for _, i := range *bo.Referrers() {
									if iff, isIf := i.(*ssa.If); isIf {
										fb := iff.Block().Succs[0]
										cb := c.Instr.Block()
										if fb == cb || fb.Dominates(cb) {
											okEdge = true
										}
									}
								}
							}
						}
					}
				}
			}
			ctx.Check(okEdge, "C15.R6", an+" › OnReopenFailed only after a failed Open", r.IPos(c.Instr), "call dominated by the err != nil edge of transport.Open()", "OnReopenFailed is not tied to a failed Open")
			mn, mx := ssax.CountOnPaths(ar, nil, func(in ssa.Instruction) bool { return in == c.Instr.(ssa.Instruction) })
			_ = mn
			_ = mx
		}
		if n == 0 {
			ctx.Violate("C15.R6", an+" › OnReopenFailed", fnPos(r, ar), "reopen failures are not reported to the monitor")
		}
	}
	// run(): exactly one handler per received cause
	if run := r.Fn("C15.R6", "(*monitorRunner).run"); run != nil {
		rn := ssax.Name(run)
		var clean, unclean []ssax.Call
		for _, c := range ssax.Calls(run) {
			if c.Static == nil {
				continue
			}
			if len(ssax.CallsTo(c.Static, "OnClosedCleanly")) > 0 {
				clean = append(clean, c)
			}
			if len(ssax.CallsTo(c.Static, "OnClosedUncleanly")) > 0 {
				unclean = append(unclean, c)
			}
		}
		ok := len(clean) == 1 && len(unclean) == 1
		if ok {
			// both dominated by the receive, on opposite edges of cause != nil
			cb, ub := clean[0].Instr.Block(), unclean[0].Instr.Block()
			ok = cb != ub && !cb.Dominates(ub) && !ub.Dominates(cb)
			// the value passed to the unclean handler is the received cause
			if ok {
				arg := ssax.Strip(unclean[0].Args()[1])
				u, isRecv := arg.(*ssa.UnOp)
				ok = isRecv && u.Op == token.ARROW
			}
		}
		ctx.Check(ok, "C15.R6", rn+" › one handler per received cause", fnPos(r, run),
			"clean and unclean handlers sit on opposite edges of cause != nil, the unclean one gets the received cause", "a received close cause can trigger both or neither of the monitor callbacks, or the wrong cause")
	}
}

// readerExits: every return of a connection-oriented reader loop is preceded
// by consuming the close token or by close(cause)/Close(); an unclean exit
// carries the error as cause.
func readerExits(ctx *core.Ctx, r *RT, loop *ssa.Function, rule string) {
	closeFn := r.FnOpt("(*fAdapterTransport).close")
	if closeFn == nil {
		ctx.Unresolved(rule, "close(cause)", "adapter transport close function not found")
		return
	}
	ln := ssax.Name(loop)
	tokenBody := map[*ssa.BasicBlock]bool{}
	for _, rs := range RecvSites(loop) {
		if !isSignalChan(rs.Chan.Type()) {
			continue
		}
		if sel, ok := rs.Instr.(*ssa.Select); ok {
			if b := SelectCaseBlock(sel, rs.SelIndex); b != nil {
				tokenBody[b] = true
			}
		}
	}
	var classifiedIn func(f *ssa.Function, tb map[*ssa.BasicBlock]bool, depth int) func(ssa.Instruction) bool
	classifiedIn = func(f *ssa.Function, tb map[*ssa.BasicBlock]bool, depth int) func(ssa.Instruction) bool {
		return func(in ssa.Instruction) bool {
			if tb[in.Block()] {
				return true
			}
			c, ok := ssax.AsCall(in)
			if !ok || c.Static == nil {
				return false
			}
			if _, isGo := in.(*ssa.Go); isGo {
				return false
			}
			if c.Static == closeFn {
				return true
			}
			g := c.Static
			if g.Pkg != r.Pkg || len(g.Blocks) == 0 || depth <= 0 || g == f {
				return false
			}
			// an extracted part of the loop: every way through it consumes the token or closes
			gtb := map[*ssa.BasicBlock]bool{}
			for _, rs := range RecvSites(g) {
				if !isSignalChan(rs.Chan.Type()) {
					continue
				}
				if sel, ok := rs.Instr.(*ssa.Select); ok {
					if b := SelectCaseBlock(sel, rs.SelIndex); b != nil {
						gtb[b] = true
					}
				}
			}
			inner := classifiedIn(g, gtb, depth-1)
			unclassifiedReturn := func(i ssa.Instruction) bool { return ssax.IsReturn(i) && !inner(i) }
			return ssax.PathFrom(g, nil, unclassifiedReturn, inner) == nil
		}
	}
	// a predicate or loop-body helper: `if closeRequested(sig)` / `for f.next(…) {}`
	// — when every way to a `return b` of the helper consumes the token or
	// closes, the b-edge of the test in the caller is classified
	blockedEdge := map[[2]*ssa.BasicBlock]bool{} // classified edges of the loop function whose target has other predecessors
	var addPredicateEdges func(f *ssa.Function, tb map[*ssa.BasicBlock]bool, depth int)
	addPredicateEdges = func(f *ssa.Function, tb map[*ssa.BasicBlock]bool, depth int) {
		if depth <= 0 {
			return
		}
		for _, c := range ssax.Calls(f) {
			call, isCall := c.Instr.(*ssa.Call)
			g := c.Static
			if !isCall || g == nil || g.Pkg != r.Pkg || len(g.Blocks) == 0 || g == f || g == closeFn {
				continue
			}
			res := g.Signature.Results()
			if res.Len() != 1 {
				continue
			}
			if b, isB := res.At(0).Type().Underlying().(*types.Basic); !isB || b.Kind() != types.Bool {
				continue
			}
			gtb := map[*ssa.BasicBlock]bool{}
			for _, rs := range RecvSites(g) {
				if !isSignalChan(rs.Chan.Type()) {
					continue
				}
				if sel, ok := rs.Instr.(*ssa.Select); ok {
					if b := SelectCaseBlock(sel, rs.SelIndex); b != nil {
						gtb[b] = true
					}
				}
			}
			addPredicateEdges(g, gtb, depth-1)
			inner := classifiedIn(g, gtb, depth-1)
			for _, want := range []bool{true, false} {
				w := want
				unclassified := func(i ssa.Instruction) bool {
					ret, ok := i.(*ssa.Return)
					if !ok || inner(i) {
						return false
					}
					if k, isK := ssax.Strip(ResolveLocal(ret.Results[0])).(*ssa.Const); isK && k.Value != nil {
						return constant.BoolVal(k.Value) == w
					}
					return true
				}
				if ssax.PathFrom(g, nil, unclassified, inner) != nil {
					continue
				}
				for _, u := range *call.Referrers() {
					iff, ok := u.(*ssa.If)
					if !ok {
						continue
					}
					succ := iff.Block().Succs[1]
					if w {
						succ = iff.Block().Succs[0]
					}
					if len(succ.Preds) == 1 {
						tb[succ] = true
					} else if f == loop {
						blockedEdge[[2]*ssa.BasicBlock{iff.Block(), succ}] = true
					}
				}
			}
		}
	}
	addPredicateEdges(loop, tokenBody, 2)
	classified := classifiedIn(loop, tokenBody, 2)
	ssax.Instrs(loop, func(in ssa.Instruction) {
		ret, ok := in.(*ssa.Return)
		if !ok || in.Block().Comment == "recover" {
			return
		}
		// a way from the entry to this return that passes no classified
		// instruction and no classified edge
		var bad []*ssa.BasicBlock
		if !classified(ret) {
			parent := map[*ssa.BasicBlock]*ssa.BasicBlock{}
			seen := map[*ssa.BasicBlock]bool{loop.Blocks[0]: true}
			queue := []*ssa.BasicBlock{loop.Blocks[0]}
			for len(queue) > 0 && bad == nil {
				b := queue[0]
				queue = queue[1:]
				stopped := false
				for _, x := range b.Instrs {
					if x == ssa.Instruction(ret) {
						for cur := b; cur != nil; cur = parent[cur] {
							bad = append([]*ssa.BasicBlock{cur}, bad...)
						}
						break
					}
					if classified(x) {
						stopped = true
						break
					}
				}
				if stopped || bad != nil {
					continue
				}
				for _, sc := range b.Succs {
					if blockedEdge[[2]*ssa.BasicBlock{b, sc}] || seen[sc] {
						continue
					}
					seen[sc] = true
					parent[sc] = b
					queue = append(queue, sc)
				}
			}
		}
		construct := ln + sprintf(" › return #%d", retOrdinal(loop, ret))
		if bad == nil {
			ctx.Discharge(rule, construct, r.IPos(in), "preceded by token consumption or close(cause)")
		} else {
			ctx.Violate(rule, construct, r.IPos(in),
				"the reader loop can exit without the transport being closed and the cause published: the transport stays 'open' with nobody reading", ssax.PathString(r.V.Fset, bad)...)
		}
	})
	for _, g := range localCone(loop, 2) { // the loop and the parts of it extracted into helpers
		if g == closeFn || (g != loop && (g.Object() == nil || g.Object().Exported())) {
			continue
		}
		gn := ssax.Name(g)
		for _, c := range ssax.Calls(g) {
			if c.Static == closeFn {
				args := c.Args()
				_, isNil := ssax.Strip(args[1]).(*ssa.Const)
				if isNil && underEOFTest(c.Instr.Block()) {
					// the peer hung up: a clean close, exactly what Close() does
					ctx.Discharge(rule, gn+" › close carries the error as cause #"+sprintf("%d", callOrdinal(g, c)), r.IPos(c.Instr), "close(nil) only where the read error was classified as END_OF_FILE")
					continue
				}
				ctx.Check(!isNil, rule, gn+" › close carries the error as cause #"+sprintf("%d", callOrdinal(g, c)), r.IPos(c.Instr),
					"close(err) with the error that ended the loop", "an unclean exit is reported with a nil cause (looks like a clean close: the monitor does not reopen)")
			}
		}
	}
}

// underEOFTest: the block is reached only over the true edge of a comparison
// `x.TypeId() == <constant>` (the classification of a read error as
// end-of-file), possibly through an extracted predicate of the package that
// returns that comparison.
func underEOFTest(b *ssa.BasicBlock) bool {
	isTypeIDTest := func(v ssa.Value) bool {
		bo, ok := v.(*ssa.BinOp)
		if !ok || bo.Op != token.EQL {
			return false
		}
		for _, side := range []ssa.Value{bo.X, bo.Y} {
			if c, isC := CallValue(side); isC && c.ShortName() == "TypeId" {
				return true
			}
		}
		return false
	}
	var isTest func(v ssa.Value, depth int) bool
	isTest = func(v ssa.Value, depth int) bool {
		if isTypeIDTest(v) {
			return true
		}
		if ph, isPhi := v.(*ssa.Phi); isPhi {
			// ok && x.TypeId() == K: false on the short-circuit edge, the comparison on the other
			some := false
			for _, e := range ph.Edges {
				if k, isK := e.(*ssa.Const); isK && k.Value != nil && k.Value.String() == "false" {
					continue
				}
				if !isTest(e, depth) {
					return false
				}
				some = true
			}
			return some
		}
		if depth <= 0 {
			return false
		}
		if c, ok := v.(*ssa.Call); ok {
			if g := c.Call.StaticCallee(); g != nil && len(g.Blocks) > 0 && g.Pkg == b.Parent().Pkg {
				// a predicate: every `true` it returns comes from such a comparison
				all, n := true, 0
				for _, vs := range ReturnedValues(g) {
					if len(vs) != 1 {
						return false
					}
					var walk func(x ssa.Value) bool
					walk = func(x ssa.Value) bool {
						x = ssax.Strip(x)
						if k, isK := x.(*ssa.Const); isK && k.Value != nil {
							return k.Value.String() == "false"
						}
						if ph, isPhi := x.(*ssa.Phi); isPhi {
							for _, e := range ph.Edges {
								if !walk(e) {
									return false
								}
							}
							return true
						}
						return isTest(x, depth-1)
					}
					n++
					if !walk(vs[0]) {
						all = false
					}
				}
				return all && n > 0
			}
		}
		return false
	}
	for cur := b; cur != nil; cur = cur.Idom() {
		if len(cur.Preds) != 1 {
			continue
		}
		p := cur.Preds[0]
		iff, ok := p.Instrs[len(p.Instrs)-1].(*ssa.If)
		if ok && p.Succs[0] == cur && p.Succs[1] != cur && isTest(iff.Cond, 1) {
			return true
		}
	}
	return false
}

// perCallCounter: v = φ+1 with φ = φ(0, v): a counter local to the call,
// starting at 0 and incremented once per trip.
func perCallCounter(v ssa.Value) bool {
	bo, isAdd := v.(*ssa.BinOp)
	if !isAdd || bo.Op != token.ADD {
		return false
	}
	if one, k := ssax.ConstInt(bo.Y); !k || one != 1 {
		return false
	}
	phi, isPhi := bo.X.(*ssa.Phi)
	if !isPhi {
		return false
	}
	zero, back := false, false
	for _, e := range phi.Edges {
		if z, k := ssax.ConstInt(e); k && z == 0 {
			zero = true
		} else if ssax.Strip(e) == ssa.Value(bo) {
			back = true
		}
	}
	return zero && back && len(phi.Edges) == 2
}

// c15ReopenableClose — C15.R7. A transport object can be opened again after it
// was closed: its Open arms a fresh close channel. Whatever armed channel Open
// stores in a field, every Close of the same type publishes on it: on every
// path through Close the channel is closed exactly once (directly or in a
// helper method) — not inside a sync.Once, a flag or any other state that
// Open does not re-arm, which would make only the first close of the object's
// life report a cause.
func c15ReopenableClose(ctx *core.Ctx, r *RT) {
	ctx.Rule("C15.R7", "every close of a re-openable transport publishes: Close closes the channel that Open armed exactly once on every path (no once-only guard that Open does not re-arm)", 1)
	n := 0
	for _, open := range r.Fns {
		if open.Name() != "Open" || open.Signature.Recv() == nil {
			continue
		}
		// fields of the receiver that Open arms with a fresh error channel
		var armed []string
		ssax.Instrs(open, func(in ssa.Instruction) {
			st, ok := in.(*ssa.Store)
			if !ok {
				return
			}
			if _, isMk := ssax.Strip(st.Val).(*ssa.MakeChan); !isMk {
				return
			}
			fa, isFA := st.Addr.(*ssa.FieldAddr)
			if !isFA || len(open.Params) == 0 || ssax.Strip(fa.X) != ssa.Value(open.Params[0]) {
				return
			}
			if ch, isCh := st.Val.Type().Underlying().(*types.Chan); isCh && isErrorType(ch.Elem()) {
				armed = append(armed, fieldNameOfAddr(st.Addr))
			}
		})
		if len(armed) == 0 {
			continue
		}
		var closeFn *ssa.Function
		for _, g := range r.Fns {
			if g.Name() == "Close" && g.Signature.Recv() != nil && sameNamed(g.Signature.Recv().Type(), open.Signature.Recv().Type()) {
				closeFn = g
			}
		}
		if closeFn == nil {
			continue
		}
		for _, f := range armed {
			n++
			field := f
			isClose := func(in ssa.Instruction) bool {
				c, ok := ssax.AsCall(in)
				return ok && c.FullName() == "builtin.close" && fieldNameOfAddr(c.Common.Args[0]) == field
			}
			mn, mx := ssax.CountOnPathsToW(closeFn, nil, liftedWeight(closeFn, isClose, 3), func(*ssa.Return) bool { return true })
			ctx.Check(mn == 1 && mx == 1, "C15.R7", ssax.Name(closeFn)+" › closes "+field+" exactly once on every path", fnPos(r, closeFn), "close("+field+") on every path through Close",
				sprintf("close(%s) happens %d..%d times on a path through Close although Open re-arms the channel on every open: a guard that is not re-armed (sync.Once, a closed flag) lets only the first close of the transport's life publish its cause — whoever waits on Closed() of a reopened transport waits forever", field, mn, mx))
		}
	}
	if n == 0 {
		ctx.Discharge("C15.R7", "runtime › no re-armed close channel outside the adapter transport", "", "nothing to check")
	}
}

// c15OpenCloseAgree — C15.R8: Open and Close agree on what "open" means. Where
// Open refuses with ALREADY_OPEN because a pointer field F of the transport is
// non-nil, Close may return nil without resetting F only on the edge F == nil:
// a weaker test (e.g. !IsOpen(), which is also false while the connection is
// temporarily down) lets Close report success while the transport stays
// subscribed — no close cause is published and Open answers ALREADY_OPEN for
// ever after.
func c15OpenCloseAgree(ctx *core.Ctx, r *RT) {
	ctx.Rule("C15.R8", "Open and Close agree on the open state: Close returns nil without resetting the field behind ALREADY_OPEN only where that field is nil", 1)
	already := constInt(r, "TRANSPORT_EXCEPTION_ALREADY_OPEN")
	n := 0
	for _, open := range r.Fns {
		if open.Name() != "Open" || open.Signature.Recv() == nil || len(open.Params) == 0 {
			continue
		}
		// the field whose non-nil test leads to the ALREADY_OPEN return
		field := ""
		for _, c := range ssax.Calls(open) {
			if c.ShortName() != "NewTTransportException" || len(c.Common.Args) == 0 {
				continue
			}
			if k, ok := ssax.ConstInt(c.Common.Args[0]); !ok || k != already {
				continue
			}
			for b := c.Instr.Block(); b != nil && b.Idom() != nil; b = b.Idom() {
				d := b.Idom()
				iff, isIf := d.Instrs[len(d.Instrs)-1].(*ssa.If)
				if !isIf || len(b.Preds) != 1 || b.Preds[0] != d {
					continue
				}
				if f, neq := nilTestField(iff.Cond, open.Params[0]); f != "" && ((neq && d.Succs[0] == b) || (!neq && d.Succs[1] == b)) {
					field = f
				}
			}
		}
		if field == "" {
			continue
		}
		var closeFn *ssa.Function
		for _, g := range r.Fns {
			if g.Name() == "Close" && g.Signature.Recv() != nil && sameNamed(g.Signature.Recv().Type(), open.Signature.Recv().Type()) {
				closeFn = g
			}
		}
		if closeFn == nil || len(closeFn.Params) == 0 {
			continue
		}
		n++
		resets := func(in ssa.Instruction) bool {
			st, ok := in.(*ssa.Store)
			return ok && fieldNameOfAddr(st.Addr) == field
		}
		bad := ""
		for ret := range ReturnedValues(closeFn) {
			if !nilErrorReturn(ret) {
				continue
			}
			// a path to this return that never resets the field …
			isThis := func(in ssa.Instruction) bool { return in == ssa.Instruction(ret) }
			if ssax.PathFrom(closeFn, nil, isThis, resets) == nil {
				continue
			}
			// … is fine only under the edge field == nil
			under := false
			for b := ret.Block(); b != nil && b.Idom() != nil; b = b.Idom() {
				d := b.Idom()
				iff, isIf := d.Instrs[len(d.Instrs)-1].(*ssa.If)
				if !isIf || len(b.Preds) != 1 || b.Preds[0] != d {
					continue
				}
				cond := iff.Cond
				// a predicate helper of the package that returns exactly the nil test
				if call, isCall := cond.(*ssa.Call); isCall {
					if h := call.Call.StaticCallee(); h != nil && h.Pkg == r.Pkg && len(h.Params) > 0 && len(call.Call.Args) > 0 && ssax.Strip(call.Call.Args[0]) == ssa.Value(closeFn.Params[0]) {
						for _, rv := range ReturnedValues(h) {
							if f, neq := nilTestField(rv[0], h.Params[0]); f == field && len(ReturnedValues(h)) == 1 {
								if (neq && d.Succs[1] == b) || (!neq && d.Succs[0] == b) {
									under = true
								}
							}
						}
					}
				}
				if f, neq := nilTestField(cond, closeFn.Params[0]); f == field && ((neq && d.Succs[1] == b) || (!neq && d.Succs[0] == b)) {
					under = true
				}
			}
			if !under {
				bad = r.IPos(ret)
			}
		}
		ctx.Check(bad == "", "C15.R8", ssax.Name(closeFn)+" › returns nil without resetting "+field+" only where "+field+" is nil", fnPos(r, closeFn), "every nil return either follows a store to "+field+" or sits on the edge "+field+" == nil",
			"Close can return nil at "+bad+" while "+field+" is still set (the guard is weaker than Open's ALREADY_OPEN test, e.g. it also holds while the connection is temporarily down): the transport stays subscribed, no close cause is published on Closed(), and every later Open answers ALREADY_OPEN — it can never be reopened")
	}
	if n == 0 {
		ctx.Discharge("C15.R8", "runtime › no transport guards Open with a pointer field", "", "nothing to check")
	}
}

// nilTestField: cond is `recv.F != nil` (neq=true) or `recv.F == nil`.
func nilTestField(cond ssa.Value, recv ssa.Value) (field string, neq bool) {
	bo, ok := ssax.Strip(cond).(*ssa.BinOp)
	if !ok || (bo.Op != token.EQL && bo.Op != token.NEQ) {
		return "", false
	}
	x, y := bo.X, bo.Y
	if k, isK := x.(*ssa.Const); isK && k.IsNil() {
		x, y = y, x
	}
	if k, isK := y.(*ssa.Const); !isK || !k.IsNil() {
		return "", false
	}
	ld, isLd := ssax.Strip(x).(*ssa.UnOp)
	if !isLd || ld.Op != token.MUL {
		return "", false
	}
	fa, isFA := ld.X.(*ssa.FieldAddr)
	if !isFA || ssax.Strip(fa.X) != recv {
		return "", false
	}
	return fieldNameOfAddr(fa), bo.Op == token.NEQ
}

// c15NotificationsNotDiscarded — C15.R9: every close notification reaches the
// monitor. In the monitor runner the notification channel is received from at
// exactly one place, and what is received there decides the branch (clean /
// unclean): a second receive — a "drain" after a re-open — throws away the
// notification of a connection that failed right after it was re-opened, so
// OnClosedUncleanly is never called for it and the transport stays closed.
func c15NotificationsNotDiscarded(ctx *core.Ctx, r *RT) {
	ctx.Rule("C15.R9", "no close notification is discarded: the monitor runner receives from its notification channel at exactly one place and acts on the value", 1)
	n := 0
	for _, fn := range r.Fns {
		if fn.Signature.Recv() == nil || !ssax.TypeNamed(fn.Signature.Recv().Type(), "", "monitorRunner") || fn.Name() != "run" {
			continue
		}
		n++
		var sites []string
		unused := ""
		for _, g := range localCone(fn, 3) {
			for _, rs := range RecvSites(g) {
				ch, isCh := rs.Chan.Type().Underlying().(*types.Chan)
				if !isCh || !isErrorType(ch.Elem()) {
					continue
				}
				sites = append(sites, r.IPos(rs.Instr))
				// the received value must be used (compared with nil, handed on)
				if v, isV := rs.Instr.(ssa.Value); isV {
					if refs := v.Referrers(); refs == nil || len(*refs) == 0 {
						unused = r.IPos(rs.Instr)
					}
				}
				if rs.InSelect && rs.NonBlocking {
					unused = r.IPos(rs.Instr) + " (non-blocking drain)"
				}
			}
		}
		ctx.Check(len(sites) == 1 && unused == "", "C15.R9", ssax.Name(fn)+" › one receive of the close notification, and its value is acted on", fnPos(r, fn), sprintf("%d receive site(s)", len(sites)),
			sprintf("the runner receives close notifications at %d places %v (discarding: %s): a notification taken by the extra receive is never reported — when a re-opened connection fails before the runner is back at its main receive, OnClosedUncleanly is not called for that failure, no re-open is attempted and the transport stays closed", len(sites), sites, unused))
	}
	if n == 0 {
		ctx.Unresolved("C15.R9", "monitor runner", "(*monitorRunner).run not found")
	}
}

// c15OnlyEOFIsClean — C15.R10: "nil only for a clean close". In a client
// reader loop the only read error that may end in the clean close (cause nil)
// is END_OF_FILE — the peer hung up. Every TypeId() comparison of a transport
// exception in the loop, and in the predicate helpers it calls, is therefore a
// comparison with TRANSPORT_EXCEPTION_END_OF_FILE: a second kind classified as
// "just a disconnect" (NOT_OPEN, TIMED_OUT …) is reported to the monitor as a
// clean close, the runner terminates, and the transport is never re-opened.
func c15OnlyEOFIsClean(ctx *core.Ctx, r *RT) {
	ctx.Rule("C15.R10", "a read failure is never reported as a clean close: the reader loop classifies transport exceptions by TypeId() == END_OF_FILE only", 1)
	eof := constInt(r, "TRANSPORT_EXCEPTION_END_OF_FILE")
	isExec := func(c ssax.Call) bool { return c.Method != nil && c.Method.Name() == "Execute" }
	n := 0
	for _, fn := range r.Fns {
		if !cycleReaches(fn, isExec) {
			continue
		}
		for _, g := range localCone(fn, 2) {
			if g != fn {
				// predicate helpers, and helpers the read error is handed to (the error
				// path of the loop, extracted)
				res := g.Signature.Results()
				isPred := false
				if res.Len() == 1 {
					if b, ok := res.At(0).Type().Underlying().(*types.Basic); ok && b.Kind() == types.Bool {
						isPred = true
					}
				}
				takesErr := false
				for i := 0; i < g.Signature.Params().Len(); i++ {
					if isErrorType(g.Signature.Params().At(i).Type()) {
						takesErr = true
					}
				}
				if !isPred && !takesErr {
					continue
				}
			}
			ssax.Instrs(g, func(in ssa.Instruction) {
				bo, ok := in.(*ssa.BinOp)
				if !ok || (bo.Op != token.EQL && bo.Op != token.NEQ) {
					return
				}
				var k ssa.Value
				for _, pair := range [][2]ssa.Value{{bo.X, bo.Y}, {bo.Y, bo.X}} {
					if c, isC := CallValue(pair[0]); isC && c.ShortName() == "TypeId" && c.Method != nil && ssax.TypeNamed(c.Common.Value.Type(), "thrift", "TTransportException") {
						k = pair[1]
					}
				}
				if k == nil {
					return
				}
				n++
				v, isK := ssax.ConstInt(k)
				ctx.Check(isK && v == eof, "C15.R10", ssax.Name(fn)+sprintf(" › transport-exception test #%d is a test for END_OF_FILE", n), r.IPos(in), "TypeId() == TRANSPORT_EXCEPTION_END_OF_FILE",
					"the reader loop (or its helper "+ssax.Name(g)+") also recognises another transport-exception kind ("+k.String()+"): a read that fails with it is closed like a peer hang-up — cause nil — so the monitor is told the close was clean, terminates, and the broken transport is never re-opened")
			})
		}
	}
	if n == 0 {
		ctx.Unresolved("C15.R10", "reader loop", "no TypeId() test of a transport exception in a reader loop")
	}
	// the clean close itself — Close() with no cause — is reached from the read-error
	// path only on the edge where the exception IS END_OF_FILE
	for _, fn := range r.Fns {
		if !cycleReaches(fn, isExec) {
			continue
		}
		for _, g := range localCone(fn, 2) {
			if g != fn {
				takesErr := false
				for i := 0; i < g.Signature.Params().Len(); i++ {
					if isErrorType(g.Signature.Params().At(i).Type()) {
						takesErr = true
					}
				}
				if !takesErr {
					continue
				}
			}
			nc := 0
			for _, c := range ssax.Calls(g) {
				if c.Static == nil || c.Static.Name() != "Close" || c.Static.Signature.Recv() == nil || len(g.Params) == 0 || len(c.Common.Args) == 0 || ssax.Strip(c.Common.Args[0]) != ssa.Value(g.Params[0]) {
					continue
				}
				if _, isDefer := c.Instr.(*ssa.Defer); isDefer {
					continue
				}
				nc++
				blk := c.Instr.(ssa.Instruction).Block()
				guarded := false
				for cur := blk; cur != nil && !guarded; cur = cur.Idom() {
					if len(cur.Preds) != 1 {
						continue
					}
					p := cur.Preds[0]
					iff, ok := p.Instrs[len(p.Instrs)-1].(*ssa.If)
					if !ok {
						continue
					}
					bo, ok := iff.Cond.(*ssa.BinOp)
					if !ok || (bo.Op != token.EQL && bo.Op != token.NEQ) {
						continue
					}
					var k ssa.Value
					for _, pair := range [][2]ssa.Value{{bo.X, bo.Y}, {bo.Y, bo.X}} {
						if cv, isC := CallValue(pair[0]); isC && cv.ShortName() == "TypeId" {
							k = pair[1]
						}
					}
					if k == nil {
						continue
					}
					v, isK := ssax.ConstInt(k)
					want := p.Succs[0]
					if bo.Op == token.NEQ {
						want = p.Succs[1]
					}
					if isK && v == eof && want == cur {
						guarded = true
					}
				}
				ctx.Check(guarded, "C15.R10", ssax.Name(g)+sprintf(" › clean close #%d is reached only for END_OF_FILE", nc), r.IPos(c.Instr), "Close() lies on the TypeId() == END_OF_FILE edge",
					"the read-error path closes the transport without a cause for failures other than a peer hang-up (any transport exception, say — an oversized frame header, a connection reset): Closed() yields nil, the monitor sees a clean close and never re-opens the transport")
			}
		}
	}
}

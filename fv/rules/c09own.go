package rules

import (
	"fv/internal/core"
	"fv/internal/ssax"

	"golang.org/x/tools/go/ssa"
)

// c09Ownership — C09.R5/R6.
//
// R5: the serialised header block belongs to the message being written: the
// slice marshalHeaders returns is allocated by that call (concurrent writers
// never share it between marshal and transport write).
//
// R6: header maps of an existing context only grow: outside the functions that
// allocate the context, the requestHeaders/responseHeaders fields are never
// re-assigned and nothing is deleted from them — the server keeps the reply's
// op id and correlation id there for the whole life of the request.
func c09Ownership(ctx *core.Ctx, r *RT) {
	ctx.Rule("C09.R5", "the serialised header block is allocated by the call that returns it", 1)
	ctx.Rule("C09.R6", "header maps of a live context are never replaced or shrunk", 2)
	if enc := r.Fn("C09.R5", "(*v0ProtocolMarshaler).marshalHeaders"); enc != nil {
		var fresh func(v ssa.Value, depth int) (bool, string)
		fresh = func(v ssa.Value, depth int) (bool, string) {
			if depth > 8 {
				return false, "too deep"
			}
			switch x := ssax.Strip(ResolveLocal(v)).(type) {
			case *ssa.MakeSlice:
				return true, ""
			case *ssa.Slice:
				if a, ok := x.X.(*ssa.Alloc); ok && a.Heap {
					return true, "" // make with constant size: new [N]T sliced
				}
				return fresh(x.X, depth+1)
			case *ssa.Phi:
				for _, e := range x.Edges {
					if ok, why := fresh(e, depth+1); !ok {
						return false, why
					}
				}
				return true, ""
			case *ssa.Call:
				if c, ok := ssax.AsCall(x); ok && c.FullName() == "append" {
					return fresh(c.Args()[0], depth+1)
				}
				return false, "result of " + x.String()
			default:
				return false, x.String()
			}
		}
		n := 0
		for ret, vs := range ReturnedValues(enc) {
			n++
			ok, why := fresh(vs[0], 0)
			ctx.Check(ok, "C09.R5", ssax.Name(enc)+sprintf(" › return #%d is a buffer made by this call", n), r.IPos(ret), "make([]byte, …) in marshalHeaders",
				"the returned header block is not allocated by this call ("+why+"): it aliases storage another writer can obtain before the transport has copied it, so a message can go out with another message's headers (op id, correlation id, user headers)")
		}
		// and the function does not hand its buffer to shared storage
		for _, c := range ssax.Calls(enc) {
			if c.FullName() == "(*sync.Pool).Put" {
				ctx.Violate("C09.R5", ssax.Name(enc)+" › buffer is not recycled while referenced", r.IPos(c.Instr), "marshalHeaders returns a slice of a buffer it also puts back into a sync.Pool")
			}
		}
	}
	// R6
	for _, field := range []string{"requestHeaders", "responseHeaders"} {
		nStores := 0
		bad := ""
		for _, fn := range r.Fns {
			ssax.Instrs(fn, func(in ssa.Instruction) {
				switch x := in.(type) {
				case *ssa.Store:
					fa, ok := x.Addr.(*ssa.FieldAddr)
					if !ok || fieldName(fa) != field || !ssax.TypeNamed(fa.X.Type(), "", "FContextImpl") {
						return
					}
					nStores++
					if _, isAlloc := ssax.Strip(fa.X).(*ssa.Alloc); !isAlloc {
						bad = r.IPos(in) + " in " + ssax.Name(fn) + ": the field is re-assigned on an existing context"
					}
				case *ssa.Call:
					c, ok := ssax.AsCall(x)
					if !ok || c.FullName() != "delete" {
						return
					}
					if fieldNameOfValue(c.Args()[0]) == field {
						if u, ok := ssax.Strip(c.Args()[0]).(*ssa.UnOp); ok {
							if fa, ok := u.X.(*ssa.FieldAddr); ok && ssax.TypeNamed(fa.X.Type(), "", "FContextImpl") {
								bad = r.IPos(in) + " in " + ssax.Name(fn) + ": an entry is deleted"
							}
						}
					}
				}
			})
		}
		ctx.Check(bad == "" && nStores > 0, "C09.R6", "FContextImpl."+field+" › assigned only where the context is allocated; never deleted from", "lib/go/context.go",
			sprintf("%d assignments, all on a context allocated in the same function", nStores),
			"headers already on a context are dropped ("+bad+"): a handler that reuses its inbound context for an onward call loses the op id / correlation id its reply must carry, so the caller never gets the reply")
	}
}

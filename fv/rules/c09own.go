package rules

import (
	"go/token"
	"go/types"

	"fv/internal/core"
	"fv/internal/ssax"

	"golang.org/x/tools/go/ssa"
)

// c09Ownership — C09.R5/R6.
//
// R5: the serialised header block belongs to the message being written: the
// slice marshalHeaders returns is allocated by that call (concurrent writers
// never share it between marshal and transport write).
//
// R6: header maps of an existing context only grow: outside the functions that
// allocate the context, the requestHeaders/responseHeaders fields are never
// re-assigned and nothing is deleted from them — the server keeps the reply's
// op id and correlation id there for the whole life of the request.
func c09Ownership(ctx *core.Ctx, r *RT) {
	ctx.Rule("C09.R5", "the serialised header block is allocated by the call that returns it", 1)
	ctx.Rule("C09.R6", "header maps of a live context are never replaced or shrunk", 2)
	if enc := r.Fn("C09.R5", "(*v0ProtocolMarshaler).marshalHeaders"); enc != nil {
		var fresh func(v ssa.Value, depth int) (bool, string)
		fresh = func(v ssa.Value, depth int) (bool, string) {
			if depth > 8 {
				return false, "too deep"
			}
			switch x := ssax.Strip(ResolveLocal(v)).(type) {
			case *ssa.MakeSlice:
				return true, ""
			case *ssa.Slice:
				if a, ok := x.X.(*ssa.Alloc); ok && a.Heap {
					return true, "" // make with constant size: new [N]T sliced
				}
				return fresh(x.X, depth+1)
			case *ssa.Phi:
				for _, e := range x.Edges {
					if ok, why := fresh(e, depth+1); !ok {
						return false, why
					}
				}
				return true, ""
			case *ssa.Call:
				if c, ok := ssax.AsCall(x); ok && c.FullName() == "append" {
					return fresh(c.Args()[0], depth+1)
				}
				return false, "result of " + x.String()
			default:
				return false, x.String()
			}
		}
		n := 0
		for ret, vs := range ReturnedValues(enc) {
			n++
			ok, why := fresh(vs[0], 0)
			ctx.Check(ok, "C09.R5", ssax.Name(enc)+sprintf(" › return #%d is a buffer made by this call", n), r.IPos(ret), "make([]byte, …) in marshalHeaders",
				"the returned header block is not allocated by this call ("+why+"): it aliases storage another writer can obtain before the transport has copied it, so a message can go out with another message's headers (op id, correlation id, user headers)")
		}
		// and the function does not hand its buffer to shared storage
		for _, c := range ssax.Calls(enc) {
			if c.FullName() == "(*sync.Pool).Put" {
				ctx.Violate("C09.R5", ssax.Name(enc)+" › buffer is not recycled while referenced", r.IPos(c.Instr), "marshalHeaders returns a slice of a buffer it also puts back into a sync.Pool")
			}
		}
	}
	// R6
	for _, field := range []string{"requestHeaders", "responseHeaders"} {
		nStores := 0
		bad := ""
		for _, fn := range r.Fns {
			ssax.Instrs(fn, func(in ssa.Instruction) {
				switch x := in.(type) {
				case *ssa.Store:
					fa, ok := x.Addr.(*ssa.FieldAddr)
					if !ok || fieldName(fa) != field || !ssax.TypeNamed(fa.X.Type(), "", "FContextImpl") {
						return
					}
					nStores++
					if _, isAlloc := ssax.Strip(fa.X).(*ssa.Alloc); !isAlloc {
						bad = r.IPos(in) + " in " + ssax.Name(fn) + ": the field is re-assigned on an existing context"
					}
				case *ssa.Call:
					c, ok := ssax.AsCall(x)
					if !ok || c.FullName() != "delete" {
						return
					}
					if fieldNameOfValue(c.Args()[0]) == field {
						if u, ok := ssax.Strip(c.Args()[0]).(*ssa.UnOp); ok {
							if fa, ok := u.X.(*ssa.FieldAddr); ok && ssax.TypeNamed(fa.X.Type(), "", "FContextImpl") {
								bad = r.IPos(in) + " in " + ssax.Name(fn) + ": an entry is deleted"
							}
						}
					}
				}
			})
		}
		ctx.Check(bad == "" && nStores > 0, "C09.R6", "FContextImpl."+field+" › assigned only where the context is allocated; never deleted from", "lib/go/context.go",
			sprintf("%d assignments, all on a context allocated in the same function", nStores),
			"headers already on a context are dropped ("+bad+"): a handler that reuses its inbound context for an onward call loses the op id / correlation id its reply must carry, so the caller never gets the reply")
	}
}

// c09DerivedHeaderState — C09.R9: what goes on the wire is the context's
// header map as it is now. If the context keeps anything computed from a
// header map in another field (an encoded form, a parsed timeout), every
// method that writes that map also assigns that field — otherwise the next
// request is sent with the state of an earlier one (a SetTimeout that the
// cached encoding does not see: the handler observes the old timeout).
func c09DerivedHeaderState(ctx *core.Ctx, r *RT) {
	ctx.Rule("C09.R9", "no stale state derived from a context's headers: a field computed from a header map is assigned by every method that writes that map", 1)
	impl := r.Named("FContextImpl")
	if impl == nil {
		ctx.Unresolved("C09.R9", "FContextImpl", "type not found")
		return
	}
	isMethod := func(fn *ssa.Function) bool {
		return fn.Signature.Recv() != nil && ssax.TypeNamed(fn.Signature.Recv().Type(), "", "FContextImpl")
	}
	type derived struct {
		field, from string
		at          string
	}
	var ds []derived
	for _, fn := range r.Fns {
		if !isMethod(fn) {
			continue
		}
		ssax.Instrs(fn, func(in ssa.Instruction) {
			st, ok := in.(*ssa.Store)
			if !ok {
				return
			}
			f := fieldNameOfAddr(st.Addr)
			if f == "" {
				return
			}
			if fa, isFA := st.Addr.(*ssa.FieldAddr); !isFA || !ssax.TypeNamed(fa.X.Type(), "", "FContextImpl") {
				return
			}
			if _, isMap := st.Val.Type().Underlying().(*types.Map); isMap {
				return
			}
			// does the stored value depend on a load of a map field of the context?
			var src string
			var walk func(v ssa.Value, d int)
			seen := map[ssa.Value]bool{}
			walk = func(v ssa.Value, d int) {
				if v == nil || d > 6 || seen[v] || src != "" {
					return
				}
				seen[v] = true
				if ld, isLd := v.(*ssa.UnOp); isLd && ld.Op == token.MUL {
					if _, isMap := ld.Type().Underlying().(*types.Map); isMap {
						if mf := fieldNameOfAddr(ld.X); mf != "" {
							src = mf
							return
						}
					}
				}
				if x, isIn := v.(ssa.Instruction); isIn {
					for _, op := range x.Operands(nil) {
						if *op != nil {
							walk(*op, d+1)
						}
					}
				}
			}
			walk(st.Val, 0)
			if src != "" && src != f {
				ds = append(ds, derived{f, src, r.IPos(in)})
			}
		})
	}
	if len(ds) == 0 {
		ctx.Discharge("C09.R9", "FContextImpl › keeps nothing derived from its header maps", "lib/go/context.go", "no field is assigned a value computed from a header map")
		return
	}
	for _, d := range ds {
		for _, fn := range r.Fns {
			if !isMethod(fn) {
				continue
			}
			writes, assigns := false, false
			ssax.Instrs(fn, func(in ssa.Instruction) {
				switch x := in.(type) {
				case *ssa.MapUpdate:
					if ld, ok := ssax.Strip(x.Map).(*ssa.UnOp); ok && fieldNameOfAddr(ld.X) == d.from {
						if fa, isFA := ld.X.(*ssa.FieldAddr); isFA && len(fn.Params) > 0 && ssax.Strip(fa.X) == ssa.Value(fn.Params[0]) {
							writes = true // the receiver's own map (not a clone under construction)
						}
					}
				case *ssa.Store:
					if fieldNameOfAddr(x.Addr) == d.field {
						assigns = true
					}
				}
				if c, ok := ssax.AsCall(in); ok && c.FullName() == "builtin.delete" && len(c.Common.Args) > 0 {
					if ld, isLd := ssax.Strip(c.Common.Args[0]).(*ssa.UnOp); isLd && fieldNameOfAddr(ld.X) == d.from {
						writes = true
					}
				}
			})
			if !writes {
				continue
			}
			ctx.Check(assigns, "C09.R9", ssax.Name(fn)+" › writes "+d.from+" and refreshes "+d.field, fnPos(r, fn), "assigns "+d.field,
				"the context keeps "+d.field+", computed from "+d.from+" (at "+d.at+"), but "+ssax.Name(fn)+" changes "+d.from+" without assigning "+d.field+": the next request is sent with the stale value — the handler observes a timeout or header the caller has since replaced")
		}
	}
}

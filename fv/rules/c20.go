package rules

import (
	"go/token"
	"go/types"
	"strings"

	"fv/internal/core"
	"fv/internal/ssax"

	"golang.org/x/tools/go/ssa"
)

func isCallTo(in ssa.Instruction, names ...string) bool {
	c, ok := ssax.AsCall(in)
	if !ok {
		return false
	}
	if _, isGo := in.(*ssa.Go); isGo {
		return false
	}
	return ssax.MatchCall(c, names...)
}

// C20 — NATS server shutdown drains.
func C20(ctx *core.Ctx) {
	ctx.Explanation = "Decides for all worker counts, queue lengths and arrival patterns the ordering skeleton of the NATS server shutdown: in Serve, receive-from-quit ≺ drain (every subscription Drain()ed, connection Flush()ed, Barrier awaited) ≺ exactly one answer on the done channel ≺ close(work queue) ≺ WaitGroup.Wait ≺ return on every path; " +
		"WaitGroup.Add(workerCount) precedes spawning exactly workerCount workers each ending in Done; the worker is a range over the queue with no other exit and processes (and publishes the reply of) each frame inside the iteration; the queue is closed only by Serve and fed only by the subscription handler with a plain back-pressure send (the only discard is the no-reply-subject case); Stop is a rendezvous on a fresh channel. " +
		"Not decided: the semantics of nats Drain/Flush/Barrier (summaries), schedules."
	r := LoadRT(ctx, "", "")
	if !r.OK() {
		return
	}
	c20NoClientSideDrop(ctx, r)
	ctx.Rule("C20.R1", "shutdown order in Serve and in the drain helper", 9)
	ctx.Rule("C20.R2", "worker accounting: Add(n) ≺ spawn n workers; every spawned body ends in Done; worker loop is a pure range over the queue", 5)
	ctx.Rule("C20.R3", "single closer (Serve) and single sender (subscription handler) of the work queue", 2)
	ctx.Rule("C20.R4", "no drop: the handler's only discard is the no-reply case and its enqueue is a plain blocking send", 2)
	ctx.Rule("C20.R5", "Stop sends a fresh reply channel on quit and returns what it receives on it", 2)
	ctx.Rule("C20.R6", "a request accepted before Stop is answered with its own reply: the worker encodes every reply into a buffer allocated for that message", 2)
	perMessageTransports(ctx, r, "C20.R6")
	ctx.Rule("C20.R7", "every request received before Stop is processed exactly once: one call site per serving function reaches FProcessor.Process (no retry around the step that processes and publishes)", 3)
	processOnce(ctx, r, "C20.R7")
	ctx.Assume("(*nats.Subscription).Drain stops new deliveries and lets pending ones finish; (*nats.Conn).Flush round-trips to the broker; (*nats.Conn).Barrier runs its callback after all previously dispatched subscription callbacks returned")

	serve := r.Fn("C20.R1", "(*fNatsServer).Serve")
	if serve == nil {
		return
	}
	sn := ssax.Name(serve)
	// events
	var quitRecv *ssa.UnOp
	ssax.Instrs(serve, func(in ssa.Instruction) {
		if u, ok := in.(*ssa.UnOp); ok && u.Op == token.ARROW && fieldNameOfAddr(u.X) == "quit" {
			quitRecv = u
		}
	})
	if quitRecv == nil {
		ctx.Unresolved("C20.R1", "quit receive", "Serve does not receive from the quit channel")
		return
	}
	var drainCall ssax.Call
	var drainFn *ssa.Function
	for _, c := range ssax.Calls(serve) {
		if c.Static == nil || c.Static.Pkg != r.Pkg || len(c.Static.Blocks) == 0 {
			continue
		}
		for _, g := range localCone(c.Static, 1) { // the Drain loop may sit in a helper of the drain function
			if len(ssax.CallsTo(g, "(*github.com/nats-io/nats.go.Subscription).Drain")) > 0 {
				drainCall, drainFn = c, c.Static
			}
		}
	}
	isAnswer := func(in ssa.Instruction) bool {
		for _, ss := range SendSites(serve) {
			if ss.Instr == in && ssax.Strip(ss.Chan) == ssa.Value(quitRecv) {
				return true
			}
		}
		return false
	}
	isCloseQ := func(in ssa.Instruction) bool {
		c, ok := ssax.AsCall(in)
		return ok && c.FullName() == "builtin.close" && fieldNameOfAddr(c.Common.Args[0]) == "workC"
	}
	isWait := func(in ssa.Instruction) bool { return isCallTo(in, "(*sync.WaitGroup).Wait") }
	isDrain := func(in ssa.Instruction) bool {
		return drainFn != nil && in == drainCall.Instr.(ssa.Instruction)
	}
	first := func(p ssax.Pred) ssa.Instruction {
		var res ssa.Instruction
		ssax.Instrs(serve, func(in ssa.Instruction) {
			if res == nil && p(in) {
				res = in
			}
		})
		return res
	}
	type ev struct {
		name string
		p    ssax.Pred
	}
	evs := []ev{{"receive from quit", func(in ssa.Instruction) bool { return in == ssa.Instruction(quitRecv) }},
		{"drain of subscriptions", isDrain}, {"answer on done", isAnswer}, {"close(workC)", isCloseQ}, {"WaitGroup.Wait", isWait}}
	for i := 0; i+1 < len(evs); i++ {
		a, b := first(evs[i].p), first(evs[i+1].p)
		if a == nil || b == nil {
			miss := evs[i].name
			if a != nil {
				miss = evs[i+1].name
			}
			ctx.Violate("C20.R1", sn+" › "+evs[i].name+" ≺ "+evs[i+1].name, fnPos(r, serve), "shutdown step missing: "+miss)
			continue
		}
		ctx.Check(ssax.Dominates(a, b), "C20.R1", sn+" › "+evs[i].name+" ≺ "+evs[i+1].name, r.IPos(b),
			"dominance", evs[i+1].name+" can happen before "+evs[i].name+": requests accepted before Stop can be lost or Serve can return before they are answered")
	}
	for _, e := range evs[1:] {
		mn, mx := ssax.CountOnPaths(serve, quitRecv, e.p)
		ctx.Check(mn == 1 && mx == 1, "C20.R1", sn+" › exactly one "+e.name+" on every path after the quit receive", r.IPos(quitRecv),
			"count on paths to return = 1..1", sprintf("after Stop was requested, %s happens %d..%d times on some path to the return (must be exactly once): Stop hangs, workers are not awaited or the queue is not closed", e.name, mn, mx))
	}
	// the answer carries the drain result
	for _, ss := range SendSites(serve) {
		if ssax.Strip(ss.Chan) == ssa.Value(quitRecv) && drainFn != nil {
			v := ssax.Strip(ss.X)
			ctx.Check(v == drainCall.Instr.Value() && !ss.InSelect, "C20.R1", sn+" › Stop is answered with the drain result", r.IPos(ss.Instr),
				"done <- drain(...)", "the value sent to Stop is not the result of the drain (or the answer can be skipped)")
		}
	}
	// the drain argument holds every subscription created
	if drainFn != nil {
		arg := ssax.Strip(drainCall.Args()[1])
		okAll := true
		n := 0
		type subSite struct {
			c      ssax.Call
			target ssa.Value
		}
		var subSites []subSite
		for _, g := range localCone(serve, 1) {
			for _, c := range ssax.CallsTo(g, "(*github.com/nats-io/nats.go.Conn).QueueSubscribe", "(*github.com/nats-io/nats.go.Conn).Subscribe") {
				if g == serve {
					subSites = append(subSites, subSite{c, arg})
					continue
				}
				// a subscribing helper: its subscriptions must reach the slice it returns, and the drain gets that result
				var retSlice ssa.Value
				for _, vs := range ReturnedValues(g) {
					if len(vs) > 0 {
						if _, isSl := vs[0].Type().Underlying().(*types.Slice); isSl {
							if cst, isC := ssax.Strip(vs[0]).(*ssa.Const); !isC || !cst.IsNil() {
								retSlice = ssax.Strip(vs[0])
							}
						}
					}
				}
				fromHelper := false
				for _, sc := range ssax.Calls(serve) {
					if sc.Static == g && dependsOn(arg, sc.Instr.Value(), 0) {
						fromHelper = true
					}
				}
				if retSlice == nil || !fromHelper {
					okAll = false
					n++
					continue
				}
				subSites = append(subSites, subSite{c, retSlice})
			}
		}
		for _, ssite := range subSites {
			c, arg := ssite.c, ssite.target
			n++
			sub := c.Instr.Value()
			// sub flows (via extract #0, varargs store) into an append whose result reaches arg
			reach := false
			for _, u := range ssax.UsesTransitive(sub) {
				if ex, ok := u.(*ssa.Extract); ok && ex.Index == 0 {
					for _, u2 := range ssax.UsesTransitive(ex) {
						if st, ok := u2.(*ssa.Store); ok {
							// stored into the varargs array of an append
							if ia, ok := st.Addr.(*ssa.IndexAddr); ok {
								for _, u3 := range *ia.X.Referrers() {
									if sl, ok := u3.(*ssa.Slice); ok {
										for _, u4 := range *sl.Referrers() {
											if ap, ok := u4.(*ssa.Call); ok {
												if flowsTo(ap, arg) {
													reach = true
												}
											}
										}
									}
								}
							}
						}
					}
				}
			}
			if !reach {
				okAll = false
			}
		}
		ctx.Check(okAll && n > 0, "C20.R1", sn+" › every subscription is handed to the drain", r.IPos(drainCall.Instr),
			sprintf("%d subscribe site(s), each appended to the drained slice", n), "a subscription is created but not drained at shutdown: its in-flight requests are cut off")
		c20Drain(ctx, r, drainFn)
	} else {
		ctx.Violate("C20.R1", sn+" › drain helper", fnPos(r, serve), "Serve no longer drains its subscriptions before answering Stop")
	}

	// ---- R2 ---------------------------------------------------------------------
	var wg ssa.Value
	var addCall ssax.Call
	// the worker start-up (Add + spawn loop) may be an extracted helper that is handed the WaitGroup
	host := serve
	for _, g := range localCone(serve, 1) {
		for _, c := range ssax.CallsTo(g, "(*sync.WaitGroup).Add") {
			addCall = c
			wg = ssax.Strip(c.Common.Args[0])
			host = g
		}
	}
	if host != serve && wg != nil {
		// the helper's WaitGroup is the one Serve waits on
		same := false
		for _, c := range ssax.Calls(serve) {
			if c.Static != host {
				continue
			}
			for i, a := range c.Common.Args {
				if i < len(host.Params) && ssa.Value(host.Params[i]) == wg {
					for _, wc := range ssax.CallsTo(serve, "(*sync.WaitGroup).Wait") {
						if ssax.Strip(wc.Common.Args[0]) == ssax.Strip(a) {
							same = true
						}
					}
				}
			}
		}
		ctx.Check(same, "C20.R2", sn+" › the WaitGroup given to "+ssax.Name(host)+" is the one Serve waits on", fnPos(r, serve), "same &wg", "workers are counted in a different WaitGroup than the one Serve waits on")
	}
	if wg == nil {
		ctx.Violate("C20.R2", sn+" › WaitGroup.Add", fnPos(r, serve), "workers are not accounted for in a WaitGroup")
	} else {
		// n = int(f.workerCount)
		nOK := false
		nv := ssax.Strip(addCall.Common.Args[1])
		if cv, ok := nv.(*ssa.Convert); ok {
			nv = ssax.Strip(cv.X)
		}
		if fieldNameOfAddr(nv) == "workerCount" {
			nOK = true
		}
		var spawn *ssa.Go
		for _, c := range ssax.Calls(host) {
			if g, ok := c.Instr.(*ssa.Go); ok {
				spawn = g
			}
		}
		ctx.Check(nOK, "C20.R2", sn+" › Add(workerCount)", r.IPos(addCall.Instr), "wg.Add(int(f.workerCount))", "the WaitGroup is not incremented by the worker count: Wait returns early or never")
		if spawn == nil {
			ctx.Violate("C20.R2", sn+" › worker spawn", fnPos(r, serve), "no worker goroutines are started")
		} else {
			ctx.Check(ssax.Dominates(addCall.Instr.(ssa.Instruction), spawn), "C20.R2", sn+" › Add before spawn", r.IPos(spawn), "Add dominates the go statement", "workers can call Done before Add")
			// loop bound: the go statement sits in a loop guarded by i < f.workerCount with i = φ(0, i+1)
			boundOK := false
			for _, b := range host.Blocks {
				iff, ok := b.Instrs[len(b.Instrs)-1].(*ssa.If)
				if !ok {
					continue
				}
				bo, ok := iff.Cond.(*ssa.BinOp)
				if !ok || bo.Op != token.LSS {
					continue
				}
				phi, ok := bo.X.(*ssa.Phi)
				if !ok || fieldNameOfAddr(bo.Y) != "workerCount" {
					continue
				}
				zero, inc := false, false
				for _, e := range phi.Edges {
					if z, k := ssax.ConstInt(e); k && z == 0 {
						zero = true
					} else if add, k := e.(*ssa.BinOp); k && add.Op == token.ADD && add.X == ssa.Value(phi) {
						if one, k2 := ssax.ConstInt(add.Y); k2 && one == 1 {
							inc = true
						}
					}
				}
				body := b.Succs[0]
				if zero && inc && (body == spawn.Block() || body.Dominates(spawn.Block())) && inCycle(spawn) {
					boundOK = true
				}
			}
			ctx.Check(boundOK, "C20.R2", sn+" › exactly workerCount workers are spawned", r.IPos(spawn), "for i := 0; i < f.workerCount; i++ { go … }", "the number of workers started does not match the WaitGroup count")
			// spawned body
			for _, body := range funcValues(spawn.Call.Value) {
				bn := ssax.Name(body)
				isDone := func(in ssa.Instruction) bool {
					if !isCallTo(in, "(*sync.WaitGroup).Done") {
						if d, ok := in.(*ssa.Defer); ok {
							c, _ := ssax.AsCall(d)
							if c.FullName() != "(*sync.WaitGroup).Done" {
								return false
							}
						} else {
							return false
						}
					}
					c, _ := ssax.AsCall(in)
					a := ssax.Strip(c.Common.Args[0])
					if fv, ok := a.(*ssa.FreeVar); ok {
						a = ssax.Strip(ssax.FreeVarBinding(fv))
					}
					// the worker body is a function started with the WaitGroup as an argument
					if pa, ok := a.(*ssa.Parameter); ok {
						for i, bp := range body.Params {
							if bp == pa && i < len(spawn.Call.Args) {
								a = ssax.Strip(spawn.Call.Args[i])
							}
						}
					}
					return a == wg
				}
				mn, mx := ssax.CountOnPaths(body, nil, isDone)
				ctx.Check(mn == 1 && mx == 1, "C20.R2", bn+" › Done exactly once on every path", fnPos(r, body), "wg.Done() once", sprintf("spawned worker body calls Done %d..%d times", mn, mx))
				// it runs the worker loop
				var workerFn *ssa.Function
				for _, c := range ssax.Calls(body) {
					if c.Static != nil && c.Static.Pkg == r.Pkg {
						workerFn = c.Static
					}
				}
				if workerFn == nil {
					ctx.Violate("C20.R2", bn+" › runs the worker loop", fnPos(r, body), "spawned body runs no worker")
				} else {
					c20Worker(ctx, r, workerFn)
				}
			}
		}
	}

	// ---- R3 ---------------------------------------------------------------------
	srvT := "fNatsServer"
	handlers := msgHandlers(r)
	for _, fn := range r.Fns {
		ssax.Instrs(fn, func(in ssa.Instruction) {
			if c, ok := ssax.AsCall(in); ok && c.FullName() == "builtin.close" && fieldNameOfAddr(c.Common.Args[0]) == "workC" && ownerOfAddr(c.Common.Args[0]) == srvT {
				ctx.Check(fn == serve, "C20.R3", ssax.Name(fn)+" › closes the work queue", r.IPos(in), "closed by Serve only", "the work queue is closed outside Serve: a later enqueue panics (send on closed channel) or workers stop early")
			}
		})
		for _, ss := range SendSites(fn) {
			if fieldNameOfAddr(ss.Chan) == "workC" && ownerOfAddr(ss.Chan) == srvT {
				_, isH := handlers[fn]
				ctx.Check(isH, "C20.R3", ssax.Name(fn)+" › sends to the work queue", r.IPos(ss.Instr), "only the subscription handler enqueues", "work is enqueued from outside the subscription handler (not covered by the drain barrier)")
				// ---- R4 -------------------------------------------------------------
				ctx.Check(!ss.InSelect, "C20.R4", ssax.Name(fn)+" › enqueue is a plain (back-pressure) send", r.IPos(ss.Instr), "blocking send", "the enqueue is a select (can drop or time out): a request received before Stop can be lost")
				// every send-free path to a return goes through the Reply == "" edge
				bad := false
				ssax.Instrs(fn, func(in ssa.Instruction) {
					ret, ok := in.(*ssa.Return)
					if !ok {
						return
					}
					isThis := func(x ssa.Instruction) bool { return x == ssa.Instruction(ret) }
					isSend := func(x ssa.Instruction) bool { return x == ss.Instr }
					if p := ssax.PathFrom(fn, nil, isThis, isSend); p != nil {
						// must be dominated by the true edge of msg.Reply == ""
						okEdge := false
						for _, b := range fn.Blocks {
							iff, ok := b.Instrs[len(b.Instrs)-1].(*ssa.If)
							if !ok {
								continue
							}
							bo, ok := iff.Cond.(*ssa.BinOp)
							if !ok || bo.Op != token.EQL {
								continue
							}
							if s, k := ConstString(bo.Y); k && s == "" && fieldNameOfAddr(bo.X) == "Reply" {
								t := b.Succs[0]
								if (t == ret.Block() || t.Dominates(ret.Block())) && len(t.Preds) == 1 {
									okEdge = true
								}
							}
						}
						if !okEdge {
							bad = true
						}
					}
				})
				ctx.Check(!bad, "C20.R4", ssax.Name(fn)+" › only the no-reply request is discarded", fnPos(r, fn), "every return that skips the enqueue is on the msg.Reply == \"\" edge", "the handler can return without enqueueing a request that has a reply subject: the request is silently lost")
			}
		}
	}

	// ---- R5 ---------------------------------------------------------------------
	if stop := r.Fn("C20.R5", "(*fNatsServer).Stop"); stop != nil {
		stn := ssax.Name(stop)
		var done *ssa.MakeChan
		okSend := false
		for _, ss := range SendSites(stop) {
			if fieldNameOfAddr(ss.Chan) == "quit" && !ss.InSelect {
				if mc, ok := ssax.Strip(ss.X).(*ssa.MakeChan); ok {
					done, okSend = mc, true
				}
			}
		}
		ctx.Check(okSend, "C20.R5", stn+" › sends a fresh reply channel on quit", fnPos(r, stop), "quit <- make(chan error)", "Stop does not hand Serve a fresh reply channel")
		okRet := false
		for _, vs := range ReturnedValues(stop) {
			if len(vs) == 1 {
				if u, ok := ssax.Strip(vs[0]).(*ssa.UnOp); ok && u.Op == token.ARROW && done != nil && ssax.Strip(u.X) == ssa.Value(done) {
					okRet = true
				}
			}
		}
		ctx.Check(okRet, "C20.R5", stn+" › returns Serve's answer", fnPos(r, stop), "return <-done", "Stop returns without waiting for Serve's drain result: requests can still be in flight when Stop returns")
	}
}

func ownerOfAddr(v ssa.Value) string {
	v = ssax.Strip(v)
	if u, ok := v.(*ssa.UnOp); ok && u.Op == token.MUL {
		v = u.X
	}
	if fa, ok := v.(*ssa.FieldAddr); ok {
		if n, ok := fa.X.Type().Underlying().(*types.Pointer).Elem().(*types.Named); ok {
			return n.Obj().Name()
		}
	}
	return ""
}

// flowsTo: does value v reach target through phis / appends?
func flowsTo(v ssa.Value, target ssa.Value) bool {
	seen := map[ssa.Value]bool{}
	var walk func(x ssa.Value) bool
	walk = func(x ssa.Value) bool {
		if x == target {
			return true
		}
		if seen[x] {
			return false
		}
		seen[x] = true
		refs := x.Referrers()
		if refs == nil {
			return false
		}
		for _, u := range *refs {
			switch y := u.(type) {
			case *ssa.Phi:
				if walk(y) {
					return true
				}
			case *ssa.Call:
				if c, _ := ssax.AsCall(y); c.FullName() == "builtin.append" && len(y.Call.Args) > 0 && y.Call.Args[0] == x {
					if walk(y) {
						return true
					}
				}
			}
		}
		return false
	}
	return walk(v)
}

func c20Drain(ctx *core.Ctx, r *RT, d *ssa.Function) {
	dn := ssax.Name(d)
	successRet := func(ret *ssa.Return) bool {
		if len(ret.Results) != 1 {
			return len(ret.Results) == 0
		}
		c, ok := ssax.Strip(ResolveLocal(ret.Results[0])).(*ssa.Const)
		return ok && c.IsNil()
	}
	isDrain := func(in ssa.Instruction) bool {
		return isCallTo(in, "(*github.com/nats-io/nats.go.Subscription).Drain")
	}
	isFlush := func(in ssa.Instruction) bool {
		return isCallTo(in, "(*github.com/nats-io/nats.go.Conn).Flush", "(*github.com/nats-io/nats.go.Conn).FlushTimeout")
	}
	isBarrier := func(in ssa.Instruction) bool { return isCallTo(in, "(*github.com/nats-io/nats.go.Conn).Barrier") }
	// a step happens in d itself or in a helper of the package called from d (one level);
	// site = the instruction of d, where = the function holding the library call, at = that call
	type stepSite struct {
		site  ssa.Instruction
		where *ssa.Function
		at    ssa.Instruction
	}
	find := func(p ssax.Pred) stepSite {
		var out stepSite
		ssax.Instrs(d, func(in ssa.Instruction) {
			if p(in) {
				out = stepSite{in, d, in}
				return
			}
			c, ok := in.(*ssa.Call)
			if !ok {
				return
			}
			g := c.Call.StaticCallee()
			if g == nil || g.Pkg != r.Pkg || len(g.Blocks) == 0 || g == d {
				return
			}
			ssax.Instrs(g, func(in2 ssa.Instruction) {
				if p(in2) {
					out = stepSite{in, g, in2}
				}
			})
		})
		return out
	}
	drainS, flushS, barrierS := find(isDrain), find(isFlush), find(isBarrier)
	drainC, flushC, barrierC := drainS.site, flushS.site, barrierS.site
	// Drain over every element of the slice handed to the drain function
	okLoop := false
	if drainS.at != nil {
		L := drainS.where
		c, _ := ssax.AsCall(drainS.at)
		if u, ok := ssax.Strip(c.Common.Args[0]).(*ssa.UnOp); ok {
			if ia, ok := u.X.(*ssa.IndexAddr); ok && inCycle(drainS.at) {
				// the indexed slice is a parameter of L that receives a slice parameter of d
				fromParam := false
				for j, q := range L.Params {
					if ssax.Strip(ia.X) != ssa.Value(q) {
						continue
					}
					if _, isSl := q.Type().Underlying().(*types.Slice); !isSl {
						continue
					}
					if L == d {
						fromParam = true
					} else if call, isCall := drainS.site.(*ssa.Call); isCall && j < len(call.Call.Args) {
						if dp, isP := ssax.Strip(call.Call.Args[j]).(*ssa.Parameter); isP && dp.Parent() == d {
							fromParam = true
						}
					}
				}
				if fromParam {
					okLoop = true
					// every trip: from the element load no way to the next element or to a successful return without Drain
					next := func(in ssa.Instruction) bool {
						if in == ssa.Instruction(u) {
							return true
						}
						ret, isRet := in.(*ssa.Return)
						return isRet && successRet(ret)
					}
					if ssax.PathFrom(L, u, next, func(in ssa.Instruction) bool { return in == drainS.at }) != nil {
						okLoop = false
					}
				}
			}
		}
	}
	ctx.Check(okLoop, "C20.R1", dn+" › Drain() on every subscription passed in", fnPos(r, d), "range over the parameter slice calling sub.Drain() on every trip", "not every subscription is drained (some are skipped or removed another way, e.g. Unsubscribe): a request the broker has already routed to this connection is dropped by the client library instead of being processed")
	steps := []struct {
		name string
		in   ssa.Instruction
		p    ssax.Pred
	}{{"Subscription.Drain", drainC, isDrain}, {"Conn.Flush", flushC, isFlush}, {"Conn.Barrier", barrierC, isBarrier}}
	for i := 0; i+1 < len(steps); i++ {
		a, b := steps[i], steps[i+1]
		if a.in == nil || b.in == nil {
			miss := a.name
			if a.in != nil {
				miss = b.name
			}
			ctx.Violate("C20.R1", dn+" › "+a.name+" ≺ "+b.name, fnPos(r, d),
				"drain step missing: "+miss+" — without the flush round trip the barrier does not cover requests the broker has already routed to this connection; without the barrier, callbacks may still be running when the queue is closed")
			continue
		}
		ok := a.in.Block().Dominates(b.in.Block()) || ssax.Dominates(a.in, b.in) || loopPrecedes(a.in, b.in)
		ctx.Check(ok, "C20.R1", dn+" › "+a.name+" ≺ "+b.name, r.IPos(b.in), "dominance", b.name+" is not preceded by "+a.name+" on every path")
	}
	for _, s := range steps[1:] {
		if s.in == nil {
			continue
		}
		mn, _ := ssax.CountOnPathsToW(d, nil, liftedWeight(d, s.p, 1), successRet)
		ctx.Check(mn >= 1, "C20.R1", dn+" › "+s.name+" on every successful drain", r.IPos(s.in), "on every path to return nil", "a successful drain can skip "+s.name)
	}
	// barrier awaited: a receive from the channel closed by the barrier callback, after Barrier, on every success path
	if barrierC != nil {
		c, _ := ssax.AsCall(barrierS.at)
		var cbChan ssa.Value
		// a method value bound to the channel (barrier.release): the method closes its receiver
		var boundChan ssa.Value
		unconv := func(v ssa.Value) ssa.Value {
			for {
				v = ssax.Strip(v)
				ct, ok := v.(*ssa.ChangeType)
				if !ok {
					return v
				}
				v = ct.X
			}
		}
		if mc, isMC := ssax.Strip(c.Common.Args[1]).(*ssa.MakeClosure); isMC && len(mc.Bindings) == 1 {
			for _, cb := range funcValues(mc) {
				closesRecv := false
				ssax.Instrs(cb, func(in ssa.Instruction) {
					if cc, ok := ssax.AsCall(in); ok && cc.FullName() == "builtin.close" && len(cb.Params) > 0 && unconv(cc.Common.Args[0]) == ssa.Value(cb.Params[0]) {
						closesRecv = true
					}
				})
				if closesRecv {
					boundChan = unconv(mc.Bindings[0])
				}
			}
		}
		for _, cb := range funcValues(c.Common.Args[1]) {
			ssax.Instrs(cb, func(in ssa.Instruction) {
				if cc, ok := ssax.AsCall(in); ok && cc.FullName() == "builtin.close" {
					v := cc.Common.Args[0]
					if u, ok := v.(*ssa.UnOp); ok {
						if fv, ok := u.X.(*ssa.FreeVar); ok {
							cbChan = ssax.FreeVarBinding(fv)
						}
					}
				}
			})
		}
		isAwait := func(in ssa.Instruction) bool {
			u, ok := in.(*ssa.UnOp)
			if !ok || u.Op != token.ARROW {
				return false
			}
			if boundChan != nil && unconv(u.X) == boundChan {
				return true
			}
			if cbChan == nil {
				return false
			}
			if ld, ok := u.X.(*ssa.UnOp); ok && ld.X == cbChan {
				return true
			}
			return false
		}
		mn, _ := ssax.CountOnPathsTo(barrierS.where, barrierS.at, isAwait, successRet)
		ctx.Check((cbChan != nil || boundChan != nil) && mn >= 1, "C20.R1", dn+" › barrier awaited", r.IPos(barrierC), "receive from the channel the barrier callback closes, on every success path", "the drain returns without waiting for the barrier: handler callbacks may still enqueue after the queue is closed")
	}
}

func c20Worker(ctx *core.Ctx, r *RT, w *ssa.Function) {
	wn := ssax.Name(w)
	// loop: range over the queue; every return sits on the channel-closed edge
	var rangeRecv *ssa.UnOp
	ssax.Instrs(w, func(in ssa.Instruction) {
		if u, ok := in.(*ssa.UnOp); ok && u.Op == token.ARROW && u.CommaOk && fieldNameOfAddr(u.X) == "workC" {
			rangeRecv = u
		}
	})
	if rangeRecv == nil {
		ctx.Violate("C20.R2", wn+" › worker ranges over the queue", fnPos(r, w), "the worker does not consume the queue until it is closed (for … range workC)")
		return
	}
	var okV ssa.Value
	for _, u := range *rangeRecv.Referrers() {
		if e, ok := u.(*ssa.Extract); ok && e.Index == 1 {
			okV = e
		}
	}
	var doneBlock *ssa.BasicBlock
	if okV != nil {
		for _, u := range *okV.Referrers() {
			if iff, ok := u.(*ssa.If); ok {
				doneBlock = iff.Block().Succs[1]
			}
		}
	}
	bad := false
	ssax.Instrs(w, func(in ssa.Instruction) {
		if _, ok := in.(*ssa.Return); ok && in.Block().Comment != "recover" {
			if doneBlock == nil || !(in.Block() == doneBlock || doneBlock.Dominates(in.Block())) {
				bad = true
			}
		}
		if _, ok := in.(*ssa.Panic); ok && !strings.Contains(in.Block().Comment, "select") {
			bad = true
		}
	})
	ctx.Check(!bad, "C20.R2", wn+" › the worker's only exit is the closed queue", fnPos(r, w), "every return is on the !ok edge of the range receive", "a worker can exit before the queue is closed and drained: queued requests are never processed and, with all workers gone, the handler blocks forever on a full queue")
	// the frame is processed inside the iteration, synchronously
	sync := false
	for _, c := range ssax.Calls(w) {
		publishes := false
		if c.Static != nil && c.Static.Pkg == r.Pkg && len(c.Static.Blocks) > 0 {
			for _, g := range localCone(c.Static, 2) { // localCone follows synchronous calls only
				if len(ssax.CallsTo(g, "(*github.com/nats-io/nats.go.Conn).Publish")) > 0 {
					publishes = true
				}
			}
		}
		if publishes {
			_, isGo := c.Instr.(*ssa.Go)
			if !isGo && inCycle(c.Instr.(ssa.Instruction)) {
				if tup, ok := ExtractOf(c.Args()[1], 0); ok && tup == ssa.Value(rangeRecv) {
					sync = true
				}
			}
		}
	}
	ctx.Check(sync, "C20.R2", wn+" › each frame is processed and its reply published inside the iteration", fnPos(r, w), "synchronous call of the function that publishes the reply, with the received frame", "processing is detached from the worker iteration (go / not called): Serve can return before replies are published")
}

func blockReaches(from, to *ssa.BasicBlock) bool {
	seen := map[*ssa.BasicBlock]bool{}
	stack := append([]*ssa.BasicBlock{}, from.Succs...)
	for len(stack) > 0 {
		x := stack[len(stack)-1]
		stack = stack[:len(stack)-1]
		if x == to {
			return true
		}
		if seen[x] {
			continue
		}
		seen[x] = true
		stack = append(stack, x.Succs...)
	}
	return false
}

// loopPrecedes: a sits in a loop, b after it: the loop (its header, which
// dominates b) is executed to completion before b and b cannot get back to a.
func loopPrecedes(a, b ssa.Instruction) bool {
	ab, bb := a.Block(), b.Block()
	if !inCycle(a) || blockReaches(bb, ab) {
		return false
	}
	// some dominator of b lies on a's cycle
	for d := bb.Idom(); d != nil; d = d.Idom() {
		if (d == ab || blockReaches(ab, d)) && (d == ab || blockReaches(d, ab)) {
			return true
		}
	}
	return false
}

package rules

import (
	"fv/internal/ssax"

	"golang.org/x/tools/go/ssa"
)

// Deadline carriers: values through which the timeout of the call's FContext
// travels. The evaluation is interprocedural over package-local calls: a
// callee's parameters take the kinds of the arguments (env), and a call's
// value takes the kind its callee returns under that binding.
type dkind int

const (
	dNone dkind = iota
	dFCtx       // the call's FContext
	dDur        // fctx.Timeout()
	dCtx        // a context.Context whose deadline is the call's timeout (ToContext(fctx), WithTimeout(_, fctx.Timeout()))
	dReq        // an *http.Request bound to such a context
)

type dEnv map[*ssa.Parameter]dkind

func (k dkind) String() string {
	return [...]string{"-", "FContext", "fctx.Timeout()", "deadline context", "request bound to the deadline context"}[k]
}

type dEval struct {
	r     *RT
	depth int
}

func (e *dEval) kind(v ssa.Value, env dEnv) dkind {
	if e.depth > 6 {
		return dNone
	}
	e.depth++
	defer func() { e.depth-- }()
	v = ssax.Strip(v)
	switch x := v.(type) {
	case *ssa.Parameter:
		return env[x]
	case *ssa.Phi:
		k := dNone
		for i, ed := range x.Edges {
			ek := e.kind(ed, env)
			if i > 0 && ek != k {
				return dNone
			}
			k = ek
		}
		return k
	case *ssa.Extract:
		if x.Index != 0 {
			return dNone
		}
		c, ok := CallValue(x.Tuple)
		if !ok {
			return dNone
		}
		switch {
		case c.Static != nil && c.Static.Pkg == e.r.Pkg && c.Static.Name() == "ToContext":
			if e.kind(c.Common.Args[0], env) == dFCtx {
				return dCtx
			}
		case c.FullName() == "context.WithTimeout":
			if e.kind(c.Common.Args[1], env) == dDur || e.kind(c.Common.Args[0], env) == dCtx {
				return dCtx
			}
		case c.FullName() == "context.WithCancel" || c.FullName() == "context.WithDeadline":
			if e.kind(c.Common.Args[0], env) == dCtx {
				return dCtx
			}
		default:
			return e.callKind(c, env, 0)
		}
		return dNone
	case *ssa.Call:
		c, ok := ssax.AsCall(x)
		if !ok {
			return dNone
		}
		if c.Method != nil && c.Method.Name() == "Timeout" && e.kind(c.Common.Value, env) == dFCtx {
			return dDur
		}
		if c.Static != nil && c.Static.Name() == "Timeout" && len(c.Common.Args) == 1 && e.kind(c.Common.Args[0], env) == dFCtx {
			return dDur
		}
		switch c.FullName() {
		case "(*net/http.Request).WithContext":
			if e.kind(c.Common.Args[1], env) == dCtx {
				return dReq
			}
			return dNone
		case "net/http.NewRequestWithContext":
			return dNone // returns a tuple; handled as Extract below if ever used
		}
		return e.callKind(c, env, 0)
	}
	return dNone
}

// callKind: kind of result #idx of a package-local call under the binding of its arguments.
func (e *dEval) callKind(c ssax.Call, env dEnv, idx int) dkind {
	g := c.Static
	if g == nil || g.Pkg != e.r.Pkg || len(g.Blocks) == 0 {
		return dNone
	}
	sub := e.bind(c, g, env)
	k := dNone
	first := true
	for _, vs := range ReturnedValues(g) {
		if idx >= len(vs) {
			return dNone
		}
		rk := e.kind(vs[idx], sub)
		if !first && rk != k {
			// an error return (nil value) does not change what the successful return carries
			if cst, isC := ssax.Strip(vs[idx]).(*ssa.Const); isC && cst.IsNil() {
				continue
			}
			if k == dNone {
				k = rk
				continue
			}
			return dNone
		}
		if cst, isC := ssax.Strip(vs[idx]).(*ssa.Const); isC && cst.IsNil() && !first {
			continue
		}
		k, first = rk, false
	}
	return k
}

func (e *dEval) bind(c ssax.Call, g *ssa.Function, env dEnv) dEnv {
	sub := dEnv{}
	for i, a := range c.Args() {
		if i < len(g.Params) {
			if k := e.kind(a, env); k != dNone {
				sub[g.Params[i]] = k
			}
		}
	}
	return sub
}

// timeoutChanK: is ch a channel that fires at the call's timeout?
func (e *dEval) timeoutChan(ch ssa.Value, env dEnv) (string, bool) {
	c, ok := CallValue(ch)
	if !ok {
		return "", false
	}
	if c.Method != nil && c.Method.Name() == "Done" && ssax.TypeNamed(c.Common.Value.Type(), "context", "Context") {
		if e.kind(c.Common.Value, env) == dCtx {
			return "Done() of the deadline context of this call", true
		}
		return "", false
	}
	if c.FullName() == "time.After" && e.kind(c.Common.Args[0], env) == dDur {
		return "time.After(fctx.Timeout())", true
	}
	return "", false
}

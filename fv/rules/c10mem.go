package rules

import (
	"go/token"
	"go/types"

	"fv/internal/core"
	"fv/internal/lin"
	"fv/internal/ssax"

	"golang.org/x/tools/go/ssa"
)

// c10EnumNumberingInMemory — C10.R4 for a running counter that is kept in
// memory (a field of a small numbering object, a variable behind a pointer)
// and advanced by a loop-free helper: `numbering.assign(ev)`. The helper is
// executed symbolically along each of its paths with a two-cell store model
// (the counter cell and the element's Value; every other store to an int cell
// that could alias either makes the rule undecided) and the linear prover
// decides, at every return, counter > element value. The caller's side: the
// helper is called inside the loop over the declared values and its counter
// cell is allocated outside that loop.
func c10EnumNumberingInMemory(ctx *core.Ctx, cc *CC, pp *ssa.Package) int {
	found := 0
	for _, g := range cc.Fns {
		if g.Pkg != pp {
			continue
		}
		var vStore *ssa.Store
		var cnt ssa.Value // address of the counter cell
		ssax.Instrs(g, func(in ssa.Instruction) {
			st, ok := in.(*ssa.Store)
			if !ok {
				return
			}
			fa, ok := st.Addr.(*ssa.FieldAddr)
			if !ok || fieldNameOfAddr(fa) != "Value" || !ssax.TypeNamed(fa.X.Type(), "", "EnumValue") {
				return
			}
			if ld, ok := st.Val.(*ssa.UnOp); ok && ld.Op == token.MUL {
				if _, isG := ld.X.(*ssa.Global); isG {
					return
				}
				vStore, cnt = st, ld.X
			}
		})
		if vStore == nil {
			continue
		}
		keyC, keyV := ssax.AddrKey(cnt), ssax.AddrKey(vStore.Addr)
		// the counter is advanced here too
		advanced := false
		ssax.Instrs(g, func(in ssa.Instruction) {
			if st, ok := in.(*ssa.Store); ok && ssax.AddrKey(st.Addr) == keyC {
				advanced = true
			}
		})
		if !advanced {
			continue
		}
		found++
		construct := QName(g) + " › counter (in memory) exceeds the value just numbered on every path"
		for _, b := range g.Blocks {
			if len(b.Instrs) > 0 && inCycle(b.Instrs[0]) {
				ctx.Undecided("C10.R4", construct, cc.FPos(g), "the counter lives in memory and the function that advances it contains a loop: the two-cell store model covers loop-free helpers only")
				return found
			}
		}
		ok, why := memCounterPost(g, keyC, keyV)
		if why != "" && !ok && why[0] == '?' {
			ctx.Undecided("C10.R4", construct, cc.FPos(g), why[1:])
		} else {
			ctx.Check(ok, "C10.R4", construct, cc.FPos(g), "symbolic execution of every path of the helper with a two-cell store model; counter > element value at every return (linear prover)",
				"after numbering an element the running counter can be ≤ that element's value ("+why+"): the next implicit enum member gets a number already in use (e.g. `A = 0, B` gives B = 0)")
		}
		// callers: in a loop, counter cell allocated outside it
		nCalls := 0
		for _, f := range cc.Fns {
			if f.Pkg != pp {
				continue
			}
			for _, c := range ssax.Calls(f) {
				if c.Static != g {
					continue
				}
				nCalls++
				okCall, whyCall := inCycle(c.Instr), "the helper is not called in a loop over the declared values"
				if okCall {
					// the cell handed over: the argument the counter address is rooted at
					root := ssax.Strip(cnt)
					for {
						if fa, isFA := root.(*ssa.FieldAddr); isFA {
							root = ssax.Strip(fa.X)
							continue
						}
						break
					}
					var cell ssa.Value
					for i, p := range g.Params {
						if ssa.Value(p) == root && i < len(c.Common.Args) {
							cell = ssax.Strip(c.Common.Args[i])
						}
					}
					for {
						if fa, isFA := cell.(*ssa.FieldAddr); isFA {
							cell = ssax.Strip(fa.X)
							continue
						}
						break
					}
					switch x := cell.(type) {
					case *ssa.Alloc:
						if inCycle(x) {
							okCall, whyCall = false, "the numbering object is created anew on every trip of the loop: every implicit member gets the same number"
						}
						// no other store resets it inside the loop
						for _, u := range *x.Referrers() {
							if st, isSt := u.(*ssa.Store); isSt && st.Addr == ssa.Value(x) && inCycle(st) {
								okCall, whyCall = false, "the numbering object is reset inside the loop"
							}
						}
					case nil:
						okCall, whyCall = false, "the counter cell is not rooted at an argument of the call"
					default:
						if in, isIn := cell.(ssa.Instruction); isIn && inCycle(in) {
							okCall, whyCall = false, "the numbering object is obtained anew on every trip of the loop"
						}
					}
				}
				ctx.Check(okCall, "C10.R4", QName(f)+" › one counter for the whole enum", cc.IPos(c.Instr), "helper called in the loop, counter cell allocated outside it", whyCall)
			}
		}
		if nCalls == 0 {
			ctx.Undecided("C10.R4", QName(g)+" › callers", cc.FPos(g), "no call of the numbering helper found")
		}
	}
	return found
}

// memCounterPost: on every feasible path of the loop-free function g, the
// final content of cell keyC exceeds the final content of cell keyV.
func memCounterPost(g *ssa.Function, keyC, keyV string) (bool, string) {
	type state struct {
		mem   map[string]lin.Term
		vals  map[ssa.Value]lin.Term
		facts []lin.Ineq
	}
	var term func(s *state, v ssa.Value) lin.Term
	term = func(s *state, v ssa.Value) lin.Term {
		if t, ok := s.vals[v]; ok {
			return t
		}
		switch x := v.(type) {
		case *ssa.Const:
			if n, ok := ssax.ConstInt(x); ok {
				return lin.Const(n)
			}
		case *ssa.BinOp:
			switch x.Op {
			case token.ADD:
				return term(s, x.X).Add(term(s, x.Y))
			case token.SUB:
				return term(s, x.X).Sub(term(s, x.Y))
			}
		case *ssa.Convert:
			if isIntType(x.X.Type()) && isIntType(x.Type()) {
				return term(s, x.X)
			}
		}
		return lin.Var(v.Name())
	}
	paths := 0
	var bad string
	var walk func(b *ssa.BasicBlock, from *ssa.BasicBlock, s state, depth int) bool
	walk = func(b *ssa.BasicBlock, from *ssa.BasicBlock, s state, depth int) bool {
		if depth > 64 {
			bad = "?path too long"
			return false
		}
		// copy state
		ns := state{mem: map[string]lin.Term{}, vals: map[ssa.Value]lin.Term{}, facts: append([]lin.Ineq{}, s.facts...)}
		for k, v := range s.mem {
			ns.mem[k] = v
		}
		for k, v := range s.vals {
			ns.vals[k] = v
		}
		for _, in := range b.Instrs {
			switch x := in.(type) {
			case *ssa.Phi:
				for i, p := range b.Preds {
					if p == from {
						ns.vals[x] = term(&ns, x.Edges[i])
					}
				}
			case *ssa.UnOp:
				if x.Op == token.MUL {
					if k := ssax.AddrKey(x.X); k == keyC || k == keyV {
						ns.vals[x] = ns.mem[k]
					}
				}
			case *ssa.Store:
				k := ssax.AddrKey(x.Addr)
				if k == keyC || k == keyV {
					ns.mem[k] = term(&ns, x.Val)
				} else if pt, ok := x.Addr.Type().Underlying().(*types.Pointer); ok && isIntType(pt.Elem()) {
					if _, isAlloc := ssax.Strip(x.Addr).(*ssa.Alloc); !isAlloc {
						bad = "?a store to another integer cell (" + k + ") may alias the counter or the element's value"
						return false
					}
				}
			case *ssa.Call, *ssa.Go, *ssa.Defer:
				if c, ok := ssax.AsCall(in); ok && c.Static != nil && c.Static.Pkg == nil {
					continue // builtins / synthetic
				}
				bad = "?the helper calls other code (" + in.String() + ") between reading and advancing the counter"
				return false
			case *ssa.If:
				for i, succ := range b.Succs {
					s2 := ns
					s2.facts = append([]lin.Ineq{}, ns.facts...)
					if bo, ok := x.Cond.(*ssa.BinOp); ok && isIntType(bo.X.Type()) {
						a, c := term(&ns, bo.X), term(&ns, bo.Y)
						taken := i == 0
						var f []lin.Ineq
						switch bo.Op {
						case token.LSS:
							f = []lin.Ineq{lin.LT(a, c, "")}
						case token.LEQ:
							f = []lin.Ineq{lin.LE(a, c, "")}
						case token.GTR:
							f = []lin.Ineq{lin.GT(a, c, "")}
						case token.GEQ:
							f = []lin.Ineq{lin.GE(a, c, "")}
						case token.EQL:
							if taken {
								f = []lin.Ineq{lin.LE(a, c, ""), lin.GE(a, c, "")}
							}
							taken = true
						case token.NEQ:
							if !taken {
								f = []lin.Ineq{lin.LE(a, c, ""), lin.GE(a, c, "")}
							}
							taken = true
						}
						for _, q := range f {
							if taken {
								s2.facts = append(s2.facts, q)
							} else {
								s2.facts = append(s2.facts, q.Negate())
							}
						}
					}
					if !lin.Feasible(s2.facts) {
						continue
					}
					if !walk(succ, b, s2, depth+1) {
						return false
					}
				}
				return true
			case *ssa.Jump:
				return walk(b.Succs[0], b, ns, depth+1)
			case *ssa.Return:
				paths++
				if !lin.Entails(ns.facts, lin.GT(ns.mem[keyC], ns.mem[keyV], "")) {
					bad = "at the return of " + g.Name() + ": counter = " + ns.mem[keyC].String() + ", value = " + ns.mem[keyV].String() + " under " + lin.Describe(ns.facts)
					return false
				}
				return true
			case *ssa.Panic:
				return true
			}
		}
		return true
	}
	s0 := state{mem: map[string]lin.Term{keyC: lin.Var("counter0"), keyV: lin.Var("value0")}, vals: map[ssa.Value]lin.Term{}}
	if !walk(g.Blocks[0], nil, s0, 0) {
		return false, bad
	}
	if paths == 0 {
		return false, "?no return reached"
	}
	return true, ""
}

func isIntType(t types.Type) bool {
	b, ok := t.Underlying().(*types.Basic)
	return ok && b.Info()&types.IsInteger != 0
}

// c10EnumMarker — C10.R15: an explicit enum value is kept as declared. The
// grammar marks "no explicit value" with a constant the EnumValue action stores
// and the Enum action tests before it numbers the member; Thrift enum values
// are non-negative, so the marker is negative and the test is `Value < 0` — a
// marker that is itself a legal value (0) renumbers every member declared
// with that value (`UNKNOWN = 0` after `ACTIVE = 1` becomes 2).
func c10EnumMarker(ctx *core.Ctx, cc *CC, rule string) {
	ctx.Rule(rule, "explicit enum values are kept: the no-explicit-value marker is a negative constant and implicit numbering applies only where Value < 0", 2)
	pp := cc.Pkg("parser")
	if pp == nil {
		return
	}
	marker, nNum := false, 0
	for _, fn := range cc.Fns {
		if fn.Pkg != pp {
			continue
		}
		ssax.Instrs(fn, func(in ssa.Instruction) {
			st, ok := in.(*ssa.Store)
			if !ok {
				return
			}
			fa, ok := st.Addr.(*ssa.FieldAddr)
			if !ok || fieldNameOfAddr(fa) != "Value" || !ssax.TypeNamed(fa.X.Type(), "", "EnumValue") {
				return
			}
			if k, isK := ssax.ConstInt(st.Val); isK {
				if k < 0 {
					if _, isAlloc := ssax.Strip(fa.X).(*ssa.Alloc); isAlloc {
						marker = true
					}
				}
				return
			}
			// the implicit number: a running counter (loop φ, or a counter cell) — not
			// the explicit value the EnumValue action converts from the parsed literal
			switch x := st.Val.(type) {
			case *ssa.Phi:
			case *ssa.UnOp:
				if x.Op != token.MUL {
					return
				}
			default:
				return
			}
			nNum++
			under := false
			for b := in.Block(); b != nil && b.Idom() != nil; b = b.Idom() {
				d := b.Idom()
				iff, isIf := d.Instrs[len(d.Instrs)-1].(*ssa.If)
				if !isIf || len(b.Preds) != 1 || b.Preds[0] != d || d.Succs[0] != b {
					continue
				}
				bo, isB := iff.Cond.(*ssa.BinOp)
				if !isB || bo.Op != token.LSS {
					continue
				}
				if z, isZ := ssax.ConstInt(bo.Y); !isZ || z != 0 {
					continue
				}
				if ld, isLd := ssax.Strip(bo.X).(*ssa.UnOp); isLd && ld.Op == token.MUL && fieldNameOfAddr(ld.X) == "Value" {
					under = true
				}
			}
			ctx.Check(under, rule, QName(fn)+sprintf(" › implicit number #%d is given only where Value < 0", nNum), cc.IPos(in), "the store is on the true edge of Value < 0",
				"a member is renumbered under another test than Value < 0 (e.g. Value == 0): a member declared with that legal value explicitly — `UNKNOWN = 0` after `ACTIVE = 1` — silently gets the next implicit number, so the model (and every generated constant) differs from the IDL")
		})
	}
	ctx.Check(marker, rule, "EnumValue action › a member without explicit value is marked with a negative constant", "", "Value: <negative constant> in the action that builds the EnumValue",
		"no negative marker is stored for a member without an explicit value: the marker is the zero value, which is also what `= 0` declares — explicit zeros cannot be told from missing values")
	if nNum == 0 {
		ctx.Unresolved(rule, "enum numbering", "no computed store to EnumValue.Value found")
	}
}

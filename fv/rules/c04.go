package rules

import (
	"encoding/json"
	"go/token"
	"go/types"
	"os/exec"
	"path/filepath"
	"strings"

	"fv/internal/bounds"
	"fv/internal/core"
	"fv/internal/lin"
	"fv/internal/ssax"

	"golang.org/x/tools/go/ssa"
)

func termEq(a, b lin.Term) bool {
	d := a.Sub(b)
	return d.IsConst() && d.C.Sign() == 0
}

// C04 — FContext header wire layout.
func C04(ctx *core.Ctx) {
	ctx.Explanation = "Decides that the writer's and the readers' codec primitives and offset arithmetic of the v0 header layout agree (Go↔Go, Go↔Python constants): only big-endian 32-bit length fields; the version byte written is the one accepted; one pair decoder behind both the stream and the frame reader, one encoder behind both header writers, and the shared marshaler is stateless; " +
		"in the encoder each 4-byte length prefix holds len(x) of the string copied immediately after it, offsets are contiguous, the per-pair advance equals the 8+len(name)+len(value) that the size calculation sums, and the buffer is size+5 with the first pair at 5; in the decoder each payload slice starts where its prefix ended and has exactly the length just read, the next prefix starts where the payload ended, the map entry is (name payload, value payload); " +
		"every reject guard of the decoder is exact (it rejects only inputs whose next read would not fit in the header block), so every block the encoder produces is accepted. Layout equalities are decided on linear terms in ideal integer arithmetic. Not decided: equality of maps for all contents (runtime values), agreement with the prose of documentation/protocol.md."
	r := LoadRT(ctx, "", "")
	if !r.OK() {
		return
	}
	ctx.Rule("C04.S1", "byte order / width: every encoding/binary use in the runtime is BigEndian 32-bit", 8)
	ctx.Rule("C04.S2", "version: the byte written at offset 0 equals the version accepted by getMarshaler", 1)
	ctx.Rule("C04.S3", "one codec core: both header readers reach the single pair reader; both header writers reach the single encoder; the shared marshaler is stateless", 4)
	ctx.Rule("C04.S4", "prefix/payload pairing and offset continuity in encoder and decoder (linear-term equalities)", 10)
	ctx.Rule("C04.S5", "Python codec constants agree: version 0, big-endian unsigned 32-bit lengths, 5/4/8 layout constants", 4)
	ctx.Rule("C04.S6", "decoder reject guards are exact: a guard rejects only when the read it protects would not fit inside the header block", 4)

	// ---- S1 -------------------------------------------------------------------------
	for _, fn := range r.Fns {
		for _, c := range ssax.Calls(fn) {
			full := c.FullName()
			if !strings.Contains(full, "encoding/binary") || strings.HasSuffix(full, ".init") {
				continue
			}
			ok := strings.HasPrefix(full, "(encoding/binary.bigEndian).") && (strings.HasSuffix(full, ".Uint32") || strings.HasSuffix(full, ".PutUint32"))
			ctx.Check(ok, "C04.S1", ssax.Name(fn)+sprintf(" › %s #%d", c.ShortName(), callOrdinal(fn, c)), r.IPos(c.Instr), "BigEndian 32-bit", "a length/size field is coded with "+full+": not the documented big-endian 32-bit layout")
		}
	}

	// anchors by role (a rename of an unexported helper does not lose them):
	//   enc  — the implementation of protocolMarshaler.marshalHeaders
	//   dec  — the function both header readers of that marshaler share to decode the pairs from a byte slice
	//   calc — the helper of enc that computes a size from the header map
	//   gm   — the function that selects a protocolMarshaler from the version byte
	var enc, dec, calc, gm *ssa.Function
	if impls := r.Impl("protocolMarshaler", "marshalHeaders"); len(impls) == 1 {
		enc = impls[0]
	}
	isHeaderMap := func(t types.Type) bool {
		m, ok := t.Underlying().(*types.Map)
		if !ok {
			return false
		}
		k, ok1 := m.Key().Underlying().(*types.Basic)
		v, ok2 := m.Elem().Underlying().(*types.Basic)
		return ok1 && ok2 && k.Kind() == types.String && v.Kind() == types.String
	}
	{
		count := map[*ssa.Function]int{}
		readers := append(append([]*ssa.Function{}, r.Impl("protocolMarshaler", "unmarshalHeaders")...), r.Impl("protocolMarshaler", "unmarshalHeadersFromFrame")...)
		for _, rd := range readers {
			for _, g := range localCone(rd, 2) {
				if g == rd || g.Signature.Results().Len() != 2 || !isHeaderMap(g.Signature.Results().At(0).Type()) {
					continue
				}
				takesBytes := false
				for i := 0; i < g.Signature.Params().Len(); i++ {
					if sl, ok := g.Signature.Params().At(i).Type().Underlying().(*types.Slice); ok {
						if b, ok := sl.Elem().Underlying().(*types.Basic); ok && b.Kind() == types.Byte {
							takesBytes = true
						}
					}
				}
				isReader := false
				for _, rd2 := range readers {
					if rd2 == g {
						isReader = true
					}
				}
				if takesBytes && !isReader {
					count[g]++
				}
			}
		}
		for g, n := range count {
			if n == len(readers) && len(readers) >= 2 {
				dec = g
			}
		}
	}
	if enc != nil {
		for _, g := range localCone(enc, 1) {
			if g == enc || g.Signature.Results().Len() != 1 {
				continue
			}
			if b, ok := g.Signature.Results().At(0).Type().Underlying().(*types.Basic); !ok || b.Info()&types.IsInteger == 0 {
				continue
			}
			for i := 0; i < g.Signature.Params().Len(); i++ {
				if isHeaderMap(g.Signature.Params().At(i).Type()) {
					calc = g
				}
			}
		}
	}
	for _, fn := range r.Fns {
		if fn.Signature.Recv() == nil && fn.Signature.Results().Len() >= 1 && ssax.TypeNamed(fn.Signature.Results().At(0).Type(), "", "protocolMarshaler") && fn.Signature.Params().Len() == 1 {
			if b, ok := fn.Signature.Params().At(0).Type().Underlying().(*types.Basic); ok && b.Kind() == types.Byte {
				gm = fn
			}
		}
	}
	for what, f := range map[string]*ssa.Function{"header encoder (protocolMarshaler.marshalHeaders)": enc, "shared pair reader of the header decoders": dec, "size helper of the encoder": calc, "marshaler selection by version byte": gm} {
		if f == nil {
			ctx.Unresolved("C04.S4", what, "not found by role")
		}
	}

	// ---- S2 -------------------------------------------------------------------------
	if enc != nil && gm != nil {
		var written, accepted int64 = -1, -2
		ssax.Instrs(enc, func(in ssa.Instruction) {
			if st, ok := in.(*ssa.Store); ok {
				if ia, ok := st.Addr.(*ssa.IndexAddr); ok {
					if z, k := ssax.ConstInt(ia.Index); k && z == 0 {
						if v, k2 := ssax.ConstInt(st.Val); k2 {
							written = v
						}
					}
				}
			}
		})
		ssax.Instrs(gm, func(in ssa.Instruction) {
			if bo, ok := in.(*ssa.BinOp); ok && bo.Op == token.EQL && IsParam(bo.X, gm, 0) {
				if v, k := ssax.ConstInt(bo.Y); k {
					accepted = v
				}
			}
		})
		ctx.Check(written == accepted, "C04.S2", "marshalHeaders/getMarshaler › version byte", fnPos(r, enc), sprintf("writes %d, accepts %d", written, accepted), sprintf("the encoder writes version %d but the decoder accepts %d", written, accepted))
	}

	// ---- S3 -------------------------------------------------------------------------
	for _, m := range []string{"unmarshalHeaders", "unmarshalHeadersFromFrame"} {
		for _, fn := range r.Impl("protocolMarshaler", m) {
			ok := false
			for _, c := range ssax.Calls(fn) {
				if c.Static == dec && dec != nil {
					ok = true
				}
			}
			ctx.Check(ok, "C04.S3", ssax.Name(fn)+" › decodes through the single pair reader", fnPos(r, fn), "calls the shared pair reader", "a header reader has its own pair decoding: stream and frame readers can disagree")
		}
	}
	if wh := r.Fn("C04.S3", "(*FProtocol).writeHeader"); wh != nil {
		ok := false
		for _, c := range ssax.Calls(wh) {
			if (c.Method != nil && c.Method.Name() == "marshalHeaders") || (c.Static != nil && c.Static == enc) {
				ok = true
			}
		}
		ctx.Check(ok, "C04.S3", ssax.Name(wh)+" › encodes through the marshaler's marshalHeaders", fnPos(r, wh), "writeMarshaler.marshalHeaders(headers)", "headers are serialised by something other than the shared encoder")
	}
	// statelessness of marshalers stored in package-level variables
	for _, m := range r.Pkg.Members {
		g, ok := m.(*ssa.Global)
		if !ok {
			continue
		}
		pt, ok := g.Type().(*types.Pointer)
		if !ok {
			continue
		}
		et := pt.Elem()
		if p2, ok := et.(*types.Pointer); ok {
			et = p2.Elem()
		}
		n, ok := et.(*types.Named)
		if !ok || n.Obj().Pkg() != r.Pkg.Pkg {
			continue
		}
		it := ssax.Iface(r.Pkg, "protocolMarshaler")
		if it == nil || !(types.Implements(types.NewPointer(n), it) || types.Implements(n, it)) {
			continue
		}
		st, isSt := n.Underlying().(*types.Struct)
		ctx.Check(isSt && st.NumFields() == 0, "C04.S3", "package variable "+g.Name()+" › shared marshaler "+n.Obj().Name()+" is stateless", r.Pos(g.Pos()), "struct with no fields",
			"the process-wide marshaler singleton has fields: every FProtocol on every goroutine shares that state (e.g. a scratch buffer is overwritten by a concurrent reader)")
	}

	cfg := &bounds.Config{IntBits: IntBits(), AssumeLenI32: true, Ideal: true}
	pr := bounds.New(cfg)

	// ---- S4 encoder -------------------------------------------------------------------
	if enc != nil && calc != nil {
		c04Encoder(ctx, r, pr, enc, calc)
	}
	// ---- S4 decoder + S6 ----------------------------------------------------------------
	if dec != nil {
		c04Decoder(ctx, r, pr, dec)
	}
	// callers of the pair reader pass (prefix end, prefix end + size)
	if dec != nil {
		for _, fn := range r.Fns {
			for _, c := range ssax.Calls(fn) {
				if c.Static != dec {
					continue
				}
				e := pr.EnvAt(c.Instr.(ssa.Instruction))
				args := c.Args() // [recv,] buff, start, end   or   [recv,] block
				off := 0
				if dec.Signature.Recv() != nil {
					off = 1
				}
				var start, end lin.Term
				var base ssa.Value
				switch {
				case len(args) >= off+3:
					start, end, base = e.Term(args[off+1]), e.Term(args[off+2]), ssax.Strip(args[off])
				case len(args) == off+1:
					// the block itself: a slice expression x[lo:hi] or a whole buffer
					if sl, isSl := ssax.Strip(args[off]).(*ssa.Slice); isSl {
						start = lin.Const(0)
						if sl.Low != nil {
							start = e.Term(sl.Low)
						}
						if sl.High != nil {
							end = e.Term(sl.High)
						} else {
							end = e.LenOf(sl.X)
						}
						base = ssax.Strip(sl.X)
					} else {
						start, end, base = lin.Const(0), e.LenOf(args[off]), ssax.Strip(args[off])
					}
				default:
					ctx.Undecided("C04.S4", ssax.Name(fn)+" › call of the pair reader", r.IPos(c.Instr), "unexpected argument list")
					continue
				}
				// size = the Uint32 read in this function
				var size lin.Term
				found := false
				ssax.Instrs(fn, func(in ssa.Instruction) {
					if cc, ok := ssax.AsCall(in); ok && strings.HasSuffix(cc.FullName(), ".Uint32") {
						size = e.Term(in.(ssa.Value))
						found = true
					}
				})
				okT := found && termEq(end.Sub(start), size)
				ctx.Check(okT, "C04.S4", ssax.Name(fn)+" › pair reader is given [start, start+size)", r.IPos(c.Instr), "end − start = the size field just read", "the header block handed to the pair reader is not exactly the size that was read")
				// frame reader: start = 4 (size prefix within frame[1:]); stream: start = 0
				if _, isFrame := base.(*ssa.Parameter); isFrame {
					ctx.Check(termEq(start, lin.Const(4)), "C04.S4", ssax.Name(fn)+" › pairs start right after the 4-byte size prefix", r.IPos(c.Instr), "start = 4", "pairs are decoded from the wrong offset of the frame")
				} else {
					ctx.Check(termEq(start, lin.Const(0)), "C04.S4", ssax.Name(fn)+" › pairs start at the beginning of the block read", r.IPos(c.Instr), "start = 0", "pairs are decoded from the wrong offset of the block")
				}
			}
		}
	}

	// ---- S7 header rewrite (addHeadersToFrame) ---------------------------------------------
	ctx.Rule("C04.S7", "header rewrite keeps the layout: new frame = 4-byte size ‖ marshal(merged headers) ‖ old payload, sized from the merged map", 4)
	if ah := r.Fn("C04.S7", "(*v0ProtocolMarshaler).addHeadersToFrame"); ah != nil && enc != nil && calc != nil {
		an := ssax.Name(ah)
		var marshalArg, calcArg ssa.Value
		var calcCall, oldSize ssa.Value
		var mk *ssa.MakeSlice
		var put ssax.Call
		var copies []ssax.Call
		// the function that lays the new frame out: addHeadersToFrame itself or
		// the helper it hands the frame and the merged map to
		L := ah
		var lcall *ssa.Call
		for _, c := range ssax.Calls(ah) {
			g := c.Static
			if g == nil || g.Pkg != r.Pkg || g == enc || g == calc || g == dec || len(g.Blocks) == 0 {
				continue
			}
			for _, c2 := range ssax.Calls(g) {
				if cc, isCall := c.Instr.(*ssa.Call); isCall && c2.Static == enc {
					L, lcall = g, cc
				}
			}
		}
		up := func(v ssa.Value) ssa.Value {
			v = ssax.Strip(v)
			if q, isP := v.(*ssa.Parameter); isP && lcall != nil {
				for i, lp := range L.Params {
					if lp == q && i < len(lcall.Call.Args) {
						return ssax.Strip(lcall.Call.Args[i])
					}
				}
			}
			return v
		}
		var frameP ssa.Value = ah.Params[1]
		if lcall != nil {
			frameP = nil
			for i, a := range lcall.Call.Args {
				if ssax.Strip(a) == ssa.Value(ah.Params[1]) && i < len(L.Params) {
					frameP = L.Params[i]
				}
			}
		}
		ssax.Instrs(L, func(in ssa.Instruction) {
			if m, ok := in.(*ssa.MakeSlice); ok {
				mk = m
			}
			c, ok := ssax.AsCall(in)
			if !ok {
				return
			}
			switch {
			case c.Static == enc:
				marshalArg = up(c.Common.Args[1])
			case c.Static == calc:
				calcArg, calcCall = up(c.Common.Args[1]), in.(ssa.Value)
			case strings.HasSuffix(c.FullName(), ".Uint32"):
				oldSize = in.(ssa.Value)
			case strings.HasSuffix(c.FullName(), ".PutUint32"):
				put = c
			case c.FullName() == "builtin.copy":
				copies = append(copies, c)
			}
		})
		// merged map: the map read from the frame, updated with every added header
		merged := false
		if tup, ok := ExtractOf(marshalArg, 0); ok {
			if c, isC := CallValue(tup); isC && c.Static != nil && c.Static.Name() == "unmarshalHeadersFromFrame" {
				okR, _ := rangeStoresAll(ah, ah.Params[2], marshalArg)
				merged = okR
			}
		}
		ctx.Check(merged, "C04.S7", an+" › serialises the frame's headers merged with the added ones", fnPos(r, ah), "existing[name] = value for every added header, then marshalHeaders(existing)", "the rewritten frame does not carry the union of the old and the added headers")
		ctx.Check(marshalArg != nil && calcArg == marshalArg, "C04.S7", an+" › frame size is computed from the same (merged) map that is serialised", fnPos(r, ah), "calculateHeaderSize(existing) and marshalHeaders(existing)", "the new frame size is computed from a different header map than the one written (e.g. the added headers only): when an added name already exists the frame is too large, its size prefix is wrong and zero bytes are appended to the payload")
		okLay := false
		if mk != nil && calcCall != nil && oldSize != nil && put.Instr != nil && len(copies) == 2 && frameP != nil {
			e := pr.EnvAt(copies[1].Instr.(ssa.Instruction))
			T := e.Term
			size := T(mk.Len)
			want := T(calcCall).Add(e.LenOf(frameP)).Sub(T(oldSize))
			d1, ok1 := copies[0].Common.Args[0].(*ssa.Slice)
			d2, ok2 := copies[1].Common.Args[0].(*ssa.Slice)
			s2, ok3 := copies[1].Common.Args[1].(*ssa.Slice)
			if ok1 && ok2 && ok3 {
				okLay = termEq(size, want) &&
					termEq(T(put.Common.Args[2]), size.AddConst(-4)) &&
					ssax.Strip(put.Common.Args[1]) == ssa.Value(mk) &&
					termEq(T(d1.Low), lin.Const(4)) &&
					termEq(T(d2.Low), lin.Const(4).Add(T(copies[0].Instr.Value()))) &&
					ssax.Strip(s2.X) == frameP && termEq(T(s2.Low), lin.Const(9).Add(T(oldSize)))
			}
		}
		ctx.Check(okLay, "C04.S7", an+" › size prefix, header block and payload offsets", fnPos(r, ah), "len = size(merged)+len(frame)−oldSize; prefix = len−4; headers at 4; payload = frame[9+oldSize:] right after them", "the rewritten frame's size prefix / offsets do not follow the layout: the payload is shifted, truncated or padded")
		// caller checks the minimum length before indexing
		if wr := r.FnOpt("addHeadersToFrame"); wr != nil {
			cfg2 := &bounds.Config{IntBits: IntBits(), AssumeLenI32: true}
			p2 := bounds.New(cfg2)
			okB := true
			for _, o := range p2.Check(wr) {
				if !o.Proved {
					okB = false
				}
			}
			ctx.Check(okB, "C04.S7", "addHeadersToFrame › version byte is read only from a frame of at least 5 bytes", fnPos(r, wr), "frame[4] guarded by len(frame) ≥ 5", "frame[4] can be read from a shorter frame")
		}
	}

	c04ReceivedContext(ctx, r)
	c04StreamAndLoop(ctx, r, enc)
	c04ReaderOnlyRead(ctx, r)
	c04ResponseHeadersReachContext(ctx, r)
	c04DecoderPurity(ctx, r)

	// ---- S5 ---------------------------------------------------------------------------
	py := filepath.Join(ctx.RepoDir, "lib/python/frugal/util/headers.py")
	out, err := exec.Command("python3", filepath.Join(ctx.VerifDir, "scripts/py_headers.py"), py).Output()
	if err != nil {
		// evidence dir may be relocated (FV_VERIF); the script lives with the checker
		out, err = exec.Command("python3", "/verif/scripts/py_headers.py", py).Output()
	}
	if err != nil {
		ctx.Unresolved("C04.S5", "python codec", "cannot parse "+py+": "+err.Error())
	} else {
		var info map[string]interface{}
		json.Unmarshal(out, &info)
		consts, _ := info["consts"].(map[string]interface{})
		v0, _ := consts["_V0"].(float64)
		_, hasV0 := consts["_V0"]
		ctx.Check(hasV0 && v0 == 0, "C04.S5", "headers.py › _V0 == 0", "lib/python/frugal/util/headers.py", "version constant 0", "Python codec uses a different version byte")
		ui, _ := consts["_UINT"].(string)
		ctx.Check(ui == "!I" || ui == ">I", "C04.S5", "headers.py › lengths are big-endian unsigned 32-bit", "lib/python/frugal/util/headers.py", "struct format "+ui, "Python codec length format is "+ui+", not big-endian unsigned 32-bit")
		w, _ := info["_write_to_bytearray"].(map[string]interface{})
		has := func(m map[string]interface{}, key string, vals ...float64) bool {
			arr, _ := m[key].([]interface{})
			for _, v := range vals {
				found := false
				for _, a := range arr {
					if f, ok := a.(float64); ok && f == v {
						found = true
					}
				}
				if !found {
					return false
				}
			}
			return true
		}
		advOK := false
		if adv, ok := w["advances"].([]interface{}); ok && len(adv) == 2 {
			advOK = adv[0].(float64) == 4 && adv[1].(float64) == 4
		}
		ctx.Check(w != nil && has(w, "int_consts", 5, 8, 4, 1) && advOK, "C04.S5", "headers.py › writer uses the 5/4/8 layout constants", "lib/python/frugal/util/headers.py", "size = Σ(8+len+len), buffer size+5, first pair at 5, prefixes advance by 4", "Python writer layout constants differ from the Go encoder's")
		rd, _ := info["decode_from_frame"].(map[string]interface{})
		ctx.Check(rd != nil && has(rd, "int_consts", 5, 1), "C04.S5", "headers.py › frame reader starts pairs at 5", "lib/python/frugal/util/headers.py", "read_pairs(frame, 5, size+5)", "Python frame reader offsets differ")
	}
	for s := range cfg.UsedSummaries {
		ctx.Assume(s)
	}
}

// codecHelper: helpers whose body may hold one half of the per-pair codec
// (small, loop-free functions taking the byte buffer).
func codecHelper(g *ssa.Function) bool {
	if len(g.Blocks) > 12 {
		return false
	}
	for _, b := range g.Blocks {
		for _, s := range b.Succs {
			if s.Dominates(b) {
				return false // a loop
			}
		}
	}
	for _, p := range g.Params {
		if sl, ok := p.Type().Underlying().(*types.Slice); ok {
			if e, ok := sl.Elem().Underlying().(*types.Basic); ok && e.Kind() == types.Byte {
				return true
			}
		}
	}
	return false
}

func c04Encoder(ctx *core.Ctx, r *RT, pr *bounds.Prover, enc, calc *ssa.Function) {
	en := ssax.Name(enc)
	// events in instruction order: Put(lo,hi,x) and Copy(lo,x,n); an event may
	// sit in a helper called from the loop body (flattened view)
	type ev struct {
		kind string
		f    flatInstr
		lo   ssa.Value
		hi   ssa.Value
		x    ssa.Value // the string whose length is announced / which is copied (caller's value)
		n    ssa.Value // put: the value written when it is not a len(); copy: the copy's result
	}
	var loopEvs []ev
	var sizePut *ev
	var mk *ssa.MakeSlice
	for _, f := range flatten(enc, func(g *ssa.Function) bool { return g != calc && codecHelper(g) }) {
		in := f.In
		if m, ok := in.(*ssa.MakeSlice); ok && f.Call == nil {
			mk = m
		}
		c, ok := ssax.AsCall(in)
		if !ok {
			continue
		}
		switch {
		case strings.HasSuffix(c.FullName(), ".PutUint32"):
			sl, ok := c.Common.Args[1].(*ssa.Slice)
			if !ok {
				continue
			}
			val := ssax.Strip(c.Common.Args[2])
			if cv, ok := val.(*ssa.Convert); ok {
				val = ssax.Strip(cv.X)
			}
			e := ev{kind: "put", f: f, lo: sl.Low, hi: sl.High}
			if lc, ok := CallValue(val); ok && lc.FullName() == "builtin.len" {
				e.x = f.up(lc.Common.Args[0])
			} else {
				e.n = val
			}
			if inCycle(f.at()) {
				loopEvs = append(loopEvs, e)
			} else if f.Call == nil {
				e2 := e
				sizePut = &e2
			}
		case c.FullName() == "builtin.copy":
			sl, ok := c.Common.Args[0].(*ssa.Slice)
			if !ok {
				continue
			}
			if inCycle(f.at()) {
				loopEvs = append(loopEvs, ev{kind: "copy", f: f, lo: sl.Low, x: f.up(c.Common.Args[1]), n: in.(ssa.Value)})
			}
		}
	}
	ok := len(loopEvs) == 4 && loopEvs[0].kind == "put" && loopEvs[1].kind == "copy" && loopEvs[2].kind == "put" && loopEvs[3].kind == "copy"
	if !ok {
		ctx.Violate("C04.S4", en+" › per-pair sequence prefix,name,prefix,value", fnPos(r, enc), "the encoder loop is not: length prefix, name bytes, length prefix, value bytes")
		return
	}
	e := pr.EnvAt(loopEvs[3].f.at())
	lifted := true
	T := func(x ev, v ssa.Value) lin.Term {
		t, ok := x.f.term(e, v)
		if !ok {
			lifted = false
			return lin.Var("?unliftable")
		}
		return t
	}
	p1, c1, p2, c2 := loopEvs[0], loopEvs[1], loopEvs[2], loopEvs[3]
	// key/value come from the same range entry
	kx, ok1 := p1.x.(*ssa.Extract)
	vx, ok2 := p2.x.(*ssa.Extract)
	ctx.Check(ok1 && ok2 && kx.Tuple == vx.Tuple && kx.Index == 1 && vx.Index == 2, "C04.S4", en+" › name then value of the same entry", r.IPos(p1.f.at()), "first prefix is len(name), second len(value) of one map entry", "the pair is not written as (name, value) of one header entry")
	ctx.Check(termEq(T(p1, p1.hi).Sub(T(p1, p1.lo)), lin.Const(4)) && termEq(T(p2, p2.hi).Sub(T(p2, p2.lo)), lin.Const(4)) && lifted, "C04.S4", en+" › length prefixes are 4 bytes wide", r.IPos(p1.f.In), "hi − lo = 4 for both prefixes", "a length prefix is not 4 bytes wide")
	ctx.Check(c1.x == p1.x && c2.x == p2.x, "C04.S4", en+" › each prefix holds the length of the string copied after it", r.IPos(c1.f.In), "PutUint32(len(x)) followed by copy(…, x) for the same x", "a length prefix announces the length of a different string than the one written after it")
	ctx.Check(termEq(T(c1, c1.lo), T(p1, p1.hi)) && termEq(T(c2, c2.lo), T(p2, p2.hi)) && lifted, "C04.S4", en+" › payload starts where its prefix ends", r.IPos(c1.f.In), "copy offset = prefix end", "payload bytes do not start right after their length prefix")
	ctx.Check(termEq(T(p2, p2.lo), T(c1, c1.lo).Add(T(c1, c1.n))) && lifted, "C04.S4", en+" › value prefix starts where the name ends", r.IPos(p2.f.In), "offset continuity", "gap or overlap between the name bytes and the value prefix")
	// loop phi
	var phi *ssa.Phi
	if ph, ok := p1.f.up(p1.lo).(*ssa.Phi); ok {
		phi = ph
	}
	okPhi := false
	if phi != nil {
		for i, ed := range phi.Edges {
			if phi.Block().Dominates(phi.Block().Preds[i]) {
				okPhi = termEq(e.Term(ed), T(c2, c2.lo).Add(T(c2, c2.n)))
			}
		}
		for i, ed := range phi.Edges {
			if !phi.Block().Dominates(phi.Block().Preds[i]) {
				if k, isK := ssax.ConstInt(ed); !isK || k != 5 {
					okPhi = false
				}
			}
		}
	}
	ctx.Check(okPhi && lifted, "C04.S4", en+" › next pair starts where the value ends; first pair at 5", r.IPos(p1.f.at()), "i = φ(5, value end)", "pairs are not laid out contiguously from offset 5")
	// advance per pair = 8 + n1 + n2 ; calc sums 8 + len(k) + len(v)
	adv := T(c2, c2.lo).Add(T(c2, c2.n)).Sub(T(p1, p1.lo))
	want := lin.Const(8).Add(T(c1, c1.n)).Add(T(c2, c2.n))
	okCalc := false
	ssax.Instrs(calc, func(in ssa.Instruction) {
		if ph, ok := in.(*ssa.Phi); ok {
			for i, ed := range ph.Edges {
				if ph.Block().Dominates(ph.Block().Preds[i]) {
					ce := pr.EnvAt(ph.Block().Preds[i].Instrs[len(ph.Block().Preds[i].Instrs)-1])
					inc := ce.Term(ed).Sub(ce.Term(ph))
					// inc must be 8 + len(k) + len(v)
					vars := 0
					for v, co := range inc.Vs {
						if strings.HasPrefix(v, "len(") && co.Int64() == 1 {
							vars++
						}
					}
					if inc.C.Int64() == 8 && vars == 2 && len(inc.Vs) == 2 {
						okCalc = true
					}
				}
			}
		}
	})
	ctx.Check(termEq(adv, want) && okCalc && lifted, "C04.S4", en+" › per-pair advance = 8+len(name)+len(value) = what calculateHeaderSize sums", r.IPos(c2.f.In), "advance 8+n(name)+n(value); size += 8+len(k)+len(v)", "the size announced in the header and the bytes actually written per pair disagree")
	// header: make(size+5), size prefix at [1:5] = size
	okHdr := false
	if mk != nil && sizePut != nil {
		he := pr.EnvAt(sizePut.f.In)
		var size ssa.Value
		for _, c := range ssax.Calls(enc) {
			if c.Static == calc {
				size = c.Instr.Value()
			}
		}
		if size != nil && sizePut.n != nil {
			okHdr = termEq(he.Term(mk.Len), he.Term(size).AddConst(5)) && termEq(he.Term(sizePut.lo), lin.Const(1)) && termEq(he.Term(sizePut.hi), lin.Const(5)) && termEq(he.Term(sizePut.n), he.Term(size))
		}
	}
	ctx.Check(okHdr, "C04.S4", en+" › buffer is size+5 and bytes 1..4 hold size", fnPos(r, enc), "make(size+5); PutUint32(buff[1:5], size)", "the total-size field or the buffer allocation does not match the documented layout")
}

func c04Decoder(ctx *core.Ctx, r *RT, pr *bounds.Prover, dec *ssa.Function) {
	dn := ssax.Name(dec)
	var buff, endP *ssa.Parameter
	endIsLen := false
	for _, p := range dec.Params {
		if _, ok := p.Type().Underlying().(*types.Slice); ok {
			buff = p
		}
	}
	// loop bound: the parameter the loop counter is compared with (`for i < end`)
	ssax.Instrs(dec, func(in ssa.Instruction) {
		bo, ok := in.(*ssa.BinOp)
		if !ok || bo.Op != token.LSS && bo.Op != token.LEQ {
			return
		}
		ph, isPhi := bo.X.(*ssa.Phi)
		if !isPhi || !inCycle(ph) {
			return
		}
		q, isParam := bo.Y.(*ssa.Parameter)
		lenOfBuff := false
		if lc, isC := CallValue(bo.Y); isC && lc.FullName() == "builtin.len" && ssax.Strip(lc.Common.Args[0]) == ssa.Value(buff) {
			lenOfBuff = true // the block itself is handed over: its end is len(block)
		}
		if !isParam && !lenOfBuff {
			return
		}
		for _, u := range *bo.Referrers() {
			if _, isIf := u.(*ssa.If); isIf {
				if isParam {
					endP = q
				} else {
					endIsLen = true
				}
			}
		}
	})
	// … or the remaining buffer itself is the loop-carried value (`for len(buff) > 0 { …; buff = rest }`)
	endSlice := false
	ssax.Instrs(dec, func(in ssa.Instruction) {
		ph, ok := in.(*ssa.Phi)
		if !ok || !inCycle(ph) {
			return
		}
		if _, isSl := ph.Type().Underlying().(*types.Slice); !isSl {
			return
		}
		for _, ed := range ph.Edges {
			if ssax.Strip(ed) == ssa.Value(buff) {
				endSlice = true
			}
		}
	})
	type rd struct {
		kind string // prefix | payload
		f    flatInstr
		src  ssa.Value // the slice value read (prefix: the argument of Uint32; payload: the operand of string(…))
		val  ssa.Value // prefix: the Uint32 result; payload: the string value
	}
	// windows: every slice value derived from the decoder's buffer is [lo, hi) of that buffer
	rootWin := c04win{root: buff}
	var evs []rd
	for _, f := range flatten(dec, codecHelper) {
		in := f.In
		if c, ok := ssax.AsCall(in); ok && strings.HasSuffix(c.FullName(), ".Uint32") && len(c.Common.Args) > 1 {
			if rootWin.derives(f, c.Common.Args[1], 0) {
				evs = append(evs, rd{"prefix", f, c.Common.Args[1], in.(ssa.Value)})
			}
		}
		if cv, ok := in.(*ssa.Convert); ok {
			if b, isB := cv.Type().Underlying().(*types.Basic); isB && b.Kind() == types.String {
				if _, isSl := cv.X.Type().Underlying().(*types.Slice); isSl && rootWin.derives(f, cv.X, 0) {
					evs = append(evs, rd{"payload", f, cv.X, cv})
				}
			}
		}
	}
	ok := len(evs) == 4 && evs[0].kind == "prefix" && evs[1].kind == "payload" && evs[2].kind == "prefix" && evs[3].kind == "payload"
	if !ok {
		ctx.Violate("C04.S4", dn+" › per-pair sequence prefix,name,prefix,value", fnPos(r, dec), "the decoder loop is not: length prefix, name bytes, length prefix, value bytes")
		return
	}
	var last ssa.Instruction
	ssax.Instrs(dec, func(in ssa.Instruction) {
		if _, ok := in.(*ssa.MapUpdate); ok {
			last = in
		}
	})
	if last == nil {
		ctx.Violate("C04.S4", dn+" › stores the pair", fnPos(r, dec), "decoded pairs are not stored in the result map")
		return
	}
	e := pr.EnvAt(last)
	lifted := true
	TE := func(env *bounds.Env, x rd, v ssa.Value) lin.Term {
		t, ok := x.f.term(env, v)
		if !ok {
			lifted = false
			return lin.Var("?unliftable")
		}
		return t
	}
	T := func(x rd, v ssa.Value) lin.Term { return TE(e, x, v) }
	// [lo, hi) of an event in the decoder's buffer; a prefix read covers 4 bytes from the start of its operand
	WE := func(env *bounds.Env, x rd) (lin.Term, lin.Term) {
		lo, hi, ok := rootWin.of(env, x.f, x.src, map[ssa.Value]bool{})
		if !ok {
			lifted = false
			return lin.Var("?unliftable"), lin.Var("?unliftable2")
		}
		if x.kind == "prefix" {
			if sl, isSl := ssax.Strip(x.src).(*ssa.Slice); !isSl || sl.High == nil {
				hi = lo.AddConst(4)
			}
		}
		return lo, hi
	}
	W := func(x rd) (lin.Term, lin.Term) { return WE(e, x) }
	p1, s1, p2, s2 := evs[0], evs[1], evs[2], evs[3]
	p1lo, p1hi := W(p1)
	s1lo, s1hi := W(s1)
	p2lo, p2hi := W(p2)
	s2lo, s2hi := W(s2)
	ctx.Check(termEq(p1hi.Sub(p1lo), lin.Const(4)) && termEq(p2hi.Sub(p2lo), lin.Const(4)) && lifted, "C04.S4", dn+" › length prefixes are 4 bytes wide", r.IPos(p1.f.In), "hi − lo = 4", "a length prefix is not read as 4 bytes")
	ctx.Check(termEq(s1lo, p1hi) && termEq(s2lo, p2hi) && lifted, "C04.S4", dn+" › payload starts where its prefix ended", r.IPos(s1.f.In), "payload lo = prefix hi", "payload is read from an offset other than right after its length prefix")
	ctx.Check(termEq(s1hi.Sub(s1lo), T(p1, p1.val)) && termEq(s2hi.Sub(s2lo), T(p2, p2.val)) && lifted, "C04.S4", dn+" › payload has exactly the length just read", r.IPos(s1.f.In), "hi − lo = decoded length", "a payload slice does not have the length announced by its prefix")
	ctx.Check(termEq(p2lo, s1hi) && lifted, "C04.S4", dn+" › value prefix starts where the name ended", r.IPos(p2.f.In), "offset continuity", "gap or overlap between name bytes and value prefix")
	okPhi := false
	// the loop-carried position: the φ of the decoder (an offset, or the remaining buffer itself)
	// whose position is where the first prefix is read
	pos := func(env *bounds.Env, v ssa.Value) (lin.Term, bool) {
		if _, isSl := v.Type().Underlying().(*types.Slice); isSl {
			lo, _, ok := rootWin.of(env, flatInstr{In: last}, v, map[ssa.Value]bool{})
			return lo, ok
		}
		if b, isB := v.Type().Underlying().(*types.Basic); isB && b.Info()&types.IsInteger != 0 {
			return env.Term(v), true
		}
		return lin.Term{}, false
	}
	var phi *ssa.Phi
	ssax.Instrs(dec, func(in ssa.Instruction) {
		if ph, isPhi := in.(*ssa.Phi); isPhi && phi == nil && inCycle(ph) && lifted {
			if t, ok := pos(e, ph); ok && termEq(t, p1lo) {
				phi = ph
			}
		}
	})
	if phi != nil {
		for i, ed := range phi.Edges {
			if phi.Block().Dominates(phi.Block().Preds[i]) {
				be := pr.EnvAt(phi.Block().Preds[i].Instrs[len(phi.Block().Preds[i].Instrs)-1])
				_, s2hiB := WE(be, s2)
				if t, ok := pos(be, ed); ok {
					okPhi = termEq(t, s2hiB)
				}
			}
		}
	}
	_ = s2lo
	ctx.Check(okPhi && lifted, "C04.S4", dn+" › next pair starts where the value ended", r.IPos(p1.f.at()), "position = φ(start, value end)", "pairs are not decoded contiguously")
	mu := last.(*ssa.MapUpdate)
	// the stored key/value are the payload strings (possibly as results of the helper)
	isPayload := func(v ssa.Value, x rd) bool {
		if x.f.Call == nil {
			return ssax.Strip(v) == x.val
		}
		call, inner, ok := down(v)
		return ok && call == x.f.Call && inner == x.val
	}
	ctx.Check(isPayload(mu.Key, s1) && isPayload(mu.Value, s2), "C04.S4", dn+" › map entry is (name payload, value payload)", r.IPos(last), "headers[name] = value", "the decoded pair is stored with name and value swapped or from other data")

	// ---- S6 exactness of reject guards -------------------------------------------------------
	if endP == nil && !endIsLen && !endSlice {
		ctx.Unresolved("C04.S6", dn+" end bound", "loop bound parameter not found")
		return
	}
	// reject edges: If whose successor returns a non-nil error; guards of a
	// helper are examined once, in the helper, against the parameter that
	// receives the decoder's end bound
	type scope struct {
		fn     *ssa.Function
		end    ssa.Value // the end bound: this integer parameter …
		endLen ssa.Value // … or the length of this slice parameter
		buf    ssa.Value // the buffer of this scope (the helper's slice parameter)
		evs    []rd
		name   string
	}
	scopes := []scope{{fn: dec, name: dn, buf: buff}}
	if endIsLen || endSlice {
		scopes[0].endLen = buff
	} else {
		scopes[0].end = endP
	}
	seenHelper := map[*ssa.Function]bool{}
	for _, x := range evs {
		if x.f.Call == nil {
			scopes[0].evs = append(scopes[0].evs, x)
			continue
		}
		g := x.f.Call.Call.StaticCallee()
		if !seenHelper[g] {
			seenHelper[g] = true
			var end, endLen, hbuf ssa.Value
			for i, a := range x.f.Call.Call.Args {
				if i >= len(g.Params) {
					continue
				}
				if endP != nil && ssax.Strip(a) == ssa.Value(endP) {
					end = g.Params[i]
				}
				if _, isSl := g.Params[i].Type().Underlying().(*types.Slice); isSl && rootWin.derives(flatInstr{In: x.f.Call}, a, 0) {
					hbuf = g.Params[i]
					// the helper is handed a window that runs to the end of the block: its end is len(parameter)
					if _, hi, okW := rootWin.of(e, flatInstr{In: x.f.Call}, a, map[ssa.Value]bool{}); okW && (endIsLen || endSlice) && termEq(hi, e.LenOf(buff)) {
						endLen = g.Params[i]
					}
				}
			}
			if end == nil && endLen == nil {
				ctx.Unresolved("C04.S6", ssax.Name(g)+" end bound", "the helper does not receive the decoder's end bound")
				return
			}
			sc := scope{fn: g, end: end, endLen: endLen, buf: hbuf, name: ssax.Name(g)}
			for _, y := range evs {
				if y.f.Call == x.f.Call {
					sc.evs = append(sc.evs, y)
				}
			}
			scopes = append(scopes, sc)
		}
	}
	names := map[ssa.Instruction]string{p1.f.In: "name length prefix", s1.f.In: "name bytes", p2.f.In: "value length prefix", s2.f.In: "value bytes"}
	for _, sc := range scopes {
		n := 0
		for _, b := range sc.fn.Blocks {
			iff, isIf := b.Instrs[len(b.Instrs)-1].(*ssa.If)
			if !isIf {
				continue
			}
			for i, s := range b.Succs {
				isErr := false
				for ret := range ReturnedValues(sc.fn) {
					if ret.Block() == s && rejectReturn(ret) {
						isErr = true
					}
				}
				if !isErr {
					continue
				}
				pass := b.Succs[1-i]
				// protected read: the first slice (in program order) whose block is dominated by the pass edge
				var prot *rd
				protName := ""
				for k := range sc.evs {
					x := sc.evs[k]
					if pass == x.f.In.Block() || pass.Dominates(x.f.In.Block()) {
						prot = &sc.evs[k]
						protName = names[x.f.In]
						if sc.fn != dec {
							protName = map[string]string{"prefix": "length prefix", "payload": "string bytes"}[x.kind]
						}
						break
					}
				}
				if prot == nil {
					continue
				}
				n++
				env := pr.EnvAt(iff)
				env.AddCond(iff.Cond, i == 0)
				// the read, in the coordinates of this scope's buffer
				w := rootWin
				if sc.fn != dec {
					w = c04win{root: sc.buf}
				}
				lo, hi, okW := w.of(env, flatInstr{In: prot.f.In}, prot.src, map[ssa.Value]bool{})
				if !okW {
					ctx.Undecided("C04.S6", sc.name+sprintf(" › reject guard #%d", n), r.IPos(iff), "cannot express the protected read as a window of the buffer")
					continue
				}
				if prot.kind == "prefix" {
					if sl, isSl := ssax.Strip(prot.src).(*ssa.Slice); !isSl || sl.High == nil {
						hi = lo.AddConst(4)
					}
				}
				var end lin.Term
				if sc.end != nil {
					end = env.Term(sc.end)
				} else {
					end = env.LenOf(sc.endLen)
				}
				// guard ∧ (0 ≤ lo ≤ hi ≤ end) must be infeasible
				facts := append([]lin.Ineq{}, env.Facts...)
				facts = append(facts, lin.GE(lo, lin.Const(0), ""), lin.LE(lo, hi, ""), lin.LE(hi, end, ""))
				exact := !lin.Feasible(facts)
				ctx.Check(exact, "C04.S6", sc.name+sprintf(" › reject guard #%d protects the read of the "+protName+" exactly", n), r.IPos(iff),
					"guard ⇒ the read would leave the header block", "the guard also rejects inputs whose read fits in the header block (e.g. the last header having an empty value): blocks produced by the encoder are refused")
			}
		}
	}
}

func exprSlice(s *ssa.Slice) string {
	return "buff[" + ssax.AddrKey(s.Low) + ":" + ssax.AddrKey(s.High) + "]"
}

// rangeStoresAll: fn ranges over map `src` and stores every (k, v) into map `dst`, unconditionally.
func rangeStoresAll(fn *ssa.Function, src ssa.Value, dst ssa.Value) (bool, string) {
	var rg *ssa.Range
	ssax.Instrs(fn, func(in ssa.Instruction) {
		if r, ok := in.(*ssa.Range); ok && ssax.Strip(r.X) == ssax.Strip(src) {
			rg = r
		}
	})
	if rg == nil {
		return false, "no loop over the added headers"
	}
	ok := false
	for _, u := range *rg.Referrers() {
		nx, isN := u.(*ssa.Next)
		if !isN {
			continue
		}
		ssax.Instrs(fn, func(in ssa.Instruction) {
			mu, isMU := in.(*ssa.MapUpdate)
			if !isMU || ssax.Strip(mu.Map) != ssax.Strip(dst) {
				return
			}
			k, ok1 := ssax.Strip(mu.Key).(*ssa.Extract)
			v, ok2 := ssax.Strip(mu.Value).(*ssa.Extract)
			if ok1 && ok2 && k.Tuple == ssa.Value(nx) && v.Tuple == ssa.Value(nx) && k.Index == 1 && v.Index == 2 {
				// unconditional in the loop body: its block is the ok-successor of the Next test
				for _, r2 := range *nx.Referrers() {
					if e, isE := r2.(*ssa.Extract); isE && e.Index == 0 {
						for _, r3 := range *e.Referrers() {
							if iff, isIf := r3.(*ssa.If); isIf && iff.Block().Succs[0] == in.Block() {
								ok = true
							}
						}
					}
				}
			}
		})
	}
	return ok, ""
}

// rejectReturn: the return reports failure — a non-nil error, or (for a helper
// with an ok flag as last result) the constant false.
func rejectReturn(ret *ssa.Return) bool {
	res := ret.Parent().Signature.Results()
	if res.Len() == 0 {
		return false
	}
	last := res.At(res.Len() - 1).Type()
	if isErrorType(last) {
		return !nilErrorReturn(ret)
	}
	if b, ok := last.Underlying().(*types.Basic); ok && b.Kind() == types.Bool && res.Len() > 1 {
		c, isC := ssax.Strip(ResolveLocal(ret.Results[len(ret.Results)-1])).(*ssa.Const)
		return isC && c.Value != nil && c.Value.String() == "false"
	}
	return false
}

// c04win expresses slice values derived from a root buffer as windows [lo, hi)
// of that buffer: the root itself is [0, len(root)); x[a:b] of a window [l, h)
// is [l+a, l+b) (or [l+a, h) without an upper bound); a parameter of a helper
// is the window of the argument; a slice result of a helper is the window of
// the value it returns on its successful return; a loop-carried slice
// (buff = rest) is [lo_φ, h) with a symbolic start.
type c04win struct {
	root ssa.Value
}

// derives: v is (syntactically) derived from the root by slicing, helper calls and loop φs.
func (w c04win) derives(f flatInstr, v ssa.Value, depth int) bool {
	if depth > 8 {
		return false
	}
	v = ssax.Strip(v)
	if v == w.root {
		return true
	}
	switch x := v.(type) {
	case *ssa.Slice:
		return w.derives(f, x.X, depth+1)
	case *ssa.Parameter:
		if f.Call != nil {
			g := f.Call.Call.StaticCallee()
			for i, q := range g.Params {
				if q == x && i < len(f.Call.Call.Args) {
					return w.derives(flatInstr{In: f.Call}, f.Call.Call.Args[i], depth+1)
				}
			}
		}
	case *ssa.Phi:
		for _, ed := range x.Edges {
			if ssax.Strip(ed) == w.root {
				return true
			}
		}
		for _, ed := range x.Edges {
			if w.derives(f, ed, depth+3) {
				return true
			}
		}
	case *ssa.Extract, *ssa.Call:
		if call, inner, ok := down(v); ok {
			return w.derives(flatInstr{In: call, Call: call}, inner, depth+1)
		}
	}
	return false
}

func (w c04win) of(env *bounds.Env, f flatInstr, v ssa.Value, seen map[ssa.Value]bool) (lo, hi lin.Term, ok bool) {
	v = ssax.Strip(v)
	if v == w.root {
		return lin.Const(0), env.LenOf(w.root), true
	}
	if seen[v] {
		return lin.Term{}, lin.Term{}, false
	}
	switch x := v.(type) {
	case *ssa.Slice:
		bl, bh, okB := w.of(env, f, x.X, seen)
		if !okB {
			return lin.Term{}, lin.Term{}, false
		}
		lo = bl
		if x.Low != nil {
			t, okT := f.term(env, x.Low)
			if !okT {
				return lin.Term{}, lin.Term{}, false
			}
			lo = bl.Add(t)
		}
		hi = bh
		if x.High != nil {
			t, okT := f.term(env, x.High)
			if !okT {
				return lin.Term{}, lin.Term{}, false
			}
			hi = bl.Add(t)
		}
		return lo, hi, true
	case *ssa.Parameter:
		if f.Call != nil {
			g := f.Call.Call.StaticCallee()
			for i, q := range g.Params {
				if q == x && i < len(f.Call.Call.Args) {
					return w.of(env, flatInstr{In: f.Call}, f.Call.Call.Args[i], seen)
				}
			}
		}
	case *ssa.Phi:
		// loop-carried remainder: symbolic start; the end is the root's end when every way in keeps it
		seen[v] = true
		rootHi := env.LenOf(w.root)
		for _, ed := range x.Edges {
			if ssax.Strip(ed) == w.root || ssax.Strip(ed) == v {
				continue
			}
			_, eh, okE := w.of(env, f, ed, seen)
			if okE && !termEq(eh, rootHi) {
				return lin.Term{}, lin.Term{}, false
			}
			// an edge that cannot be expressed here (its helper result is not known to have succeeded at
			// this point) is judged where it is known: the continuity check evaluates it at the back edge
		}
		delete(seen, v)
		return lin.Var("lo(" + x.Name() + ")"), rootHi, true
	case *ssa.Extract, *ssa.Call:
		if call, inner, okD := down(v); okD {
			return w.of(env, flatInstr{In: call, Call: call}, inner, seen)
		}
	}
	return lin.Term{}, lin.Term{}, false
}

package rules

import (
	"go/token"
	"go/types"
	"strings"

	"fv/internal/core"
	"fv/internal/ssax"

	"golang.org/x/tools/go/ssa"
)

// c11ExitStatus — C11.R20. "Every non-valid input → non-zero exit status": the
// command line may name several files and the loop over them handles one file
// per trip. The error of THIS trip's Compile/Audit must end the process with a
// non-zero status (or be returned) before the next trip overwrites it: from the
// failing edge of the error test no way leads back round the loop.
func c11ExitStatus(ctx *core.Ctx, cc *CC) {
	ctx.Rule("C11.R20", "a failed file ends the run with a non-zero status: inside the loop over the command-line files the error of each trip reaches os.Exit(≠0) (or a returned error) before the next trip", 1)
	n := 0
	for _, fn := range cc.Fns {
		if fn.Pkg == nil || fn.Pkg.Pkg.Name() != "main" {
			continue
		}
		isTarget := func(h *ssa.Function) bool {
			return h != nil && (QName(h) == "compiler.Compile" || strings.HasSuffix(QName(h), "(*Auditor).Audit"))
		}
		for _, c := range ssax.Calls(fn) {
			// the call itself, or a helper of package main that makes it and hands the error back
			viaHelper := false
			if c.Static != nil && c.Static.Pkg == fn.Pkg && c.Static != fn && c.Static.Signature.Results().Len() == 1 && isErrorType(c.Static.Signature.Results().At(0).Type()) {
				for _, c2 := range ssax.Calls(c.Static) {
					if isTarget(c2.Static) {
						viaHelper = true
					}
				}
			}
			if !isTarget(c.Static) && !viaHelper {
				continue
			}
			call, ok := c.Instr.(*ssa.Call)
			if !ok || !inCycle(call) {
				continue
			}
			header := loopHeaderOf(call.Block())
			if header == nil {
				continue
			}
			n++
			isHeader := func(x ssa.Instruction) bool { return x.Block() == header && x == header.Instrs[0] }
			isExit := func(x ssa.Instruction) bool {
				if cc2, ok := ssax.AsCall(x); ok && cc2.FullName() == "os.Exit" {
					if k, isK := ssax.ConstInt(cc2.Args()[0]); isK && k != 0 {
						return true
					}
				}
				// a helper of package main that never comes back: every path through it
				// reaches os.Exit(≠0) (exitFailed(file, cause))
				if cc2, ok := ssax.AsCall(x); ok && cc2.Static != nil && cc2.Static.Pkg == fn.Pkg && len(cc2.Static.Blocks) > 0 && cc2.Static != fn {
					h := cc2.Static
					exits := func(y ssa.Instruction) bool {
						if c3, ok := ssax.AsCall(y); ok && c3.FullName() == "os.Exit" {
							if k, isK := ssax.ConstInt(c3.Args()[0]); isK && k != 0 {
								return true
							}
						}
						return false
					}
					if len(ssax.CallsTo(h, "os.Exit")) > 0 && ssax.PathFrom(h, nil, ssax.IsReturn, exits) == nil {
						return true
					}
				}
				if ret, ok := x.(*ssa.Return); ok {
					for _, rv := range ret.Results {
						if isErrorType(rv.Type()) {
							if k, isK := ssax.Strip(rv).(*ssa.Const); !isK || !k.IsNil() {
								return true
							}
						}
					}
				}
				return false
			}
			// the error tests this call's result feeds (directly or through a φ of the two calls)
			var tests []*ssa.If
			var follow func(v ssa.Value, d int)
			seen := map[ssa.Value]bool{}
			follow = func(v ssa.Value, d int) {
				if d > 4 || seen[v] || v.Referrers() == nil {
					return
				}
				seen[v] = true
				for _, u := range *v.Referrers() {
					switch y := u.(type) {
					case *ssa.Phi:
						follow(y, d+1)
					case *ssa.BinOp:
						if y.Op == token.NEQ || y.Op == token.EQL {
							for _, u2 := range *y.Referrers() {
								if iff, ok := u2.(*ssa.If); ok && blockReaches(call.Block(), iff.Block()) {
									tests = append(tests, iff)
								}
							}
						}
					case *ssa.Store, *ssa.MakeInterface, *ssa.ChangeInterface:
						if vv, ok := u.(ssa.Value); ok {
							follow(vv, d+1)
						}
					}
				}
			}
			follow(call, 0)
			ok = false
			where := cc.IPos(call)
			for _, t := range tests {
				if loopHeaderOf(t.Block()) != header {
					continue // tested after the loop: only the last file's error is seen
				}
				bo := t.Cond.(*ssa.BinOp)
				fail := t.Block().Succs[0]
				if bo.Op == token.EQL {
					fail = t.Block().Succs[1]
				}
				if len(fail.Instrs) == 0 {
					continue
				}
				// no way from the failing edge back to the header without exiting
				if isExit(fail.Instrs[0]) || ssax.PathFrom(fn, fail.Instrs[0], isHeader, isExit) == nil && !isHeader(fail.Instrs[0]) {
					ok = true
				}
			}
			ctx.Check(ok, "C11.R20", QName(fn)+" › the error of "+c.Static.Name()+" ends the run on the trip it occurs", where, "err != nil ⇒ os.Exit(≠0)/return err inside the loop",
				"the loop goes on to the next file after a failure and the status is decided later from a variable every trip overwrites: `frugal bad.frugal good.frugal` prints the diagnostic and exits 0")
		}
	}
	if n == 0 {
		ctx.Unresolved("C11.R20", "main loop", "no call of Compile/Audit inside a loop of package main")
	}
}

// c11PerFileInField — C11.R21. A generator object lives for the whole run and
// generates one file after another (-r). A field that is filled in once
// ("if g.x == nil { g.x = … }", or an early return when it is already set) must
// not be computed from the file being generated: what the first file put there
// — a template whose helper closures resolve names in the first module — is
// then used for every later file (constants of an include resolved in the root:
// "referenced constant doesn't exist", or links of the wrong kind).
func c11PerFileInField(ctx *core.Ctx, cc *CC) {
	ctx.Rule("C11.R21", "a generator field that is initialised once per run holds nothing computed from the file being generated", 1)
	isModel := func(t types.Type) bool {
		p, ok := t.Underlying().(*types.Pointer)
		if !ok {
			return false
		}
		n, ok := p.Elem().(*types.Named)
		return ok && n.Obj().Pkg() != nil && strings.HasSuffix(n.Obj().Pkg().Path(), "/compiler/parser")
	}
	nStores := 0
	for _, fn := range cc.Fns {
		if fn.Pkg == nil || !strings.Contains(fn.Pkg.Pkg.Path(), "/compiler/generator") || fn.Signature.Recv() == nil || len(fn.Params) < 2 {
			continue
		}
		recv := fn.Params[0]
		var perFile []*ssa.Parameter
		for _, p := range fn.Params[1:] {
			if isModel(p.Type()) {
				perFile = append(perFile, p)
			}
		}
		// fields of the receiver tested against nil / zero in this function
		lazy := map[int]bool{}
		ssax.Instrs(fn, func(in ssa.Instruction) {
			iff, ok := in.(*ssa.If)
			if !ok {
				return
			}
			bo, ok := iff.Cond.(*ssa.BinOp)
			if !ok || (bo.Op != token.EQL && bo.Op != token.NEQ) {
				return
			}
			for _, op := range []ssa.Value{bo.X, bo.Y} {
				if ld, ok := ssax.Strip(op).(*ssa.UnOp); ok && ld.Op == token.MUL {
					if fa, ok := ld.X.(*ssa.FieldAddr); ok && ssax.Strip(fa.X) == ssa.Value(recv) {
						lazy[fa.Field] = true
					}
				}
			}
		})
		ord := 0
		ssax.Instrs(fn, func(in ssa.Instruction) {
			st, ok := in.(*ssa.Store)
			if !ok {
				return
			}
			fa, ok := st.Addr.(*ssa.FieldAddr)
			if !ok || ssax.Strip(fa.X) != ssa.Value(recv) || !lazy[fa.Field] {
				return
			}
			nStores++
			ord++
			src := ""
			seen := map[ssa.Value]bool{}
			var derives func(v ssa.Value, d int) bool
			derives = func(v ssa.Value, d int) bool {
				if v == nil || d > 12 || seen[v] {
					return false
				}
				seen[v] = true
				switch x := v.(type) {
				case *ssa.Parameter:
					for _, p := range perFile {
						if x == p {
							src = p.Name()
							return true
						}
					}
					return false
				case *ssa.MakeClosure:
					for _, b := range x.Bindings {
						if derives(b, d+1) {
							return true
						}
					}
				case *ssa.Call:
					if derives(x.Call.Value, d+1) {
						return true
					}
					for _, a := range x.Call.Args {
						if derives(a, d+1) {
							return true
						}
					}
				case *ssa.Extract:
					return derives(x.Tuple, d+1)
				case *ssa.MakeInterface:
					return derives(x.X, d+1)
				case *ssa.ChangeType:
					return derives(x.X, d+1)
				case *ssa.Phi:
					for _, e := range x.Edges {
						if derives(e, d+1) {
							return true
						}
					}
				case *ssa.MakeMap:
					for _, u := range *x.Referrers() {
						if mu, ok := u.(*ssa.MapUpdate); ok && (derives(mu.Value, d+1) || derives(mu.Key, d+1)) {
							return true
						}
					}
				case *ssa.UnOp:
					if al, ok := x.X.(*ssa.Alloc); ok {
						for _, u := range *al.Referrers() {
							if s2, ok := u.(*ssa.Store); ok && s2.Addr == ssa.Value(al) && derives(s2.Val, d+1) {
								return true
							}
						}
						return false
					}
					return derives(x.X, d+1)
				case *ssa.Alloc:
					for _, u := range *x.Referrers() {
						if s2, ok := u.(*ssa.Store); ok && derives(s2.Val, d+1) {
							return true
						}
					}
				case *ssa.FieldAddr:
					return derives(x.X, d+1)
				}
				return false
			}
			bad := len(perFile) > 0 && derives(st.Val, 0)
			ctx.Check(!bad, "C11.R21", QName(fn)+sprintf(" › once-per-run field %s (store #%d) is independent of the file being generated", fieldNameOfAddr(fa), ord), cc.IPos(in), "the stored value does not derive from the per-file parameter",
				"the field is set only while it is empty, from a value that captures the file being generated (`"+src+"`): every later file of the same run (-r) is rendered with the FIRST file's closures — identifiers of an include are resolved in the root module (\"referenced constant doesn't exist\", exit 1) or linked as the wrong kind")
		})
	}
	ctx.Check(true, "C11.R21", "generator packages › lazily initialised receiver fields examined", "", sprintf("%d store(s) to fields that are tested for emptiness in the same method", nStores), "")
}

var _ = core.Ctx{}

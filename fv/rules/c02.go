package rules

import (
	"go/ast"
	"go/constant"
	"go/token"
	"go/types"
	"sort"
	"strconv"
	"strings"

	"fv/internal/core"
	"fv/internal/ssax"

	"golang.org/x/tools/go/packages"
	"golang.org/x/tools/go/ssa"
)

// thriftRef is the reference table from the Thrift specification (not from the code).
var thriftRef = map[string]struct{ Wire, Method string }{
	"bool": {"BOOL", "Bool"}, "byte": {"BYTE", "Byte"}, "i8": {"BYTE", "Byte"}, "i16": {"I16", "I16"}, "i32": {"I32", "I32"},
	"i64": {"I64", "I64"}, "double": {"DOUBLE", "Double"}, "string": {"STRING", "String"}, "binary": {"STRING", "Binary"},
	"list": {"LIST", "List"}, "set": {"SET", "Set"}, "map": {"MAP", "Map"},
}

// thrift TType numeric values (thrift/lib/go/thrift/type.go, Thrift spec).
var ttypeValue = map[string]int64{"BOOL": 2, "BYTE": 3, "DOUBLE": 4, "I16": 6, "I32": 8, "I64": 10, "STRING": 11, "STRUCT": 12, "MAP": 13, "SET": 14, "LIST": 15}

// switchTable extracts, from the switch statements of fn whose tag is a
// selector ending in .Name of a *parser.Type, the mapping case-string → first
// string literal assigned / appended / returned in the clause.
func switchTable(pkg *packages.Package, fn *ast.FuncDecl) map[string]string {
	out := switchTable1(pkg, fn)
	// a table extracted into a helper of the package (called with a *parser.Type) counts as the caller's
	ast.Inspect(fn, func(n ast.Node) bool {
		call, ok := n.(*ast.CallExpr)
		if !ok {
			return true
		}
		var id *ast.Ident
		switch f := call.Fun.(type) {
		case *ast.Ident:
			id = f
		case *ast.SelectorExpr:
			id = f.Sel
		}
		if id == nil {
			return true
		}
		obj, _ := pkg.TypesInfo.Uses[id].(*types.Func)
		if obj == nil || obj.Pkg() != pkg.Types {
			return true
		}
		takesType := false
		for _, a := range call.Args {
			if t := pkg.TypesInfo.Types[a].Type; t != nil && isNamedPtr(t, "parser", "Type") {
				takesType = true
			}
		}
		if !takesType {
			return true
		}
		for _, file := range pkg.Syntax {
			for _, d := range file.Decls {
				if fd, ok := d.(*ast.FuncDecl); ok && pkg.TypesInfo.Defs[fd.Name] == types.Object(obj) && fd != fn {
					for k, v := range switchTable1(pkg, fd) {
						if old, seen := out[k]; (!seen || old == "") && v != "" {
							out[k] = v
						}
					}
				}
			}
		}
		return true
	})
	return out
}

func switchTable1(pkg *packages.Package, fn *ast.FuncDecl) map[string]string {
	out := map[string]string{}
	ast.Inspect(fn, func(n ast.Node) bool {
		sw, ok := n.(*ast.SwitchStmt)
		if !ok || sw.Tag == nil {
			return true
		}
		sel, ok := sw.Tag.(*ast.SelectorExpr)
		if !ok || sel.Sel.Name != "Name" || !isNamedPtr(pkg.TypesInfo.Types[sel.X].Type, "parser", "Type") {
			return true
		}
		for _, st := range sw.Body.List {
			cc := st.(*ast.CaseClause)
			val := ""
			for _, s := range cc.Body {
				ast.Inspect(s, func(m ast.Node) bool {
					if val != "" {
						return false
					}
					switch x := m.(type) {
					case *ast.AssignStmt:
						for _, r := range x.Rhs {
							if tv, ok := pkg.TypesInfo.Types[r]; ok && tv.Value != nil && tv.Value.Kind() == constant.String {
								val = constant.StringVal(tv.Value)
							}
						}
					case *ast.ReturnStmt:
						for _, r := range x.Results {
							if tv, ok := pkg.TypesInfo.Types[r]; ok && tv.Value != nil && tv.Value.Kind() == constant.String {
								val = constant.StringVal(tv.Value)
							}
						}
					case *ast.IfStmt:
						return false // enum/struct defaults handled separately
					}
					return true
				})
			}
			if cc.List == nil {
				// default clause: look for the enum / struct fallbacks, written as an if chain
				// or as the cases of a tagless switch
				ast.Inspect(cc, func(m ast.Node) bool {
					var cond ast.Node
					var body []ast.Stmt
					switch x := m.(type) {
					case *ast.IfStmt:
						cond, body = x.Cond, x.Body.List
					case *ast.CaseClause:
						if x == cc || len(x.List) != 1 {
							return true
						}
						cond, body = x.List[0], x.Body
					default:
						return true
					}
					kind := ""
					ast.Inspect(cond, func(c ast.Node) bool {
						if id, ok := c.(*ast.Ident); ok {
							switch id.Name {
							case "isEnum", "IsEnum":
								kind = "<enum>"
							case "IsStruct":
								kind = "<struct>"
							}
						}
						return true
					})
					if kind == "" {
						return true
					}
					for _, s := range body {
						ast.Inspect(s, func(c ast.Node) bool {
							if bl, ok := c.(*ast.BasicLit); ok && bl.Kind == token.STRING {
								if _, seen := out[kind]; !seen {
									v, _ := strconv.Unquote(bl.Value)
									out[kind] = v
								}
							}
							return true
						})
					}
					return true
				})
				continue
			}
			for _, e := range cc.List {
				if tv, ok := pkg.TypesInfo.Types[e]; ok && tv.Value != nil && tv.Value.Kind() == constant.String {
					if _, seen := out[constant.StringVal(tv.Value)]; !seen {
						out[constant.StringVal(tv.Value)] = val
					}
				}
			}
		}
		return true
	})
	// the enum / struct fallbacks may also follow a switch that has no default
	// clause (`if isEnum { return "I32" }` after the switch, in an extracted helper)
	if fn.Body != nil {
		afterTable := false
		for _, st := range fn.Body.List {
			if sw, ok := st.(*ast.SwitchStmt); ok && sw.Tag != nil {
				if sel, ok := sw.Tag.(*ast.SelectorExpr); ok && sel.Sel.Name == "Name" && isNamedPtr(pkg.TypesInfo.Types[sel.X].Type, "parser", "Type") {
					afterTable = true
				}
				continue
			}
			ifs, ok := st.(*ast.IfStmt)
			if !ok || !afterTable {
				continue
			}
			kind := ""
			ast.Inspect(ifs.Cond, func(c ast.Node) bool {
				if id, ok := c.(*ast.Ident); ok {
					switch id.Name {
					case "isEnum", "IsEnum":
						kind = "<enum>"
					case "IsStruct":
						kind = "<struct>"
					}
				}
				return true
			})
			if kind == "" {
				continue
			}
			if _, seen := out[kind]; seen {
				continue
			}
			ast.Inspect(ifs.Body, func(c ast.Node) bool {
				if bl, ok := c.(*ast.BasicLit); ok && bl.Kind == token.STRING {
					if _, seen := out[kind]; !seen {
						v, _ := strconv.Unquote(bl.Value)
						out[kind] = v
					}
				}
				return true
			})
		}
	}
	return out
}

func findFuncDecl(pkg *packages.Package, name string) *ast.FuncDecl {
	for _, f := range pkg.Syntax {
		for _, d := range f.Decls {
			if fd, ok := d.(*ast.FuncDecl); ok && fd.Name.Name == name {
				return fd
			}
		}
	}
	return nil
}

// C02 — generated Go types encode/decode what the IDL declares.
func C02(ctx *core.Ctx) {
	ctx.Explanation = "Decides agreement of the type tables that drive Go code generation with each other and with the Thrift type system, and the structure of the runtime field-writer helpers: the wire-type, reader and writer tables of the Go generator (extracted from the switch statements over the IDL type name) agree with the reference table of the Thrift specification for every base and container type and for enums/structs, and are exhaustive over the parser's base and container type sets; " +
		"every frugal.WriteXWithContext helper announces the wire type that matches the value writer it then calls, brackets it WriteFieldBegin ≺ value ≺ WriteFieldEnd exactly once on every successful path and propagates every error; args/result struct synthesis makes result fields optional, puts success at id 0 and never leaves an argument optional. Not decided: values and round trips, the three protocols (runtime), typedef resolution across includes, IDL constructs outside the templates' table structure."
	cc := LoadCC(ctx)
	if !cc.OK() {
		return
	}
	ctx.Rule("C02.R1", "generator type tables agree with the Thrift reference table (wire type, read method, write method + cast)", 30)
	ctx.Rule("C02.R2", "tables are exhaustive over parser.frugalBaseTypes / frugalContainerTypes", 3)
	ctx.Rule("C02.R3", "runtime field-writer siblings: announced wire type matches the value writer; Begin ≺ value ≺ End exactly once; errors propagated", 20)
	ctx.Rule("C02.R6", "qualified-name discipline: a map lookup keyed by the unqualified type name (ParamName) happens only after the include qualifier (IncludeName) was tested", 1)
	ctx.Rule("C02.R5", "args/result synthesis: result fields optional, success id 0, argument fields never optional", 3)

	ctx.Rule("C02.R7", "alias agreement: every switch of the Go generator over the IDL type name handles `byte` and `i8` alike", 6)
	aliasAgreement(ctx, cc, "C02.R7", map[string]bool{"golang": true}, "an i8 field is generated differently from a byte field (pointer-ness, wire type, reader/writer)")
	c02KindIndependence(ctx, cc)
	ctx.Rule("C02.R9", "typedef resolution across includes: the aliased type of a typedef is resolved by the program whose index the alias was found in", 1)
	typedefResolverAgreement(ctx, cc, "C02.R9")
	scalarClassification(ctx, cc, "C02.R11")
	c02UnionGuard(ctx, cc)
	c02DoubleWidth(ctx, cc)
	c02ArgsNormalised(ctx, cc)
	c02RequalifyEveryKind(ctx, cc, "C02.R20")
	c10EnumMarker(ctx, cc, "C02.R15")
	ctx.Rule("C02.R12", "typedef/type resolution is not cached across programs: a generator map field that memoises what the current program resolves is dropped where the program is switched", 1)
	generatorCaches(ctx, cc, "C02.R12")

	var gpkg, ppkg *packages.Package
	for _, p := range cc.V.Pkgs {
		switch p.Name {
		case "golang":
			gpkg = p
		case "parser":
			ppkg = p
		}
	}
	if gpkg == nil || ppkg == nil {
		ctx.Unresolved("C02.R1", "packages", "golang generator / parser package not loaded")
		return
	}
	// base/container sets from the parser
	keysOfMapLit := func(name string) []string {
		var out []string
		for _, f := range ppkg.Syntax {
			ast.Inspect(f, func(n ast.Node) bool {
				vs, ok := n.(*ast.ValueSpec)
				if !ok {
					return true
				}
				for i, id := range vs.Names {
					if id.Name == name && i < len(vs.Values) {
						if cl, ok := vs.Values[i].(*ast.CompositeLit); ok {
							for _, e := range cl.Elts {
								if kv, ok := e.(*ast.KeyValueExpr); ok {
									if bl, ok := kv.Key.(*ast.BasicLit); ok {
										s, _ := strconv.Unquote(bl.Value)
										out = append(out, s)
									}
								}
							}
						}
					}
				}
				return true
			})
		}
		sort.Strings(out)
		return out
	}
	base := keysOfMapLit("frugalBaseTypes")
	cont := keysOfMapLit("frugalContainerTypes")
	if len(base) == 0 || len(cont) == 0 {
		ctx.Unresolved("C02.R2", "frugalBaseTypes", "base/container type sets not found in the parser")
		return
	}
	for _, b := range append(append([]string{}, base...), cont...) {
		if _, ok := thriftRef[b]; !ok {
			ctx.Violate("C02.R2", "parser type "+b+" › known to the Thrift reference table", "compiler/parser/types.go", "the parser accepts a base/container type the reference table does not know")
		}
	}

	tables := []struct {
		fn    string
		kind  string // wire | read | write
		types []string
	}{
		{"getEnumFromThriftType", "wire", append(append([]string{}, base...), cont...)},
		{"generateReadFieldRec", "read", base},
		{"generateWriteFieldRec", "write", base},
	}
	for _, t := range tables {
		fd := findFuncDecl(gpkg, t.fn)
		if fd == nil {
			ctx.Unresolved("C02.R1", "golang."+t.fn, "generator function not found")
			continue
		}
		pos := cc.V.Pos(fd.Pos())
		tab := switchTable(gpkg, fd)
		missing := []string{}
		for _, ty := range t.types {
			got, ok := tab[ty]
			if !ok {
				missing = append(missing, ty)
				continue
			}
			ref := thriftRef[ty]
			construct := "golang." + t.fn + " › " + ty
			switch t.kind {
			case "wire":
				ctx.Check(got == "thrift."+ref.Wire, "C02.R1", construct+" wire type", pos, got, "IDL type "+ty+" is announced on the wire as "+got+" but Thrift says thrift."+ref.Wire+": other Thrift implementations skip or misread the field")
			case "read":
				ctx.Check(got == ref.Method, "C02.R1", construct+" read method", pos, "Read"+got, "IDL type "+ty+" is read with Read"+got+" but must be read with Read"+ref.Method)
			case "write":
				okM := strings.HasPrefix(got, ref.Method+"(ctx, ")
				cast := map[string]string{"Bool": "bool", "Byte": "int8", "I16": "int16", "I32": "int32", "I64": "int64", "Double": "float64", "String": "string", "Binary": "[]byte"}[ref.Method]
				okC := strings.Contains(got, cast+"(%s)")
				ctx.Check(okM && okC, "C02.R1", construct+" write method and cast", pos, "Write"+got, "IDL type "+ty+" is written with Write"+got+" but must be Write"+ref.Method+"(ctx, "+cast+"(v))")
			}
		}
		ctx.Check(len(missing) == 0, "C02.R2", "golang."+t.fn+" › has a case for every "+t.kind+" type of the parser", pos, sprintf("%d types", len(t.types)), "no case for "+strings.Join(missing, ", ")+": a valid IDL using it panics in the generator or falls into the wrong branch")
		// enum / struct fallbacks
		switch t.kind {
		case "wire":
			ctx.Check(tab["<enum>"] == "thrift.I32", "C02.R1", "golang."+t.fn+" › enum wire type", pos, tab["<enum>"], "enums must be announced as thrift.I32")
			ctx.Check(tab["<struct>"] == "thrift.STRUCT", "C02.R1", "golang."+t.fn+" › struct wire type", pos, tab["<struct>"], "structs must be announced as thrift.STRUCT")
		case "read":
			ctx.Check(tab["<enum>"] == "I32", "C02.R1", "golang."+t.fn+" › enum read method", pos, "Read"+tab["<enum>"], "enums must be read with ReadI32")
		case "write":
			ctx.Check(strings.HasPrefix(tab["<enum>"], "I32(ctx, int32("), "C02.R1", "golang."+t.fn+" › enum write method", pos, "Write"+tab["<enum>"], "enums must be written with WriteI32(ctx, int32(v))")
		}
	}

	// ---- R3 runtime helper siblings --------------------------------------------------------
	r := LoadRT(ctx, "", "")
	if r.OK() {
		c02HelperNames(ctx, cc, base, func(name string) bool { return r.Pkg.Func(name) != nil })
		for _, fn := range r.Fns {
			name := fn.Name()
			if fn.Signature.Recv() != nil || !strings.HasPrefix(name, "Write") || !strings.HasSuffix(name, "WithContext") {
				continue
			}
			kind := strings.TrimSuffix(strings.TrimPrefix(name, "Write"), "WithContext")
			var proto *ssa.Parameter
			for _, p := range fn.Params {
				if ssax.TypeNamed(p.Type(), "thrift", "TProtocol") {
					proto = p
				}
			}
			if proto == nil {
				continue
			}
			isM := func(m string) ssax.Pred {
				return func(in ssa.Instruction) bool {
					c, ok := ssax.AsCall(in)
					return ok && c.Method != nil && c.Method.Name() == m && ssax.Strip(c.Common.Value) == ssa.Value(proto)
				}
			}
			valueWriter := "Write" + kind
			isValue := isM(valueWriter)
			wantWire := ""
			for _, ref := range thriftRef {
				if ref.Method == kind {
					wantWire = ref.Wire
				}
			}
			if kind == "Struct" {
				wantWire = "STRUCT"
				isValue = func(in ssa.Instruction) bool {
					c, ok := ssax.AsCall(in)
					if !ok || c.ShortName() != "Write" {
						return false
					}
					for _, a := range c.Common.Args {
						if ssax.Strip(a) == ssa.Value(proto) {
							return true
						}
					}
					return false
				}
			}
			if wantWire == "" {
				continue
			}
			steps := []seqStep{{"WriteFieldBegin", isM("WriteFieldBegin")}, {valueWriter, isValue}, {"WriteFieldEnd", isM("WriteFieldEnd")}}
			checkSequence(ctx, r, "C02.R3", name+" › field bracket", fn, nil, steps, successReturn)
			// announced type
			for _, c := range ssax.Calls(fn) {
				if c.Method != nil && c.Method.Name() == "WriteFieldBegin" {
					k, ok := ssax.ConstInt(c.Common.Args[2])
					ctx.Check(ok && k == ttypeValue[wantWire], "C02.R3", name+" › announces thrift."+wantWire, r.IPos(c.Instr), sprintf("TType %d", k), sprintf("the helper announces wire type %d but writes a %s value (thrift.%s = %d): readers skip or misdecode the field", k, kind, wantWire, ttypeValue[wantWire]))
					// name and id parameters are passed through
					okArgs := false
					if len(c.Common.Args) == 4 {
						_, isP1 := ssax.Strip(c.Common.Args[1]).(*ssa.Parameter)
						_, isP3 := ssax.Strip(c.Common.Args[3]).(*ssa.Parameter)
						okArgs = isP1 && isP3
					}
					ctx.Check(okArgs, "C02.R3", name+" › field name and id are the caller's", r.IPos(c.Instr), "parameters passed through", "the helper does not announce the field name/id it was given")
				}
				// the value written is the value given: the caller's parameter itself (through
				// conversions), not something computed from it — a helper that "normalises"
				// what it writes (NaN/±Inf to 0, empty to nil …) puts another value on the wire
				if c.Method != nil && c.Method.Name() == valueWriter && kind != "Struct" && len(c.Common.Args) >= 2 {
					v := ssax.Strip(c.Common.Args[len(c.Common.Args)-1])
					for {
						if cv, ok := v.(*ssa.Convert); ok {
							v = ssax.Strip(cv.X)
							continue
						}
						if ct, ok := v.(*ssa.ChangeType); ok {
							v = ssax.Strip(ct.X)
							continue
						}
						break
					}
					_, isParam := v.(*ssa.Parameter)
					ctx.Check(isParam, "C02.R3", name+" › writes the value it was given", r.IPos(c.Instr), "the argument of "+valueWriter+" is the value parameter", "the helper writes a value computed from its argument ("+v.String()+") instead of the argument: the peer decodes something the sender never set")
				}
				// every step's error is tested
				if c.Method != nil && (c.Method.Name() == "WriteFieldBegin" || c.Method.Name() == "WriteFieldEnd" || c.Method.Name() == valueWriter) {
					v := c.Instr.Value()
					ctx.Check(v != nil && errNilSuccessor(v) != nil, "C02.R3", name+" › error of "+c.Method.Name()+" is propagated", r.IPos(c.Instr), "err != nil ⇒ return", "a write error is ignored: a truncated encoding is reported as success")
				}
			}
		}
	}

	// ---- R6 ------------------------------------------------------------------------------------
	if pp := cc.Pkg("parser"); pp != nil {
		for _, fn := range cc.Fns {
			if fn.Pkg != pp {
				continue
			}
			var lookups []*ssa.Lookup
			ssax.Instrs(fn, func(in ssa.Instruction) {
				lk, ok := in.(*ssa.Lookup)
				if !ok {
					return
				}
				if _, isMap := lk.X.Type().Underlying().(*types.Map); !isMap {
					return
				}
				if c, isC := CallValue(lk.Index); isC && c.ShortName() == "ParamName" {
					lookups = append(lookups, lk)
				}
			})
			for i, lk := range lookups {
				pc, _ := CallValue(lk.Index)
				typ := ssax.Strip(pc.Common.Args[0])
				// the test of IncludeName() of the same type value against ""
				var test ssa.Instruction
				ssax.Instrs(fn, func(in ssa.Instruction) {
					iff, ok := in.(*ssa.If)
					if !ok {
						return
					}
					bo, ok := iff.Cond.(*ssa.BinOp)
					if !ok {
						return
					}
					if ic, isC := CallValue(bo.X); isC && ic.ShortName() == "IncludeName" && ssax.Strip(ic.Common.Args[0]) == typ {
						if s, isS := ConstString(bo.Y); isS && s == "" {
							// any such test that dominates the lookup will do (there may be later ones)
							if test == nil || !ssax.Dominates(test, lk) {
								test = in
							}
						}
					}
				})
				construct := QName(fn) + sprintf(" › lookup #%d by unqualified name", i+1)
				// … or the map consulted is itself selected by the qualifier (index of the
				// declaring file obtained from a helper that is handed IncludeName())
				selected := false
				ssax.Instrs(fn, func(in ssa.Instruction) {
					if ic, isC := ssax.AsCall(in); isC && ic.ShortName() == "IncludeName" && len(ic.Common.Args) > 0 && ssax.Strip(ic.Common.Args[0]) == typ {
						if v, isV := in.(ssa.Value); isV && dependsOn(lk.X, v, 0) {
							selected = true
						}
					}
				})
				// … possibly inside a helper that is handed the type and asks for its IncludeName() there
				if !selected {
					ssax.Instrs(fn, func(in ssa.Instruction) {
						c, isC := in.(*ssa.Call)
						if !isC || selected {
							return
						}
						g := c.Call.StaticCallee()
						if g == nil || g.Pkg != fn.Pkg || len(g.Blocks) == 0 || !dependsOn(lk.X, c, 0) {
							return
						}
						for i, a := range c.Call.Args {
							if ssax.Strip(a) != typ || i >= len(g.Params) {
								continue
							}
							for _, c2 := range ssax.Calls(g) {
								if c2.ShortName() == "IncludeName" && len(c2.Common.Args) > 0 && ssax.Strip(c2.Common.Args[0]) == ssa.Value(g.Params[i]) {
									selected = true
								}
							}
						}
					})
				}
				if selected {
					ctx.Discharge("C02.R6", construct, cc.IPos(lk), "the map consulted is chosen from the type's IncludeName()")
					continue
				}
				if test == nil {
					ctx.Violate("C02.R6", construct, cc.IPos(lk), "a type is looked up by its unqualified name without ever testing its include qualifier: 'Count' and 'inc.Count' resolve to the same entry")
					continue
				}
				ctx.Check(ssax.Dominates(test, lk), "C02.R6", construct, cc.IPos(lk), "dominated by the IncludeName() != \"\" test",
					"a map is consulted with the unqualified type name before the include qualifier is considered (e.g. a per-file cache keyed by ParamName): same-named typedefs of different files resolve to whichever was seen first, so the generated wire type is wrong")
			}
		}
	}

	// ---- R5 ------------------------------------------------------------------------------------
	if fn := cc.FnOpt("generator", "(*BaseGenerator).GetServiceMethodTypes"); fn != nil {
		optional, def := int64(-1), int64(-1)
		if pp := cc.Pkg("parser"); pp != nil {
			for name, m := range pp.Members {
				if c, ok := m.(*ssa.NamedConst); ok {
					if name == "Optional" {
						optional = c.Value.Int64()
					}
					if name == "Default" {
						def = c.Value.Int64()
					}
				}
			}
		}
		resOpt, argFix, succ0 := false, false, false
		// the synthesis may be split into helpers of the same package
		scan := func(f func(in ssa.Instruction)) {
			for _, g := range localCone(fn, 2) {
				ssax.Instrs(g, f)
			}
		}
		scan(func(in ssa.Instruction) {
			if st, ok := in.(*ssa.Store); ok && fieldNameOfAddr(st.Addr) == "Modifier" {
				if k, isK := ssax.ConstInt(st.Val); isK {
					if k == optional && inCycle(in) {
						resOpt = true
					}
					if k == def {
						argFix = true
					}
				}
			}
			if c, ok := ssax.AsCall(in); ok && c.ShortName() == "FieldFromType" {
				if s, isS := ConstString(c.Common.Args[1]); isS && s == "success" {
					// stored at index 0 of the result fields
					for _, u := range *c.Instr.Value().Referrers() {
						if st, ok := u.(*ssa.Store); ok {
							if ia, ok := st.Addr.(*ssa.IndexAddr); ok {
								if z, k := ssax.ConstInt(ia.Index); k && z == 0 {
									succ0 = true
								}
							}
						}
					}
				}
			}
		})
		pos := cc.FPos(fn)
		ctx.Check(resOpt, "C02.R5", "GetServiceMethodTypes › every result field is optional", pos, "field.Modifier = Optional in the loop over result fields", "result fields are not forced optional: an unset success/exception field is written")
		ctx.Check(argFix, "C02.R5", "GetServiceMethodTypes › optional arguments become default", pos, "Optional ⇒ Default", "argument fields can stay optional: unset arguments are not written")
		ctx.Check(succ0, "C02.R5", "GetServiceMethodTypes › success is the first result field", pos, "fields[0] = FieldFromType(ReturnType, \"success\")", "the return value is not the 'success' field at the head of the result struct")
		// FieldFromType gives id 0
		if fft := cc.FnOpt("parser", "FieldFromType"); fft != nil {
			ok := false
			ssax.Instrs(fft, func(in ssa.Instruction) {
				if st, isSt := in.(*ssa.Store); isSt && fieldNameOfAddr(st.Addr) == "ID" {
					if z, k := ssax.ConstInt(st.Val); k && z == 0 {
						ok = true
					}
				}
			})
			ctx.Check(ok, "C02.R5", "FieldFromType › synthesized field has id 0", cc.FPos(fft), "ID: 0", "the synthesized success field does not have id 0")
		}
	} else {
		ctx.Unresolved("C02.R5", "GetServiceMethodTypes", "function not found")
	}

	// ---- R13: no generator invents a field id ---------------------------------------------------
	ctx.Rule("C02.R13", "field ids are the IDL's: outside the parser, a store to parser.Field.ID stores a declared field's ID (or a constant), never a computed number", 1)
	{
		nStores, nPkgs := 0, 0
		seenPkg := map[*ssa.Package]bool{}
		for _, fn := range cc.Fns {
			if fn.Pkg == nil || !strings.Contains(fn.Pkg.Pkg.Path(), "/compiler/generator") {
				continue
			}
			if !seenPkg[fn.Pkg] {
				seenPkg[fn.Pkg] = true
				nPkgs++
			}
			ssax.Instrs(fn, func(in ssa.Instruction) {
				st, ok := in.(*ssa.Store)
				if !ok {
					return
				}
				fa, ok := st.Addr.(*ssa.FieldAddr)
				if !ok || fieldNameOfAddr(fa) != "ID" || !ssax.TypeNamed(fa.X.Type(), "parser", "Field") {
					return
				}
				nStores++
				v := ssax.Strip(st.Val)
				ok = false
				if _, isK := v.(*ssa.Const); isK {
					ok = true
				}
				if ld, isLd := v.(*ssa.UnOp); isLd && ld.Op == token.MUL && fieldNameOfAddr(ld.X) == "ID" {
					if f2, isFA := ld.X.(*ssa.FieldAddr); isFA && ssax.TypeNamed(f2.X.Type(), "parser", "Field") {
						ok = true
					}
				}
				ctx.Check(ok, "C02.R13", QName(fn)+sprintf(" › field id store #%d takes a declared id", nStores), cc.IPos(st), "the stored value is the ID of a parsed field or a constant",
					"a field id is computed by the generator ("+st.Val.String()+") instead of taken from the declaration: for a throws clause or argument list not numbered 1..n the generated struct writes/reads a field under an id the IDL gives to another field, so a conforming peer decodes the wrong field or skips it")
			})
		}
		ctx.Check(nPkgs >= 5, "C02.R13", "generator packages › stores to parser.Field.ID examined", "", sprintf("%d generator package(s), %d store(s) to Field.ID", nPkgs, nStores), "generator packages not loaded")
	}
	_ = types.Typ
}

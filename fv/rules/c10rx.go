package rules

import (
	"go/token"
	"go/types"
	"strings"

	"fv/internal/core"
	"fv/internal/rx"
	"fv/internal/ssax"

	"golang.org/x/tools/go/ssa"
)

// c10Regexps — C10.R13: the scope prefix "foo.{user_id}.bar" is not parsed by
// the grammar: the builder of a ScopePrefix collects the `{…}` groups with one
// regular expression and validates each name with another. Which prefixes the
// parser accepts, and which variables the model then lists, is therefore the
// language of those two expressions. The rule compiles the patterns the code
// uses today (resolved through the package-level variable or the call that
// built them) and decides language inclusion against the confirmed reference:
//
//	collector  every group `{w}`, w ∈ \w+, is matched as a whole
//	validator  every w ∈ \w+ that starts with a letter followed by a letter or
//	           digit (`^[A-Za-z]+[A-Za-z0-9]`, the set accepted at the pinned
//	           commit — it contains every identifier with underscores such as
//	           user_id) is accepted
//
// The decision is inclusion of regular languages (subset construction over the
// compiled programs), not a comparison of pattern text: any pattern accepting
// at least the reference set is silent.
var c10RegexpReference = []struct {
	role    string
	methods string   // method-name prefix of *regexp.Regexp
	domain  []string // the strings the expression is applied to
	whole   bool     // the expression must match the whole string (collector)
	detail  string
}{
	{"validator", "Match", []string{`^\w+$`, `^[A-Za-z]+[A-Za-z0-9]`}, false,
		"a prefix variable the parser accepts today (letters, digits and underscores after a leading letter, e.g. {user_id}) is rejected as invalid: a syntactically valid scope no longer parses"},
	{"collector", "Find", []string{`^\{\w+\}$`}, true,
		"a `{name}` group of the prefix is no longer collected as a whole: the model's variable list differs from the variables the prefix declares"},
}

func c10Regexps(ctx *core.Ctx, cc *CC) {
	ctx.Rule("C10.R13", "the regular expressions that collect and validate scope prefix variables accept at least the confirmed reference languages (decided by language inclusion, not by text)", 2)
	pp := cc.Pkg("parser")
	if pp == nil {
		return
	}
	// the builder(s) of a ScopePrefix: a parser function with a string
	// parameter that allocates the struct and returns it
	var builders []*ssa.Function
	for _, fn := range cc.Fns {
		if fn.Pkg != pp || fn.Signature.Recv() != nil {
			continue
		}
		res := fn.Signature.Results()
		if res.Len() == 0 || !isPtrToNamed(res.At(0).Type(), "ScopePrefix") {
			continue
		}
		hasStr := false
		for i := 0; i < fn.Signature.Params().Len(); i++ {
			if b, ok := fn.Signature.Params().At(i).Type().Underlying().(*types.Basic); ok && b.Kind() == types.String {
				hasStr = true
			}
		}
		if hasStr {
			builders = append(builders, fn)
		}
	}
	if len(builders) == 0 {
		ctx.Undecided("C10.R13", "builder of ScopePrefix", "", "no parser function with a string parameter returns *ScopePrefix (anchor lost)")
		return
	}
	found := map[string]int{}
	for _, b := range builders {
		for _, fn := range localCone(b, 3) {
			for _, c := range ssax.Calls(fn) {
				if c.Static == nil || c.Static.Signature.Recv() == nil || !isPtrToNamed(c.Static.Signature.Recv().Type(), "Regexp") ||
					c.Static.Pkg == nil || c.Static.Pkg.Pkg.Path() != "regexp" {
					continue
				}
				m := c.Static.Name()
				for _, ref := range c10RegexpReference {
					if !strings.HasPrefix(m, ref.methods) {
						continue
					}
					found[ref.role]++
					construct := QName(fn) + " › " + ref.role + " of prefix variables (" + m + sprintf(" #%d)", found[ref.role])
					pat, ok := regexpPattern(c.Common.Args[0], pp)
					if !ok {
						ctx.Undecided("C10.R13", construct, cc.IPos(c.Instr), "the pattern of the regular expression is not a constant reachable through a package-level variable or a local Compile/MustCompile")
						continue
					}
					by := pat
					if ref.whole {
						by = `^(?:` + pat + `)$`
					}
					inc, witness, err := rx.Includes(ref.domain, by)
					if err != nil {
						ctx.Undecided("C10.R13", construct, cc.IPos(c.Instr), "language inclusion not decided: "+err.Error())
						continue
					}
					ctx.Check(inc, "C10.R13", construct, cc.IPos(c.Instr),
						sprintf("pattern %q accepts every string of the reference language %v", pat, ref.domain),
						sprintf("pattern %q does not match %q, which the reference language %v contains — ", pat, witness, ref.domain)+ref.detail)
					if ref.role == "validator" {
						// and the other way round for what must be refused: a variable becomes a
						// parameter name in every target language, so whatever the validator lets
						// through (among \w+) starts with a letter
						inc2, w2, err2 := rx.Includes([]string{`^\w+$`, pat}, `^[A-Za-z]`)
						if err2 != nil {
							ctx.Undecided("C10.R13", construct+" refuses non-identifiers", cc.IPos(c.Instr), "language inclusion not decided: "+err2.Error())
						} else {
							ctx.Check(inc2, "C10.R13", construct+" refuses non-identifiers", cc.IPos(c.Instr),
								sprintf("every \\w+ string that pattern %q accepts starts with a letter", pat),
								sprintf("pattern %q accepts %q, which does not start with a letter: the `invalid prefix variable` diagnostic no longer fires, the compiler exits 0 and emits the name as a parameter (`def publish_X(self, ctx, %s, req)`) — malformed Python/Java/Dart", pat, w2, w2))
						}
					}
				}
			}
		}
	}
	for _, ref := range c10RegexpReference {
		if found[ref.role] == 0 {
			// the step is not done with a regular expression (hand-written
			// scanner): this rule has nothing to decide for it
			ctx.Check(true, "C10.R13", "builder of ScopePrefix › "+ref.role+" of prefix variables", cc.FPos(builders[0]),
				"no regular expression is used for this step; language inclusion does not apply (not covered by this rule)", "")
		}
	}
}

func isPtrToNamed(t types.Type, name string) bool {
	p, ok := t.(*types.Pointer)
	if !ok {
		return false
	}
	n, ok := p.Elem().(*types.Named)
	return ok && n.Obj().Name() == name
}

// regexpPattern: the constant pattern behind a *regexp.Regexp value — a local
// Compile/MustCompile call, or a load of a package-level variable that the
// package initialiser (or any function of the package, if exactly one store
// exists) sets from such a call.
func regexpPattern(v ssa.Value, pkg *ssa.Package) (string, bool) {
	v = ssax.Strip(v)
	switch x := v.(type) {
	case *ssa.Call:
		if f := x.Call.StaticCallee(); f != nil && f.Pkg != nil && f.Pkg.Pkg.Path() == "regexp" && (f.Name() == "MustCompile" || f.Name() == "Compile") && len(x.Call.Args) == 1 {
			return ConstString(x.Call.Args[0])
		}
	case *ssa.Extract:
		return regexpPattern(x.Tuple, pkg)
	case *ssa.UnOp:
		if x.Op != token.MUL {
			return "", false
		}
		g, ok := x.X.(*ssa.Global)
		if !ok {
			return "", false
		}
		var vals []ssa.Value
		for _, m := range g.Pkg.Members {
			fn, isFn := m.(*ssa.Function)
			if !isFn {
				continue
			}
			ssax.Instrs(fn, func(in ssa.Instruction) {
				if st, isSt := in.(*ssa.Store); isSt && st.Addr == g {
					vals = append(vals, st.Val)
				}
			})
		}
		if len(vals) != 1 {
			return "", false
		}
		return regexpPattern(vals[0], pkg)
	}
	return "", false
}

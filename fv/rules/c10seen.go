package rules

import (
	"sort"

	"fv/internal/core"
	"fv/internal/ssax"

	"golang.org/x/tools/go/ssa"
)

// natLoop is a natural loop of a function's CFG.
type natLoop struct {
	head *ssa.BasicBlock
	body map[*ssa.BasicBlock]bool
}

// naturalLoops: one loop per header (back edges p→h with h dominating p).
func naturalLoops(fn *ssa.Function) []*natLoop {
	byHead := map[*ssa.BasicBlock]*natLoop{}
	var out []*natLoop
	for _, b := range fn.Blocks {
		for _, h := range b.Succs {
			if !h.Dominates(b) {
				continue
			}
			l := byHead[h]
			if l == nil {
				l = &natLoop{head: h, body: map[*ssa.BasicBlock]bool{h: true}}
				byHead[h] = l
				out = append(out, l)
			}
			stack := []*ssa.BasicBlock{b}
			for len(stack) > 0 {
				x := stack[len(stack)-1]
				stack = stack[:len(stack)-1]
				if l.body[x] {
					continue
				}
				l.body[x] = true
				stack = append(stack, x.Preds...)
			}
		}
	}
	sort.Slice(out, func(i, j int) bool { return len(out[i].body) > len(out[j].body) }) // outer first
	return out
}

// induction: the loop's index φ, or that φ plus a constant (go/ssa numbers a
// range over a slice from -1 and indexes with φ+1).
func (l *natLoop) induction(v ssa.Value) bool {
	if bo, ok := v.(*ssa.BinOp); ok {
		if _, isK := bo.Y.(*ssa.Const); isK {
			v = bo.X
		}
	}
	ph, ok := v.(*ssa.Phi)
	return ok && ph.Block() == l.head
}

// collection of a loop: the slice/array/map its trips walk over (the operand
// of the range, or the value indexed by the loop's induction φ).
func (l *natLoop) collections() []ssa.Value {
	var out []ssa.Value
	for b := range l.body {
		for _, in := range b.Instrs {
			switch x := in.(type) {
			case *ssa.Next:
				if rg, ok := x.Iter.(*ssa.Range); ok {
					out = append(out, rg.X)
				}
			case *ssa.IndexAddr:
				if l.induction(x.Index) {
					out = append(out, x.X)
				}
			case *ssa.Index:
				if l.induction(x.Index) {
					out = append(out, x.X)
				}
			}
		}
	}
	return out
}

// c10SeenSets — C10.R14: duplicate detection is scoped to the declaring
// container. A map used as a seen-set (a comma-ok lookup and an insertion)
// whose insertions happen in a loop over the members of a container (methods
// of a service, operations of a scope, arguments of a method) — a collection
// that is itself obtained inside an enclosing loop over the containers — is
// allocated inside that enclosing loop. Hoisted above it, names declared in
// different containers collide and a valid IDL is rejected as a duplicate.
func c10SeenSets(ctx *core.Ctx, cc *CC) {
	ctx.Rule("C10.R14", "duplicate detection is per container: a seen-set filled in a loop over the members of each container is allocated once per container", 2)
	pp := cc.Pkg("parser")
	if pp == nil {
		return
	}
	for _, fn := range cc.Fns {
		if fn.Pkg != pp {
			continue
		}
		var loops []*natLoop
		ord := 0
		ssax.Instrs(fn, func(in ssa.Instruction) {
			mm, ok := in.(*ssa.MakeMap)
			if !ok || mm.Referrers() == nil {
				return
			}
			var ups []*ssa.MapUpdate
			seenTest := false
			for _, u := range *mm.Referrers() {
				switch x := u.(type) {
				case *ssa.MapUpdate:
					if x.Map == ssa.Value(mm) {
						ups = append(ups, x)
					}
				case *ssa.Lookup:
					if x.CommaOk && x.X == ssa.Value(mm) && rejectsWhenPresent(x) {
						seenTest = true
					}
				}
			}
			if !seenTest || len(ups) == 0 {
				return
			}
			if loops == nil {
				loops = naturalLoops(fn)
			}
			for _, up := range ups {
				var around []*natLoop // loops containing the insertion, outer first
				for _, l := range loops {
					if l.body[up.Block()] {
						around = append(around, l)
					}
				}
				if len(around) < 2 {
					continue
				}
				inner := around[len(around)-1]
				colls := inner.collections()
				if len(colls) == 0 {
					continue
				}
				ord++
				bad := ""
				for _, outer := range around[:len(around)-1] {
					if outer.body[mm.Block()] {
						continue // allocated per trip of this loop
					}
					for _, c := range colls {
						if ci, isI := c.(ssa.Instruction); isI && outer.body[ci.Block()] {
							bad = "the set is allocated outside an enclosing loop although the members it records (" + c.String() + ") belong to one element of that loop"
						}
					}
				}
				ctx.Check(bad == "", "C10.R14", QName(fn)+sprintf(" › seen-set %s #%d lives as long as its container", mm.Name(), ord), cc.IPos(mm),
					"allocated inside every enclosing loop in which the recorded collection is obtained", bad+": members of different containers are taken for duplicates of each other and a valid IDL is rejected")
			}
		})
	}
}

// rejectsWhenPresent: the "found" result of the comma-ok lookup decides a
// branch whose taken side returns an error (the set detects duplicates; a set
// that merely de-duplicates a union does not reject anything).
func rejectsWhenPresent(lk *ssa.Lookup) bool {
	fn := lk.Parent()
	for _, u := range *lk.Referrers() {
		e, ok := u.(*ssa.Extract)
		if !ok || e.Index != 1 || e.Referrers() == nil {
			continue
		}
		for _, u2 := range *e.Referrers() {
			iff, ok := u2.(*ssa.If)
			if !ok {
				continue
			}
			found := iff.Block().Succs[0]
			for _, b := range fn.Blocks {
				if len(b.Instrs) == 0 || !(b == found || found.Dominates(b)) {
					continue
				}
				if ret, isRet := b.Instrs[len(b.Instrs)-1].(*ssa.Return); isRet && len(ret.Results) > 0 && !nilErrorReturn(ret) {
					if isErrorType(ret.Results[len(ret.Results)-1].Type()) {
						return true
					}
				}
			}
		}
	}
	return false
}

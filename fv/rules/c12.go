package rules

import (
	"go/token"
	"go/types"
	"strings"

	"fv/internal/bounds"
	"fv/internal/core"
	"fv/internal/lin"
	"fv/internal/ssax"

	"golang.org/x/tools/go/ssa"
)

// appenders of bytes.Buffer / thrift.TMemoryBuffer and the number of bytes they add.
var embeddedAppenders = map[string]string{"Write": "len(arg)", "WriteString": "len(arg)", "WriteByte": "1", "WriteRune": "?", "ReadFrom": "?"}

// rejectEdge describes an If whose true or false edge leads to a block
// returning a "too large" error (or answering 413).
type rejectEdge struct {
	If    *ssa.If
	Taken bool // reject when the condition is true
	Block *ssa.BasicBlock
	Kind  int64
	Is413 bool
}

func tooLargeReturns(r *RT, fn *ssa.Function) map[*ssa.BasicBlock]int64 {
	return tooLargeReturnsD(r, fn, false)
}

// tooLargeReturnsD: with deep, a too-large error built by a guard helper of the
// package and handed on counts too.
func tooLargeReturnsD(r *RT, fn *ssa.Function, deep bool) map[*ssa.BasicBlock]int64 {
	out := map[*ssa.BasicBlock]int64{}
	isTL := func(v ssa.Value) (int64, bool) {
		k, ok := ExceptionKind(v, "thrift.NewTTransportException")
		return k, ok && (k == constInt(r, "TRANSPORT_EXCEPTION_REQUEST_TOO_LARGE") || k == constInt(r, "TRANSPORT_EXCEPTION_RESPONSE_TOO_LARGE"))
	}
	for ret, vs := range ReturnedValues(fn) {
		for _, v := range vs {
			if k, ok := isTL(v); ok {
				out[ret.Block()] = k
				continue
			}
			// the error may be built by a guard helper and handed on
			if deep && isErrorType(v.Type()) {
				for _, o := range errorOrigins(r, v, func(x ssa.Value) bool { _, ok := isTL(x); return ok }, 2) {
					if k, ok := isTL(o); ok {
						out[ret.Block()] = k
					}
				}
			}
		}
	}
	return out
}

func findRejectEdges(r *RT, fn *ssa.Function) []rejectEdge {
	var out []rejectEdge
	tl := tooLargeReturns(r, fn)
	// 413 answers
	is413 := map[*ssa.BasicBlock]bool{}
	for _, c := range ssax.CallsTo(fn, "net/http.Error") {
		if k, ok := ssax.ConstInt(c.Common.Args[2]); ok && k == 413 {
			is413[c.Instr.Block()] = true
		}
	}
	for _, b := range fn.Blocks {
		iff, ok := b.Instrs[len(b.Instrs)-1].(*ssa.If)
		if !ok {
			continue
		}
		for i, s := range b.Succs {
			if len(s.Preds) != 1 {
				continue
			}
			if k, ok := tl[s]; ok {
				out = append(out, rejectEdge{iff, i == 0, s, k, false})
			} else if is413[s] {
				out = append(out, rejectEdge{iff, i == 0, s, 0, true})
			}
		}
	}
	return out
}

// C12 — size limits enforced exactly and reported.
func C12(ctx *core.Ctx) {
	ctx.Explanation = "Decides for all payload shapes and limits the structural conditions of exact size limiting: every way of appending to the bounded output buffer is a method declared on it that goes through the limit guard (no promoted writer bypasses it); " +
		"every size guard is exactly 'bytes after this write/transmit > limit' (strict, proved equivalent by the linear prover, with 'limit > 0 &&' wherever 0 means unbounded); every transmission is dominated by the guard's pass edge and the reject edge returns REQUEST_TOO_LARGE; " +
		"on the response side every write step of SendReply routes its error through trapError, which turns a too-large error into an application exception RESPONSE_TOO_LARGE that the client maps back to a RESPONSE_TOO_LARGE transport error (HTTP: 413 both ways); the client's buffer limit is the transport's own limit. " +
		"Not decided: behaviour through real encoders for all payload shapes (the buffer rule makes it independent of the write path taken)."
	r := LoadRT(ctx, "", "")
	if !r.OK() {
		return
	}
	c12RejectionLeavesStateAlone(ctx, r)
	c12ResponseVerdictIsTheServers(ctx, r, "C12.R17")
	ctx.Rule("C12.R1", "no unbounded write path: every appending method in the method set of *TMemoryOutputBuffer is declared on it and reaches the embedded buffer only through the limit guard", 5)
	ctx.Rule("C12.R2", "guard exactness: each size guard rejects iff (bytes after the operation) > limit, with limit > 0 && where 0 means unbounded", 6)
	ctx.Rule("C12.R3", "every transmission is dominated by the pass edge of its transport's guard; the reject edge returns REQUEST_TOO_LARGE", 5)
	ctx.Rule("C12.R4", "response-side conversion: SendReply → trapError → APPLICATION_EXCEPTION_RESPONSE_TOO_LARGE → client RESPONSE_TOO_LARGE; HTTP 413 both ways; IsErrTooLarge knows both kinds", 9)
	c12EncoderErrors(ctx, r)
	ctx.Rule("C12.R8", "argument roles on the reply path: a function that has a `method` parameter passes it on as the callee's `method` (the envelope name the client checks before it looks at the exception)", 4)
	argumentRoles(ctx, r, "C12.R8", map[string]bool{"method": true}, "the reply envelope carries something else than the method name, so the client rejects it as WRONG_METHOD_NAME before it can see RESPONSE_TOO_LARGE")
	ctx.Rule("C12.R9", "server-side limit wiring: a bounded output buffer whose bytes are published on NATS is bounded by the NATS payload constant the client-side guard enforces", 1)
	natsReplyBufferLimit(ctx, r, "C12.R9")
	ctx.Rule("C12.R7", "a rejected oversize request leaves nothing behind: the registration made before the size check is removed on every exit, so the same client and context keep working", 2)
	for _, req := range r.Impl("FTransport", "Request") {
		c01Request(ctx, r, req, "C12.R7", "")
	}
	ctx.Rule("C12.R5", "limit wiring: client buffer limit = transport's GetRequestSizeLimit/GetPublishSizeLimit; Reset restores the frame prefix through the guarded Write", 4)

	cfg := &bounds.Config{IntBits: IntBits(), AssumeLenI32: true, Ideal: true}
	ctx.Assume("guard equivalences are decided over the mathematical integers (buffer lengths far below the int range)")
	pr := bounds.New(cfg)

	// ---- R1 -------------------------------------------------------------------------
	buf := r.Named("TMemoryOutputBuffer")
	if buf == nil {
		ctx.Unresolved("C12.R1", "TMemoryOutputBuffer", "bounded buffer type not found")
		return
	}
	ptr := types.NewPointer(buf)
	ms := r.Pkg.Prog.MethodSets.MethodSet(ptr)
	var guardedWrite *ssa.Function
	declared := map[string]*ssa.Function{}
	for name := range embeddedAppenders {
		sel := ms.Lookup(r.Pkg.Pkg, name)
		if sel == nil {
			continue
		}
		fn := r.Pkg.Prog.MethodValue(sel)
		isDeclared := fn != nil && fn.Synthetic == "" && fn.Signature.Recv() != nil && ssax.TypeNamed(fn.Signature.Recv().Type(), "", "TMemoryOutputBuffer")
		ctx.Check(isDeclared, "C12.R1", "(*TMemoryOutputBuffer)."+name+" › declared on the bounded buffer", fnPos(r, fn),
			"method declared on TMemoryOutputBuffer", "the appending method "+name+" is promoted from the embedded buffer and bypasses the size limit: protocols that write strings/bytes through it exceed the limit silently")
		if isDeclared {
			declared[name] = fn
			if name == "Write" {
				guardedWrite = fn
			}
		}
	}
	isEmbeddedAppend := func(c ssax.Call) (string, bool) {
		if c.Static == nil || c.Static.Signature.Recv() == nil {
			return "", false
		}
		rt := c.Static.Signature.Recv().Type()
		if !(ssax.TypeNamed(rt, "bytes", "Buffer") || ssax.TypeNamed(rt, "thrift", "TMemoryBuffer")) {
			return "", false
		}
		_, ok := embeddedAppenders[c.Static.Name()]
		return c.Static.Name(), ok
	}
	// every declared method of the buffer that appends to the embedded buffer
	for _, fn := range r.Fns {
		if fn.Signature.Recv() == nil || !ssax.TypeNamed(fn.Signature.Recv().Type(), "", "TMemoryOutputBuffer") {
			continue
		}
		fname := ssax.Name(fn)
		for _, c := range ssax.Calls(fn) {
			name, ok := isEmbeddedAppend(c)
			if !ok {
				continue
			}
			// the frame placeholder: right after the embedded Reset() the method appends a
			// constant 4 bytes of framing (not payload) — the buffer then holds exactly the
			// placeholder, whatever the limit
			if len(c.Common.Args) == 2 {
				four := false
				if g, isG := LoadedGlobal(ssax.Strip(c.Common.Args[1])); isG && globalSliceLen(r, g) == 4 {
					four = true
				}
				if mk, isMk := ssax.Strip(c.Common.Args[1]).(*ssa.MakeSlice); isMk {
					if k, isK := ssax.ConstInt(mk.Len); isK && k == 4 {
						four = true
					}
				}
				afterReset := false
				for _, c0 := range ssax.Calls(fn) {
					if c0.ShortName() == "Reset" && c0.Static != nil && c0.Static.Pkg != r.Pkg && ssax.Dominates(c0.Instr.(ssa.Instruction), c.Instr.(ssa.Instruction)) {
						afterReset = true
					}
				}
				if four && afterReset {
					ctx.Discharge("C12.R1", fname+" › frame placeholder after the embedded Reset", r.IPos(c.Instr), "constant 4 bytes of framing written into the just-emptied buffer")
					continue
				}
			}
			// appended byte count
			env := pr.EnvAt(fn.Blocks[0].Instrs[0])
			var n lin.Term
			okN := true
			switch embeddedAppenders[name] {
			case "len(arg)":
				n = env.LenOf(c.Common.Args[1])
			case "1":
				n = lin.Const(1)
			default:
				okN = false
			}
			if !okN {
				ctx.Violate("C12.R1", fname+" › direct embedded "+name, r.IPos(c.Instr), "appends an unknown number of bytes to the embedded buffer without going through the guarded Write")
				continue
			}
			// every edge into the block of the embedded append must entail "unbounded (limit = 0)" or
			// "length after the append ≤ limit"; every edge into a too-large return must entail
			// "limit > 0 and length after the append > limit" (both decided by the linear prover, so
			// if/else, inverted and switch forms of the same guard are all accepted)
			b := c.Instr.Block()
			okShape := true
			detail := ""
			lenCall := findBufferLen(fn)
			var limitLoad ssa.Value
			ssax.Instrs(fn, func(in ssa.Instruction) {
				if u, ok := in.(*ssa.UnOp); ok && fieldNameOfValue(u) == "limit" && limitLoad == nil {
					limitLoad = u
				}
			})
			// the guard may be an extracted predicate of the buffer (f.wouldOverflow(n)):
			// the current length and the limit are then read inside it
			var pred *ssa.Call
			if lenCall == nil {
				ssax.Instrs(fn, func(in ssa.Instruction) {
					iff, isIf := in.(*ssa.If)
					if !isIf {
						return
					}
					cond := iff.Cond
					if u, isU := cond.(*ssa.UnOp); isU && u.Op == token.NOT {
						cond = u.X
					}
					if bo, isBo := cond.(*ssa.BinOp); isBo { // err != nil on the result of an error-returning guard helper
						if k, isK := bo.Y.(*ssa.Const); isK && k.IsNil() {
							cond = bo.X
						}
					}
					if pc, isCall := cond.(*ssa.Call); isCall {
						if g := pc.Call.StaticCallee(); g != nil && g.Pkg == r.Pkg && len(g.Blocks) > 0 && findBufferLen(g) != nil {
							pred = pc
						}
					}
				})
				if pred != nil {
					g := pred.Call.StaticCallee()
					lenCall = findBufferLen(g)
					limitLoad = nil
					ssax.Instrs(g, func(in ssa.Instruction) {
						if u, ok := in.(*ssa.UnOp); ok && fieldNameOfValue(u) == "limit" && limitLoad == nil {
							limitLoad = u
						}
					})
				}
			}
			termOf := func(e *bounds.Env, v ssa.Value) lin.Term {
				if pred != nil {
					if t, ok := e.LiftValue(pred, v, false); ok {
						return t
					}
				}
				return e.Term(v)
			}
			// the cases in which the edge p→succ is taken (one per way an extracted predicate returns its value)
			edgeEnvs := func(p, succ *ssa.BasicBlock) []*bounds.Env {
				e := pr.EnvAt(p.Instrs[len(p.Instrs)-1])
				if iff, isIf := p.Instrs[len(p.Instrs)-1].(*ssa.If); isIf && p.Succs[0] != p.Succs[1] {
					return e.CondCases(iff.Cond, p.Succs[0] == succ)
				}
				return []*bounds.Env{e}
			}
			sizeAfter := func(e *bounds.Env) lin.Term {
				var add lin.Term = lin.Const(1)
				if embeddedAppenders[name] == "len(arg)" {
					add = e.LenOf(c.Common.Args[1])
				}
				return termOf(e, lenCall).Add(add)
			}
			if lenCall == nil || limitLoad == nil {
				okShape, detail = false, "the method appends to the embedded buffer without consulting the current length and the limit"
			} else {
				preds := b.Preds
				if len(preds) == 0 {
					okShape, detail = false, "the embedded append is unconditional"
				}
				for _, p := range preds {
					for _, e := range edgeEnvs(p, b) {
						L := termOf(e, limitLoad)
						if e.Prove(lin.LE(L, lin.Const(0), "")) {
							continue // unbounded
						}
						if e.Prove(lin.LE(sizeAfter(e), L, "")) {
							continue // fits
						}
						okShape = false
						detail = "the embedded append is reachable on a path where neither 'limit = 0' nor '(current length + bytes appended) ≤ limit' is established: a write can push the buffer past its limit"
					}
				}
				// tightness: every rejecting return is reached only when the write really does not fit
				for blk, kind := range tooLargeReturnsD(r, fn, true) {
					_ = kind
					for _, p := range blk.Preds {
						for _, e := range edgeEnvs(p, blk) {
							L := termOf(e, limitLoad)
							if !(e.Prove(lin.GE(L, lin.Const(1), "")) && e.Prove(lin.GT(sizeAfter(e), L, ""))) {
								okShape = false
								detail = "the too-large error can be returned for a write that still fits (or with limit 0): a message within the limit is rejected"
							}
						}
					}
				}
			}
			_ = n
			ctx.Check(okShape, "C12.R1", fname+" › embedded "+name+" only behind the exact limit guard", r.IPos(c.Instr),
				"reached only on the pass edge of 'limit > 0' / 'len+n > limit'", detail)
			if okShape {
				ctx.Discharge("C12.R2", fname+" › buffer guard is exactly Len()+n > limit", r.IPos(c.Instr), "both directions entailed by the linear prover")
			} else {
				ctx.Violate("C12.R2", fname+" › buffer guard is exactly Len()+n > limit", r.IPos(c.Instr), detail)
			}
		}
	}
	// declared appenders other than Write go through the guarded Write
	for name, fn := range declared {
		if name == "Write" || guardedWrite == nil {
			continue
		}
		direct := false
		viaWrite := false
		for _, c := range ssax.Calls(fn) {
			if _, ok := isEmbeddedAppend(c); ok {
				direct = true
			}
			if c.Static == guardedWrite {
				viaWrite = true
			}
		}
		if !direct {
			ctx.Check(viaWrite, "C12.R1", ssax.Name(fn)+" › appends through the guarded Write", fnPos(r, fn), "delegates to (*TMemoryOutputBuffer).Write", "appending method neither appends nor delegates to the guarded Write")
		}
	}

	// ---- R2/R3 transports --------------------------------------------------------------
	type txSite struct {
		fn   *ssa.Function
		call ssax.Call
		data ssa.Value
	}
	var txs []txSite
	isTx := func(c ssax.Call) (ssa.Value, bool) {
		switch c.FullName() {
		case "(*github.com/nats-io/nats.go.Conn).Publish":
			return c.Common.Args[2], true
		case "(*github.com/nats-io/nats.go.Conn).PublishRequest":
			return c.Common.Args[3], true
		case "(*github.com/go-stomp/stomp.Conn).Send":
			return c.Common.Args[3], true
		}
		if c.Static != nil && c.Static.Pkg == r.Pkg && c.Static.Name() == "makeRequest" {
			return c.Common.Args[2], true
		}
		return nil, false
	}
	var txFns []*ssa.Function
	txFns = append(txFns, r.Impl("FTransport", "Request")...)
	txFns = append(txFns, r.Impl("FTransport", "Oneway")...)
	txFns = append(txFns, r.Impl("FPublisherTransport", "Publish")...)
	for _, fn := range txFns {
		for _, c := range ssax.Calls(fn) {
			if d, ok := isTx(c); ok {
				txs = append(txs, txSite{fn, c, d})
			}
		}
	}
	for _, tx := range txs {
		fn := tx.fn
		fname := ssax.Name(fn)
		// payload must be the data parameter
		var dataParam *ssa.Parameter
		for _, p := range fn.Params {
			if sl, ok := p.Type().Underlying().(*types.Slice); ok {
				if b, ok := sl.Elem().Underlying().(*types.Basic); ok && b.Kind() == types.Byte {
					dataParam = p
				}
			}
		}
		if dataParam == nil || ssax.Strip(tx.data) != ssa.Value(dataParam) {
			ctx.Violate("C12.R3", fname+" › transmits its payload parameter", r.IPos(tx.call.Instr), "the bytes transmitted are not the payload that was size-checked")
			continue
		}
		// guards: in fn itself or in a helper called with the payload whose error return is propagated
		type g struct {
			re   rejectEdge
			in   *ssa.Function
			data ssa.Value
			dom  ssa.Instruction // instruction in fn that must dominate the transmission (the If or the helper's error test)
			pass *ssa.BasicBlock
		}
		var guards []g
		for _, re := range findRejectEdges(r, fn) {
			pass := re.If.Block().Succs[0]
			if re.Taken {
				pass = re.If.Block().Succs[1]
			}
			guards = append(guards, g{re, fn, dataParam, re.If, pass})
		}
		for _, c := range ssax.Calls(fn) {
			if c.Static == nil || c.Static.Pkg != r.Pkg || c.Static == fn {
				continue
			}
			res := findRejectEdges(r, c.Static)
			if len(res) == 0 {
				continue
			}
			// which param of helper receives our data
			var hp ssa.Value
			for i, a := range c.Args() {
				if ssax.Strip(a) == ssa.Value(dataParam) && i < len(c.Static.Params) {
					hp = c.Static.Params[i]
				}
			}
			if hp == nil {
				continue
			}
			if v := c.Instr.Value(); v != nil {
				if nb := errNilSuccessor(v); nb != nil {
					for _, re := range res {
						guards = append(guards, g{re, c.Static, hp, c.Instr.(ssa.Instruction), nb})
					}
				}
			}
		}
		if len(guards) == 0 {
			// a transport whose limit is the constant 0 has no guard by design
			lim := r.FnOpt(strings.Replace(fname, ".Request", ".GetRequestSizeLimit", 1))
			ctx.Violate("C12.R3", fname+" › size guard before transmission", r.IPos(tx.call.Instr), "transmission without any size guard")
			_ = lim
			continue
		}
		okDom := false
		for _, gd := range guards {
			txI := tx.call.Instr.(ssa.Instruction)
			if gd.pass == txI.Block() || gd.pass.Dominates(txI.Block()) {
				okDom = true
			}
			// exactness
			e := pr.EnvAt(gd.re.If)
			S := e.LenOf(gd.data)
			bo, isB := gd.re.If.Cond.(*ssa.BinOp)
			construct := fname + " › guard is exactly len(payload) > limit"
			if gd.in != fn {
				construct += " (in " + ssax.Name(gd.in) + ")"
			}
			if !isB {
				ctx.Violate("C12.R2", construct, r.IPos(gd.re.If), "unrecognised guard condition")
				continue
			}
			// limit side: the operand that is not len(payload)
			var Lv ssa.Value
			if termMentions(e.Term(bo.X), S) {
				Lv = bo.Y
			} else {
				Lv = bo.X
			}
			L := e.Term(Lv)
			eT, eF := pr.EnvAt(gd.re.If), pr.EnvAt(gd.re.If)
			eT.AddCond(gd.re.If.Cond, gd.re.Taken)
			eF.AddCond(gd.re.If.Cond, !gd.re.Taken)
			exact := eT.Prove(lin.GT(S, L, "")) && eF.Prove(lin.LE(S, L, ""))
			ctx.Check(exact, "C12.R2", construct, r.IPos(gd.re.If), "reject ⇔ len(payload) > limit (both directions entailed)",
				"the guard is not equivalent to len(payload) > limit: a message within the limit is rejected or one byte over is transmitted")
			// limit > 0 side condition when the limit is not a constant
			if _, isConst := ssax.Strip(Lv).(*ssa.Const); !isConst {
				// unwrap conversion
				lv := ssax.Strip(Lv)
				if cv, ok := lv.(*ssa.Convert); ok {
					lv = ssax.Strip(cv.X)
				}
				eP := pr.EnvAt(gd.re.If)
				pos := eP.Prove(lin.GT(eP.Term(lv), lin.Const(0), ""))
				ctx.Check(pos, "C12.R2", construct+" › only when limit > 0", r.IPos(gd.re.If), "guard evaluated under limit > 0", "a zero limit (unbounded) rejects every non-empty message")
			}
			// the limit the transport advertises (the client sizes its encoder with it) is the bound this guard enforces
			if recv := fn.Signature.Recv(); recv != nil && !gd.re.Is413 {
				for _, g2 := range r.Fns {
					if g2.Signature.Recv() == nil || !types.Identical(g2.Signature.Recv().Type(), recv.Type()) {
						continue
					}
					if g2.Name() != "GetRequestSizeLimit" && g2.Name() != "GetPublishSizeLimit" {
						continue
					}
					unconv := func(v ssa.Value) ssa.Value {
						v = ssax.Strip(v)
						if cv, ok := v.(*ssa.Convert); ok {
							v = ssax.Strip(cv.X)
						}
						return v
					}
					same, what := true, ""
					for _, vs := range ReturnedValues(g2) {
						a, b := unconv(vs[0]), unconv(Lv)
						ka, okA := ssax.ConstInt(a)
						kb, okB := ssax.ConstInt(b)
						switch {
						case okA && okB:
							if ka != kb {
								same, what = false, sprintf("getter returns %d, guard enforces %d", ka, kb)
							}
						case !okA && !okB:
							if fa, fb := fieldNameOfValue(a), fieldNameOfValue(b); fa == "" || fa != fb {
								same, what = false, "getter returns "+a.Name()+" ("+fa+"), guard compares with "+b.Name()+" ("+fb+")"
							}
						default:
							same, what = false, "one of getter/guard is a constant, the other a field"
						}
					}
					ctx.Check(same, "C12.R5", fname+" › "+g2.Name()+"() returns the bound its guard enforces", fnPos(r, g2), "same constant / same field",
						"the advertised limit differs from the enforced one ("+what+"): the client's encoder rejects messages the transport would accept (or lets through ones it rejects)")
				}
			}
			// reject kind
			if !gd.re.Is413 {
				ctx.Check(gd.re.Kind == constInt(r, "TRANSPORT_EXCEPTION_REQUEST_TOO_LARGE"), "C12.R3", fname+" › reject edge returns REQUEST_TOO_LARGE", r.IPos(gd.re.If),
					"NewTTransportException(REQUEST_TOO_LARGE)", "oversize request is reported with the wrong error kind")
			}
		}
		ctx.Check(okDom, "C12.R3", fname+sprintf(" › transmission #%d dominated by the guard's pass edge", callOrdinal(fn, tx.call)), r.IPos(tx.call.Instr),
			"pass edge dominates the transmit call", "the message can be transmitted without passing the size guard (oversize data reaches the broker/peer)")
	}

	// ---- R4 ---------------------------------------------------------------------------
	c12Response(ctx, r, pr)

	// ---- R5 ---------------------------------------------------------------------------
	for _, spec := range []struct{ ctor, getter string }{{"NewFStandardClient", "GetRequestSizeLimit"}, {"NewFScopeClient", "GetPublishSizeLimit"}} {
		if fn := r.Fn("C12.R5", spec.ctor); fn != nil {
			ok := false
			other := ""
			ssax.Instrs(fn, func(in ssa.Instruction) {
				if st, isSt := in.(*ssa.Store); isSt && fieldNameOfAddr(st.Addr) == "limit" {
					if c, isC := CallValue(st.Val); isC && c.Method != nil && c.Method.Name() == spec.getter {
						ok = true
					} else {
						other = r.IPos(in) // the limit is the transport's, whatever it is (0 = unbounded)
					}
				}
			})
			if other != "" {
				ok = false
			}
			ctx.Check(ok, "C12.R5", spec.ctor+" › client limit = transport."+spec.getter+"()", fnPos(r, fn), "limit field assigned from the transport's getter", "the client's buffer limit is not taken from its transport: oversize messages are not stopped at encode time or small ones are rejected")
		}
	}
	if pm := r.Fn("C12.R5", "(FStandardClient).prepareMessage"); pm != nil {
		ok := false
		for _, c := range ssax.CallsTo(pm, "NewTMemoryOutputBuffer") {
			if fieldNameOfAddr(c.Common.Args[0]) == "limit" || fieldNameOfValue(c.Common.Args[0]) == "limit" {
				ok = true
			}
		}
		ctx.Check(ok, "C12.R5", ssax.Name(pm)+" › output buffer bounded by the client limit", fnPos(r, pm), "NewTMemoryOutputBuffer(client.limit)", "requests are encoded into a buffer that is not bounded by the client's limit")
	}
	// ---- R10: a rejected append leaves the buffer reset ------------------------------------
	ctx.Rule("C12.R12", "after an oversize failure the server keeps working and in-limit messages are never rejected: every server entry point encodes each reply into a buffer allocated for that message (never a pooled one that may still hold a refused reply)", 2)
	perMessageTransports(ctx, r, "C12.R12")
	ctx.Rule("C12.R11", "an oversize reply does not wedge the server: the processor's write mutex is released on every exit, also after the too-large conversion", 4)
	lockBalance(ctx, r, "C12.R11", "FBaseProcessor", "FBaseProcessorFunction")
	ctx.Rule("C12.R10", "a rejected append resets the bounded buffer: every too-large return of its methods is preceded by Reset (the error reply is written into the same buffer)", 1)
	if rs := r.FnOpt("(*TMemoryOutputBuffer).Reset"); rs != nil {
		isAPI := map[*ssa.Function]bool{} // the appending methods of the buffer's API; each answers for its own rejections
		for _, fn := range declared {
			isAPI[fn] = true
		}
		for _, fn := range r.Fns {
			if !isAPI[fn] || fn == rs {
				continue
			}
			ord := 0
			for blk := range tooLargeReturnsD(r, fn, true) {
				ret := blk.Instrs[len(blk.Instrs)-1]
				ord++
				// Reset here, or the rejection is handed on from a sibling API method (which resets itself)
				isReset := func(in ssa.Instruction) bool {
					c, ok := ssax.AsCall(in)
					return ok && (c.Static == rs || (c.Static != nil && isAPI[c.Static] && c.Static != fn))
				}
				isRet := func(in ssa.Instruction) bool { return in == ret }
				first := fn.Blocks[0].Instrs[0]
				var bad []*ssa.BasicBlock
				if !isReset(first) {
					bad = ssax.PathFrom(fn, first, isRet, isReset)
				}
				construct := ssax.Name(fn) + sprintf(" › too-large return #%d leaves the buffer reset", ord)
				if len(tooLargeReturnsD(r, fn, true)) == 1 {
					construct = ssax.Name(fn) + " › too-large return leaves the buffer reset"
				}
				if bad == nil {
					ctx.Discharge("C12.R10", construct, r.IPos(ret), "Reset() on every path to the rejection")
				} else {
					ctx.Violate("C12.R10", construct, r.IPos(ret), "the append is rejected but the buffer keeps what was written so far: the RESPONSE_TOO_LARGE exception the server writes next lands behind the half-written reply and the client decodes garbage instead of the too-large error", ssax.PathString(r.V.Fset, bad)...)
				}
			}
		}
	}
	// ---- R13: the bounded buffer refuses for size only -------------------------------------
	// After a rejected append the server writes its RESPONSE_TOO_LARGE exception
	// into the same buffer: an error the appending methods make up themselves
	// (built here, or kept in a field) must sit below a guard that reads the
	// limit — never below a remembered state ("already overflowed") that would
	// refuse the error reply too. Errors handed on from the embedded buffer or a
	// sibling method are theirs.
	ctx.Rule("C12.R13", "the bounded buffer refuses an append for its size only: every error its appending methods originate is returned below a guard on the limit", 1)
	{
		n := 0
		for _, fn := range declared {
			for ret, vs := range ReturnedValues(fn) {
				if len(vs) == 0 || nilErrorReturn(ret) {
					continue
				}
				ev := ssax.Strip(ResolveLocal(vs[len(vs)-1]))
				if !isErrorType(vs[len(vs)-1].Type()) {
					continue
				}
				if e, isE := ev.(*ssa.Extract); isE {
					if _, isCall := e.Tuple.(*ssa.Call); isCall {
						continue // handed on
					}
				}
				if c, isCall := ev.(*ssa.Call); isCall {
					if cc2, _ := ssax.AsCall(c); cc2.Static == nil || cc2.Static.Pkg == r.Pkg && cc2.Static.Signature.Recv() != nil || (cc2.Static.Pkg != nil && cc2.Static.Pkg != r.Pkg && !strings.Contains(cc2.FullName(), "NewT")) {
						continue // result of a sibling / embedded / library call: handed on
					}
				}
				n++
				under := false
				for b := ret.Block(); b != nil && b.Idom() != nil; b = b.Idom() {
					d := b.Idom()
					iff, isIf := d.Instrs[len(d.Instrs)-1].(*ssa.If)
					if !isIf {
						continue
					}
					usesLimit := false
					var walk func(v ssa.Value, depth int)
					walk = func(v ssa.Value, depth int) {
						if depth > 6 || usesLimit {
							return
						}
						if ld, isLd := v.(*ssa.UnOp); isLd && ld.Op == token.MUL {
							// the limit by role: an integer field of the buffer object itself
							if fa, isFA := ld.X.(*ssa.FieldAddr); isFA && isIntType(ld.Type()) && sameNamed(fa.X.Type(), fn.Signature.Recv().Type()) {
								usesLimit = true
								return
							}
						}
						if call, isCall := v.(*ssa.Call); isCall {
							// a predicate method of the buffer (wouldOverflow): what it returns
							if h := call.Call.StaticCallee(); h != nil && h.Pkg == r.Pkg && len(h.Blocks) > 0 && depth < 4 {
								for _, rv := range ReturnedValues(h) {
									for _, x := range rv {
										walk(x, depth+2)
									}
								}
								ssax.Instrs(h, func(hi ssa.Instruction) {
									if iff, isIf := hi.(*ssa.If); isIf {
										walk(iff.Cond, depth+2)
									}
								})
							}
						}
						if in, isIn := v.(ssa.Instruction); isIn {
							for _, op := range in.Operands(nil) {
								if *op != nil {
									walk(*op, depth+1)
								}
							}
						}
					}
					walk(iff.Cond, 0)
					// short-circuit `limit > 0 && …`: the second test's block is dominated by the first
					if usesLimit {
						under = true
					}
				}
				ctx.Check(under, "C12.R13", ssax.Name(fn)+sprintf(" › error return #%d is a size rejection", n), r.IPos(ret), "below a guard that reads the limit",
					"the method returns an error of its own ("+ev.String()+") that no size guard decides — e.g. a remembered overflow: after one oversize reply every further write is refused, including the RESPONSE_TOO_LARGE exception the server writes next, so nothing is published and the caller times out instead of learning that the response was too large")
			}
		}
		if n == 0 {
			ctx.Unresolved("C12.R13", "bounded buffer", "no originated error return found in the appending methods")
		}
	}
	// ---- R14: the buffer's methods do not call each other in a circle ----------------------
	// Write resets on rejection and Reset re-writes the frame placeholder: if that
	// placeholder goes through the guarded Write again, a limit smaller than the
	// placeholder (1..3) makes Write and Reset call each other until the stack
	// overflows — instead of REQUEST_TOO_LARGE the process dies.
	ctx.Rule("C12.R14", "for every limit value a rejection terminates: the methods of the bounded buffer are not mutually recursive", 1)
	{
		succ := map[*ssa.Function][]*ssa.Function{}
		var methods []*ssa.Function
		for _, fn := range r.Fns {
			if fn.Signature.Recv() != nil && ssax.TypeNamed(fn.Signature.Recv().Type(), "", "TMemoryOutputBuffer") {
				methods = append(methods, fn)
			}
		}
		isM := map[*ssa.Function]bool{}
		for _, m := range methods {
			isM[m] = true
		}
		for _, m := range methods {
			for _, c := range ssax.Calls(m) {
				if c.Static != nil && isM[c.Static] {
					succ[m] = append(succ[m], c.Static)
				}
			}
		}
		cyc := ""
		for _, m := range methods {
			seen := map[*ssa.Function]bool{}
			stack := append([]*ssa.Function{}, succ[m]...)
			for len(stack) > 0 {
				x := stack[len(stack)-1]
				stack = stack[:len(stack)-1]
				if x == m {
					cyc = ssax.Name(m)
					break
				}
				if seen[x] {
					continue
				}
				seen[x] = true
				stack = append(stack, succ[x]...)
			}
		}
		ctx.Check(cyc == "", "C12.R14", "TMemoryOutputBuffer › no call cycle among its methods", "lib/go/bounded_memory_buffer.go", sprintf("%d methods", len(methods)),
			cyc+" can reach itself through the buffer's other methods (Write rejects → Reset → Write of the frame placeholder → rejects again …): with a limit smaller than the 4-byte placeholder the recursion never ends and the process dies of a stack overflow instead of reporting REQUEST_TOO_LARGE")
	}
	if rs := r.Fn("C12.R5", "(*TMemoryOutputBuffer).Reset"); rs != nil && guardedWrite != nil {
		ok := false
		for _, c := range ssax.Calls(rs) {
			// through the guarded Write, or straight into the embedded buffer (the
			// 4-byte placeholder is framing, not payload)
			embedded := c.ShortName() == "Write" && c.Static != guardedWrite && len(c.Common.Args) == 2 && c.Static != nil && c.Static.Pkg != r.Pkg
			if c.Static == guardedWrite || embedded {
				// the placeholder: a package-level byte slice initialised with 4 elements and never reassigned
				if g, isG := LoadedGlobal(ssax.Strip(c.Common.Args[1])); isG && globalSliceLen(r, g) == 4 {
					ok = true
				}
				if mk, isMk := ssax.Strip(c.Common.Args[1]).(*ssa.MakeSlice); isMk {
					if k, isK := ssax.ConstInt(mk.Len); isK && k == 4 {
						ok = true
					}
				}
			}
		}
		ctx.Check(ok, "C12.R5", ssax.Name(rs)+" › Reset restores the 4-byte frame prefix", fnPos(r, rs), "Reset(); Write(emptyFrameSize)", "after an overflow the buffer has no frame-size prefix: the next message is framed wrongly")
	}
	for s := range cfg.UsedSummaries {
		ctx.Assume(s)
	}
}

func fieldNameOfValue(v ssa.Value) string {
	v = ssax.Strip(v)
	if f, ok := v.(*ssa.Field); ok {
		st := f.X.Type().Underlying().(*types.Struct)
		return structFieldName(st, f.Field)
	}
	if u, ok := v.(*ssa.UnOp); ok && u.Op == token.MUL {
		return fieldNameOfAddr(u.X)
	}
	return ""
}

func termMentions(t lin.Term, s lin.Term) bool {
	for v := range s.Vs {
		if _, ok := t.Vs[v]; ok {
			return true
		}
	}
	return false
}

// lenHolder lets the prover translate "len(v)" for a value without a len call in the code.
type lenValue struct {
	ssa.Value
}

func mkLen(v ssa.Value) ssa.Value { return v }

func mkLenOrConst(c ssax.Call, name string) ssa.Value { return c.Common.Args[1] }

func mkLenValue(fn *ssa.Function, v ssa.Value) ssa.Value { return v }

// findBufferLen finds the call reading the current length of the embedded buffer.
func findBufferLen(fn *ssa.Function) ssa.Value {
	var out ssa.Value
	ssax.Instrs(fn, func(in ssa.Instruction) {
		if c, ok := ssax.AsCall(in); ok && (c.FullName() == "(*bytes.Buffer).Len" || c.FullName() == "(*github.com/apache/thrift/lib/go/thrift.TMemoryBuffer).Len") {
			if v, isV := in.(ssa.Value); isV && out == nil {
				out = v
			}
		}
	})
	return out
}

func c12Response(ctx *core.Ctx, r *RT, pr *bounds.Prover) {
	sr := r.Fn("C12.R4", "(*FBaseProcessorFunction).SendReply")
	trap := r.roleTrapError()
	if trap == nil {
		ctx.Unresolved("C12.R4", "error trap of SendReply", "no method with an error parameter among SendReply's callees")
	}
	sendErr := r.roleSendError()
	if sr != nil && trap != nil {
		// every return of SendReply is nil or trapError(…, err of a write step)
		n := 0
		okAll := true
		for ret, vs := range ReturnedValues(sr) {
			v := ssax.Strip(vs[0])
			if c, isC := v.(*ssa.Const); isC && c.IsNil() {
				continue
			}
			n++
			tc, isCall := CallValue(v)
			if !isCall || tc.Static != trap {
				okAll = false
				ctx.Violate("C12.R4", ssax.Name(sr)+sprintf(" › error return #%d goes through trapError", retOrdinal(sr, ret)), r.IPos(ret),
					"a write-step error of SendReply is returned without trapError: an oversize response is dropped and the caller times out instead of getting RESPONSE_TOO_LARGE")
			}
		}
		if okAll {
			ctx.Discharge("C12.R4", ssax.Name(sr)+" › every write-step error goes through trapError", fnPos(r, sr), sprintf("%d error returns, all trapError(...)", n))
		}
		// each write step's error is tested
		steps := 0
		for _, c := range ssax.Calls(sr) {
			if _, op := protoOp(c); strings.HasPrefix(op, "Write") || op == "Flush" || op == "body.Write" {
				steps++
				v := c.Instr.Value()
				tested := v != nil && errNilSuccessor(v) != nil
				ctx.Check(tested, "C12.R4", ssax.Name(sr)+sprintf(" › %s error is checked", op), r.IPos(c.Instr), "err != nil tested", "the error of a write step is ignored: an overflow at this step is not reported")
			}
		}
		// trapError: IsErrTooLarge true edge → sendError(RESPONSE_TOO_LARGE), return nil
		ok := false
		for _, c := range ssax.CallsTo(trap, "IsErrTooLarge") {
			v := c.Instr.Value()
			for _, u := range *v.Referrers() {
				if iff, isIf := u.(*ssa.If); isIf {
					tb := iff.Block().Succs[0]
					for _, c2 := range ssax.Calls(trap) {
						if c2.Static != nil && c2.Static == sendErr && c2.Instr.Block() == tb {
							for _, a := range c2.Common.Args {
								if k, isK := ssax.ConstInt(a); isK && k == constInt(r, "APPLICATION_EXCEPTION_RESPONSE_TOO_LARGE") {
									if _, isI := a.Type().Underlying().(*types.Basic); isI {
										ok = true
									}
								}
							}
						}
					}
				}
			}
		}
		ctx.Check(ok, "C12.R4", ssax.Name(trap)+" › too-large ⇒ application exception RESPONSE_TOO_LARGE", fnPos(r, trap), "IsErrTooLarge(err) ⇒ sendError(APPLICATION_EXCEPTION_RESPONSE_TOO_LARGE)", "an oversize response is not converted into the RESPONSE_TOO_LARGE application exception")
	}
	if pr2 := r.Fn("C12.R4", "(FStandardClient).processReply"); pr2 != nil {
		ok := false
		var blocks []*ssa.BasicBlock
		for _, g := range localCone(pr2, 2) { // the exception branch may be an extracted helper
			blocks = append(blocks, g.Blocks...)
		}
		for _, b := range blocks {
			iff, isIf := b.Instrs[len(b.Instrs)-1].(*ssa.If)
			if !isIf {
				continue
			}
			bo, isB := iff.Cond.(*ssa.BinOp)
			if !isB || bo.Op != token.EQL {
				continue
			}
			k, isK := ssax.ConstInt(bo.Y)
			if !isK || k != constInt(r, "APPLICATION_EXCEPTION_RESPONSE_TOO_LARGE") {
				continue
			}
			if c, isC := CallValue(bo.X); !isC || c.ShortName() != "TypeId" {
				continue
			}
			for ret, vs := range ReturnedValues(b.Parent()) {
				if ret.Block() == b.Succs[0] {
					for _, v := range vs {
						if kk, isEx := ExceptionKind(v, "thrift.NewTTransportException"); isEx && kk == constInt(r, "TRANSPORT_EXCEPTION_RESPONSE_TOO_LARGE") {
							ok = true
						}
					}
				}
			}
		}
		ctx.Check(ok, "C12.R4", ssax.Name(pr2)+" › application exception RESPONSE_TOO_LARGE ⇒ transport error RESPONSE_TOO_LARGE", fnPos(r, pr2),
			"TypeId()==APPLICATION_EXCEPTION_RESPONSE_TOO_LARGE ⇒ NewTTransportException(RESPONSE_TOO_LARGE)", "the client no longer maps the server's RESPONSE_TOO_LARGE exception to a RESPONSE_TOO_LARGE transport error")
	}
	// HTTP 413 both ways
	for _, h := range httpHandlers(r) {
		n := 0
		for _, re := range findRejectEdges(r, h) {
			if !re.Is413 {
				continue
			}
			n++
			// exactness: reject ⇔ outBuf.Len() > limit, under limit > 0
			bo, isB := re.If.Cond.(*ssa.BinOp)
			if !isB {
				continue
			}
			e := pr.EnvAt(re.If)
			S, L := e.Term(bo.X), e.Term(bo.Y)
			eT, eF := pr.EnvAt(re.If), pr.EnvAt(re.If)
			eT.AddCond(re.If.Cond, re.Taken)
			eF.AddCond(re.If.Cond, !re.Taken)
			_, sIsLen := CallValue(bo.X)
			// the size compared is the encoded response itself — a plain length, not a
			// length plus framing overhead (len(prependFrameSize(b)) = len(b)+4)
			pure := S.C.Sign() == 0 && len(S.Vs) == 1
			for _, co := range S.Vs {
				if !co.IsInt64() || co.Int64() != 1 {
					pure = false
				}
			}
			if !pure {
				ctx.Violate("C12.R2", ssax.Name(h)+" › response guard measures the response payload", r.IPos(re.If),
					"the size compared with the client's limit is "+S.String()+", not the length of the encoded response: the frame header (or other overhead) is counted against the limit, so a response within the limit is answered with 413")
			} else {
				ctx.Discharge("C12.R2", ssax.Name(h)+" › response guard measures the response payload", r.IPos(re.If), "a plain length: "+S.String())
			}
			exact := sIsLen && eT.Prove(lin.GT(S, L, "")) && eF.Prove(lin.LE(S, L, ""))
			ctx.Check(exact, "C12.R2", ssax.Name(h)+" › response guard is exactly size > requested limit", r.IPos(re.If), "reject ⇔ outBuf.Len() > limit", "the HTTP handler's response-size guard is off: a response within the client's limit is refused or one over it is sent")
			lv := ssax.Strip(bo.Y)
			if cv, ok := lv.(*ssa.Convert); ok {
				lv = ssax.Strip(cv.X)
			}
			eP := pr.EnvAt(re.If)
			ctx.Check(eP.Prove(lin.GT(eP.Term(lv), lin.Const(0), "")), "C12.R2", ssax.Name(h)+" › response guard only when limit > 0", r.IPos(re.If), "under limit > 0", "no requested limit (0) rejects every response")
		}
		ctx.Check(n > 0, "C12.R4", ssax.Name(h)+" › over-limit response answers 413", fnPos(r, h), "http.Error(…, 413) on the over-limit edge", "the HTTP handler no longer answers 413 for a response above the requested limit")
	}
	if mr := r.Fn("C12.R4", "(*fHTTPTransport).makeRequest"); mr != nil {
		ok := false
		is413 := func(v ssa.Value) bool {
			bo, isB := v.(*ssa.BinOp)
			if !isB || bo.Op != token.EQL {
				return false
			}
			k, isK := ssax.ConstInt(bo.Y)
			return isK && k == 413 && fieldNameOfValue(bo.X) == "StatusCode"
		}
		for _, b := range mr.Blocks {
			iff, isIf := b.Instrs[len(b.Instrs)-1].(*ssa.If)
			if !isIf {
				continue
			}
			// the test itself, or a predicate of the package that is true only for a 413 answer
			if pc, isCall := iff.Cond.(*ssa.Call); isCall {
				g := pc.Call.StaticCallee()
				if g == nil || g.Pkg != r.Pkg || len(g.Blocks) == 0 {
					continue
				}
				mentions := false
				ssax.Instrs(g, func(in ssa.Instruction) {
					if v, isV := in.(ssa.Value); isV && is413(v) {
						mentions = true
					}
				})
				if !mentions {
					continue
				}
				only := true
				for _, vs := range ReturnedValues(g) {
					if len(vs) != 1 || !boolOnlyFrom(vs[0], is413, 4) {
						only = false
					}
				}
				ctx.Check(only, "C12.R4", ssax.Name(g)+" › true only for an HTTP 413 answer", fnPos(r, g), "every way to return true is the StatusCode == 413 comparison",
					"the predicate behind RESPONSE_TOO_LARGE is also true for responses the server did not refuse (a Content-Length above the limit, say — which counts base64 text and the frame header, not the payload): a response within the limit is reported as too large")
				if !only {
					ok = true // reported above; the mapping itself is judged on the 413 part
				}
				for ret, vs := range ReturnedValues(mr) {
					if ret.Block() == b.Succs[0] || b.Succs[0].Dominates(ret.Block()) {
						for _, v := range vs {
							if kk, isEx := ExceptionKind(v, "thrift.NewTTransportException"); isEx && kk == constInt(r, "TRANSPORT_EXCEPTION_RESPONSE_TOO_LARGE") {
								ok = true
							}
						}
					}
				}
				continue
			}
			bo, isB := iff.Cond.(*ssa.BinOp)
			if !isB || bo.Op != token.EQL {
				continue
			}
			if k, isK := ssax.ConstInt(bo.Y); !isK || k != 413 || fieldNameOfValue(bo.X) != "StatusCode" {
				continue
			}
			for ret, vs := range ReturnedValues(mr) {
				if ret.Block() == b.Succs[0] {
					for _, v := range vs {
						if kk, isEx := ExceptionKind(v, "thrift.NewTTransportException"); isEx && kk == constInt(r, "TRANSPORT_EXCEPTION_RESPONSE_TOO_LARGE") {
							ok = true
						}
					}
				}
			}
		}
		ctx.Check(ok, "C12.R4", ssax.Name(mr)+" › HTTP 413 ⇒ RESPONSE_TOO_LARGE", fnPos(r, mr), "StatusCode == 413 ⇒ NewTTransportException(RESPONSE_TOO_LARGE)", "a 413 answer is no longer reported as RESPONSE_TOO_LARGE")
	}
	if it := r.Fn("C12.R4", "IsErrTooLarge"); it != nil {
		kinds := map[int64]bool{}
		ssax.Instrs(it, func(in ssa.Instruction) {
			if bo, ok := in.(*ssa.BinOp); ok && bo.Op == token.EQL {
				if k, isK := ssax.ConstInt(bo.Y); isK {
					kinds[k] = true
				}
			}
		})
		ctx.Check(kinds[constInt(r, "TRANSPORT_EXCEPTION_REQUEST_TOO_LARGE")] && kinds[constInt(r, "TRANSPORT_EXCEPTION_RESPONSE_TOO_LARGE")], "C12.R4", "IsErrTooLarge › recognises both too-large kinds", fnPos(r, it),
			"REQUEST_TOO_LARGE and RESPONSE_TOO_LARGE", "IsErrTooLarge misses one of the two kinds: trapError does not convert that overflow")
	}
}

// globalSliceLen: the length of the slice literal a package-level variable is
// initialised with, when no function assigns the variable; -1 otherwise.
func globalSliceLen(r *RT, g *ssa.Global) int64 {
	n := int64(-1)
	stores := 0
	scan := append([]*ssa.Function{}, r.Fns...)
	if init := r.Pkg.Func("init"); init != nil {
		scan = append(scan, init)
	}
	seen := map[*ssa.Function]bool{}
	for _, fn := range scan {
		if seen[fn] {
			continue
		}
		seen[fn] = true
		ssax.Instrs(fn, func(in ssa.Instruction) {
			st, ok := in.(*ssa.Store)
			if !ok || st.Addr != ssa.Value(g) {
				return
			}
			stores++
			if sl, isSl := st.Val.(*ssa.Slice); isSl && sl.Low == nil && sl.High == nil {
				if pt, isP := sl.X.Type().Underlying().(*types.Pointer); isP {
					if arr, isA := pt.Elem().Underlying().(*types.Array); isA {
						n = arr.Len()
					}
				}
			}
		})
	}
	if stores != 1 {
		return -1
	}
	return n
}

// boolOnlyFrom: whenever the boolean v is true, leaf holds of the comparison it
// came from — v is the constant false, a leaf, or a φ of a short-circuit
// expression whose every way to true goes through a leaf.
func boolOnlyFrom(v ssa.Value, leaf func(ssa.Value) bool, depth int) bool {
	v = ssax.Strip(v)
	if depth < 0 {
		return false
	}
	if k, isK := v.(*ssa.Const); isK && k.Value != nil {
		return k.Value.String() == "false"
	}
	if leaf(v) {
		return true
	}
	ph, isPhi := v.(*ssa.Phi)
	if !isPhi {
		return false
	}
	for i, e := range ph.Edges {
		if k, isK := e.(*ssa.Const); isK && k.Value != nil {
			if k.Value.String() == "false" {
				continue
			}
			// true arrives from a predecessor whose own condition was true (a || …): that condition must be a leaf
			pb := ph.Block().Preds[i]
			iff, isIf := pb.Instrs[len(pb.Instrs)-1].(*ssa.If)
			if !isIf || pb.Succs[0] != ph.Block() || !boolOnlyFrom(iff.Cond, leaf, depth-1) {
				return false
			}
			continue
		}
		if !boolOnlyFrom(e, leaf, depth-1) {
			return false
		}
	}
	return true
}

package rules

import (
	"go/token"
	"go/types"
	"strings"

	"fv/internal/core"
	"fv/internal/ssax"

	"golang.org/x/tools/go/ssa"
)

// c11ValidationComplete — C11.R13. The generators rely on what validation
// established for *every* declaration (types exist, ids are unique). In a
// validator — a function of the cone of (*Frugal).validate that returns an
// error — every loop over a list of declarations (a slice field of a model
// struct) whose body can reject lies on every path to a successful return: an
// early `return nil` taken for some declarations (say, oneway methods) lets
// their lists through unvalidated, and the invalid model reaches generators
// that index and dereference what validation was supposed to guarantee.
func c11ValidationComplete(ctx *core.Ctx, cc *CC) {
	ctx.Rule("C11.R13", "validation is complete: in a validator, every rejecting loop over a declaration list lies on every path to a successful return", 4)
	validate := cc.FnOpt("parser", "(*Frugal).validate")
	if validate == nil {
		ctx.Unresolved("C11.R13", "(*Frugal).validate", "not found")
		return
	}
	pp := validate.Pkg
	res := cc.Resolver()
	for _, fn := range ssax.Cone([]*ssa.Function{validate}, res, false) {
		if fn.Pkg != pp || len(fn.Blocks) == 0 {
			continue
		}
		rs := fn.Signature.Results()
		if rs.Len() == 0 || !isErrorType(rs.At(rs.Len()-1).Type()) {
			continue
		}
		ord := 0
		ssax.Instrs(fn, func(in ssa.Instruction) {
			// a loop over a slice field of a model struct: the element address &list[i] with list = *(&x.F)
			ia, ok := in.(*ssa.IndexAddr)
			if !ok || !inCycle(in) {
				return
			}
			ld, ok := ssax.Strip(ia.X).(*ssa.UnOp)
			if !ok {
				return
			}
			fa, ok := ld.X.(*ssa.FieldAddr)
			if !ok {
				return
			}
			pt, ok := fa.X.Type().Underlying().(*types.Pointer)
			if !ok {
				return
			}
			n, ok := pt.Elem().(*types.Named)
			if !ok || n.Obj().Pkg() != pp.Pkg {
				return
			}
			field := n.Obj().Name() + "." + n.Underlying().(*types.Struct).Field(fa.Field).Name()
			// the loop can reject: a failing return inside the same cycle
			rejects := false
			for ret := range ReturnedValues(fn) {
				if !nilErrorReturn(ret) && (blockReaches(in.Block(), ret.Block()) && sameCycleOrAfterBody(in, ret)) {
					rejects = true
				}
			}
			if !rejects {
				return
			}
			ord++
			// on every path to a successful return the list load is passed
			// any read of the same list counts (an emptiness test `if len(x.F) == 0 { return nil }` has looked at it)
			key := ssax.AddrKey(fa)
			isLoad := func(x ssa.Instruction) bool {
				if x == ssa.Instruction(ld) {
					return true
				}
				u, isU := x.(*ssa.UnOp)
				if !isU {
					return false
				}
				f2, isFA := u.X.(*ssa.FieldAddr)
				return isFA && ssax.AddrKey(f2) == key
			}
			okRet := func(x ssa.Instruction) bool {
				ret, isRet := x.(*ssa.Return)
				return isRet && nilErrorReturn(ret)
			}
			first := fn.Blocks[0].Instrs[0]
			var bad []*ssa.BasicBlock
			if !isLoad(first) {
				bad = ssax.PathFrom(fn, first, okRet, isLoad)
				if bad != nil {
					// a path that never enters the enclosing loop at all (empty outer list) is fine:
					// require the bypass to go through the block that dominates the load's outer loop body
					if !bypassInsideOuter(fn, ld, bad) {
						bad = nil
					}
				}
			}
			construct := QName(fn) + sprintf(" › loop #%d over %s is on every successful path", ord, field)
			if bad == nil {
				ctx.Discharge("C11.R13", construct, cc.IPos(in), "no way to `return nil` around the loop")
			} else {
				ctx.Violate("C11.R13", construct, cc.IPos(in), "a successful return is reachable without validating "+field+" (an early `return nil` for some declarations): an invalid list — undeclared types, duplicate ids — passes validation and reaches the generators", ssax.PathString(cc.V.Fset, bad)...)
			}
		})
	}
}

// sameCycleOrAfterBody: ret is reached from inside the loop body of in (a rejection), not after the loop.
func sameCycleOrAfterBody(in ssa.Instruction, ret *ssa.Return) bool {
	// the return block is dominated by the loop body block holding `in` or reachable only through it
	return in.Block().Dominates(ret.Block()) || in.Block() == ret.Block()
}

// bypassInsideOuter: the path that avoids the list load does so after having
// entered the scope in which the load would happen — it passes a block that is
// a sibling of the load (dominated by the load's immediate-dominator chain
// inside an outer loop), or the function has no outer loop and the path
// returns early. A path that merely never iterates an outer loop is not a bypass.
func bypassInsideOuter(fn *ssa.Function, ld ssa.Instruction, path []*ssa.BasicBlock) bool {
	// outer loop header of ld (if any): innermost cycle header dominating ld's block other than ld's own inner loop
	var headers []*ssa.BasicBlock
	for b := ld.Block(); b != nil; b = b.Idom() {
		for _, p := range b.Preds {
			if b.Dominates(p) {
				headers = append(headers, b)
				break
			}
		}
	}
	if len(headers) == 0 {
		return true // straight-line validator: any early success return is a bypass
	}
	outer := headers[len(headers)-1]
	// the path counts if it enters the body of the outermost loop that contains the load
	for _, b := range path {
		if b != outer && outer.Dominates(b) && blockReaches(b, outer) {
			return true
		}
	}
	return false
}

// c11ResolvedOnly — C11.R14. A predicate of the parser that resolves its type
// argument (t = f.UnderlyingType(t)) decides on the resolved type only: the
// raw argument is used for nothing but that resolution (and nil tests). Mixing
// the two — choosing the declaring file from the spelling as written and the
// name from the resolved type — answers "not an enum" for an alias of an
// included enum, and the generators then take the struct branch for it.
func c11ResolvedOnly(ctx *core.Ctx, cc *CC) {
	ctx.Rule("C11.R14", "a type predicate that resolves its argument uses the resolved type only (declaring file and name are both taken after typedef resolution)", 2)
	pp := cc.Pkg("parser")
	if pp == nil {
		return
	}
	for _, fn := range cc.Fns {
		if fn.Pkg != pp || fn.Signature.Recv() == nil || fn.Name() == "UnderlyingType" {
			continue
		}
		rs := fn.Signature.Results()
		if rs.Len() != 1 {
			continue
		}
		if b, ok := rs.At(0).Type().Underlying().(*types.Basic); !ok || b.Kind() != types.Bool {
			continue
		}
		for _, p := range fn.Params[1:] {
			if !ssax.TypeNamed(p.Type(), "parser", "Type") || p.Referrers() == nil {
				continue
			}
			resolves := false
			var raw ssa.Instruction
			for _, u := range *p.Referrers() {
				switch x := u.(type) {
				case *ssa.DebugRef:
				case *ssa.BinOp: // nil test
				case *ssa.Call:
					if c, _ := ssax.AsCall(x); c.Static != nil && c.Static.Name() == "UnderlyingType" && c.Static.Pkg == pp {
						resolves = true
						continue
					}
					raw = u
				case *ssa.Phi:
					// t = φ(t, resolved): a conditional resolution; the φ is the value used afterwards
				default:
					raw = u
				}
			}
			if !resolves {
				continue
			}
			ctx.Check(raw == nil, "C11.R14", QName(fn)+" › decides on the resolved type only", cc.FPos(fn), "the raw argument is used for the resolution only",
				"the unresolved argument is also used at "+cc.IPos(raw)+" (e.g. to pick the declaring file) although the name is taken from the resolved type: for a local alias of a type declared in an include the predicate searches the wrong file and answers false")
		}
	}
}

// c11ParentDirPaths — C11.R16. An output path that steps up a directory is
// built with filepath.Join, which removes the ".." lexically: the file system
// is then never asked to walk through a directory that may not exist yet
// (os.Create("out/lib/../lib.dart") fails on a fresh output tree although
// "out/lib.dart" can be created). Every use of the path element ".." in the
// generator packages ends in filepath.Join / path.Join / filepath.Clean.
func c11ParentDirPaths(ctx *core.Ctx, cc *CC) {
	ctx.Rule("C11.R16", "output paths that step up a directory are cleaned lexically: the path element \"..\" only ever reaches filepath.Join/Clean", 1)
	n := 0
	for _, fn := range cc.Fns {
		if fn.Pkg == nil || !strings.Contains(fn.Pkg.Pkg.Path(), "/compiler/generator") {
			continue
		}
		ssax.Instrs(fn, func(in ssa.Instruction) {
			for _, op := range in.Operands(nil) {
				k, ok := (*op).(*ssa.Const)
				if !ok {
					continue
				}
				if s, isS := ConstString(k); !isS || s != ".." {
					continue
				}
				n++
				// where does it end up?
				bad := ""
				seen := map[ssa.Instruction]bool{}
				var follow func(user ssa.Instruction, depth int)
				follow = func(user ssa.Instruction, depth int) {
					if seen[user] || depth > 6 {
						return
					}
					seen[user] = true
					switch x := user.(type) {
					case *ssa.Phi, *ssa.MakeInterface, *ssa.ChangeType:
						if refs := x.(ssa.Value).Referrers(); refs != nil {
							for _, u := range *refs {
								follow(u, depth+1)
							}
						}
					case *ssa.Store:
						// element of a variadic argument list
						if ia, isIA := x.Addr.(*ssa.IndexAddr); isIA {
							if al, isAl := ia.X.(*ssa.Alloc); isAl && al.Referrers() != nil {
								for _, u := range *al.Referrers() {
									if sl, isSl := u.(*ssa.Slice); isSl && sl.Referrers() != nil {
										for _, u2 := range *sl.Referrers() {
											follow(u2, depth+1)
										}
									}
								}
								return
							}
						}
						bad = "stored at " + cc.IPos(user)
					case ssa.CallInstruction:
						c, _ := ssax.AsCall(user)
						switch c.FullName() {
						case "path/filepath.Join", "path.Join", "path/filepath.Clean", "path.Clean":
						default:
							bad = "handed to " + c.FullName() + " at " + cc.IPos(user)
						}
					case *ssa.BinOp:
						if x.Op == token.EQL || x.Op == token.NEQ {
							return // a comparison
						}
						bad = "concatenated at " + cc.IPos(user)
					default:
						bad = "used at " + cc.IPos(user)
					}
				}
				follow(in, 0)
				ctx.Check(bad == "", "C11.R16", QName(fn)+sprintf(" › parent-directory element #%d reaches filepath.Join only", n), cc.IPos(in), "argument of filepath.Join",
					"the path element \"..\" is "+bad+" instead of filepath.Join: the resulting path still contains the directory it steps out of, so creating the file fails with 'no such file or directory' when that directory has not been created yet (first generation into a fresh output tree)")
			}
		})
	}
	if n == 0 {
		ctx.Discharge("C11.R16", "generators › no parent-directory path element", "", "no \"..\" constant in the generator packages")
	}
}

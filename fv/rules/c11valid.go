package rules

import (
	"go/types"

	"fv/internal/core"
	"fv/internal/ssax"

	"golang.org/x/tools/go/ssa"
)

// c11ValidationComplete — C11.R13. The generators rely on what validation
// established for *every* declaration (types exist, ids are unique). In a
// validator — a function of the cone of (*Frugal).validate that returns an
// error — every loop over a list of declarations (a slice field of a model
// struct) whose body can reject lies on every path to a successful return: an
// early `return nil` taken for some declarations (say, oneway methods) lets
// their lists through unvalidated, and the invalid model reaches generators
// that index and dereference what validation was supposed to guarantee.
func c11ValidationComplete(ctx *core.Ctx, cc *CC) {
	ctx.Rule("C11.R13", "validation is complete: in a validator, every rejecting loop over a declaration list lies on every path to a successful return", 4)
	validate := cc.FnOpt("parser", "(*Frugal).validate")
	if validate == nil {
		ctx.Unresolved("C11.R13", "(*Frugal).validate", "not found")
		return
	}
	pp := validate.Pkg
	res := cc.Resolver()
	for _, fn := range ssax.Cone([]*ssa.Function{validate}, res, false) {
		if fn.Pkg != pp || len(fn.Blocks) == 0 {
			continue
		}
		rs := fn.Signature.Results()
		if rs.Len() == 0 || !isErrorType(rs.At(rs.Len()-1).Type()) {
			continue
		}
		ord := 0
		ssax.Instrs(fn, func(in ssa.Instruction) {
			// a loop over a slice field of a model struct: the element address &list[i] with list = *(&x.F)
			ia, ok := in.(*ssa.IndexAddr)
			if !ok || !inCycle(in) {
				return
			}
			ld, ok := ssax.Strip(ia.X).(*ssa.UnOp)
			if !ok {
				return
			}
			fa, ok := ld.X.(*ssa.FieldAddr)
			if !ok {
				return
			}
			pt, ok := fa.X.Type().Underlying().(*types.Pointer)
			if !ok {
				return
			}
			n, ok := pt.Elem().(*types.Named)
			if !ok || n.Obj().Pkg() != pp.Pkg {
				return
			}
			field := n.Obj().Name() + "." + n.Underlying().(*types.Struct).Field(fa.Field).Name()
			// the loop can reject: a failing return inside the same cycle
			rejects := false
			for ret := range ReturnedValues(fn) {
				if !nilErrorReturn(ret) && (blockReaches(in.Block(), ret.Block()) && sameCycleOrAfterBody(in, ret)) {
					rejects = true
				}
			}
			if !rejects {
				return
			}
			ord++
			// on every path to a successful return the list load is passed
			isLoad := func(x ssa.Instruction) bool { return x == ssa.Instruction(ld) }
			okRet := func(x ssa.Instruction) bool {
				ret, isRet := x.(*ssa.Return)
				return isRet && nilErrorReturn(ret)
			}
			first := fn.Blocks[0].Instrs[0]
			var bad []*ssa.BasicBlock
			if !isLoad(first) {
				bad = ssax.PathFrom(fn, first, okRet, isLoad)
				if bad != nil {
					// a path that never enters the enclosing loop at all (empty outer list) is fine:
					// require the bypass to go through the block that dominates the load's outer loop body
					if !bypassInsideOuter(fn, ld, bad) {
						bad = nil
					}
				}
			}
			construct := QName(fn) + sprintf(" › loop #%d over %s is on every successful path", ord, field)
			if bad == nil {
				ctx.Discharge("C11.R13", construct, cc.IPos(in), "no way to `return nil` around the loop")
			} else {
				ctx.Violate("C11.R13", construct, cc.IPos(in), "a successful return is reachable without validating "+field+" (an early `return nil` for some declarations): an invalid list — undeclared types, duplicate ids — passes validation and reaches the generators", ssax.PathString(cc.V.Fset, bad)...)
			}
		})
	}
}

// sameCycleOrAfterBody: ret is reached from inside the loop body of in (a rejection), not after the loop.
func sameCycleOrAfterBody(in ssa.Instruction, ret *ssa.Return) bool {
	// the return block is dominated by the loop body block holding `in` or reachable only through it
	return in.Block().Dominates(ret.Block()) || in.Block() == ret.Block()
}

// bypassInsideOuter: the path that avoids the list load does so after having
// entered the scope in which the load would happen — it passes a block that is
// a sibling of the load (dominated by the load's immediate-dominator chain
// inside an outer loop), or the function has no outer loop and the path
// returns early. A path that merely never iterates an outer loop is not a bypass.
func bypassInsideOuter(fn *ssa.Function, ld ssa.Instruction, path []*ssa.BasicBlock) bool {
	// outer loop header of ld (if any): innermost cycle header dominating ld's block other than ld's own inner loop
	var headers []*ssa.BasicBlock
	for b := ld.Block(); b != nil; b = b.Idom() {
		for _, p := range b.Preds {
			if b.Dominates(p) {
				headers = append(headers, b)
				break
			}
		}
	}
	if len(headers) == 0 {
		return true // straight-line validator: any early success return is a bypass
	}
	outer := headers[len(headers)-1]
	// the path counts if it enters the body of the outermost loop that contains the load
	for _, b := range path {
		if b != outer && outer.Dominates(b) && blockReaches(b, outer) {
			return true
		}
	}
	return false
}

// c11ResolvedOnly — C11.R14. A predicate of the parser that resolves its type
// argument (t = f.UnderlyingType(t)) decides on the resolved type only: the
// raw argument is used for nothing but that resolution (and nil tests). Mixing
// the two — choosing the declaring file from the spelling as written and the
// name from the resolved type — answers "not an enum" for an alias of an
// included enum, and the generators then take the struct branch for it.
func c11ResolvedOnly(ctx *core.Ctx, cc *CC) {
	ctx.Rule("C11.R14", "a type predicate that resolves its argument uses the resolved type only (declaring file and name are both taken after typedef resolution)", 2)
	pp := cc.Pkg("parser")
	if pp == nil {
		return
	}
	for _, fn := range cc.Fns {
		if fn.Pkg != pp || fn.Signature.Recv() == nil || fn.Name() == "UnderlyingType" {
			continue
		}
		rs := fn.Signature.Results()
		if rs.Len() != 1 {
			continue
		}
		if b, ok := rs.At(0).Type().Underlying().(*types.Basic); !ok || b.Kind() != types.Bool {
			continue
		}
		for _, p := range fn.Params[1:] {
			if !ssax.TypeNamed(p.Type(), "parser", "Type") || p.Referrers() == nil {
				continue
			}
			resolves := false
			var raw ssa.Instruction
			for _, u := range *p.Referrers() {
				switch x := u.(type) {
				case *ssa.DebugRef:
				case *ssa.BinOp: // nil test
				case *ssa.Call:
					if c, _ := ssax.AsCall(x); c.Static != nil && c.Static.Name() == "UnderlyingType" && c.Static.Pkg == pp {
						resolves = true
						continue
					}
					raw = u
				case *ssa.Phi:
					// t = φ(t, resolved): a conditional resolution; the φ is the value used afterwards
				default:
					raw = u
				}
			}
			if !resolves {
				continue
			}
			ctx.Check(raw == nil, "C11.R14", QName(fn)+" › decides on the resolved type only", cc.FPos(fn), "the raw argument is used for the resolution only",
				"the unresolved argument is also used at "+cc.IPos(raw)+" (e.g. to pick the declaring file) although the name is taken from the resolved type: for a local alias of a type declared in an include the predicate searches the wrong file and answers false")
		}
	}
}

package rules

import (
	"go/token"
	"strings"

	"fv/internal/core"
	"fv/internal/ssax"

	"golang.org/x/tools/go/ssa"
)

// boolWheneverLeaf: the boolean v is true whenever the leaf comparison holds —
// v is the constant true, the leaf itself, a predicate helper of the package
// whose result has the property, or a φ of a short-circuit expression in which
// false arrives only along edges on which the leaf is false.
func boolWheneverLeaf(v ssa.Value, leaf func(ssa.Value) bool, depth int) bool {
	v = ssax.Strip(v)
	if depth < 0 {
		return false
	}
	if k, isK := v.(*ssa.Const); isK && k.Value != nil {
		return k.Value.String() == "true"
	}
	if leaf(v) {
		return true
	}
	if c, isC := v.(*ssa.Call); isC {
		g := c.Call.StaticCallee()
		if g == nil || len(g.Blocks) == 0 || g.Signature.Results().Len() != 1 {
			return false
		}
		// the helper's leaf: the same test on its own parameters
		for _, rv := range ReturnedValues(g) {
			if !boolWheneverLeaf(rv[0], leaf, depth-1) {
				return false
			}
		}
		return true
	}
	ph, isPhi := v.(*ssa.Phi)
	if !isPhi {
		return false
	}
	for i, e := range ph.Edges {
		if boolWheneverLeaf(e, leaf, depth-1) {
			continue
		}
		// anything may arrive along an edge taken only when the leaf is false
		pb := ph.Block().Preds[i]
		iff, isIf := pb.Instrs[len(pb.Instrs)-1].(*ssa.If)
		if isIf && pb.Succs[1] == ph.Block() && pb.Succs[0] != ph.Block() && boolOnlyFrom(iff.Cond, func(x ssa.Value) bool { return false }, 0) {
			continue // unreachable: constant-false condition
		}
		if isIf && pb.Succs[1] == ph.Block() && pb.Succs[0] != ph.Block() && leaf(ssax.Strip(iff.Cond)) {
			continue // the false edge of the leaf test itself
		}
		return false
	}
	return true
}

// c02UnionGuard — C02.R14: "exactly one field for a union" is enforced by the
// generated Read/Write through `CountSetFields…() != 1`. Every place where the
// Go generator emits that guard is reached for every union: each condition the
// emission is nested under is true whenever s.Type == StructTypeUnion (the
// test itself, or a predicate helper that returns it without a further
// conjunct).
func c02UnionGuard(ctx *core.Ctx, cc *CC) {
	ctx.Rule("C02.R14", "the exactly-one-field guard of a union is emitted for every union: the emission depends on no condition beyond s.Type == StructTypeUnion", 2)
	gp := cc.Pkg("generator/golang")
	if gp == nil {
		return
	}
	isUnionTest := func(v ssa.Value) bool {
		bo, ok := v.(*ssa.BinOp)
		if !ok || bo.Op != token.EQL {
			return false
		}
		for _, pair := range [][2]ssa.Value{{bo.X, bo.Y}, {bo.Y, bo.X}} {
			ld, isLd := ssax.Strip(pair[0]).(*ssa.UnOp)
			if !isLd || ld.Op != token.MUL || fieldNameOfAddr(ld.X) != "Type" {
				continue
			}
			if fa, isFA := ld.X.(*ssa.FieldAddr); !isFA || !ssax.TypeNamed(fa.X.Type(), "parser", "Struct") {
				continue
			}
			if k, isK := pair[1].(*ssa.Const); isK && k.Value != nil {
				if nc, isNC := cc.Pkg("parser").Members["StructTypeUnion"].(*ssa.NamedConst); isNC && nc.Value.Value != nil && nc.Value.Value.String() == k.Value.String() {
					return true
				}
			}
		}
		return false
	}
	n := 0
	for _, fn := range cc.Fns {
		if fn.Pkg != gp {
			continue
		}
		for _, c := range ssax.Calls(fn) {
			if c.FullName() != "fmt.Sprintf" || len(c.Common.Args) == 0 {
				continue
			}
			f, ok := ConstString(c.Common.Args[0])
			if !ok || !strings.Contains(f, "CountSetFields") || !strings.Contains(f, "!= 1") {
				continue
			}
			n++
			bad := ""
			loops := naturalLoops(fn)
			// conditions the emission is nested under: up the dominator tree
			for b := c.Instr.Block(); b != nil && b.Idom() != nil; b = b.Idom() {
				d := b.Idom()
				iff, isIf := d.Instrs[len(d.Instrs)-1].(*ssa.If)
				if !isIf || len(b.Preds) != 1 || b.Preds[0] != d {
					continue
				}
				if isLoopExit(loops, d, b) {
					continue // the code after a loop runs whenever the loop is reached
				}
				if d.Succs[0] == b {
					if !boolWheneverLeaf(iff.Cond, isUnionTest, 4) {
						bad = "the emission is nested under " + iff.Cond.String() + " (" + cc.IPos(iff) + "), which can be false for a union"
					}
				} else {
					// else-branch: taken when the condition is false — the condition must be false for every union
					if neq, isB := ssax.Strip(iff.Cond).(*ssa.BinOp); !(isB && neq.Op == token.NEQ && isUnionTest(&ssa.BinOp{Op: token.EQL, X: neq.X, Y: neq.Y})) {
						bad = "the emission sits on the else side of " + iff.Cond.String() + " (" + cc.IPos(iff) + "), which can be true for a union"
					}
				}
			}
			ctx.Check(bad == "", "C02.R14", QName(fn)+sprintf(" › union guard #%d is emitted for every union", n), cc.IPos(c.Instr), "every enclosing condition is implied by s.Type == StructTypeUnion",
				bad+": for such a union the generated Read/Write accepts zero (or several) set fields, so the encoding of the union is not exactly one field")
		}
	}
}

func isLoopExit(loops []*natLoop, head, succ *ssa.BasicBlock) bool {
	for _, l := range loops {
		if l.head == head && !l.body[succ] {
			return true
		}
	}
	return false
}
